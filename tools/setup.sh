#!/bin/bash
# Builds the framework offline from files on disk: generated harness sources, translated Coq files,
# the whole Coq development (full .vo build) and the two quick-tier harness binaries.
set -e
cd "$(dirname "$0")/.."
export CARGO_NET_OFFLINE=true
python3 tools/gen_harness.py
python3 tools/extract.py /repo coq/gen || echo "setup: translator reported errors (the checks will report them)"
( cd coq && coq_makefile -f _CoqProject -o Makefile >/dev/null && timeout 3000 make -j16 ) || echo "setup: Coq build incomplete (the checks will report what fails)"
[ -f harness/storage_harness/Cargo.lock ] || cp /repo/Cargo.lock harness/storage_harness/Cargo.lock
mkdir -p .cache
( cd harness/storage_harness && RUSTFLAGS="--cfg gecs_verif" cargo build --offline --profile dev --target-dir ../../.cache/target-default ) || echo "setup: harness (dev) build failed"
( cd harness/storage_harness && RUSTFLAGS="--cfg gecs_verif" cargo build --offline --profile fastrel --features events,wrapping_version --target-dir ../../.cache/target-events-wrapping_version ) || echo "setup: harness (fastrel) build failed"
( cd harness/storage_harness && RUSTFLAGS="--cfg gecs_verif" cargo build --offline --profile fastrel --target-dir ../../.cache/target-default ) || echo "setup: harness (fastrel, no features) build failed"
[ -f harness/macro_drive/Cargo.lock ] || cp /repo/Cargo.lock harness/macro_drive/Cargo.lock
( cd harness/macro_drive && cargo build --offline --target-dir ../../.cache/target-macro ) || echo "setup: macro_drive build failed"
( cd harness/storage_harness && RUSTFLAGS="--cfg gecs_verif" cargo build --offline --profile dev --features events --target-dir ../../.cache/target-events ) || echo "setup: harness (dev, events) build failed"
( cd harness/storage_harness && RUSTFLAGS="--cfg gecs_verif" cargo build --offline --profile dev --features wrapping_version --target-dir ../../.cache/target-wrapping_version ) || echo "setup: harness (dev, wrapping) build failed"
( cd harness/storage_harness && RUSTFLAGS="--cfg gecs_verif" cargo build --offline --profile dev --features comps32 --target-dir ../../.cache/target-comps32 ) || echo "setup: harness (dev, comps32) build failed"
[ -f harness/fill_probe/Cargo.lock ] || cp /repo/Cargo.lock harness/fill_probe/Cargo.lock
( cd harness/fill_probe && cargo build --offline --release --target-dir ../../.cache/target-fill ) || echo "setup: fill_probe build failed"
[ -f harness/side_probe/Cargo.lock ] || cp /repo/Cargo.lock harness/side_probe/Cargo.lock
( cd harness/side_probe && cargo build --offline --target-dir ../../.cache/target-side && cargo build --offline --release --target-dir ../../.cache/target-side ) || echo "setup: side_probe build failed"
[ -f harness/big_probe/Cargo.lock ] || cp /repo/Cargo.lock harness/big_probe/Cargo.lock
( cd harness/big_probe && cargo build --offline --target-dir ../../.cache/target-big && cargo build --offline --release --target-dir ../../.cache/target-big ) || echo "setup: big_probe build failed"
[ -f harness/cycle_probe/Cargo.lock ] || cp /repo/Cargo.lock harness/cycle_probe/Cargo.lock
( cd harness/cycle_probe && cargo build --offline --release --target-dir ../../.cache/target-cycle && cargo build --offline --release --features wrapping_version --target-dir ../../.cache/target-cycle-wrap && RUSTFLAGS="--cfg gecs_verif" cargo build --offline --release --target-dir ../../.cache/target-cycle-hook ) || echo "setup: cycle_probe build failed"
[ -f harness/api_probe/Cargo.lock ] || cp /repo/Cargo.lock harness/api_probe/Cargo.lock
( cd harness/api_probe && cargo build --offline --target-dir ../../.cache/target-api && cargo build --offline --release --target-dir ../../.cache/target-api ) || echo "setup: api_probe build failed"
[ -f harness/xcrate_probe/Cargo.lock ] || cp /repo/Cargo.lock harness/xcrate_probe/Cargo.lock
( cd harness/xcrate_probe && cargo build --offline --target-dir ../../.cache/target-xcrate && cargo build --offline --release --target-dir ../../.cache/target-xcrate ) || echo "setup: xcrate_probe build failed"
echo "setup done"
