"""Operation language shared by the Rust harness and the Coq model: encoders to both."""

# op tuples:
#  ('new', [caps]) ('clone',) ('switch', w) ('drop', w)
#  ('create', a, v) ('createw', a, v)
#  ('destroy'|'probe'|'todirect', lvl, kind, ty, ref)
#  ('write', path, b, kind, ty, ref, c, v)
#  ('find', q, borrow, kind, ty, ref, delta)
#  ('readall', path, a)
#  ('iter', q, borrow, break_at, panic_at, delta)     break_at/panic_at: int or None
#  ('iterd', q, 'cCbBp..')
#  ('len', a) ('dump', a) ('preset', a, sv, av)
#  ('events', lvl) ('clearev', lvl) ('reg',) ('fault', 'clone'|'drop', n)
# lvl: 'w' | ('a', idx); kind: 'e' | 'd'; ty: 'any' | ('t', a) | ('u', a) | ('m', a)
# ref: ('i', k) | ('d', k) | ('r', key, ver)


def lvl_rust(l):
    return 'w' if l == 'w' else 'a%d' % l[1]


def ty_rust(t):
    return 'any' if t == 'any' else '%s%d' % t


def ref_rust(r):
    if r[0] == 'r' and not (0 <= r[1] <= 0xFFFFFFFF and 0 <= r[2] <= 0xFFFFFFFF):
        raise ValueError('generator error: raw pair %r is not two u32' % (r,))
    if r[0] == 'r':
        return 'r%d:%d' % (r[1], r[2])
    return '%s%d' % r


def opt_rust(x):
    return '-1' if x is None else str(x)


def to_rust(op):
    k = op[0]
    if k == 'new':
        return 'new ' + ' '.join(map(str, op[1]))
    if k in ('clone', 'reg'):
        return k
    if k in ('switch', 'drop', 'len', 'dump'):
        return '%s %d' % (k, op[1])
    if k in ('create', 'createw'):
        return '%s %d %d' % (k, op[1], op[2])
    if k in ('destroy', 'probe', 'todirect'):
        return '%s %s %s %s %s' % (k, lvl_rust(op[1]), op[2], ty_rust(op[3]), ref_rust(op[4]))
    if k == 'write':
        return 'write %s a%d %s %s %s %d %d' % (op[1], op[2], op[3], ty_rust(op[4]), ref_rust(op[5]), op[6], op[7])
    if k == 'find':
        return 'find %s%d w %s %s %s %d' % ('b' if op[2] else 'm', op[1], op[3], ty_rust(op[4]), ref_rust(op[5]), op[6])
    if k == 'readall':
        return 'readall %s %d' % (op[1], op[2])
    if k == 'iter':
        return 'iter %d %s %s %s %d' % (op[1], 'b' if op[2] else 'm', opt_rust(op[3]), opt_rust(op[4]), op[5])
    if k == 'iterd':
        return 'iterd %d %s' % (op[1], op[2])
    if k == 'preset':
        return 'preset %d %d %d' % (op[1], op[2], op[3])
    if k in ('events', 'clearev'):
        return '%s %s' % (k, 'w' if op[1] == 'w' else str(op[1][1]))
    if k == 'fault':
        return 'fault %s %d' % (op[1], op[2])
    if k == 'conv':
        return 'conv %s %s' % (op[1], ref_rust(op[2]))
    if k == 'borrow':
        return 'borrow ' + bprog_rust(op[1])
    raise ValueError(op)


# borrow programs: ('hc', a, c, m, k) ('hs', a, c, m) ('rel',) ('fb', q, k, [body]) ('ib', q, [body]) ('cl',) ('pn',)
def bprog_rust(prog):
    out = []
    for c in prog:
        if c[0] == 'hc':
            out.append('hc %d %d %s %d' % (c[1], c[2], 'm' if c[3] else 's', c[4]))
        elif c[0] == 'hs':
            out.append('hs %d %d %s' % (c[1], c[2], 'm' if c[3] else 's'))
        elif c[0] == 'fb':
            out.append('fb %d %d ( %s )' % (c[1], c[2], bprog_rust(c[3])))
        elif c[0] == 'ib':
            out.append('ib %d ( %s )' % (c[1], bprog_rust(c[2])))
        else:
            out.append(c[0])
    return ' '.join(out)


def bprog_coq(prog):
    out = []
    for c in prog:
        b = lambda x: 'true' if x else 'false'
        if c[0] == 'hc':
            out.append('BHc %d %d %s %d' % (c[1], c[2], b(c[3]), c[4]))
        elif c[0] == 'hs':
            out.append('BHs %d %d %s' % (c[1], c[2], b(c[3])))
        elif c[0] == 'fb':
            out.append('BFb %d %d %s' % (c[1], c[2], bprog_coq(c[3])))
        elif c[0] == 'ib':
            out.append('BIb %d %s' % (c[1], bprog_coq(c[2])))
        else:
            out.append({'rel': 'BRel', 'cl': 'BCl', 'pn': 'BPn'}[c[0]])
    return '[%s]' % '; '.join(out)


def N(x):
    return '%d%%N' % x


def lvl_coq(l):
    return 'LWorld' if l == 'w' else '(LArch %d)' % l[1]


def kind_coq(k):
    return 'KEnt' if k == 'e' else 'KDir'


def ty_coq(t):
    if t == 'any':
        return 'TAny'
    return '(%s %d)' % ({'t': 'TChecked', 'u': 'TUnchecked', 'm': 'TMut'}[t[0]], t[1])


def ref_coq(r):
    if r[0] == 'i':
        return '(RIssued %d)' % r[1]
    if r[0] == 'd':
        return '(RDirect %d)' % r[1]
    return '(RRaw %s %s)' % (N(r[1]), N(r[2]))


def opt_coq(x):
    return 'None' if x is None else '(Some %d)' % x


WPATH = {'view': 'WView', 'borrow': 'WBorrow', 'find': 'WFind', 'findb': 'WFindB', 'slice': 'WSlice',
         'bslice': 'WBSlice', 'slices': 'WSlices', 'itermut': 'WIterMut'}
RPATH = {'iter': 'RIter', 'itermut': 'RIterMut', 'slices': 'RSlices', 'slice': 'RSlice', 'bslice': 'RBSlice'}
DEC = {'c': 'DContinue', 'b': 'DBreak', 'C': 'DContinueDestroy', 'B': 'DBreakDestroy', 'p': 'DClosurePanic',
       # the same decisions returned as EcsStep::Continue / EcsStep::Break / () and converted by From
       'd': 'DContinue', 'a': 'DBreak', 'u': 'DContinue'}


def to_coq(op):
    k = op[0]
    if k == 'new':
        return 'ONew [%s]' % '; '.join(map(str, op[1]))
    if k == 'clone':
        return 'OClone'
    if k == 'reg':
        return 'OReg'
    if k == 'switch':
        return 'OSwitch %d' % op[1]
    if k == 'drop':
        return 'ODrop %d' % op[1]
    if k == 'len':
        return 'OLen %d' % op[1]
    if k == 'dump':
        return 'ODump %d' % op[1]
    if k == 'create':
        return 'OCreate %d %s' % (op[1], N(op[2]))
    if k == 'createw':
        return 'OCreateW %d %s' % (op[1], N(op[2]))
    if k in ('destroy', 'probe', 'todirect'):
        c = {'destroy': 'ODestroy', 'probe': 'OProbe', 'todirect': 'OToDirect'}[k]
        return '%s %s %s %s %s' % (c, lvl_coq(op[1]), kind_coq(op[2]), ty_coq(op[3]), ref_coq(op[4]))
    if k == 'write':
        return 'OWrite %s %d %s %s %s %d %s' % (WPATH[op[1]], op[2], kind_coq(op[3]), ty_coq(op[4]), ref_coq(op[5]), op[6], N(op[7]))
    if k == 'find':
        return 'OFind %d %s %s %s %s %s' % (op[1], 'true' if op[2] else 'false', kind_coq(op[3]), ty_coq(op[4]), ref_coq(op[5]), N(op[6]))
    if k == 'readall':
        return 'OReadAll %s %d' % (RPATH[op[1]], op[2])
    if k == 'iter':
        return 'OIter %d %s %s %s %s' % (op[1], 'true' if op[2] else 'false', opt_coq(op[3]), opt_coq(op[4]), N(op[5]))
    if k == 'iterd':
        return 'OIterD %d [%s]' % (op[1], '; '.join(DEC[ch] for ch in op[2]))
    if k == 'preset':
        return 'OPreset %d %s %s' % (op[1], N(op[2]), N(op[3]))
    if k == 'events':
        return 'OEvents %s' % lvl_coq(op[1])
    if k == 'clearev':
        return 'OClearEv %s' % lvl_coq(op[1])
    if k == 'fault':
        return 'OFault %s %s' % ('FClone' if op[1] == 'clone' else 'FDrop', N(op[2]))
    if k == 'conv':
        return 'OConv %s %s' % (kind_coq(op[1]), ref_coq(op[2]))
    if k == 'borrow':
        return 'OBorrow %s' % bprog_coq(op[1])
    raise ValueError(op)


def param_coq(w, p):
    k = p[0]
    if k == 'comp':
        return 'QP [] %s (PComp %d) true' % ('true' if p[2] else 'false', w.comp_index(p[1]))
    if k == 'oneof':
        return 'QP [] %s (POneOf [%s]) true' % ('true' if p[2] else 'false', '; '.join(str(w.comp_index(c)) for c in p[1]))
    t = {'ent_any': 'PEntAny', 'ent_wild': 'PEntWild', 'dir_any': 'PDirAny', 'dir_wild': 'PDirWild'}.get(k)
    if t:
        return 'QP [] false %s true' % t
    if k == 'ent':
        return 'QP [] false (PEnt %d) true' % w.arch_index(p[1])
    if k == 'dir':
        return 'QP [] false (PDir %d) true' % w.arch_index(p[1])
    raise ValueError(p)


def decl_coq(w):
    """The world declaration as the model sees it. Archetype ids are NOT taken from Python here:
    they are the ids the harness reported (checked against the discriminant rule separately)."""
    archs = []
    for ai, (name, _eid, comps) in enumerate(w.archs):
        cs = '; '.join('DC %s %d' % (N(j), w.comp_index(c)) for j, c in enumerate(comps))
        archs.append('DA %s %d [%s]' % (N(w.ids[ai]), ai, cs))
    from worlds import KINDS
    zst = [str(w.comp_index(c)) for c in w.pool if KINDS[c] == 'zst']
    return 'WD [%s] [%s]' % ('; '.join(archs), '; '.join(zst))


def queries_coq(w):
    return '[%s]' % '; '.join('[%s]' % '; '.join(param_coq(w, p) for p in q) for q in w.queries)


def decl_expected_line(w):
    """What the harness's `#case` line must report for this world (ids by the discriminant rule)."""
    out = [len(w.archs)]
    for ai, (name, _eid, comps) in enumerate(w.archs):
        out += [w.ids[ai], len(comps)]
        for j in range(len(comps)):
            out += [j, j]
    return out
