#!/bin/bash
# try_seed.sh <patch.diff> <prop> [<prop>...]: apply a seeded change to /repo, run the checks, undo it.
P=$1; shift
cd /verif
export VERIF_EVIDENCE_DIR=/verif/.cache/evidence-seeded   # never overwrite the committed evidence with a run on a changed tree
git -C /repo apply "$P" || { echo "patch does not apply"; exit 2; }
for pid in "$@"; do
  /usr/bin/time -f "$pid %es" python3 tools/check.py $pid 2>&1 | tail -4
  echo "exit ${PIPESTATUS[0]}"
done
git -C /repo checkout -- .
git -C /repo status --short | head -3
