import sys, os
sys.path.insert(0, os.path.dirname(__file__))
from worlds import WORLDS
import session, coqrun, ops as O
W = WORLDS['w1']
ops = [('new',[4,4,4,4]), ('create',0,1), ('create',1,2), ('create',1,3),
 ('borrow',[('hc',1,0,True,1),('hc',1,0,False,1),('hc',1,1,False,1),('hs',1,0,False),('hs',0,0,True),('rel',),('rel',),('rel',),('cl',),('hs',1,0,False),('cl',)]),
 ('borrow',[('fb',1,1,[('hs',1,0,False),('hc',1,1,False,2),('fb',0,2,[('pn',)]),('cl',)]),('hs',1,0,True)]),
 ('borrow',[('ib',3,[('hs',1,1,False),('hs',1,0,False)]),('ib',1,[('fb',1,0,[])])]),
 ('borrow',[('hs',1,0,True),('ib',0,[]),('ib',1,[])]),
]
case = session.replay_ops('/verif/.cache/target-default/debug/storage_harness', W, ops)
cfg = dict(wrapping=False, events=False, debug=True)
res = coqrun.run_cases([case], cfg, '/verif/work/try6')
print(res)
