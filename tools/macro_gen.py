"""Generated world declarations and queries for harness/macro_drive (streams M1-M3) with their Coq terms."""
import random
import re
import subprocess

NPRED = 6


def pred_rust(p):
    return 'feature = "p%d"' % p


def cfgs_rust(cfgs):
    return ''.join('#[cfg(%s)] ' % pred_rust(p) for p in cfgs)


def gen_world(rng, stress_ids=False):
    n = rng.randrange(1, 9)
    names = rng.sample(range(12), n)
    archs = []
    for a in names:
        cfgs = [rng.randrange(NPRED) for _ in range(rng.choice([0, 0, 0, 1, 1, 2]))]
        aid = None
        if rng.random() < (0.5 if stress_ids else 0.12):
            aid = rng.choice([0, 1, 2, 3, 5, 200, 253, 254, 255, rng.randrange(256), rng.randrange(256), rng.choice([256, 257, 300, 511, 65536 + 3])] if stress_ids else [3, 5, 20, 100, 200, rng.randrange(250)])
        comps = []
        for c in rng.sample(range(10), rng.randrange(1, 7)):
            ccfgs = [rng.randrange(NPRED) for _ in range(rng.choice([0, 0, 0, 1, 2]))]
            cid = None
            if rng.random() < (0.4 if stress_ids else 0.06):
                cid = rng.choice([0, 1, 2, 7, 254, 255, rng.randrange(256), rng.randrange(256), rng.choice([256, 300, 1000])] if stress_ids else [7, 50, rng.randrange(250)])
            comps.append(dict(cfgs=ccfgs, id=cid, name=c, idfirst=rng.random() < 0.5))
        archs.append(dict(cfgs=cfgs, id=aid, name=a, comps=comps, idfirst=rng.random() < 0.5))
    return archs


def world_preds(archs):
    seen = []
    for a in archs:
        for p in a['cfgs']:
            if p not in seen:
                seen.append(p)
        for c in a['comps']:
            for p in c['cfgs']:
                if p not in seen:
                    seen.append(p)
    return seen


def attrs_rust(cfgs, idattr, idfirst):
    """The attributes of one item: its cfg attributes and its id attribute, the id written first or last."""
    c = cfgs_rust(cfgs)
    return (idattr + c) if idfirst else (c + idattr)


def world_rust(archs):
    out = []
    for a in archs:
        s = attrs_rust(a['cfgs'], '#[archetype_id(%d)] ' % a['id'] if a['id'] is not None else '', a.get('idfirst', False))
        s += 'ecs_archetype!(A%d, %s);' % (a['name'], ', '.join(
            attrs_rust(c['cfgs'], '#[component_id(%d)] ' % c['id'] if c['id'] is not None else '', c.get('idfirst', False)) + 'C%d' % c['name']
            for c in a['comps']))
        out.append(s)
    return ' '.join(out)


def optN(x):
    return 'None' if x is None else '(Some %d%%N)' % x


def world_coq(archs):
    return '[%s]' % '; '.join('PA [%s] %s %d [%s]' % (
        '; '.join(map(str, a['cfgs'])), optN(a['id']), a['name'],
        '; '.join('PC [%s] %s %d' % ('; '.join(map(str, c['cfgs'])), optN(c['id']), c['name']) for c in a['comps'])) for a in archs)


def gen_query(rng, archs):
    n = rng.randrange(1, 6)
    ps = []
    anames = [a['name'] for a in archs]
    # aim most queries at one archetype so that they match something
    target = rng.choice(archs)
    tcomps = [c['name'] for c in target['comps']]
    aimed = rng.random() < 0.75
    for i in range(n):
        r = rng.random()
        # zero, one, or several cfg attributes on one parameter (all of them must hold)
        cfgs = [rng.randrange(NPRED) for _ in range(rng.choice([1, 1, 2, 2, 3]))] if rng.random() < 0.25 else []
        if r < 0.45:
            c = rng.choice(tcomps) if aimed and rng.random() < 0.9 else rng.randrange(10)
            ps.append(dict(cfgs=cfgs, mut=rng.random() < 0.5, ty=('comp', c)))
        elif r < 0.6:
            k = rng.randrange(1, 4)
            alts = rng.sample(range(10), k)
            if aimed and rng.random() < 0.7:
                alts = [rng.choice(tcomps)] + [x for x in alts if x not in tcomps][:k - 1]
                rng.shuffle(alts)
            ps.append(dict(cfgs=cfgs if rng.random() < 0.15 else [], mut=rng.random() < 0.5, ty=('oneof', alts)))
        elif r < 0.7:
            ps.append(dict(cfgs=cfgs, mut=False, ty=('ent', target['name'] if aimed and rng.random() < 0.8 else rng.choice(anames + [rng.randrange(12)]))))
        elif r < 0.78:
            ps.append(dict(cfgs=cfgs, mut=False, ty=('entwild',)))
        elif r < 0.86:
            ps.append(dict(cfgs=cfgs, mut=False, ty=('entany',)))
        elif r < 0.91:
            ps.append(dict(cfgs=cfgs, mut=False, ty=('dir', target['name'] if aimed and rng.random() < 0.8 else rng.choice(anames + [rng.randrange(12)]))))
        elif r < 0.96:
            ps.append(dict(cfgs=cfgs, mut=False, ty=('dirwild',)))
        else:
            ps.append(dict(cfgs=cfgs, mut=False, ty=('dirany',)))
    return ps


def query_preds(ps):
    seen = []
    for p in ps:
        for c in p['cfgs']:
            if c not in seen:
                seen.append(c)
    return seen


def ty_rust(t):
    k = t[0]
    return {'comp': lambda: 'C%d' % t[1], 'oneof': lambda: 'OneOf<%s>' % ', '.join('C%d' % c for c in t[1]),
            'ent': lambda: 'Entity<A%d>' % t[1], 'entwild': lambda: 'Entity<_>', 'entany': lambda: 'EntityAny',
            'dir': lambda: 'EntityDirect<A%d>' % t[1], 'dirwild': lambda: 'EntityDirect<_>', 'dirany': lambda: 'EntityDirectAny'}[k]()


def query_rust(ps):
    return ', '.join('%sq%d: &%s%s' % (cfgs_rust(p['cfgs']), i, 'mut ' if p['mut'] else '', ty_rust(p['ty'])) for i, p in enumerate(ps))


def ty_coq(t):
    k = t[0]
    return {'comp': lambda: '(PComp %d)' % t[1], 'oneof': lambda: '(POneOf [%s])' % '; '.join(map(str, t[1])),
            'ent': lambda: '(PEnt %d)' % t[1], 'entwild': lambda: 'PEntWild', 'entany': lambda: 'PEntAny',
            'dir': lambda: '(PDir %d)' % t[1], 'dirwild': lambda: 'PDirWild', 'dirany': lambda: 'PDirAny'}[k]()


def query_coq(ps):
    return '[%s]' % '; '.join('QP [%s] %s %s true' % ('; '.join(map(str, p['cfgs'])), 'true' if p['mut'] else 'false', ty_coq(p['ty'])) for p in ps)


def bools_rust(bs):
    return ','.join('true' if b else 'false' for b in bs)


def bools_coq(bs):
    return '[%s]' % '; '.join('true' if b else 'false' for b in bs)


# ---- decoding macro_drive output into the number lists the model produces

def dec_world(line):
    if line.startswith('ok '):
        out = [1]
        archs = [x for x in line[3:].split(';') if x.strip()]
        out.append(len(archs))
        for a in archs:
            m = re.match(r'A(\d+):(\d+):\[(.*)\]', a.strip())
            comps = [c for c in m.group(3).split(',') if c]
            out += [int(m.group(2)), int(m.group(1)), len(comps)]
            for c in comps:
                cm = re.match(r'C(\d+):(\d+)', c)
                out += [int(cm.group(2)), int(cm.group(1))]
        return out
    if 'may not exceed 255' in line:
        return [0, 1]
    m = re.search(r'attribute id (\d+) is already assigned to A?C?(\d+)', line)
    if m:
        return [0, 2, int(m.group(1)), int(m.group(2))]
    return [0, 99]


def dec_type(t):
    t = t.replace(' ', '')
    m = re.fullmatch(r'C(\d+)', t)
    if m:
        return [1, int(m.group(1))]
    m = re.fullmatch(r'Entity<A(\d+)>', t)
    if m:
        return [2, int(m.group(1))]
    if t == 'EntityAny':
        return [4]
    m = re.fullmatch(r'EntityDirect<A(\d+)>', t)
    if m:
        return [5, int(m.group(1))]
    if t == 'EntityDirectAny':
        return [7]
    return [99]


def dec_query(line, kind):
    if line.startswith('werr'):
        return [0, 9]
    if line.startswith('ok '):
        arms = [x for x in line[3:].split(';') if x.strip()]
        recs = []
        for a in arms:
            m = re.match(r'\s*A(\d+) <(.*)>\s*$', a)
            arch = int(m.group(1))
            params = [p for p in m.group(2).split(' , ')] if m.group(2).strip() else []
            rec = [arch, len(params)]
            for p in params:
                ncfg = p.count('# [cfg')
                body = re.sub(r'# \[cfg \(.*?\)\] ', '', p)
                m2 = re.match(r'\s*\w+ : & (mut )?(.*)$', body)
                rec += [1 if m2.group(1) else 0, ncfg] + dec_type(m2.group(2))
            recs.append(rec)
        if kind == 'find':
            assert len(recs) % 2 == 0 and all(recs[i] == recs[i + 1] for i in range(0, len(recs), 2)), recs
            recs = recs[::2]
        out = [1]
        for r in recs:
            out += r
        return out
    if 'not currently supported on OneOf' in line:
        return [0, 1]
    m = re.search(r'ambiguous for A(\d+), matching both C(\d+) and C(\d+)', line)
    if m:
        return [0, 2, int(m.group(1)), int(m.group(2)), int(m.group(3))]
    if 'matched no archetypes' in line:
        return [0, 3]
    return [0, 99]


def run_drive(binary, lines):
    r = subprocess.run([binary], input='\n'.join(lines) + '\n', capture_output=True, text=True)
    out = r.stdout.split('\n')
    if out and out[-1] == '':
        out.pop()
    return out


def generate(binary, seed, n, stress_ids=False):
    """n worlds, each with 3 queries under random truth assignments; returns the case list."""
    rng = random.Random(seed)
    cases = []
    lines = []
    for i in range(n):
        archs = gen_world(rng, stress_ids)
        wp = world_preds(archs)
        wst = [rng.random() < 0.6 for _ in wp]
        lines.append('W\t%s\t%s' % (bools_rust(wst), world_rust(archs)))
        cases.append(dict(kind='W', archs=archs, wstates=wst))
        for _ in range(3):
            ps = gen_query(rng, archs)
            qp = query_preds(ps)
            qst = [rng.random() < 0.6 for _ in qp]
            qkind = rng.choice(['find', 'iter', 'iterd'])
            mode = 'm' if qkind == 'iterd' else rng.choice('mb')
            lines.append('Q\t%s\t%s\t%s\t%s\t%s\t%s' % (qkind, mode, bools_rust(wst), world_rust(archs), bools_rust(qst), query_rust(ps)))
            cases.append(dict(kind='Q', qkind=qkind, mode=mode, archs=archs, wstates=wst, params=ps, qstates=qst))
    outs = run_drive(binary, lines)
    assert len(outs) == len(cases), (len(outs), len(cases))
    for c, l, o in zip(cases, lines, outs):
        c['line'] = l
        c['raw'] = o
        c['impl'] = dec_world(o) if c['kind'] == 'W' else dec_query(o, c['qkind'])
    return cases


def case_v(c):
    impl = '[%s]' % '; '.join('%d%%N' % x for x in c['impl'])
    if c['kind'] == 'W':
        return 'Eval vm_compute in (mcheck_world %s %s %s).\n' % (world_coq(c['archs']), bools_coq(c['wstates']), impl)
    return 'Eval vm_compute in (mcheck_query %s %s %s %s %s).\n' % (world_coq(c['archs']), bools_coq(c['wstates']), query_coq(c['params']), bools_coq(c['qstates']), impl)
