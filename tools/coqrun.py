"""Evaluate the Coq model on recorded cases (ops + implementation observations) with coqc/vm_compute.

Each case becomes `Eval vm_compute in (check_case cfg decl queries ops impl_obs)`, whose value is
`None` when the model's observations equal the implementation's, else `Some (index, model, impl)`.
Cases are sharded over parallel coqc processes.
"""
import os
import re
import subprocess
import sys
from concurrent.futures import ThreadPoolExecutor

sys.path.insert(0, os.path.dirname(__file__))
import ops as O  # noqa: E402
from worlds import WORLDS  # noqa: E402

COQDIR = os.path.join(os.path.dirname(__file__), '..', 'coq')
QFLAGS = ['-Q', 'gen', 'Gecs', '-Q', 'model', 'Gecs', '-Q', 'spec', 'Gecs', '-Q', 'proofs', 'Gecs', '-Q', 'props', 'Gecs']


def cfg_coq(cfg):
    return 'Config %s %s %s' % tuple('true' if cfg[k] else 'false' for k in ('wrapping', 'events', 'debug'))


def obs_coq(obs):
    return '[%s]' % '; '.join('[%s]' % '; '.join(O.N(x) for x in (o if o is not None else [254])) for o in obs)


def case_v(case, cfg, fn='check_case'):
    w = WORLDS[case['world']]
    return ('Eval vm_compute in (%s (%s) (%s) (%s) [%s] %s).\n' %
            (fn, cfg_coq(cfg), O.decl_coq(w), O.queries_coq(w),
             '; '.join(O.to_coq(op) for op in case['ops']), obs_coq(case['obs'])))


def parse_results(text, n):
    """Split coqc's output into one value per Eval."""
    parts = re.split(r'^\s+= ', text, flags=re.M)[1:]
    vals = []
    for p in parts:
        p = re.sub(r'\s+', ' ', p)
        p = re.sub(r' : [^:]*$', '', p).strip()
        vals.append(p)
    if len(vals) != n:
        raise RuntimeError('expected %d results, got %d:\n%s' % (n, len(vals), text[-3000:]))
    return vals


def run_shard(idx, cases, cfg, workdir, fn, imports):
    path = os.path.join(workdir, 'cases_%d.v' % idx)
    with open(path, 'w') as f:
        f.write('From Coq Require Import NArith List.\nFrom stdpp Require Import base list.\n')
        f.write('From Gecs Require Import %s.\nImport ListNotations.\n' % imports)
        for c in cases:
            f.write(case_v(c, cfg, fn))
    cmd = 'ulimit -s unlimited; cd %s && timeout 900 coqc -noglob %s -o %s %s' % (
        COQDIR, ' '.join(QFLAGS), os.path.join(workdir, 'cases_%d.vo' % idx), path)
    r = subprocess.run(['bash', '-c', cmd], capture_output=True, text=True)
    if r.returncode != 0:
        raise RuntimeError('coqc failed on %s:\n%s' % (path, (r.stdout + r.stderr)[-3000:]))
    return parse_results(r.stdout, len(cases))


def run_cases(cases, cfg, workdir, fn='check_case', imports='Storage Query World Borrow Run', shards=16):
    """Returns one string per case: 'None' or 'Some (...)'."""
    os.makedirs(workdir, exist_ok=True)
    if not cases:
        return []
    shards = max(1, min(shards, len(cases)))
    chunks = [cases[i::shards] for i in range(shards)]
    with ThreadPoolExecutor(max_workers=shards) as ex:
        res = list(ex.map(lambda ic: run_shard(ic[0], ic[1], cfg, workdir, fn, imports), enumerate(chunks)))
    out = [None] * len(cases)
    for si, vals in enumerate(res):
        for j, v in enumerate(vals):
            out[si + j * shards] = v
    return out


def parse_diff(val):
    """'Some (i, [model..], [impl..])' -> (i, model, impl)"""
    m = re.match(r'Some \((\d+)%?N?, \[(.*?)\], \[(.*?)\]\)$', val)
    if not m:
        return None
    nums = lambda s: [int(x) for x in re.findall(r'\d+', s)]
    return int(m.group(1)), nums(m.group(2)), nums(m.group(3))
