"""C16 end to end, through rustc: generated ecs_world! declarations decorated with #[cfg] predicates of
known truth value (any() = false, all() = true, feature = "on" = true, feature = "off" = false, and
not(..) of these) are compiled next to their erased twins (disabled items deleted, attributes of
enabled items deleted) and both report archetype ids, component ids, per-component iteration counts and
a cfg-decorated query.  The property is exactly that the two reports are equal.  One bin per pair, so a
pair whose decorated half does not even compile is identified."""
import os
import random
import re
import subprocess

ROOT = os.path.dirname(os.path.dirname(os.path.abspath(__file__)))

PREDS = [('any()', False), ('all()', True), ('feature = "on"', True), ('feature = "off"', False),
         ('not(feature = "on")', False), ('not(any())', True), ('all(feature = "on", not(feature = "off"))', True),
         ('any(feature = "off", any())', False),
         # key/value predicates whose literals differ only in white space (the probe is built with --cfg 'probe="a b"')
         ('probe = "a b"', True), ('probe = "ab"', False), ('probe = "a  b"', False), ('not(probe = "a b")', False)]
NCOMP = 6
# component type names, some of them unusual but legal (leading/trailing/double underscores, acronyms, digits)
CNAME = ['C0', 'C1_', 'Entity_', 'Comp__3', 'HTTPServer4', 'Option_']


def gen_pair(rng, idx):
    """Returns (source text, description)."""
    # at least two distinct predicates with different truth values
    while True:
        pool = rng.sample(PREDS, rng.randint(2, 4))
        if len(set(t for _, t in pool)) == 2:
            break
    if rng.random() < 0.35:
        # two predicates whose texts differ only in white space inside a string literal, with different truth values
        pool = [p for p in pool if not p[0].startswith('probe')] + [('probe = "a b"', True), rng.choice([('probe = "ab"', False), ('probe = "a  b"', False)])]
        rng.shuffle(pool)
    narch = rng.randint(2, 5)
    archs = []
    for a in range(narch):
        comps = rng.sample(range(NCOMP), rng.randint(1, 3))
        acfg = rng.choice(pool) if rng.random() < 0.5 else None
        aid = rng.choice([None, None, None, rng.randint(0, 40)])
        cs = []
        for c in comps:
            ccfg = rng.choice(pool) if rng.random() < 0.4 else None
            cid = rng.choice([None, None, None, rng.randint(0, 30)])
            cs.append((c, ccfg, cid))
        # sometimes the same component is listed twice under complementary predicates (exactly one of the two is enabled)
        if rng.random() < 0.3:
            k = rng.randrange(len(cs))
            c, cc, ci = cs[k]
            if cc is None:
                cc = rng.choice(pool)
                cs[k] = (c, cc, ci)
            cs.insert(rng.randint(k + 1, len(cs)), (c, ('not(%s)' % cc[0], not cc[1]), None))
        # an enabled archetype needs at least one enabled component
        if all(cc is not None and not cc[1] for _, cc, _ in cs):
            cs[0] = (cs[0][0], None, cs[0][2])
        archs.append(('A%d' % a, acfg, aid, cs))
    if all(ac is not None and not ac[1] for _, ac, _, _ in archs):
        n, _, i, cs = archs[0]
        archs[0] = (n, None, i, cs)
    # explicit ids may collide; that is a compile error on BOTH sides only if it collides among enabled items;
    # keep it simple: make explicit ids distinct and ascending-safe by construction
    used = set()
    fixed = []
    for n, ac, i, cs in archs:
        if i is not None:
            while i in used:
                i += 41
            used.add(i)
        cu = set()
        cs2 = []
        for c, cc, ci in cs:
            if ci is not None:
                while ci in cu:
                    ci += 31
                cu.add(ci)
            cs2.append((c, cc, ci))
        fixed.append((n, ac, i, cs2))
    archs = fixed

    order = {}
    for n, ac, i, cs in archs:
        order[n] = rng.random() < 0.5
        for c, cc, ci in cs:
            order[(n, c)] = rng.random() < 0.5

    def decl(deco):
        lines = []
        for n, ac, i, cs in archs:
            if not deco and ac is not None and not ac[1]:
                continue
            ca = '#[cfg(%s)] ' % ac[0] if (deco and ac is not None) else ''
            ia = '#[archetype_id(%d)] ' % i if i is not None else ''
            attrs = (ia + ca) if order[n] else (ca + ia)
            parts = []
            for c, cc, ci in cs:
                if not deco and cc is not None and not cc[1]:
                    continue
                cp = '#[cfg(%s)] ' % cc[0] if (deco and cc is not None) else ''
                ip = '#[component_id(%d)] ' % ci if ci is not None else ''
                parts.append(((ip + cp) if order[(n, c)] else (cp + ip)) + CNAME[c])
            lines.append('        %secs_archetype!(%s, %s);' % (attrs, n, ', '.join(parts)))
        return '\n'.join(lines)

    enabled = [(n, [c for c, cc, _ in cs if cc is None or cc[1]]) for n, ac, _, cs in archs if ac is None or ac[1]]

    def rule(items):
        """the enum-discriminant rule: explicit value, otherwise previous + 1, otherwise 0"""
        out, last = [], None
        for x in items:
            v = x if x is not None else (0 if last is None else last + 1)
            out.append(v)
            last = v
        return out
    en_full = [(n, i, [(c, ci) for c, cc, ci in cs if cc is None or cc[1]]) for n, ac, i, cs in archs if ac is None or ac[1]]
    expected = {}
    for (n, _, cs), aid in zip(en_full, rule([i for _, i, _ in en_full])):
        expected['id %s' % n] = aid
        for (c, _), cid in zip(cs, rule([ci for _, ci in cs])):
            expected['cid %s C%d' % (n, c)] = cid
            expected['qcid %s C%d' % (n, c)] = cid
    qp = rng.choice(pool)
    qcomp = rng.choice(enabled)[1][0]
    other = rng.randrange(NCOMP)

    # a second query with two or three cfg-decorated parameters carrying DIFFERENT predicates (the query-side macro
    # chain has to deliver each truth value to its own parameter), run through three of the query macros
    mq = None
    for _ in range(20):
        base_n, base_cs = rng.choice(enabled)
        base = rng.choice(base_cs)
        k = rng.randint(2, min(3, len(pool)))
        preds = rng.sample(pool, k)
        if len(set(t for _, t in preds)) < 2 and rng.random() < 0.8:
            continue
        extra = [rng.randrange(NCOMP) for _ in range(k)]
        kept = [base] + [c for c, (_, t) in zip(extra, preds) if t]
        if len(set(kept)) != len(kept) or len(set([base] + extra)) != k + 1:
            continue
        if not any(all(c in cs for c in kept) for _, cs in enabled):
            continue
        mq = (base, list(zip(extra, preds)), kept)
        break

    def report(deco):
        L = ['    pub fn report() -> Vec<(String, i64)> {', '        let mut out: Vec<(String, i64)> = Vec::new();',
             '        let mut world = EcsWorld::default();']
        for n, cs in enabled:
            L.append('        out.push(("id %s".to_string(), <%s as Archetype>::ARCHETYPE_ID as i64));' % (n, n))
            for c in cs:
                L.append('        out.push(("cid %s C%d".to_string(), ecs_component_id!(%s, %s) as i64));' % (n, c, CNAME[c], n))
            L.append('        for k in 0..%d { world.create::<%s>((%s,)); }' % (2 + len(cs), n, ', '.join('%s(k)' % CNAME[c] for c in cs)))
            for c in cs:
                # the form used inside a query body
                L.append('        { let mut id = -1i64; ecs_iter!(world, |_e: &Entity<%s>, _x: &%s| { id = ecs_component_id!(%s) as i64; }); out.push(("qcid %s C%d".to_string(), id)); }' % (n, CNAME[c], CNAME[c], n, c))
        for c in range(NCOMP):
            if any(c in cs for _, cs in enabled):
                L.append('        { let mut n = 0i64; ecs_iter!(world, |_x: &%s| { n += 1; }); out.push(("iter C%d".to_string(), n)); }' % (CNAME[c], c))
        # a query with a cfg-decorated parameter (decorated side) / its erasure (plain side)
        if deco:
            L.append('        { let mut n = 0i64; ecs_iter!(world, |_x: &%s, #[cfg(%s)] _y: &%s| { n += 1; }); out.push(("cfgquery".to_string(), n)); }'
                     % (CNAME[qcomp], qp[0], CNAME[other]))
        elif qp[1]:
            if any(qcomp in cs and other in cs for _, cs in enabled) and qcomp != other:
                L.append('        { let mut n = 0i64; ecs_iter!(world, |_x: &%s, _y: &%s| { n += 1; }); out.push(("cfgquery".to_string(), n)); }' % (CNAME[qcomp], CNAME[other]))
            else:
                return None     # the erased query would not compile (no match / same component twice): skip the query for this pair
        else:
            L.append('        { let mut n = 0i64; ecs_iter!(world, |_x: &%s| { n += 1; }); out.push(("cfgquery".to_string(), n)); }' % CNAME[qcomp])
        if mq is not None:
            base, extras, kept = mq
            if deco:
                params = '_x: &%s' % CNAME[base] + ''.join(', #[cfg(%s)] _y%d: &%s' % (p, j, CNAME[c]) for j, (c, (p, _)) in enumerate(extras))
            else:
                params = ', '.join('_x%d: &%s' % (j, CNAME[c]) for j, c in enumerate(kept))
            L.append('        { let mut n = 0i64; ecs_iter!(world, |%s| { n += 1; }); out.push(("multicfg iter".to_string(), n)); }' % params)
            L.append('        { let mut n = 0i64; ecs_iter_borrow!(world, |%s| { n += 1; }); out.push(("multicfg iter_borrow".to_string(), n)); }' % params)
            L.append('        { let mut n = 0i64; ecs_iter_destroy!(world, |%s| { n += 1; EcsStepDestroy::Continue }); out.push(("multicfg iter_destroy".to_string(), n)); }' % params)
        L += ['        out', '    }']
        return '\n'.join(L)

    rp = report(False)
    if rp is None:
        return None
    def prog(deco):
        src = ['#![allow(unused, dead_code, non_camel_case_types)]', 'use gecs::prelude::*;']
        src += ['pub struct %s(pub u32);' % CNAME[c] for c in range(NCOMP)]
        src += ['mod w {', '    use super::*;', '    ecs_world! {', decl(deco), '    }', report(deco) if deco else rp, '}']
        src += ['fn main() {', '    for (k, v) in w::report().iter() { println!("{} {}", k, v); }', '}']
        return '\n'.join(src) + '\n'
    src = (prog(True), prog(False))
    desc_expected = expected
    desc = 'predicates %s' % ', '.join('%s=%s' % (p, 'true' if t else 'false') for p, t in pool)
    return src, desc, desc_expected


def run(repo, cache, seed, n=10):
    out = dict(error=None, pairs=0, violations=[], rule_violations=[], rule_checked=0, sample=None)
    rng = random.Random(seed * 7919 + 16)
    d = os.path.join(cache, 'work', 'cfg_probe')
    os.makedirs(os.path.join(d, 'src', 'bin'), exist_ok=True)
    for f in os.listdir(os.path.join(d, 'src', 'bin')):
        os.remove(os.path.join(d, 'src', 'bin', f))
    open(os.path.join(d, 'Cargo.toml'), 'w').write(
        '[package]\nname = "cfg_probe"\nversion = "0.1.0"\nedition = "2021"\n\n[workspace]\n\n[features]\ndefault = ["on"]\non = []\noff = []\n\n'
        '[dependencies]\ngecs = { path = "%s" }\n' % repo)
    subprocess.run(['cp', os.path.join(repo, 'Cargo.lock'), os.path.join(d, 'Cargo.lock')])
    pairs = []
    while len(pairs) < n:
        g = gen_pair(rng, len(pairs))
        if g is None:
            continue
        (sd, sp), desc, exp = g
        name = 'p%d' % len(pairs)
        open(os.path.join(d, 'src', 'bin', name + '_deco.rs'), 'w').write(sd)
        open(os.path.join(d, 'src', 'bin', name + '_plain.rs'), 'w').write(sp)
        pairs.append((name, sd, sp, desc, exp))
    env = dict(os.environ, CARGO_NET_OFFLINE='true',
               CARGO_ENCODED_RUSTFLAGS='\x1f'.join(['--cfg', 'probe="a b"', '--check-cfg', 'cfg(probe,values(any()))']))
    env.pop('RUSTFLAGS', None)
    tdir = os.path.join(cache, 'target-cfgprobe')
    r = subprocess.run('cargo build --offline --target-dir %s' % tdir, shell=True, cwd=d, capture_output=True, text=True, env=env)

    def build_run(binname):
        """(compiled, output or first errors)"""
        if r.returncode != 0:
            rb = subprocess.run('cargo build --offline --bin %s --target-dir %s' % (binname, tdir), shell=True, cwd=d, capture_output=True, text=True, env=env)
            if rb.returncode != 0:
                errs = [l for l in rb.stderr.split('\n') if l.startswith('error')][:4]
                if any('could not compile `gecs`' in e for e in errs) or not errs:
                    raise RuntimeError('gecs itself does not build: ' + rb.stderr[-800:])
                return False, ' | '.join(errs)
        rr = subprocess.run([os.path.join(tdir, 'debug', binname)], capture_output=True, text=True)
        return True, rr.stdout

    skipped = 0
    for name, sd, sp, desc, exp in pairs:
        try:
            okp, outp = build_run(name + '_plain')
            if not okp:
                if 'attribute id' in outp:
                    skipped += 1       # the generator produced colliding / overflowing ids: rejected on both sides, no information
                    continue
                out['pairs'] += 1
                out['violations'].append(dict(pair=name, what='a legal attribute-free declaration with its queries does not compile: ' + outp, description=desc, program=sp, erased=sp))
                out['rule_violations'].append(dict(pair=name, what='a legal attribute-free declaration with its queries does not compile: ' + outp, description=desc, program=sp))
                continue
            okd, outd = build_run(name + '_deco')
        except RuntimeError as e:
            out['error'] = str(e)
            return out
        out['pairs'] += 1
        if out['sample'] is None and okd:
            out['sample'] = dict(pair=name, description=desc, decorated=outd.split('\n')[:8], erased=outp.split('\n')[:8])
        # C15 end to end: the emitted constants are the discriminant rule's (checked on the erased, attribute-free-but-for-ids twin)
        got = {}
        for line in outp.split('\n'):
            f = line.rsplit(' ', 1)
            if len(f) == 2 and f[0] in exp:
                got[f[0]] = int(f[1])
        wrong = [(k, exp[k], got.get(k)) for k in exp if got.get(k) != exp[k]]
        if wrong:
            out['rule_violations'].append(dict(pair=name, what='emitted ids differ from the discriminant rule (item, rule, emitted): %s' % wrong[:4], description=desc, program=sp))
        out['rule_checked'] += len(exp)
        if not okd:
            out['violations'].append(dict(pair=name, what='the erased declaration compiles, the decorated one does not: ' + outd, description=desc, program=sd, erased=sp))
        elif outd != outp:
            diff = [(x, y) for x, y in zip(outd.split('\n'), outp.split('\n')) if x != y][:4]
            out['violations'].append(dict(pair=name, what='decorated and erased declarations report differently (decorated, erased): %s' % diff, description=desc, program=sd, erased=sp))
    out['skipped'] = skipped
    return out


if __name__ == '__main__':
    import json, sys
    r = run(sys.argv[1] if len(sys.argv) > 1 else '/repo', os.path.join(ROOT, '.cache'), 1, 10)
    for v in r['violations']:
        v['program'] = v['program'][:200]
    print(json.dumps(r, indent=1)[:3000])
