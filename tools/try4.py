import sys, os, re, subprocess
sys.path.insert(0, os.path.dirname(__file__))
import macro_gen, coqrun
cases = macro_gen.generate('harness/macro_drive/target/debug/macro_drive', int(sys.argv[1]), int(sys.argv[2]), stress_ids=len(sys.argv) > 3)
os.makedirs('/verif/work/m', exist_ok=True)
open('/verif/work/m/c.v','w').write('From Coq Require Import NArith List.\nFrom stdpp Require Import base list.\nFrom Gecs Require Import Query MacroData.\nImport ListNotations.\n' + ''.join(macro_gen.case_v(c) for c in cases))
r = subprocess.run('cd /verif/coq && coqc -noglob %s -o /verif/work/m/c.vo /verif/work/m/c.v' % ' '.join(coqrun.QFLAGS), shell=True, capture_output=True, text=True)
if r.returncode: print(r.stdout[-2000:], r.stderr[-2000:]); sys.exit(1)
vals = coqrun.parse_results(r.stdout, len(cases))
bad = 0
kinds = {}
for c, v in zip(cases, vals):
    k = (c['kind'], c['impl'][0], c['impl'][1] if c['impl'][0] == 0 else '')
    kinds[k] = kinds.get(k, 0) + 1
    if v != 'None':
        bad += 1
        if bad < 5: print(c['line']); print(' impl ', c['raw'][:200], c['impl']); print(' model', v)
print('cases', len(cases), 'bad', bad, kinds)
