"""Compiles the C18 corpus (corpus_c18/*.bad.rs must be rejected by rustc, *.ok.rs must compile)
against the gecs built from the repository, one rustc per program, in parallel."""
import glob
import os
import subprocess
from concurrent.futures import ThreadPoolExecutor

ROOT = os.path.dirname(os.path.dirname(os.path.abspath(__file__)))


def build_deps(repo, cache):
    probe = os.path.join(ROOT, 'harness', 'c18_probe')
    tdir = os.path.join(cache, 'target-c18')
    toml = os.path.join(probe, 'Cargo.toml')
    t = open(toml).read()
    t2 = t.replace('"/repo"', '"%s"' % repo)
    if t2 != t:
        open(toml, 'w').write(t2)
    if not os.path.exists(os.path.join(probe, 'Cargo.lock')):
        subprocess.run(['cp', os.path.join(repo, 'Cargo.lock'), os.path.join(probe, 'Cargo.lock')])
    r = subprocess.run('cargo build --offline --target-dir %s' % tdir, shell=True, cwd=probe, capture_output=True, text=True,
                       env=dict(os.environ, CARGO_NET_OFFLINE='true'))
    if r.returncode != 0:
        return None, r.stderr[-2000:]
    deps = os.path.join(tdir, 'debug', 'deps')
    rlibs = sorted(glob.glob(os.path.join(deps, 'libgecs-*.rlib')), key=os.path.getmtime)
    if not rlibs:
        return None, 'libgecs rlib not found'
    return (deps, rlibs[-1]), ''


def compile_one(path, deps, rlib, outdir):
    out = os.path.join(outdir, os.path.basename(path) + '.rmeta')
    r = subprocess.run(['rustc', '--edition', '2021', '--crate-name', 'prog', '--crate-type', 'bin', '--emit=metadata', '-o', out,
                        '-L', 'dependency=' + deps, '--extern', 'gecs=' + rlib, path], capture_output=True, text=True)
    first = ''
    for line in r.stderr.split('\n'):
        if line.startswith('error'):
            first = line
            break
    return r.returncode == 0, first


# the class of error each unsound program must be rejected with (a rejection for another reason is not evidence)
EXPECT = {'01': 'E0499', '02': 'E0499', '03': 'E0502', '04': 'E0499', '05': 'E0499', '06': 'E0521', '07': 'E0499',
          '08': 'mut entity access is forbidden', '09': 'E0277', '10': 'E0277', '11': 'E0597', '12': 'E0499',
          '13': 'lifetime may not live long enough', '14': 'E0277', '15': 'E0277', '16': 'E0502', '17': 'E0502', '18': 'E0499'}


def run(repo, cache):
    """Returns (results, error): results = [(name, expected_ok, compiled, first error line)]"""
    d, err = build_deps(repo, cache)
    if d is None:
        return None, err
    deps, rlib = d
    outdir = os.path.join(cache, 'c18-out')
    os.makedirs(outdir, exist_ok=True)
    files = sorted(glob.glob(os.path.join(ROOT, 'corpus_c18', '*.bad.rs')) + glob.glob(os.path.join(ROOT, 'corpus_c18', '*.ok.rs')))
    with ThreadPoolExecutor(max_workers=16) as ex:
        res = list(ex.map(lambda f: compile_one(f, deps, rlib, outdir), files))
    return [(os.path.basename(f), f.endswith('.ok.rs'), ok, first) for f, (ok, first) in zip(files, res)], ''


if __name__ == '__main__':
    import sys
    res, err = run(sys.argv[1] if len(sys.argv) > 1 else '/repo', os.path.join(ROOT, '.cache'))
    if res is None:
        print('BUILD-ERROR', err)
        sys.exit(2)
    bad = 0
    for name, exp, ok, first in res:
        flag = 'OK ' if exp == ok else 'BAD'
        bad += exp != ok
        print(flag, name, 'compiled' if ok else 'rejected:', first[:110])
    sys.exit(1 if bad else 0)
