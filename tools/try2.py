import sys, os, time, json
sys.path.insert(0, os.path.dirname(__file__))
from worlds import WORLDS
import session, coqrun, ops as O, gen_ops
wname = sys.argv[1]; profile = sys.argv[2]; seed = int(sys.argv[3]); n = int(sys.argv[4])
binary = sys.argv[5] if len(sys.argv) > 5 else 'harness/storage_harness/target/debug/storage_harness'
debug = 'debug' in binary
events = 'ev' in binary
W = WORLDS[wname]
t = time.time()
cases = gen_ops.generate(binary, W, profile, seed, n, presets=(profile=='S7'))
print('generated', len(cases), 'cases', sum(len(c['ops']) for c in cases), 'ops in', round(time.time()-t,1), 's')
cfg = dict(wrapping=False, events=events, debug=debug)
t = time.time()
res = coqrun.run_cases(cases, cfg, '/verif/work/try2')
print('coq', round(time.time()-t,1), 's')
bad = 0
for c, r in zip(cases, res):
    if c.get('died'): print('DIED', c['id'], c['died'][:300])
    if r != 'None':
        bad += 1
        d = coqrun.parse_diff(r)
        if bad <= 4:
            if d:
                i, m, im = d
                print(c['id'], 'op', i, O.to_rust(c['ops'][i])); print(' model', m[:60]); print(' impl ', im[:60])
                print('   prev ops:', [O.to_rust(o) for o in c['ops'][max(0,i-6):i]])
            else: print(c['id'], r[:300])
print('mismatches', bad, 'of', len(cases))
t = time.time()
res2 = coqrun.run_cases(cases, cfg, '/verif/work/try2s', fn='spec_check', imports='Storage Query World Borrow Run Spec')
print('spec', round(time.time()-t,1), 's')
sb = 0
import re
for c, r in zip(cases, res2):
    if r != 'None':
        sb += 1
        if sb <= 6:
            nums = [int(x) for x in re.findall(r'\d+', r)]
            i = nums[0]
            print(c['id'], 'SPEC', r, 'op', O.to_rust(c['ops'][i]) if i < len(c['ops']) else None, '=>', c['obs'][i][:40] if i < len(c['obs']) else None)
            print('   prev ops:', [O.to_rust(o) for o in c['ops'][max(0,i-5):i]])
print('spec failures', sb, 'of', len(cases))
