import sys, os
sys.path.insert(0, os.path.dirname(__file__))
import macro_gen, macro_check
b='harness/macro_drive/target/debug/macro_drive'
cases = macro_gen.generate(b, int(sys.argv[1]), int(sys.argv[2]), stress_ids=len(sys.argv)>3)
for pid in ('C15','C05','C16'):
    f = macro_check.oracle_failures(pid, cases, b)
    print(pid, len(f))
    for c,m in f[:3]: print('  ', c['line'][:300]); print('   ', m)
