"""Correspondence and oracles for the macro-logic properties (C05, C15, C16) over harness/macro_drive."""
import os
import subprocess

import coqrun
import macro_gen as G


def run_model(cases, workdir, shards=8):
    os.makedirs(workdir, exist_ok=True)
    shards = max(1, min(shards, len(cases)))
    chunks = [cases[i::shards] for i in range(shards)]
    procs = []
    for i, ch in enumerate(chunks):
        path = os.path.join(workdir, 'm_%d.v' % i)
        with open(path, 'w') as f:
            f.write('From Coq Require Import NArith List.\nFrom stdpp Require Import base list.\nFrom Gecs Require Import Query MacroData.\nImport ListNotations.\n')
            for c in ch:
                f.write(G.case_v(c))
        cmd = 'cd %s && timeout 900 coqc -noglob %s -o %so %s' % (coqrun.COQDIR, ' '.join(coqrun.QFLAGS), path, path)
        procs.append((subprocess.Popen(['bash', '-c', cmd], stdout=subprocess.PIPE, stderr=subprocess.STDOUT, text=True), len(ch), path))
    out = [None] * len(cases)
    for si, (p, n, path) in enumerate(procs):
        text = p.communicate()[0]
        if p.returncode != 0:
            raise RuntimeError('coqc failed on %s: %s' % (path, text[-2000:]))
        vals = coqrun.parse_results(text, n)
        for j, v in enumerate(vals):
            out[si + j * shards] = v
    return out


# ---- declarative oracles (the property text, executable) ----

def enabled(cfgs, preds, states):
    return all(states[preds.index(p)] for p in cfgs)


def rule_ids(items):
    """items: list of (explicit or None, name). Returns ('ok', ids) | ('exceed',) | ('assigned', id, holder)."""
    used = {}
    last = None
    ids = []
    for explicit, name in items:
        if explicit is not None:
            nxt = explicit
        elif last is not None:
            if last + 1 > 255:
                return ('exceed',)
            nxt = last + 1
        else:
            nxt = 0
        if nxt in used:
            return ('assigned', nxt, used[nxt])
        used[nxt] = name
        ids.append(nxt)
        last = nxt
    return ('ok', ids)


def expected_world(archs, wstates):
    # an explicit id is a u8 literal: above 255 the declaration does not parse, enabled or not
    if any((a['id'] is not None and a['id'] > 255) or any(c['id'] is not None and c['id'] > 255 for c in a['comps']) for a in archs):
        return [0, 99]
    preds = G.world_preds(archs)
    en = [a for a in archs if enabled(a['cfgs'], preds, wstates)]
    # the code assigns the archetype id, then that archetype's component ids, archetype by archetype
    out = [1, len(en)]
    used = {}
    last = None
    for a in en:
        r = rule_ids([(x['id'], x['name']) for x in en[:en.index(a) + 1]])
        if r[0] == 'exceed':
            return [0, 1]
        if r[0] == 'assigned':
            return [0, 2, r[1], r[2]]
        aid = r[1][-1]
        comps = [c for c in a['comps'] if enabled(c['cfgs'], preds, wstates)]
        rc = rule_ids([(c['id'], c['name']) for c in comps])
        if rc[0] == 'exceed':
            return [0, 1]
        if rc[0] == 'assigned':
            return [0, 2, rc[1], rc[2]]
        out += [aid, a['name'], len(comps)]
        for c, cid in zip(comps, rc[1]):
            out += [cid, c['name']]
    return out


def world_data(archs, wstates):
    e = expected_world(archs, wstates)
    if e[0] != 1:
        return None
    preds = G.world_preds(archs)
    return [dict(name=a['name'], comps=[c['name'] for c in a['comps'] if enabled(c['cfgs'], preds, wstates)])
            for a in archs if enabled(a['cfgs'], preds, wstates)]


def expected_query(archs, wstates, params, qstates):
    wd = world_data(archs, wstates)
    if wd is None:
        return [0, 9]
    qp = G.query_preds(params)
    en = [enabled(p['cfgs'], qp, qstates) for p in params]
    arms = []
    for a in wd:
        bound = []
        ok = True
        for p, e in zip(params, en):
            t = p['ty']
            if t[0] == 'oneof':
                if p['cfgs']:
                    return [0, 1]
                pres = [c for c in t[1] if c in a['comps']]
                if len(pres) >= 2:
                    return [0, 2, a['name'], pres[0], pres[1]]
                if len(pres) == 1:
                    bound.append((p, [1, pres[0]]))
                else:
                    ok = False
            elif t[0] == 'comp':
                if (not e) or t[1] in a['comps']:
                    bound.append((p, [1, t[1]]))
                else:
                    ok = False
            elif t[0] in ('ent', 'dir'):
                if (not e) or t[1] == a['name']:
                    bound.append((p, [2 if t[0] == 'ent' else 5, t[1]]))
                else:
                    ok = False
            elif t[0] == 'entwild':
                bound.append((p, [2, a['name']]))
            elif t[0] == 'dirwild':
                bound.append((p, [5, a['name']]))
            elif t[0] == 'entany':
                bound.append((p, [4]))
            else:
                bound.append((p, [7]))
        if ok:
            arms.append((a['name'], bound))
    if not arms:
        return [0, 3]
    out = [1]
    for name, bound in arms:
        out += [name, len(bound)]
        for p, code in bound:
            out += [1 if p['mut'] else 0, len(p['cfgs'])] + code
    return out


def erase_world(archs, wstates):
    preds = G.world_preds(archs)
    return [dict(cfgs=[], id=a['id'], name=a['name'],
                 comps=[dict(cfgs=[], id=c['id'], name=c['name']) for c in a['comps'] if enabled(c['cfgs'], preds, wstates)])
            for a in archs if enabled(a['cfgs'], preds, wstates)]


def erase_query(params, qstates):
    qp = G.query_preds(params)
    return [dict(cfgs=[], mut=p['mut'], ty=p['ty']) for p in params if enabled(p['cfgs'], qp, qstates)]


def strip_disabled(impl, params, qstates):
    """Remove the disabled parameters (and every cfg count) from a decoded ok-result of a decorated query."""
    if impl[0] != 1:
        return impl
    qp = G.query_preds(params)
    en = [enabled(p['cfgs'], qp, qstates) for p in params]
    out = [1]
    i = 1
    while i < len(impl):
        name, n = impl[i], impl[i + 1]
        i += 2
        kept = []
        for k in range(n):
            mut, ncfg, code = impl[i], impl[i + 1], impl[i + 2]
            ln = 2 if code in (1, 2, 5) else 1
            rec = [mut, 0] + impl[i + 2:i + 2 + ln]
            i += 2 + ln
            if en[k]:
                kept.append(rec)
        out += [name, len(kept)]
        for r in kept:
            out += r
    return out


def oracle_failures(pid, cases, binary):
    """Returns a list of (case, message) for observations the property forbids."""
    fails = []
    if pid == 'C15':
        for c in cases:
            if c['kind'] == 'W':
                e = expected_world(c['archs'], c['wstates'])
                if e != c['impl']:
                    fails.append((c, 'ids differ from the discriminant rule: expected %s, implementation %s' % (e, c['impl'])))
    elif pid == 'C08':
        # "not across archetypes": the archetype id is part of every handle, so a declaration that compiles
        # must give its archetypes pairwise distinct ids
        for c in cases:
            if c['kind'] == 'W' and c['impl'] and c['impl'][0] == 1:
                ids, i = [], 2
                for _ in range(c['impl'][1]):
                    ids.append(c['impl'][i])
                    i += 3 + 2 * c['impl'][i + 2]
                if len(set(ids)) != len(ids):
                    fails.append((c, 'two archetypes of a declaration that compiles share an ARCHETYPE_ID (their handles would be equal): ids %s' % ids))
    elif pid == 'C05':
        for c in cases:
            if c['kind'] == 'Q' and c['impl'] != [0, 9]:
                e = expected_query(c['archs'], c['wstates'], c['params'], c['qstates'])
                if e != c['impl']:
                    fails.append((c, 'matched archetypes / bound parameters differ from the declarative reading: expected %s, implementation %s' % (e, c['impl'])))
    elif pid == 'C16':
        lines, idx = [], []
        for k, c in enumerate(cases):
            ew = erase_world(c['archs'], c['wstates'])
            if c['kind'] == 'W':
                if not ew:
                    continue   # an empty declaration is a parse error; nothing to compare
                lines.append('W\t\t%s' % G.world_rust(ew))
                idx.append(k)
            else:
                if any(p['ty'][0] == 'oneof' and p['cfgs'] for p in c['params']) or not ew:
                    continue
                eq = erase_query(c['params'], c['qstates'])
                lines.append('Q\t%s\t%s\t\t%s\t\t%s' % (c['qkind'], c['mode'], G.world_rust(ew), G.query_rust(eq)))
                idx.append(k)
        outs = G.run_drive(binary, lines)
        for k, o in zip(idx, outs):
            c = cases[k]
            if c['kind'] == 'W':
                twin = G.dec_world(o)
                if twin != c['impl']:
                    fails.append((c, 'decorated declaration differs from its erasure: %s vs %s' % (c['impl'], twin)))
            else:
                twin = G.dec_query(o, c['qkind'])
                mine = strip_disabled(c['impl'], c['params'], c['qstates'])
                if c['impl'] == [0, 9]:
                    continue
                if twin != mine:
                    fails.append((c, 'decorated query differs from its erasure: %s vs %s' % (mine, twin)))
    return fails
