"""Runs harness/side_probe (see its header): clone scenarios (C04, C13) and leaked-guard scenarios (C10)."""
import os
import re
import subprocess

ROOT = os.path.dirname(os.path.dirname(os.path.abspath(__file__)))


def run(repo, cache, seed, n=40):
    out = dict(error=None, clone_scenarios=0, leak_scenarios=0, clone_failures=[], leak_failures=[])
    probe = os.path.join(ROOT, 'harness', 'side_probe')
    toml = os.path.join(probe, 'Cargo.toml')
    t = open(toml).read()
    t2 = re.sub(r'gecs = \{ path = "[^"]*" \}', 'gecs = { path = "%s" }' % repo, t)
    if t2 != t:
        open(toml, 'w').write(t2)
    if not os.path.exists(os.path.join(probe, 'Cargo.lock')):
        subprocess.run(['cp', os.path.join(repo, 'Cargo.lock'), os.path.join(probe, 'Cargo.lock')])
    tdir = os.path.join(cache, 'target-side')
    for profile, sub in (('', 'debug'), ('--release', 'release')):
        r = subprocess.run('cargo build --offline %s --target-dir %s' % (profile, tdir), shell=True, cwd=probe, capture_output=True, text=True,
                           env=dict(os.environ, CARGO_NET_OFFLINE='true'))
        if r.returncode != 0:
            out['error'] = r.stderr[-1500:]
            return out
        p = subprocess.run([os.path.join(tdir, sub, 'side_probe'), str(seed % 100000), str(n)], capture_output=True, text=True, timeout=900)
        for line in p.stdout.split('\n'):
            m = re.match(r'(clone|leak) scenarios (\d+) failures (\d+)', line)
            if m:
                out[m.group(1) + '_scenarios'] += int(m.group(2))
            if line.startswith('FAIL clone'):
                out['clone_failures'].append('[%s build] %s' % (sub, line[5:]))
            if line.startswith('FAIL leak'):
                out['leak_failures'].append('[%s build] %s' % (sub, line[5:]))
        if p.returncode not in (0, 1):
            out['leak_failures'].append('[%s build] the probe died (exit %d): %s' % (sub, p.returncode, p.stderr[-300:]))
    return out


if __name__ == '__main__':
    import json, sys
    print(json.dumps(run(sys.argv[1] if len(sys.argv) > 1 else '/repo', os.path.join(ROOT, '.cache'), 1), indent=1))
