"""Runs harness/side_probe (see its header): clone scenarios (C04, C13), leaked-guard scenarios (C10) and clone_from
scenarios with and without a panicking component Clone (counted under both)."""
import os
import re
import subprocess

ROOT = os.path.dirname(os.path.dirname(os.path.abspath(__file__)))


def run(repo, cache, seed, n=40):
    out = dict(error=None, clone_scenarios=0, leak_scenarios=0, clone_failures=[], leak_failures=[])
    probe = os.path.join(ROOT, 'harness', 'side_probe')
    toml = os.path.join(probe, 'Cargo.toml')
    t = open(toml).read()
    t2 = re.sub(r'gecs = \{ path = "[^"]*" \}', 'gecs = { path = "%s" }' % repo, t)
    if t2 != t:
        open(toml, 'w').write(t2)
    if not os.path.exists(os.path.join(probe, 'Cargo.lock')):
        subprocess.run(['cp', os.path.join(repo, 'Cargo.lock'), os.path.join(probe, 'Cargo.lock')])
    tdir = os.path.join(cache, 'target-side')
    for profile, sub in (('', 'debug'), ('--release', 'release')):
        r = subprocess.run('cargo build --offline %s --target-dir %s' % (profile, tdir), shell=True, cwd=probe, capture_output=True, text=True,
                           env=dict(os.environ, CARGO_NET_OFFLINE='true'))
        if r.returncode != 0:
            out['error'] = r.stderr[-1500:]
            return out
        p = subprocess.run([os.path.join(tdir, sub, 'side_probe'), str(seed % 100000), str(n)], capture_output=True, text=True, timeout=900)
        for line in p.stdout.split('\n'):
            m = re.match(r'(clone|leak) scenarios (\d+) failures (\d+)', line)
            if m:
                out[m.group(1) + '_scenarios'] += int(m.group(2))
            if line.startswith('FAIL clone'):
                out['clone_failures'].append('[%s build] %s' % (sub, line[5:]))
            if line.startswith('FAIL leak') or line.startswith('FAIL clone_from') or line.startswith('FAIL into_panic'):
                out['leak_failures'].append('[%s build] %s' % (sub, line[5:]))
            m3 = re.match(r'intopanic scenarios (\d+) failures (\d+)', line)
            if m3:
                out['leak_scenarios'] += int(m3.group(1))
            m2 = re.match(r'clonefrom scenarios (\d+) failures (\d+)', line)
            if m2:
                out['clone_scenarios'] += int(m2.group(1))
                out['leak_scenarios'] += int(m2.group(1))
        if p.returncode not in (0, 1):
            out['leak_failures'].append('[%s build] the probe died (exit %d): %s' % (sub, p.returncode, p.stderr[-300:]))
    return out


if __name__ == '__main__':
    import json, sys
    print(json.dumps(run(sys.argv[1] if len(sys.argv) > 1 else '/repo', os.path.join(ROOT, '.cache'), 1), indent=1))


def expected_big():
    """What the property texts say harness/big_probe must print (C15: ids by the discriminant rule up to 255; C17: the
    world-level iterators yield the union over archetypes in archetype order with an exact size_hint; C01: lookups)."""
    L = ['ids 0 1 254 255', 'anyid 0 128 255', 'contains true true true', 'iter_sum 10']
    created = [0, 128, 255, 255]
    for i, a in enumerate(created):
        L.append('created item %d hint %d Some(%d) id %d' % (i, len(created) - i, len(created) - i, a))
    L += ['created end after 4 hint 0 Some(0)', 'created again_none true']
    destroyed = [0, 255]
    for i, a in enumerate(destroyed):
        L.append('destroyed item %d hint %d Some(%d) id %d' % (i, len(destroyed) - i, len(destroyed) - i, a))
    L += ['destroyed end after 2 hint 0 Some(0)', 'destroyed again_none true']
    for n in ('created_after_clear', 'destroyed_after_clear'):
        L += ['%s end after 0 hint 0 Some(0)' % n, '%s again_none true' % n]
    L.append('len255 1 find Some(4)')
    # C17: the logs hold exactly the events since the last clear, however long they got; clear_events empties both
    for burst in (1000, 70000, 70000, 10):
        L.append('burst %d pending %d %d %d after_clear 0 0 0 0' % (burst, burst, burst, burst))
    return L


def run_big(repo, cache):
    """The 256-archetype world (events feature), debug and release builds."""
    out = dict(error=None, failures=[], builds=0)
    probe = os.path.join(ROOT, 'harness', 'big_probe')
    toml = os.path.join(probe, 'Cargo.toml')
    t = open(toml).read()
    t2 = re.sub(r'gecs = \{ path = "[^"]*"', 'gecs = { path = "%s"' % repo, t)
    if t2 != t:
        open(toml, 'w').write(t2)
    if not os.path.exists(os.path.join(probe, 'Cargo.lock')):
        subprocess.run(['cp', os.path.join(repo, 'Cargo.lock'), os.path.join(probe, 'Cargo.lock')])
    tdir = os.path.join(cache, 'target-big')
    want = expected_big()
    for profile, sub in (('', 'debug'), ('--release', 'release')):
        r = subprocess.run('cargo build --offline %s --target-dir %s' % (profile, tdir), shell=True, cwd=probe, capture_output=True, text=True,
                           env=dict(os.environ, CARGO_NET_OFFLINE='true'))
        if r.returncode != 0:
            errs = [l for l in r.stderr.split('\n') if l.startswith('error')][:3]
            if any('could not compile `gecs`' in e for e in errs) or not errs:
                out['error'] = r.stderr[-1200:]
                return out
            out['failures'].append('[%s build] the 256-archetype world does not compile: %s' % (sub, ' | '.join(errs)))
            continue
        p = subprocess.run([os.path.join(tdir, sub, 'big_probe')], capture_output=True, text=True, timeout=600)
        out['builds'] += 1
        got = [l for l in p.stdout.split('\n') if l]
        if p.returncode != 0 or got != want:
            first = next((i for i, (a, b) in enumerate(zip(got, want)) if a != b), min(len(got), len(want)))
            out['failures'].append('[%s build] 256-archetype world: exit %d, output line %d is %r, expected %r%s'
                                   % (sub, p.returncode, first, got[first] if first < len(got) else None, want[first] if first < len(want) else None,
                                      (' (' + p.stderr.strip().split('\n')[-1][:200] + ')') if p.returncode != 0 and p.stderr.strip() else ''))
    return out


def run_api(repo, cache, name='api_probe', tdirname='target-api'):
    """harness/api_probe: the rarely used API surface against the commonly used entry points, debug and release builds.
    (Also runs harness/xcrate_probe, a world declared in one crate and queried from another: name='xcrate_probe'.)"""
    out = dict(error=None, failures=[], builds=0, checks=0)
    probe = os.path.join(ROOT, 'harness', name)
    for toml in [os.path.join(probe, 'Cargo.toml')] + [os.path.join(probe, d_, 'Cargo.toml') for d_ in os.listdir(probe) if os.path.exists(os.path.join(probe, d_, 'Cargo.toml'))]:
        t = open(toml).read()
        t2 = re.sub(r'gecs = \{ path = "[^"]*"', 'gecs = { path = "%s"' % repo, t)
        if t2 != t:
            open(toml, 'w').write(t2)
    if not os.path.exists(os.path.join(probe, 'Cargo.lock')):
        subprocess.run(['cp', os.path.join(repo, 'Cargo.lock'), os.path.join(probe, 'Cargo.lock')])
    tdir = os.path.join(cache, tdirname)
    for profile, sub in (('', 'debug'), ('--release', 'release')):
        r = subprocess.run('cargo build --offline %s --target-dir %s' % (profile, tdir), shell=True, cwd=probe, capture_output=True, text=True,
                           env=dict(os.environ, CARGO_NET_OFFLINE='true'))
        if r.returncode != 0:
            errs = [l for l in r.stderr.split('\n') if l.startswith('error')][:3]
            if any('could not compile `gecs`' in e for e in errs) or not errs:
                out['error'] = r.stderr[-1200:]
                return out
            out['failures'].append('[%s build] a legal client program using the whole API surface does not compile: %s' % (sub, ' | '.join(errs)))
            continue
        p = subprocess.run([os.path.join(tdir, sub, name)], capture_output=True, text=True, timeout=600)
        out['builds'] += 1
        lines = [l for l in p.stdout.split('\n') if l]
        done = [l for l in lines if l.startswith('done ')]
        if done:
            out['checks'] += int(done[0].split()[1])
        for l in lines:
            if l.startswith('bad '):
                out['failures'].append('[%s build] %s' % (sub, l[4:]))
        if not done:
            out['failures'].append('[%s build] the API probe died: exit %d %s' % (sub, p.returncode, p.stderr.strip().split('\n')[-1][:200] if p.stderr.strip() else ''))
    return out
