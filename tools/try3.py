import sys, os
sys.path.insert(0, os.path.dirname(__file__))
from worlds import WORLDS
import gen_ops, ops as O
W = WORLDS[sys.argv[1]]
cases = gen_ops.generate(sys.argv[5] if len(sys.argv)>5 else 'harness/storage_harness/target/debug/storage_harness', W, sys.argv[2], int(sys.argv[3]), int(sys.argv[4])+1, presets=(sys.argv[2]=='S7'))
c = cases[int(sys.argv[4])]
for i,(o,b) in enumerate(zip(c['ops'], c['obs'])): print(i, O.to_rust(o), '=>', b)
