"""World declarations shared by the Rust harness generator and the Coq case writer.

A world is a pool of component names and an ordered list of archetypes
(name, explicit id or None, list of component names).  Queries are lists of
parameters: ('comp', C, mut) | ('oneof', [C..], mut) | ('ent_any',) | ('ent_wild',)
| ('ent', A) | ('dir_any',) | ('dir_wild',) | ('dir', A).
"""

KINDS = {  # component name -> payload kind (which Rust macro declares it)
    'C0': 'plain', 'C1': 'byte', 'C2': 'boxed', 'C3': 'aligned',
    'C4': 'plain', 'C5': 'byte', 'C6': 'plain', 'C7': 'boxed', 'Z': 'zst',
}
for i in range(8, 40):
    KINDS['C%d' % i] = ['plain', 'byte', 'boxed', 'aligned'][i % 4]


def assign_ids(items):
    """The enum-discriminant rule (reference implementation used only to
    cross-check the harness's reported ARCHETYPE_ID constants)."""
    out, last = [], None
    for (_name, explicit) in items:
        if explicit is not None:
            nxt = explicit
        elif last is not None:
            nxt = last + 1
        else:
            nxt = 0
        out.append(nxt)
        last = nxt
    return out


class World:
    def __init__(self, name, archs, queries, feature=None):
        self.name = name
        self.archs = archs            # [(name, explicit_id, [comps])]
        self.queries = queries        # [[param,...]]
        self.feature = feature        # cargo feature required (None = always)
        self.pool = []
        for (_n, _i, cs) in archs:
            for c in cs:
                if c not in self.pool:
                    self.pool.append(c)
        self.ids = assign_ids([(n, i) for (n, i, _c) in archs])
        for q in queries:
            # the specification-level oracle identifies the written entity through an entity parameter
            if any(p[0] in ('comp', 'oneof') and p[2] for p in q):
                assert any(p[0].startswith('ent') for p in q), q

    def arch_index(self, name):
        return [a[0] for a in self.archs].index(name)

    def comp_index(self, c):
        return self.pool.index(c)


W1 = World(
    'w1',
    [('A0', None, ['C0']),
     ('A1', 3, ['C0', 'C1']),
     ('A2', None, ['C1', 'C2', 'Z']),
     ('A3', 200, ['C0', 'C1', 'C2', 'C3', 'C4', 'C5', 'C6', 'C7'])],
    [
        [('ent_any',), ('dir_any',)],
        [('ent_wild',), ('comp', 'C0', True)],
        [('comp', 'C1', True), ('comp', 'C2', False), ('dir_wild',), ('ent_wild',)],
        [('ent', 'A1'), ('comp', 'C0', False), ('comp', 'C1', True)],
        [('oneof', ['C3', 'Z'], True), ('ent_any',)],
        [('dir', 'A2'), ('comp', 'Z', False)],
        [('comp', 'C0', False), ('dir_any',), ('ent_any',)],
    ])

# Shapes: 1, 2, 3 and 16 columns; a ZST-only archetype; non-contiguous ids up to 255.
W2 = World(
    'w2',
    [('B0', 7, ['Z']),
     ('B1', None, ['C8', 'C9']),
     ('B2', 254, ['Z', 'C8', 'C10']),        # zero-sized component first, sized ones after it
     ('B3', None, ['C%d' % i for i in range(8, 24)])],
    [
        [('ent_any',), ('dir_any',)],
        [('comp', 'C8', True), ('ent_wild',), ('dir_wild',)],
        [('oneof', ['C9', 'Z'], False), ('ent_any',)],
        [('comp', 'Z', False), ('dir_any',)],
        [('comp', 'C23', True), ('comp', 'C8', False), ('ent', 'B3')],
    ])

# 17 and 32 columns (needs the 32_components feature).
W3 = World(
    'w3',
    [('D0', None, ['C%d' % i for i in range(8, 25)]),
     ('D1', None, ['C%d' % i for i in range(8, 40)])],
    [
        [('ent_any',), ('dir_any',)],
        [('comp', 'C24', True), ('ent_wild',)],
        [('comp', 'C39', True), ('comp', 'C8', False), ('dir_wild',), ('ent_any',)],
    ],
    feature='comps32')

WORLDS = {w.name: w for w in (W1, W2, W3)}


def snake(name):
    """convert_case Pascal->Snake as used by gecs for field names (enough for our names)."""
    out = ''
    for i, ch in enumerate(name):
        if ch.isupper() and i > 0 and not name[i - 1].isupper():
            out += '_'
        if ch.isdigit() and i > 0 and not name[i - 1].isdigit():
            out += '_'
        out += ch.lower()
    return out
