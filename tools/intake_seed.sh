#!/bin/bash
# intake_seed.sh <worktree> <outN> <seed-id>: confirm a sub-agent's change (test suite passes with it, also with
# --features events; the demonstration fails with it and passes without it) and copy it to seeded/<seed-id>/.
W=$1; O=$2; ID=$3
cd $W || exit 2
git checkout -q -- . ; rm -rf $W/patch.diff $W/demo
cp $O/patch.diff $W/patch.diff; cp -r $O/demo $W/demo
git apply patch.diff || { echo "patch does not apply"; exit 2; }
echo "== test suite with the change"
CARGO_TARGET_DIR=$W/target cargo test --workspace --no-fail-fast --offline 2>&1 | grep -E "^test result|FAILED|^error" | awk '{p+=$4; f+=$6} END {print "passed", p, "failed", f}'
CARGO_TARGET_DIR=$W/target cargo test --workspace --no-fail-fast --offline --features events 2>&1 | grep -E "^test result|FAILED|^error" | awk '{p+=$4; f+=$6} END {print "events: passed", p, "failed", f}'
echo "== demo with the change"
if [ -f demo/run.sh ]; then (cd demo && CARGO_TARGET_DIR=$W/demo_target bash run.sh >/dev/null 2>&1); echo "exit $?"; else (cd demo && CARGO_TARGET_DIR=$W/demo_target cargo run --offline 2>&1 | tail -3; echo "exit ${PIPESTATUS[0]}"); fi
git apply -R patch.diff
echo "== demo without the change"
if [ -f demo/run.sh ]; then (cd demo && CARGO_TARGET_DIR=$W/demo_target bash run.sh >/dev/null 2>&1); echo "exit $?"; else (cd demo && CARGO_TARGET_DIR=$W/demo_target cargo run --offline 2>&1 | tail -3; echo "exit ${PIPESTATUS[0]}"); fi
mkdir -p /verif/seeded/$ID && cp $O/patch.diff /verif/seeded/$ID/ && cp $O/note.txt /verif/seeded/$ID/ 2>/dev/null; rm -rf /verif/seeded/$ID/demo; cp -r $O/demo /verif/seeded/$ID/demo; rm -rf /verif/seeded/$ID/demo/target
rm -rf $W/patch.diff $W/demo
