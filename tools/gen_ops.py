"""History generators for the correspondence streams.

Generation is interactive: the generator sees the implementation's observation of every op it
sends (handle values, dumps, lengths) and uses them to aim the next ops (stale handles, forged
handles matching the generation of a free slot, direct handles around removals, ...).
Every random choice comes from one random.Random(seed) instance.
"""
import random

from session import Session, HarnessDied

KEY_TYPES_ENT = ['any', 't', 'u', 'm']

PROFILES = {
    # weights of op families per stream
    'S1': dict(create=20, createw=6, destroy=18, probe=25, iterd=4, clone=2, switch=2, dump=4, len=4, todirect=3, reg=2,
               forged=3, readall=2),
    'S2': dict(create=14, destroy=8, write=25, readall=18, probe=10, find=8, iter=8, clone=2, switch=2, reg=1, createw=2),
    'S3': dict(create=10, destroy=8, forged=40, probe=5, dump=4, clone=2, switch=2, newworld=3, foreign=10, preset=2, fdirect=4),
    'S4': dict(create=18, createw=10, destroy=16, ddestroy=4, iterd=8, clone=5, dropw=5, switch=4, reg=16, todirect=3, newworld=3, write=3),
    'S5': dict(create=14, destroy=10, iter=25, readall=15, iterd=6, createw=3, len=3, find=6, write=6),
    'S6': dict(create=16, destroy=6, iterd=25, probe=10, readall=10, iter=5, reg=3, todirect=3),
    'S8': dict(create=12, destroy=12, todirect=18, probe=10, dprobe=25, ddestroy=6, iter=5, iterd=5, find=5, createw=2, fdirect=3),
    'S9': dict(create=14, destroy=8, fault=12, clone=8, dropw=5, iter=6, iterd=8, reg=10, probe=8, readall=5, createw=3, newworld=3),
    'S11': dict(create=14, destroy=10, clone=10, switch=10, probe=14, readall=10, dump=6, reg=4, createw=6, write=6, dropw=2, events=4),
    'S12': dict(create=16, createw=5, destroy=14, iterd=8, events=20, clearev=8, clone=3, switch=3, ddestroy=3, todirect=3),
    'S10': dict(create=22, createw=22, destroy=18, len=14, dump=4, iterd=4, clone=2, switch=2, probe=4, newworld=3),
    'B1': dict(create=12, destroy=5, borrow=60, probe=3, clone=1, switch=1, iterd=2),
    'H1': dict(create=10, destroy=4, conv=50, todirect=8, iter=3, clone=1, switch=1),
    'S7': dict(preset=0, create=20, destroy=25, probe=15, dump=5, iterd=5, len=3, todirect=3, dprobe=6),
}


class Gen:
    def __init__(self, session, rng, profile, maxlen=60, presets=False):
        self.s = session
        self.w = session.world
        self.rng = rng
        self.weights = dict(PROFILES[profile])
        self.profile = profile
        self.maxlen = maxlen
        self.na = len(self.w.archs)
        self.issued = []          # raw pairs
        self.issued_arch = []
        self.ndirects = 0
        self.direct_arch = []
        self.nworlds = 0
        self.alive = []           # world index -> bool
        self.cur = 0
        self.live = {}            # world -> arch -> list of issued indices (dense order)
        self.caps = {}
        self.vctr = 1
        self.presets = presets

    # ---- plumbing
    def do(self, op):
        return self.s.do(op)

    def raw_index(self, raw):
        try:
            return len(self.issued) - 1 - self.issued[::-1].index(raw)
        except ValueError:
            return None

    def refresh(self, a):
        obs = self.do(('readall', 'slices', a))
        nc = len(self.w.archs[a][2])
        out = []
        if obs and obs[0] not in (2, 8) or (obs and len(obs) == 1 + obs[0] * (2 + nc)):
            n = obs[0]
            if len(obs) == 1 + n * (2 + nc):
                for i in range(n):
                    raw = (obs[1 + i * (2 + nc)], obs[2 + i * (2 + nc)])
                    k = self.raw_index(raw)
                    if k is not None:
                        out.append(k)
        self.live.setdefault(self.cur, {})[a] = out

    def lives(self, a=None):
        d = self.live.get(self.cur, {})
        if a is not None:
            return list(d.get(a, []))
        return [k for lst in d.values() for k in lst]

    def pick_arch(self):
        return self.rng.randrange(self.na)

    def pick_issued(self, prefer_live=0.6):
        if not self.issued:
            return None
        lv = self.lives()
        if lv and self.rng.random() < prefer_live:
            return self.rng.choice(lv)
        return self.rng.randrange(len(self.issued))

    def ent_typing(self, k):
        a = self.issued_arch[k]
        r = self.rng.random()
        if r < 0.45:
            return 'any'
        if r < 0.80:
            return ('t', a)
        if r < 0.88:
            return ('u', a)
        if r < 0.94:
            return ('m', a)
        # mistyped on purpose
        return (self.rng.choice('tum'), self.rng.randrange(self.na))

    def dir_typing(self, k):
        a = self.direct_arch[k] if k < len(self.direct_arch) and self.direct_arch[k] is not None else self.rng.randrange(self.na)
        r = self.rng.random()
        if r < 0.45:
            return 'any'
        if r < 0.85:
            return ('t', a)
        if r < 0.92:
            return ('u', a)
        if r < 0.96:
            return ('m', a)
        return (self.rng.choice('tum'), self.rng.randrange(self.na))

    def level_for(self, ty, arch_of_handle):
        if self.rng.random() < 0.5:
            return 'w'
        if ty == 'any':
            # mostly the right archetype, sometimes another one
            return ('a', arch_of_handle if self.rng.random() < 0.8 else self.rng.randrange(self.na))
        return ('a', ty[1])

    def arch_of_raw_direct(self, raw):
        aid = raw[0] & 0xFF
        for i, x in enumerate(self.w.ids):
            if x == aid:
                return i
        return None

    def note_directs(self, before_obs_len=None):
        pass

    # ---- op families
    def op_new(self, caps=None):
        if caps is None:
            caps = [self.rng.choice([0, 0, 1, 2, 3, 5, 8]) for _ in range(self.na)]
        obs = self.do(('new', caps))
        if obs[0] == 1:
            self.nworlds += 1
            self.alive.append(True)
            self.cur = obs[1]
            self.live[self.cur] = {a: [] for a in range(self.na)}

    def op_create(self, within=False, a=None):
        a = self.pick_arch() if a is None else a
        v = self.vctr
        self.vctr += 1
        obs = self.do(('createw' if within else 'create', a, v))
        if obs[0] == 1:
            self.issued.append((obs[1], obs[2]))
            self.issued_arch.append(a)
            self.live.setdefault(self.cur, {}).setdefault(a, []).append(len(self.issued) - 1)

    def op_destroy(self):
        k = self.pick_issued(0.75)
        if k is None:
            return self.op_create()
        ty = self.ent_typing(k)
        lvl = self.level_for(ty, self.issued_arch[k])
        obs = self.do(('destroy', lvl, 'e', ty, ('i', k)))
        if obs and obs[0] in (1, 2):
            for a in range(self.na):
                self.refresh(a) if obs[0] == 2 else None
            if obs[0] == 1:
                a = self.issued_arch[k] if ty in ('any',) or ty[1] == self.issued_arch[k] else ty[1]
                self.refresh(a)
                if a != self.issued_arch[k]:
                    self.refresh(self.issued_arch[k])

    def op_probe(self):
        k = self.pick_issued(0.5)
        if k is None:
            return self.op_create()
        ty = self.ent_typing(k)
        lvl = self.level_for(ty, self.issued_arch[k])
        self.do(('probe', lvl, 'e', ty, ('i', k)))

    def op_probe_all(self):
        for k in range(len(self.issued)):
            self.do(('probe', 'w', 'e', 'any', ('i', k)))
            if self.rng.random() < 0.5:
                a = self.issued_arch[k]
                self.do(('probe', ('a', a), 'e', ('t', a), ('i', k)))

    def op_todirect(self):
        if self.ndirects and self.rng.random() < 0.2:
            k = self.rng.randrange(self.ndirects)
            ty = self.dir_typing(k)
            lvl = self.level_for(ty, self.direct_arch[k] if self.direct_arch[k] is not None else 0)
            obs = self.do(('todirect', lvl, 'd', ty, ('d', k)))
        else:
            k = self.pick_issued(0.8)
            if k is None:
                return self.op_create()
            ty = self.ent_typing(k)
            lvl = self.level_for(ty, self.issued_arch[k])
            obs = self.do(('todirect', lvl, 'e', ty, ('i', k)))
        if obs and obs[0] == 1:
            self.ndirects += 1
            self.direct_arch.append(self.arch_of_raw_direct((obs[1], obs[2])))

    def op_dprobe(self):
        if not self.ndirects:
            return self.op_todirect()
        k = self.rng.randrange(self.ndirects) if self.rng.random() < 0.5 else self.ndirects - 1 - min(self.ndirects - 1, int(self.rng.expovariate(0.5)))
        ty = self.dir_typing(k)
        lvl = self.level_for(ty, self.direct_arch[k] if self.direct_arch[k] is not None else 0)
        self.do(('probe', lvl, 'd', ty, ('d', k)))

    def op_ddestroy(self):
        if not self.ndirects:
            return self.op_todirect()
        k = self.ndirects - 1 - min(self.ndirects - 1, int(self.rng.expovariate(0.7)))
        ty = self.dir_typing(k)
        lvl = self.level_for(ty, self.direct_arch[k] if self.direct_arch[k] is not None else 0)
        obs = self.do(('destroy', lvl, 'd', ty, ('d', k)))
        if obs and obs[0] in (1, 2):
            for a in range(self.na):
                self.refresh(a)

    def count_new_directs_from_visits(self, q, obs, is_find=False):
        """How many direct handles a query run pushed (one per direct param per visit)."""
        params = self.w.queries[q]
        nd = sum(1 for p in params if p[0].startswith('dir'))
        if not nd:
            return
        dpos = []
        off = 1  # after the archetype id
        for p in params:
            if p[0] in ('comp', 'oneof'):
                off += 1
            else:
                if p[0].startswith('dir'):
                    dpos.append(off)
                off += 2
        recs = []
        if is_find:
            if obs and obs[0] == 1:
                recs.append(obs[1:])
        else:
            i = 1 if obs[0] == 1 else 2
            if obs[0] in (1, 2) and len(obs) > i:
                n = obs[i]
                i += 1
                for _ in range(n):
                    ln = obs[i]
                    recs.append(obs[i + 1:i + 1 + ln])
                    i += 1 + ln
        for r in recs:
            for dp in dpos:
                self.ndirects += 1
                self.direct_arch.append(self.arch_of_raw_direct((r[dp], r[dp + 1])))

    def op_iter(self):
        q = self.rng.randrange(len(self.w.queries))
        borrow = self.rng.random() < 0.5
        total = len(self.lives())
        br = self.rng.randrange(total + 1) if self.rng.random() < 0.35 else None
        pa = self.rng.randrange(total + 1) if (self.weights.get('fault') and self.rng.random() < 0.2) else None
        delta = self.rng.choice([0, 0, 1, 3])
        obs = self.do(('iter', q, borrow, br, pa, delta))
        self.count_new_directs_from_visits(q, obs)

    def op_iterd(self):
        q = self.rng.randrange(len(self.w.queries))
        total = len(self.lives())
        n = self.rng.randrange(total + 2)
        style = self.rng.random()
        if style < 0.2:
            dec = 'C' * n
        elif style < 0.3:
            dec = 'c' * n
        elif style < 0.45:
            dec = ''.join(self.rng.choice('cCdu') for _ in range(n)) + self.rng.choice('bBa')
        else:
            alphabet = 'cccCCCbBdau' + ('p' if self.weights.get('fault') else '')
            dec = ''.join(self.rng.choice(alphabet) for _ in range(n))
        obs = self.do(('iterd', q, dec))
        self.count_new_directs_from_visits(q, obs)
        for a in range(self.na):
            self.refresh(a)

    def op_find(self):
        q = self.rng.randrange(len(self.w.queries))
        if self.ndirects and self.rng.random() < 0.3:
            k = self.rng.randrange(self.ndirects)
            ty = self.dir_typing(k)
            if ty != 'any' and q >= 2:
                q = self.rng.randrange(2)
            obs = self.do(('find', q, self.rng.random() < 0.5, 'd', ty, ('d', k), self.rng.choice([0, 0, 2])))
        else:
            k = self.pick_issued(0.75)
            if k is None:
                return self.op_create()
            ty = self.ent_typing(k)
            if ty != 'any' and q >= 2:
                q = self.rng.randrange(2)
            obs = self.do(('find', q, self.rng.random() < 0.5, 'e', ty, ('i', k), self.rng.choice([0, 0, 2])))
        self.count_new_directs_from_visits(q, obs, is_find=True)

    def op_write(self):
        k = self.pick_issued(0.85)
        if k is None:
            return self.op_create()
        a = self.issued_arch[k]
        comps = self.w.archs[a][2]
        path = self.rng.choice(['view', 'borrow', 'find', 'findb', 'slice', 'bslice', 'slices', 'itermut'])
        if path in ('find', 'findb'):
            c = self.rng.choice([comps[0], comps[-1]])
        else:
            c = self.rng.choice(comps)
        ty = self.rng.choice(['any', ('t', a), ('t', a), ('m', a)])
        v = 100000 + self.vctr
        self.vctr += 1
        self.do(('write', path, a, 'e', ty, ('i', k), self.w.comp_index(c), v))

    def op_readall(self):
        a = self.pick_arch()
        self.do(('readall', self.rng.choice(['iter', 'itermut', 'slices', 'slice', 'bslice']), a))

    def op_clone(self):
        if self.nworlds >= 5:
            return self.op_probe()
        obs = self.do(('clone',))
        if obs[0] == 1:
            self.nworlds += 1
            self.alive.append(True)
            self.live[obs[1]] = {a: list(v) for a, v in self.live.get(self.cur, {}).items()}
            if self.profile == 'S11':
                # clone audit (C13): the same observations on the original and on the clone, back to back
                orig = self.cur
                for wi in (orig, obs[1]):
                    self.do(('switch', wi))
                    for a in range(self.na):
                        self.do(('len', a))
                        self.do(('dump', a))
                        self.do(('readall', 'slices', a))
                        self.do(('events', ('a', a)))
                self.do(('switch', orig))

    def op_switch(self):
        cands = [i for i, x in enumerate(self.alive) if x]
        if not cands:
            return
        i = self.rng.choice(cands)
        obs = self.do(('switch', i))
        if obs[0] == 1:
            self.cur = i

    def op_dropw(self):
        cands = [i for i, x in enumerate(self.alive) if x]
        if len(cands) < 2:
            return self.op_clone()
        i = self.rng.choice(cands)
        self.do(('drop', i))
        self.alive[i] = False
        if i == self.cur:
            rest = [j for j, x in enumerate(self.alive) if x]
            obs = self.do(('switch', rest[0]))
            self.cur = rest[0]

    def op_fault(self):
        kind = self.rng.choice(['clone', 'drop'])
        n = self.rng.randrange(1, 8)
        self.do(('fault', kind, n))
        # follow with an op that clones / drops so the fault has a chance to fire
        if kind == 'clone':
            self.op_clone()
        else:
            r = self.rng.random()
            if r < 0.4:
                self.op_iterd()
            elif r < 0.7:
                self.op_destroy()
            else:
                self.op_dropw()
        self.do(('fault', kind, 0))
        self.do(('reg',))

    def op_forged(self):
        """A handle the world never issued, aimed with what a dump shows."""
        a = self.pick_arch()
        d = self.do(('dump', a))
        aid = self.w.ids[a]
        cands = []
        if d and len(d) >= 5 and d[0] not in (8,):
            ver, ln, cap, head, ns = d[:5]
            slots = [(d[5 + 2 * i], d[6 + 2 * i]) for i in range(ns)]
            free = [(i, g) for i, (x, g) in enumerate(slots) if x & 0x80000000]
            livs = [(i, g) for i, (x, g) in enumerate(slots) if not (x & 0x80000000)]
            if free:
                i, g = self.rng.choice(free)
                cands.append(((i << 8) | aid, g))                 # free slot, its current generation
                if g > 1:
                    cands.append(((i << 8) | aid, g - 1))
            if livs:
                i, g = self.rng.choice(livs)
                if g + 1 <= 0xFFFFFFFF:                              # (a raw pair is two u32: after a preset g may be the largest one)
                    cands.append(((i << 8) | aid, g + 1))         # live slot, future generation
                cands.append(((i << 8) | aid, g))                 # bit-identical to a live handle
                other = self.rng.choice(self.w.ids)
                cands.append(((i << 8) | other, g))               # same slot and generation, other archetype id
            cands.append(((cap << 8) | aid, 1))                   # slot == capacity
            cands.append((((cap + self.rng.randrange(1, 1000)) << 8) | aid, 1))
            cands.append(((0xFFFFFF << 8) | aid, 1))              # largest slot index
        cands.append(((self.rng.randrange(8) << 8) | aid, 0))     # generation 0: rejected by from_raw
        undeclared = [x for x in range(256) if x not in self.w.ids]
        cands.append(((self.rng.randrange(4) << 8) | self.rng.choice(undeclared), self.rng.randrange(1, 3)))
        cands.append((self.rng.getrandbits(32), self.rng.getrandbits(32)))
        key, g = self.rng.choice(cands)
        r = self.rng.random()
        if r < 0.4:
            ty = 'any'
        elif r < 0.6:
            ty = ('t', a)
        else:
            ty = (self.rng.choice('um'), self.rng.randrange(self.na))
        lvl = 'w' if self.rng.random() < 0.5 else ('a', a if ty == 'any' else ty[1])
        opn = self.rng.choice(['probe', 'probe', 'probe', 'destroy', 'todirect', 'find'])
        if opn == 'find':
            obs = self.do(('find', 0, self.rng.random() < 0.5, 'e', ty, ('r', key, g), 0))
            self.count_new_directs_from_visits(0, obs, is_find=True)
        else:
            obs = self.do((opn, lvl, 'e', ty, ('r', key, g)))
            if opn == 'todirect' and obs and obs[0] == 1:
                self.ndirects += 1
                self.direct_arch.append(self.arch_of_raw_direct((obs[1], obs[2])))
            if opn == 'destroy' and obs and obs[0] in (1, 2):
                for b in range(self.na):
                    self.refresh(b)

    def op_foreign(self):
        """Use handles (entity and direct) across worlds: the tables are shared by all worlds."""
        if self.nworlds < 2:
            self.op_new()
            for _ in range(self.rng.randrange(1, 6)):
                self.op_create()
            return
        self.op_switch()
        if self.rng.random() < 0.5:
            self.op_probe()
        else:
            self.op_dprobe()

    def op_fdirect(self):
        """A direct handle from the future: issued in a clone after a removal there (so its version is ahead of
        the original's), then presented to the original world. Direct handles cannot be forged from bits, so
        this is the only way to meet a version the storage has not reached yet."""
        live = [(a, ks) for a, ks in self.live.get(self.cur, {}).items() if len(ks) >= 2]
        if not live or self.nworlds >= 5:
            return self.op_create()
        a, ks = self.rng.choice(live)
        orig = self.cur
        obs = self.do(('clone',))
        if not obs or obs[0] != 1:
            return
        clone = obs[1]
        self.nworlds += 1
        self.alive.append(True)
        self.live[clone] = {b: list(v) for b, v in self.live.get(orig, {}).items()}
        self.do(('switch', clone))
        self.cur = clone
        victim, keeper = ks[0], ks[-1]
        self.do(('destroy', 'w', 'e', 'any', ('i', victim)))
        self.refresh(a)
        o2 = self.do(('todirect', 'w', 'e', 'any', ('i', keeper)))
        got = bool(o2 and o2[0] == 1)
        if got:
            self.ndirects += 1
            self.direct_arch.append(self.arch_of_raw_direct((o2[1], o2[2])))
        self.do(('switch', orig))
        self.cur = orig
        if got:
            k = self.ndirects - 1
            self.do(('len', a))          # shows the version the original storage is at (used by the direct-version oracle)
            for ty in ('any', ('t', a)):
                lvl = self.level_for(ty, a)
                self.do(('probe', lvl, 'd', ty, ('d', k)))
            fo = self.do(('find', 0, self.rng.random() < 0.5, 'd', 'any', ('d', k), 0))
            self.count_new_directs_from_visits(0, fo, is_find=True)
            if self.rng.random() < 0.5:
                self.do(('destroy', 'w', 'd', 'any', ('d', k)))
                for b in range(self.na):
                    self.refresh(b)

    def op_preset(self):
        # only meaningful on an archetype that never issued a handle in a fresh world
        self.op_new()
        for a in range(self.na):
            if self.rng.random() < 0.7:
                top = 0xFFFFFFFF
                sv = top - self.rng.randrange(0, 4)
                av = top - self.rng.randrange(0, 6)
                self.do(('preset', a, sv, av))

    def op_conv(self):
        r = self.rng.random()
        if r < 0.25 and self.issued:
            self.do(('conv', 'e', ('i', self.rng.randrange(len(self.issued)))))
        elif r < 0.45 and self.ndirects:
            self.do(('conv', 'd', ('d', self.rng.randrange(self.ndirects))))
        else:
            ids = list(self.w.ids) + [0, 1, 2, 254, 255, self.rng.randrange(256)]
            slot = self.rng.choice([0, 1, 2, 0xFFFFFF, 0xFFFFFE, 0x800000, self.rng.getrandbits(24)])
            ver = self.rng.choice([0, 1, 2, 0xFFFFFFFF, 0xFFFFFFFE, 0x80000000, self.rng.getrandbits(32)])
            self.do(('conv', 'e', ('r', (slot << 8) | self.rng.choice(ids), ver)))

    def rand_bprog(self, depth):
        n = self.rng.randrange(1, 5 if depth > 0 else 3)
        prog = []
        lives = self.lives()
        for _ in range(n):
            r = self.rng.random()
            if r < 0.25 and lives:
                k = self.rng.choice(lives)
                a = self.issued_arch[k]
                c = self.rng.choice(self.w.archs[a][2])
                prog.append(('hc', a, self.w.comp_index(c), self.rng.random() < 0.5, k))
            elif r < 0.45:
                a = self.pick_arch()
                c = self.rng.choice(self.w.archs[a][2])
                prog.append(('hs', a, self.w.comp_index(c), self.rng.random() < 0.5))
            elif r < 0.55:
                prog.append(('rel',))
            elif r < 0.75 and depth > 0 and self.issued:
                k = self.rng.choice(lives) if lives and self.rng.random() < 0.85 else self.rng.randrange(len(self.issued))
                prog.append(('fb', self.rng.randrange(len(self.w.queries)), k, self.rand_bprog(depth - 1)))
            elif r < 0.9 and depth > 0:
                prog.append(('ib', self.rng.randrange(len(self.w.queries)), self.rand_bprog(depth - 1)))
            elif r < 0.96:
                prog.append(('cl',))
            elif depth < 3:
                prog.append(('pn',))
        return prog

    def op_borrow(self):
        self.do(('borrow', self.rand_bprog(self.rng.choice([1, 2, 3, 3]))))

    def op_events(self):
        self.do(('events', 'w' if self.rng.random() < 0.5 else ('a', self.pick_arch())))

    def op_clearev(self):
        self.do(('clearev', 'w' if self.rng.random() < 0.4 else ('a', self.pick_arch())))

    def op_dump(self):
        self.do(('dump', self.pick_arch()))

    def op_len(self):
        self.do(('len', self.pick_arch()))

    def op_reg(self):
        self.do(('reg',))

    # ---- driver
    def run(self):
        self.op_new()
        if self.presets is True or (self.presets == 'some' and self.rng.random() < 0.3):
            for a in range(self.na):
                top = 0xFFFFFFFF
                self.do(('preset', a, top - self.rng.randrange(0, 4), top - self.rng.randrange(0, 6)))
        if self.profile == 'S12' and self.rng.random() < 0.3:
            # churn: many short-lived entities in one small archetype without clearing the logs, then creations past the
            # capacity (the event logs are much longer than the storage when it grows)
            a = self.pick_arch()
            for _ in range(self.rng.randrange(8, 20)):
                before = len(self.issued)
                self.op_create(a=a)
                if len(self.issued) > before:
                    obs = self.do(('destroy', ('a', a), 'e', 'any', ('i', len(self.issued) - 1)))
                    self.refresh(a)
            for _ in range(self.rng.randrange(2, 9)):
                self.op_create(a=a)
        fams = [k for k, v in self.weights.items() if v > 0]
        wts = [self.weights[k] for k in fams]
        table = dict(create=self.op_create, createw=lambda: self.op_create(within=True), destroy=self.op_destroy,
                     probe=self.op_probe, iterd=self.op_iterd, iter=self.op_iter, clone=self.op_clone,
                     switch=self.op_switch, dump=self.op_dump, len=self.op_len, todirect=self.op_todirect,
                     reg=self.op_reg, forged=self.op_forged, readall=self.op_readall, write=self.op_write,
                     find=self.op_find, dprobe=self.op_dprobe, ddestroy=self.op_ddestroy, fault=self.op_fault,
                     dropw=self.op_dropw, newworld=self.op_new, foreign=self.op_foreign, preset=self.op_preset,
                     events=self.op_events, clearev=self.op_clearev, conv=self.op_conv, borrow=self.op_borrow, fdirect=self.op_fdirect)
        n = self.rng.randrange(self.maxlen // 3, self.maxlen + 1)
        while len(self.s.cur['ops']) < n:
            if not any(self.alive):
                self.op_new()
            table[self.rng.choices(fams, wts)[0]]()
        # closing observations: everything issued, every archetype, the registry, then drop all worlds
        for i, al in enumerate(self.alive):
            if not al:
                continue
            self.do(('switch', i))
            self.cur = i
            self.op_probe_all()
            for a in range(self.na):
                self.do(('len', a))
                self.do(('dump', a))
                self.do(('readall', 'slices', a))
            if self.ndirects:
                for k in range(self.ndirects):
                    self.do(('probe', 'w', 'd', 'any', ('d', k)))
        self.do(('reg',))
        for i, al in enumerate(self.alive):
            if al:
                self.do(('drop', i))
                self.do(('reg',))


def generate(binary, world, profile, seed, ncases, maxlen=60, presets=False):
    """Runs `ncases` generated histories on the harness; returns the list of case dicts."""
    rng = random.Random(seed)
    sess = Session(binary, world)
    died = None
    for i in range(ncases):
        cid = '%s-%s-%d-%d' % (profile, world.name, seed, i)
        try:
            sess.start_case(cid)
            Gen(sess, rng, profile, maxlen, presets=presets).run()
        except HarnessDied as e:
            sess.cur['died'] = str(e)
            died = str(e)
            # restart the harness for the remaining cases
            sess2 = Session(binary, world)
            sess2.cases = sess.cases
            sess = sess2
    rc, err = sess.close()
    return sess.cases


def borrow_matrix(binary, world, empty_variant=False):
    """The whole finite matrix of (outer access, inner access) pairs of the runtime-borrowed API on one
    world state: every outer access is held (or is the enclosing closure) while every inner one is tried."""
    sess = Session(binary, world)
    sess.start_case('B1-matrix-%s%s' % (world.name, '-empty' if empty_variant else ''))
    na = len(world.archs)
    sess.do(('new', [4] * na))
    ents = {}
    k = 0
    for a in range(na):
        ents[a] = []
        if empty_variant and a == na - 1:
            continue
        for _ in range(2):
            obs = sess.do(('create', a, k + 1))
            ents[a].append(k)
            k += 1
    accesses = []
    for a in range(na):
        comps = world.archs[a][2]
        cols = [comps[0], comps[-1]] if len(comps) > 3 else comps
        for c in cols:
            ci = world.comp_index(c)
            for m in (False, True):
                accesses.append(('hs', a, ci, m))
                for e in ents[a][:2]:
                    accesses.append(('hc', a, ci, m, e))
    for q in range(len(world.queries)):
        accesses.append(('ib', q))
        for a in range(na):
            if ents[a]:
                accesses.append(('fb', q, ents[a][0]))
    accesses.append(('cl',))
    def inner_cmd(x):
        if x[0] == 'fb':
            return ('fb', x[1], x[2], [])
        if x[0] == 'ib':
            return ('ib', x[1], [])
        return x
    for o in accesses:
        for i in accesses:
            if o[0] == 'fb':
                prog = [('fb', o[1], o[2], [inner_cmd(i)]), inner_cmd(i)]
            elif o[0] == 'ib':
                prog = [('ib', o[1], [inner_cmd(i)]), inner_cmd(i)]
            elif o[0] == 'cl':
                prog = [('cl',), inner_cmd(i)]
            else:
                prog = [o, inner_cmd(i), ('rel',), inner_cmd(i)]
            sess.do(('borrow', prog))
    sess.close()
    return sess.cases, len(accesses)
