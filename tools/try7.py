import sys, os, time
sys.path.insert(0, os.path.dirname(__file__))
from worlds import WORLDS
import gen_ops, coqrun, ops as O
b='/verif/.cache/target-default/debug/storage_harness'
cfg = dict(wrapping=False, events=False, debug=True)
for wn in ('w1','w2'):
  for ev in (False, True):
    t=time.time(); cases, na = gen_ops.borrow_matrix(b, WORLDS[wn], ev); print(wn, ev, 'accesses', na, 'programs', len(cases[0]['ops']), round(time.time()-t,1))
    # split into chunks to keep each vm_compute small
    c = cases[0]; pre = [o for o in c['ops'] if o[0] != 'borrow']; npre = len(pre)
    chunks = []
    bo = list(zip(c['ops'][npre:], c['obs'][npre:]))
    for i in range(0, len(bo), 200):
        part = bo[i:i+200]
        chunks.append(dict(id='m%d'%i, world=wn, ops=pre + [x[0] for x in part], obs=c['obs'][:npre] + [x[1] for x in part]))
    t=time.time(); res = coqrun.run_cases(chunks, cfg, '/verif/work/try7'); print(' coq', round(time.time()-t,1), 'mismatching chunks', sum(1 for r in res if r != 'None'))
    for ch, r in zip(chunks, res):
        if r != 'None':
            d = coqrun.parse_diff(r); print(O.to_rust(ch['ops'][d[0]]), '\n model', d[1], '\n impl ', d[2]); break
