"""C12 at real scale: fills one archetype of harness/fill_probe until create panics (16,777,216
entities; about half a second in a release build) and checks
  * against the property: create never fails below the limit, panics exactly at it, capacity never
    decreases and is >= len, create_within_capacity refuses exactly at len == capacity, the world keeps
    working afterwards (destroy, reuse of the freed position, stale handle rejected), with_capacity at
    and beyond the limit;
  * against the model: the capacities passed through equal `growth_seq` (the translated growth formula
    iterated in Coq)."""
import os
import re
import subprocess

ROOT = os.path.dirname(os.path.dirname(os.path.abspath(__file__)))
LIMIT = 1 << 24


def build(repo, cache, debug=False):
    probe = os.path.join(ROOT, 'harness', 'fill_probe')
    toml = os.path.join(probe, 'Cargo.toml')
    t = open(toml).read()
    t2 = re.sub(r'gecs = \{ path = "[^"]*" \}', 'gecs = { path = "%s" }' % repo, t)
    if t2 != t:
        open(toml, 'w').write(t2)
    lock = os.path.join(probe, 'Cargo.lock')
    if not os.path.exists(lock):
        subprocess.run(['cp', os.path.join(repo, 'Cargo.lock'), lock])
    tdir = os.path.join(cache, 'target-fill')
    r = subprocess.run('cargo build --offline %s --target-dir %s' % ('' if debug else '--release', tdir), shell=True, cwd=probe,
                       capture_output=True, text=True, env=dict(os.environ, CARGO_NET_OFFLINE='true'))
    if r.returncode != 0:
        return None, r.stderr[-2000:]
    return os.path.join(tdir, 'debug' if debug else 'release', 'fill_probe'), ''


def run_probe(binary, limit=None, start=0):
    r = subprocess.run([binary, str(limit) if limit else str(1 << 62), str(start)], capture_output=True, text=True, timeout=1800)
    recs = []
    for line in r.stdout.split('\n'):
        f = line.split()
        if f:
            recs.append((f[0], [int(x) for x in f[1:]]))
    return recs, r.returncode


def model_growth(coqdir, cache, start=0):
    path = os.path.join(cache, 'work', 'fill_growth.v')
    os.makedirs(os.path.dirname(path), exist_ok=True)
    open(path, 'w').write('From Coq Require Import NArith List.\nFrom Gecs Require Import Prim ExtrStorage Storage.\n'
                          'Eval vm_compute in (growth_seq 64 %d%%N).\n' % start)
    q = '-Q gen Gecs -Q model Gecs -Q spec Gecs -Q proofs Gecs -Q props Gecs'
    r = subprocess.run('cd %s && coqc -noglob %s -o %s %s' % (coqdir, q, path + 'o', path), shell=True, capture_output=True, text=True)
    if r.returncode != 0:
        return None, (r.stdout + r.stderr)[-1500:]
    body = r.stdout.split(' : ')[0]
    nums = [int(x) for x in re.findall(r'\d+', body)]
    return list(zip(nums[0::2], nums[1::2])), ''


def oracle(recs):
    """Property-level reading of the probe output. Returns a list of (what fails, record)."""
    bad = []
    kinds = [k for k, _ in recs]
    for k, v in recs:
        if k == 'bad':
            bad.append(('len() is not the number of live entities, or capacity() < len(), after %d creations (len %d, capacity %d)' % tuple(v), (k, v)))
        if k == 'within' and v[2] != 0:
            bad.append(('create_within_capacity succeeded at len == capacity == %d' % v[0], (k, v)))
        if k == 'grow' and not (v[0] == v[1] and v[2] > v[1]):
            bad.append(('capacity changed from %d to %d at len %d' % (v[1], v[2], v[0]), (k, v)))
        if k == 'panic' and v[0] != LIMIT:
            bad.append(('create panicked with %d entities, below the limit of 16,777,216' % v[0], (k, v)))
        if k == 'after' and not (v[2] == 1 and v[3] == 1 and v[4] == v[0] and v[5] >= v[1] and v[6] == 1):
            bad.append(('after the limit panic the archetype is not usable as before (destroy ok %d, create ok %d, len %d -> %d, capacity %d -> %d, stale handle rejected %d)'
                        % (v[2], v[3], v[0], v[4], v[1], v[5], v[6]), (k, v)))
        if k == 'sample' and v[1:] != [1, 1, 1, 1, 1, 1]:
            bad.append(('the handle of the entity created as number %d no longer reaches its own entity through every path (typed find, dynamic find, raw round trip, direct find, try_from, contains) = %s'
                        % (v[0], v[1:]), (k, v)))
        if k == 'full':
            # values are (creation ordinal & 0xff); with `len` entities created in order the sum is determined
            want = sum(range(256)) * (v[0] // 256) + sum(range(v[0] % 256))
            names = ['ecs_iter!', None, 'get_all_slices_mut', 'ecs_iter_destroy!', 'ecs_iter_borrow!', 'Archetype::iter']
            for j, nm in enumerate(names):
                if nm and v[1 + j] != v[0]:
                    bad.append(('with %d entities (the maximum) %s %s' % (v[0], nm, 'panicked' if v[1 + j] == -1 else 'presented %d items' % v[1 + j]), (k, v)))
            if v[1] == v[0] and v[2] != want:
                bad.append(('with %d entities (the maximum) ecs_iter! handed the closure wrong component values (sum %d instead of %d)' % (v[0], v[2], want), (k, v)))
        if k == 'wcap' and v[0] <= LIMIT and (v[1] != 0 or v[2] < v[0]):
            bad.append(('with_capacity(%d) panicked or gave capacity %d' % (v[0], v[2]), (k, v)))
        if k == 'wcap' and v[0] > LIMIT and v[1] != 1:
            bad.append(('with_capacity(%d) beyond the limit did not panic' % v[0], (k, v)))
    if 'panic' not in kinds and 'bad' not in kinds and 'limit' not in kinds:
        bad.append(('the fill neither reached the limit panic nor reported a state', ('none', [])))
    return bad


def run(repo, cache, coqdir, debug=False):
    out = dict(error=None, violations=[], correspondence=None, records=0, grows=[], model=[], entities=0, tail=[])
    binary, err = build(repo, cache, debug)
    if binary is None:
        out['error'] = err
        return out
    for start in (0, LIMIT - 1, (LIMIT >> 1) - 1):
        recs, rc = run_probe(binary, start=start)
        out['records'] += len(recs)
        grows = [tuple(v) for k, v in recs if k == 'grow']
        if start == 0:
            out['grows'] = grows
            out['tail'] = [' '.join([k] + [str(x) for x in v]) for k, v in recs[-6:]]
        out['entities'] += max([v[0] for k, v in recs if k in ('panic', 'bad', 'limit')] + [0])
        st = [v for k, v in recs if k == 'start']
        if st and st[0][1] < st[0][0]:
            out['violations'].append(dict(reason='with_capacity(%d) gave capacity %d' % tuple(st[0]), record='start %d %d' % tuple(st[0])))
        out['violations'] += [dict(reason=('[start capacity %d] ' % start) + m, record=' '.join([r[0]] + [str(x) for x in r[1]])) for m, r in oracle(recs)]
        model, err = model_growth(coqdir, cache, start)
        if model is None:
            out['error'] = 'coqc failed on growth_seq: ' + err
            return out
        if start == 0:
            out['model'] = model
        impl = [(v[1], v[2]) for v in grows]
        if impl != model and not out['correspondence']:
            first = next((i for i, (a, b) in enumerate(zip(impl, model)) if a != b), min(len(impl), len(model)))
            out['correspondence'] = ('growth sequence from capacity %d differs from growth_seq (translated formula) at step %d: implementation %s, model %s'
                                     % (start, first, impl[first] if first < len(impl) else None, model[first] if first < len(model) else None))
    return out


if __name__ == '__main__':
    import json, sys
    print(json.dumps(run(sys.argv[1] if len(sys.argv) > 1 else '/repo', os.path.join(ROOT, '.cache'), os.path.join(ROOT, 'coq')), indent=1))
