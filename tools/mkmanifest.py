#!/usr/bin/env python3
"""Writes MANIFEST.json from tools/props.py (one check per claimed property)."""
import json, os, sys
sys.path.insert(0, os.path.dirname(__file__))
from props import PROPS
ROOT = os.path.dirname(os.path.dirname(os.path.abspath(__file__)))
props = [json.loads(l) for l in open(os.path.join(ROOT, 'properties.jsonl'))]
LEVEL = {
 'C01': ('Theorems for every invariant state and every issue history of one archetype storage (accept iff stored; stale rejected; ghost bound preserved by create/grow/destroy) over a model whose arithmetic, guards and effect order are re-translated from storage.rs/slot.rs/version.rs/entity.rs each run; differential runs of every lookup path at world and archetype level against the model; specification oracle on the implementation traces; whole-history theorems by induction over the run language (every operation moves every storage by elementary transitions; a handle that left the dense array is rejected forever; accepted iff stored), with the boolean side condition evaluated on every history run',
         'wrapping_version and generation-lowering presets are excluded by hypothesis (counted in the evidence); the hand-written part of the model is tied by differential execution'),
 'C02': ('Theorems that create/destroy/write/grow/clone change the (handle, row) abstraction exactly as specified, for any number of columns; every read and write path of the implementation compared with the model on generated histories (1..16 columns, ZST, aligned, heap-owning components)',
         'byte layout and alignment of realloc are not modelled (element granularity)'),
 'C03': ('Totality theorems: every 32-bit key against every invariant state gives acceptance of a stored entity, absence or the documented debug assertion, never the model\'s UB outcome; acceptance with a matching archetype id implies bit-identity; run-level: any raw pair with any typing through destroy, every lookup path and to_direct on any reachable state is never UB; forged-handle stream aimed by dumps; known finding F3 stated as a _refuted theorem and reported',
         'memory safety is at element granularity of the model; std::alloc trusted'),
 'C04': ('Theorems that a value enters a cell exactly once (create), leaves only by being handed back (destroy, refused create_within_capacity) or by the storage drop, which takes every initialised cell exactly once, that every column holds exactly len cells and that clone makes one copy per cell; instrumented components with a live-identity registry (Drop/Clone, incl. a zero-sized Drop type) compared with the model\'s accounting after every op and at world drop',
         'dropping is a count/identity abstraction in the model (lists cannot alias); leaks after a panicking Clone/Drop belong to C10'),
 'C05': ('Theorems over the model of bind_query_params/bind_one_of: for every world and every well-formed parameter list the emitted arms are exactly the archetypes satisfying the declarative reading, each parameter bound to its own column, ambiguity and no-match errors exactly as stated; the macro crate\'s own modules driven as a library on generated declarations and queries and compared with the model and with the declarative oracle; run-time half (find on an unmatched archetype returns None) through the storage harness',
         'the binding model is hand-written and tied by differential execution; rustc\'s handling of the emitted arms is exercised by the storage harness worlds only'),
 'C06': ('Theorems that one pass presents exactly len items, item i being the handle and row of dense position i, with pairwise distinct handles, and that Break returns from the single closure wrapping all archetype loops (translated); every iteration path of the implementation (five query macros, iter/iter_mut, slices, entities) compared with the model including Break at every ordinal; closed form of ecs_iter!/ecs_iter_borrow! over a whole world proved by induction (the calls are a prefix of one record per live entity of each matched archetype, ending exactly at the first break or panic)',
         'the loop model (World.iter_arch/iter_world) is hand-written and tied by the correspondence'),
 'C07': ('Storage-level theorems behind the reverse loop (positions below the removed one untouched, the relocated entity comes from the end, the destroyed handle is stored nowhere, the handed-out direct handle is current) plus the translated position of the version read; decision strings over {Continue, Break, ContinueDestroy, BreakDestroy, panic} on the implementation compared with the model and the specification oracle; the loop proved by induction for every decision list (distinct positions in reverse, original row and current accepted direct handle at each visit, stops at the first Break/BreakDestroy, final rows = original rows not both visited and flagged; never UB and invariant also when left by a panic)',
         'the loop model (World.iterd_arch) is hand-written and tied by stream S6; exact surviving rows after a panic are not characterised'),
 'C08': ('Freshness theorem from the ghost generation bound, checked-add overflow theorems over the translated version.rs, injectivity of key packing; histories crossing 2^32 through the preset hook; whole-history theorem: a create never returns a handle stored in that archetype of that world at any earlier point (ghost history with pairwise distinct issued handles, by induction over the run language)',
         'wrapping_version reuse after 2^32-1 releases is the documented exception (C08_wrap_reissues)'),
 'C09': ('Theorems: accepted direct handle designates its dense position with the current version; accepted at issue; survives creates; rejected after any removal (version strictly changes); to_direct validates; the two repaired defects F1/F2 are pinned by translated code facts',
         'storage level; query-issued handles are covered by the model of the macros\' run-time meaning and the correspondence'),
 'C10': ('Theorems that every outcome of create and destroy is an invariant state or the unchanged state (capacity overflow, both generation overflows, debug assertions), resting on the effect order translated from force_destroy this run; fault-injection stream (closure, Clone, Drop panics, overflow via presets) with registry accounting; run-level theorem: every state of every history of the run language, including those left by panicking operations, satisfies the invariant of every storage of every world and no step is UB (side condition evaluated on every history run)',
         'panics inside user closures/Clone/Drop are modelled as oracle decisions; abort-on-double-panic is not modelled'),
 'C11': ('Theorems that the model\'s guard-list rule is exactly RefCell\'s flag discipline (panic iff refused, independence of other cells, shared/shared, release restores, closure guards end with the call, clone rule); the table of which cells each runtime-borrowed API acquires and for how long is compared with the implementation on the whole finite (outer, inner) access matrix (exhaustive) and on random nestings to depth 3 with panics',
         'std::cell::RefCell itself is trusted; the acquisition table is hand-written and tied by the exhaustive differential run'),
 'C12': ('Theorems: with_capacity exact and panics iff > 2^24; create outcome classification with the translated growth formula; create_within_capacity iff len < capacity with capacity unchanged; invariant accounts len <= cap <= 2^24 and free-list length cap - len; the translated growth formula iterated from 0 reaches exactly 2^24; on every run the implementation is filled to 16,777,216 entities until create panics and its capacity sequence is compared with the model\'s',
         'the fill uses one archetype with a u8 component; 2^32 real cycles of one slot are not run (preset hook instead)'),
 'C13': ('Theorem that the clone of an invariant storage is the identical state (with the translated loop bounds); clone audit: identical len/dump/rows/events of original and clone right after cloning, then diverging histories',
         'aliasing between allocations is not expressible in the model (functional values)'),
 'C15': ('Theorems: a successful DataWorld::new yields ids equal to the enum-discriminant rule over the cfg-enabled items, pairwise distinct per scope, implicit ids below 256, and the two failure modes are genuine; first id and successor translated from data.rs; generated declarations (explicit ids ascending, descending, colliding, at 254/255) through the real DataWorld::new',
         'ARCHETYPE_ID/COMPONENT_ID constants and ecs_component_id! as emitted are compared for the harness worlds only'),
 'C16': ('Theorems: for every declaration and truth assignment the world data equals that of the erased declaration; disabled query parameters never exclude an archetype and binding restricted to enabled parameters equals binding of the erased query; cfg on OneOf is always an error; differential: every decorated input against its erased twin through the real macro code',
         'the cfg-probing macro_rules chain and rustc\'s own cfg evaluation are not modelled (the truth assignment is passed in)'),
 'C17': ('Theorems: create and destroy log exactly the handle concerned, once, in the right log; a failed or panicking destroy logs nothing (the push follows the overflow checks in the translated effect order); clear_events only clears; kernel-evaluated instances of the world-level iterator model with exact size_hint; events builds of the harness compared with the model at archetype and world level including size_hint before every next()',
         'the general induction for the world-level iterator over n archetypes is not yet proved (instances only)'),
 'C18': ('PARTIAL. Proved (kernel-evaluated over tables translated from the sources each run): no quote! template of any generator contains unsafe/no_mangle/export_name/link_section/extern/..., no format_ident! pattern other than the bare user name can spell one, the four handle types are Send+Sync for every component assignment and Copy, a storage/world is never Sync and Send iff its components are, the only unsafe impls are DataPtr\'s bounded ones. Validated with rustc as oracle: 14 minimal unsound programs (reference/view/borrow/iterator item/slice kept across a structural change, two &mut to one component, &mut Entity, world shared between threads, non-Send world sent) are rejected for the expected reason and their sound twins compile, all under #![forbid(unsafe_code)]; every expansion produced by the macro crate on generated inputs consists of template tokens, generated identifiers and user tokens',
         'rustc\'s borrow checker and trait solver are the oracle, not modelled; the corpus is finite'),
 'C19': ('Every theorem quantifies over cfg = (wrapping, events, debug) and over the number of columns; isolating theorems: events only adds logs, wrapping only differs at the overflow boundary, debug assertions change exactly one lookup case; streams re-run on events / wrapping_version / 32_components / release builds with the model switched to the same configuration',
         'quick tier covers five of the sixteen feature x profile combinations, thorough all eight feature sets x two profiles'),
 'C14': ('Theorems over the bit-level codecs translated from entity.rs/index.rs/slot.rs on every run (all 2^32 keys, all ids, symbolic) plus differential runs of every conversion against the model',
         'the repr(transparent) reference transmutes are only sampled'),
}
checks = []
for pid in sorted(PROPS):
    text, note = LEVEL[pid]
    checks.append(dict(property_id=pid, quick_cmd='python3 tools/check.py %s --tier quick' % pid,
                       thorough_cmd='python3 tools/check.py %s --tier thorough' % pid,
                       evidence_file='evidence/%s.json' % pid, replay_cmd_template='python3 tools/check.py --replay {path}',
                       engine='coq-model',
                       level_claimed=dict(category='proof', text=text, design_ref='DESIGN.md section 6, ' + pid),
                       level_note='trusted: Coq 8.16.1 kernel (vm_compute), tools/extract.py, the harness and generators, rustc; ' + note,
                       technique='Coq proof over a model tied to the source by translation (regenerated each run) and differential execution'))
claimed = sorted(PROPS)
m = dict(version=1, setup_cmd='bash tools/setup.sh',
         hooks=dict(guard='gecs_verif', enable='RUSTFLAGS="--cfg gecs_verif" (the harness crates under /verif/harness depend on /repo by path)',
                    baseline_off_cmd='cd /repo && cargo test --workspace --no-fail-fast --offline', source_commits=['72960c4'], add_only=True),
         engines=[dict(name='coq-model', path='coq/', serves_properties=claimed,
                       kind_free_text='Coq 8.16.1 development: translated definitions (coq/gen, regenerated by tools/extract.py on every run), executable model (coq/model), specification oracle (coq/spec), proofs and property theorems (coq/proofs, coq/props)'),
                  dict(name='storage_harness', path='harness/storage_harness', serves_properties=claimed,
                       kind_free_text='Rust op interpreter over real gecs worlds built from /repo with --cfg gecs_verif; differential execution against the model')],
         checks=checks,
         notes='fix: commits in /repo: ca76b03 (F2), 113cd6c (F1), 2d1b8a8 (F4); known finding F3 in known_findings.json',
         not_applicable=[dict(property_id=p['id'], reason='check not built yet (work in progress; see DESIGN.md section 6 for the plan)') for p in props if p['id'] not in claimed])
json.dump(m, open(os.path.join(ROOT, 'MANIFEST.json'), 'w'), indent=1)
print('claimed', claimed)
