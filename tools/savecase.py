"""savecase.py <world> <profile> <seed> <index> <upto> <name> <note>: store the prefix of a generated case as a corpus entry."""
import sys, os, json
sys.path.insert(0, os.path.dirname(__file__))
from worlds import WORLDS
import gen_ops
w, prof, seed, idx, upto, name, note = sys.argv[1], sys.argv[2], int(sys.argv[3]), int(sys.argv[4]), int(sys.argv[5]), sys.argv[6], sys.argv[7]
binary = os.environ.get('HBIN', 'harness/storage_harness/target/debug/storage_harness')
cases = gen_ops.generate(binary, WORLDS[w], prof, seed, idx + 1, presets=(prof == 'S7'))
c = cases[idx]
json.dump(dict(world=w, note=note, ops=c['ops'][:upto + 1]), open('corpus/%s.json' % name, 'w'))
print('saved', len(c['ops'][:upto + 1]), 'ops')
