#!/usr/bin/env python3
"""Translator from the gecs Rust sources to Gallina (coq/gen/Extr*.v).

What it translates (and nothing else; anything it cannot find or parse is a hard error, which the
check treats like a broken proof):

  * integer constants, shifts, masks, casts, comparisons and overflow rules of
    entity.rs / index.rs / slot.rs / version.rs / storage.rs, through a small expression
    compiler for the Rust integer-expression subset these files use;
  * the guards of with_capacity / push / push_within_capacity / grow / resolve_entity /
    resolve_direct (boolean functions of the quantities they read);
  * the order of effects inside force_create, force_destroy, grow, Clone::clone and Drop::drop,
    as lists of micro-operations of the model's storage machine (the model *interprets* these
    lists, so reordering statements in the source changes the model);
  * three code facts of the generators: whether to_direct on a direct key validates it, where
    ecs_iter_destroy! reads the archetype version, and how world-level dynamic keys that name no
    archetype are handled.

Usage: extract.py <repo> <outdir>
"""
import os
import re
import sys


class ExtractError(Exception):
    pass


# ----------------------------------------------------------------------------- source utilities

def strip_comments(src):
    out = []
    i, n = 0, len(src)
    while i < n:
        if src.startswith('//', i):
            j = src.find('\n', i)
            i = n if j < 0 else j
        elif src.startswith('/*', i):
            j = src.find('*/', i)
            i = n if j < 0 else j + 2
        elif src[i] == '"':
            j = i + 1
            while j < n and src[j] != '"':
                j += 2 if src[j] == '\\' else 1
            out.append(src[i:j + 1])
            i = j + 1
        else:
            out.append(src[i])
            i += 1
    return ''.join(out)


def norm(s):
    return re.sub(r'\s+', ' ', s).strip()


def match_brace(src, open_idx):
    assert src[open_idx] == '{'
    depth = 0
    i = open_idx
    while i < len(src):
        c = src[i]
        if c == '"':
            j = i + 1
            while src[j] != '"':
                j += 2 if src[j] == '\\' else 1
            i = j
        elif c == '{':
            depth += 1
        elif c == '}':
            depth -= 1
            if depth == 0:
                return i
        i += 1
    raise ExtractError('unbalanced braces')


def block_after(src, pattern, start=0, what=None):
    """Body (without the outer braces) of the first `{...}` block following regex `pattern`."""
    m = re.compile(pattern, re.S).search(src, start)
    if not m:
        raise ExtractError('anchor not found: %s' % (what or pattern))
    o = src.find('{', m.end() - 1)
    c = match_brace(src, o)
    return src[o + 1:c], c


def fn_body(src, name, start=0, within=None):
    scope = src
    if within is not None:
        scope, _ = block_after(src, within, what=within)
    body, _ = block_after(scope, r'\bfn\s+' + re.escape(name) + r'\s*(<[^{;]*?>)?\s*\(', start, what='fn ' + name)
    return body


def const_expr(src, name):
    m = re.search(r'\bconst\s+' + re.escape(name) + r'\s*:\s*([A-Za-z0-9_:]+)\s*=\s*([^;]+);', src)
    if not m:
        raise ExtractError('const %s not found' % name)
    return m.group(1), m.group(2)


# ----------------------------------------------------------------------------- expression compiler

TOKEN_RE = re.compile(r'\s*(?:(\d[\d_]*)(?:u8|u32|u64|usize)?|([A-Za-z_][A-Za-z0-9_]*(?:::[A-Za-z_][A-Za-z0-9_]*)*)|(<<|>>|<=|>=|==|!=|\|\||&&|[-+*|&!<>().,]))')


def tokenize(s):
    toks, i = [], 0
    s = s.strip()
    while i < len(s):
        m = TOKEN_RE.match(s, i)
        if not m or m.end() == i:
            raise ExtractError('cannot tokenize %r at %r' % (s, s[i:i + 20]))
        if m.group(1) is not None:
            toks.append(('num', int(m.group(1).replace('_', ''))))
        elif m.group(2) is not None:
            toks.append(('id', m.group(2)))
        else:
            toks.append(('op', m.group(3)))
        i = m.end()
    return toks


WIDTHS = {'u8': 8, 'u32': 32, 'u64': 64, 'usize': 64, 'ArchetypeId': None}

BINOPS = [  # precedence low -> high
    ['||'], ['&&'], ['==', '!=', '<', '<=', '>', '>='], ['|'], ['&'], ['<<', '>>'], ['+', '-'], ['*'],
]


class Parser:
    """Pratt-style parser producing Gallina text; `env` maps Rust atoms to (gallina, width)."""

    def __init__(self, toks, env, width, type_widths):
        self.t, self.i, self.env, self.w, self.tw = toks, 0, env, width, type_widths

    def peek(self):
        return self.t[self.i] if self.i < len(self.t) else (None, None)

    def eat(self, kind=None, val=None):
        k, v = self.peek()
        if (kind and k != kind) or (val is not None and v != val):
            raise ExtractError('expected %s %s, got %s %s' % (kind, val, k, v))
        self.i += 1
        return v

    def parse(self):
        e = self.binary(0)
        if self.i != len(self.t):
            raise ExtractError('trailing tokens: %r' % (self.t[self.i:],))
        return e

    def binary(self, level):
        if level == len(BINOPS):
            return self.cast()
        lhs = self.binary(level + 1)
        while self.peek()[0] == 'op' and self.peek()[1] in BINOPS[level]:
            op = self.eat()
            rhs = self.binary(level + 1)
            lhs = self.emit_bin(op, lhs, rhs)
        return lhs

    def emit_bin(self, op, a, b):
        w = self.w
        return {
            '||': '(orb %s %s)', '&&': '(andb %s %s)',
            '==': '(N.eqb %s %s)', '!=': '(neqb %s %s)',
            '<': '(N.ltb %s %s)', '<=': '(N.leb %s %s)',
            '>': '(N.ltb %(b)s %(a)s)', '>=': '(N.leb %(b)s %(a)s)',
            '|': '(N.lor %s %s)', '&': '(N.land %s %s)',
            '<<': '(shl %d %%s %%s)' % w, '>>': '(shr %s %s)',
            '+': '(%s + %s)', '-': '(%s - %s)', '*': '(%s * %s)',
        }[op] % ({'a': a, 'b': b} if op in ('>', '>=') else (a, b))

    def cast(self):
        e = self.unary()
        while self.peek() == ('id', 'as'):
            self.eat()
            ty = self.eat('id')
            wd = self.tw.get(ty, WIDTHS.get(ty))
            if wd is None:
                raise ExtractError('unknown cast target %s' % ty)
            # widening casts are the identity on N; narrowing ones truncate
            if wd < self.w or wd == 8:
                e = '(%s mod 2^%d)' % (e, wd)
        return e

    def unary(self):
        if self.peek() == ('op', '!'):
            self.eat()
            return '(bnot %d %s)' % (self.w, self.unary())
        return self.postfix()

    def postfix(self):
        e = self.atom()
        while self.peek() == ('op', '.'):
            self.eat()
            m = self.eat('id')
            args = []
            if self.peek() == ('op', '('):
                self.eat()
                while self.peek() != ('op', ')'):
                    args.append(self.binary(0))
                    if self.peek() == ('op', ','):
                        self.eat()
                self.eat('op', ')')
            w = self.w
            if m in ('get', 'into', 'clone') and not args:
                pass
            elif m == 'wrapping_add':
                e = '(wrapping_add %d %s %s)' % (w, e, args[0])
            elif m == 'checked_add':
                e = '(checked_add %d %s %s)' % (w, e, args[0])
            elif m == 'saturating_add':
                e = '(saturating_add %d %s %s)' % (w, e, args[0])
            elif m == 'saturating_mul':
                e = '(saturating_mul %d %s %s)' % (w, e, args[0])
            elif m == 'min':
                e = '(N.min %s %s)' % (e, args[0])
            elif m == 'unwrap_or':
                e = '(unwrap_or %s %s)' % (e, args[0])
            elif m == 'expect':
                pass  # `opt.expect(msg)`: the option itself is the translation (None = panic)
            elif (e, m) in self.env:
                e = self.env[(e, m)]
            else:
                raise ExtractError('unknown method .%s on %s' % (m, e))
        return e

    def atom(self):
        k, v = self.peek()
        if k == 'num':
            self.eat()
            return str(v)
        if k == 'op' and v == '(':
            self.eat()
            e = self.binary(0)
            self.eat('op', ')')
            return e
        if k == 'id':
            self.eat()
            if v == 'NonZeroU32::new':
                self.eat('op', '(')
                a = self.binary(0)
                self.eat('op', ')')
                return '(nonzero_new %s)' % a
            if v in self.env:
                return self.env[v]
            raise ExtractError('unknown atom %s' % v)
        raise ExtractError('unexpected token %s %s' % (k, v))


def compile_expr(text, env, width=32, type_widths=None):
    toks = [t if t != ('id', 'true') else ('id', 'true') for t in tokenize(text)]
    # a string literal argument of expect(...) was left in the text: drop it
    return Parser(toks, env, width, type_widths or {}).parse()


def drop_strings(s):
    return re.sub(r'"[^"]*"', '', s)


# ----------------------------------------------------------------------------- the individual files

HEADER = '(* @generated by tools/extract.py from %s -- do not edit *)\n'


def extract_bits(repo):
    ent = strip_comments(open(os.path.join(repo, 'src/entity.rs')).read())
    idx = strip_comments(open(os.path.join(repo, 'src/index.rs')).read())
    slot = strip_comments(open(os.path.join(repo, 'src/archetype/slot.rs')).read())

    m = re.search(r'pub\s+type\s+ArchetypeId\s*=\s*(u8|u16|u32)\s*;', ent)
    if not m:
        raise ExtractError('type ArchetypeId not found')
    aid_w = int(m.group(1)[1:])
    tw = {'ArchetypeId': aid_w}
    env = {'ArchetypeId::BITS': str(aid_w), 'u32::BITS': '32'}
    out = [HEADER % 'src/entity.rs, src/index.rs, src/archetype/slot.rs',
           'From Coq Require Import NArith Bool.\nFrom Gecs Require Import Prim.\nOpen Scope N_scope.\n']

    def const(src, name, width=32):
        _ty, e = const_expr(src, name)
        g = compile_expr(e, env, width, tw)
        out.append('Definition %s : N := %s.' % (name, g))
        env[name] = name

    out.append('Definition ARCHETYPE_ID_WIDTH : N := %d.' % aid_w)
    const(ent, 'ARCHETYPE_ID_BITS')
    const(idx, 'MAX_DATA_CAPACITY')
    const(idx, 'MAX_DATA_INDEX')
    const(slot, 'FREE_BIT')
    const(slot, 'FREE_LIST_END')

    # --- entity.rs: key packing / unpacking
    def key_pack(impl, field, gname):
        body = fn_body(ent, 'new', within=r'impl\s+' + impl + r'\s*\{')
        m = re.search(r'let\s+key\s*=\s*([^;]+);', body)
        if not m:
            raise ExtractError('%s::new: key expression not found' % impl)
        e = compile_expr(m.group(1), dict(env, **{field: field, 'archetype_id': 'archetype_id'}), 32, tw)
        out.append('Definition %s (%s archetype_id : N) : N := %s.' % (gname, field, e))

    key_pack('EntityAny', 'slot_index', 'pack_key')
    key_pack('EntityDirectAny', 'dense_index', 'pack_dkey')

    def key_field(impl, fname, gname):
        body = norm(fn_body(ent, fname, within=r'impl\s+' + impl + r'\s*\{'))
        if fname == 'archetype_id':
            m = re.fullmatch(r'(self\.key as ArchetypeId)', body)
        else:
            m = re.search(r'TrimmedIndex::new_u32\((.+?)\)\.unwrap_unchecked\(\)', body)
        if not m:
            raise ExtractError('%s::%s: unexpected body %r' % (impl, fname, body))
        e = compile_expr(m.group(1), dict(env, **{'self.key': 'key'}), 32, tw)
        out.append('Definition %s (key : N) : N := %s.' % (gname, e))

    # `self.key` is tokenized as id `self` . `key`; register it as a method-style atom
    env[('self', 'key')] = 'key'
    env['self'] = 'self'
    key_field('EntityAny', 'archetype_id', 'key_arch_id')
    key_field('EntityAny', 'slot_index', 'key_index')
    key_field('EntityDirectAny', 'archetype_id', 'dkey_arch_id')
    key_field('EntityDirectAny', 'dense_index', 'dkey_index')

    # --- entity.rs: the word fed to the hasher
    def hash_word(impl, gname):
        body = fn_body(ent, 'hash', within=r'impl\s+Hash\s+for\s+' + impl + r'\s*\{')
        nb = norm(body)
        if not re.search(r'let index: u64 = self\.key\.into\(\); let version: u64 = self\.version\.get\(\)\.get\(\)\.into\(\);', nb):
            raise ExtractError('%s::hash: unexpected prelude' % impl)
        m = re.search(r'let\s+combined\s*=\s*([^;]+);\s*combined\.hash\(state\)', body)
        if not m:
            raise ExtractError('%s::hash: combined expression not found' % impl)
        e = compile_expr(m.group(1), {'index': 'index', 'version': 'version'}, 64, tw)
        out.append('Definition %s (index version : N) : N := %s.' % (gname, e))

    hash_word('EntityAny', 'hash_word')
    hash_word('EntityDirectAny', 'dhash_word')

    # --- entity.rs / version.rs: == on handles is structural (derived on the two untyped handles and on the two
    #     version newtypes; the typed handles compare their inner untyped handle), so it is equality of the bit pair
    vsrc = strip_comments(open(os.path.join(repo, 'src/version.rs')).read())
    def derives(src, struct, fields):
        m = re.search(r'#\[derive\(([^)]*)\)\]\s*pub struct %s \{\s*%s\s*\}' % (struct, fields), src)
        return bool(m) and {'Eq', 'PartialEq'} <= set(x.strip() for x in m.group(1).split(','))
    eq_ok = (derives(ent, 'EntityAny', r'key: u32,\s*version: SlotVersion,') and derives(ent, 'EntityDirectAny', r'key: u32,\s*version: ArchetypeVersion,')
             and derives(vsrc, 'SlotVersion', r'version: NonZeroU32,') and derives(vsrc, 'ArchetypeVersion', r'version: NonZeroU32,')
             and all(norm(fn_body(ent, 'eq', within=r'impl<A: Archetype> PartialEq for ' + re.escape(t) + r'\s*\{')) == 'self.inner == other.inner' for t in ('Entity<A>', 'EntityDirect<A>'))
             and len(re.findall(r'PartialEq\s+for', ent + vsrc)) == 2 and len(re.findall(r'\bfn (?:eq|ne)\b', ent + vsrc)) == 2)
    out.append('Definition handle_eq_is_structural : bool := %s.' % ('true' if eq_ok else 'false'))

    # --- entity.rs: from_raw accepts exactly the non-zero versions
    body = norm(fn_body(ent, 'from_raw', within=r'impl\s+EntityAny\s*\{'))
    if not re.search(r'let \(key, version\) = raw; let version = SlotVersion::new\(NonZeroU32::new\(version\)\.ok_or\(EcsError::InvalidRawEntity\)\?\); Ok\(Self \{ key, version \}\)', body):
        raise ExtractError('EntityAny::from_raw: unexpected body')
    out.append('Definition raw_ok (version : N) : bool := match nonzero_new version with Some _ => true | None => false end.')
    body = norm(fn_body(ent, 'raw', within=r'impl\s+EntityAny\s*\{'))
    if body != '(self.key, self.version.get().get())':
        raise ExtractError('EntityAny::raw: unexpected body')

    # --- entity.rs: conversions keep the bits and test the packed id
    for impl, name in ((r'impl<A: Archetype> TryFrom<EntityAny> for Entity<A>', 'try_from'),
                       (r'impl<A: Archetype> TryFrom<EntityDirectAny> for EntityDirect<A>', 'try_from')):
        body = norm(fn_body(ent, name, within=re.escape(impl) + r'\s*\{'))
        if body != 'if entity.archetype_id() == A::ARCHETYPE_ID { Ok(Self { inner: entity, _type: PhantomData, }) } else { Err(EcsError::InvalidEntityType) }':
            raise ExtractError('%s: unexpected body %r' % (impl, body))
    for impl in ('Entity<A>', 'EntityDirect<A>'):
        body = norm(fn_body(ent, 'from_any', within=r'impl<A: Archetype> ' + re.escape(impl) + r'\s*\{'))
        if body != 'if entity.archetype_id() != A::ARCHETYPE_ID { panic!("invalid entity conversion"); } Self { inner: entity, _type: PhantomData, }':
            raise ExtractError('%s::from_any: unexpected body %r' % (impl, body))
        body = norm(fn_body(ent, 'from_any_unchecked', within=r'impl<A: Archetype> ' + re.escape(impl) + r'\s*\{'))
        if body != 'debug_assert!(entity.archetype_id() == A::ARCHETYPE_ID); Self { inner: entity, _type: PhantomData, }':
            raise ExtractError('%s::from_any_unchecked: unexpected body %r' % (impl, body))
    out.append('Definition conv_ok (key aid : N) : bool := N.eqb (key_arch_id key) aid.')
    out.append('Definition dconv_ok (key aid : N) : bool := N.eqb (dkey_arch_id key) aid.')

    # --- index.rs: TrimmedIndex bound
    for f in ('new_u32', 'new_usize'):
        body = norm(fn_body(idx, f))
        m = re.match(r'match (index < MAX_DATA_CAPACITY(?: as usize)?) \{ true => Some\(Self\(index(?: as u32)?\)\), false => None, \}', body)
        if not m:
            raise ExtractError('TrimmedIndex::%s: unexpected body %r' % (f, body))
        e = compile_expr(m.group(1), dict(env, index='index'), 64, tw)
        out.append('Definition trimmed_ok_%s (index : N) : bool := %s.' % (f[4:], e))

    # --- slot.rs: SlotIndex codec
    senv = dict(env)
    senv[('self', '0')] = 'x'
    senv['Into::<u32>::into'] = None

    def slot_fn(fname, gname, pattern, args='x', ret='N', extra_env=None):
        body = norm(fn_body(slot, fname, within=r'impl\s+SlotIndex\s*\{'))
        body = re.sub(r'const \{ assert!\(.*?\) \};', '', body).strip()
        body = re.sub(r'debug_assert!\(.*?\);', '', body).strip()
        m = re.fullmatch(pattern, body)
        if not m:
            raise ExtractError('SlotIndex::%s: unexpected body %r' % (fname, body))
        text = m.group(1).replace('Into::<u32>::into(index)', 'index').replace('self.0', 'x')
        e = compile_expr(text, dict(env, index='index', x='x', **(extra_env or {})), 32, tw)
        out.append('Definition %s (%s : N) : %s := %s.' % (gname, args, ret, e))

    slot_fn('new_data', 'si_new_data', r'Self\((.+)\)', args='index')
    slot_fn('new_free', 'si_new_free', r'Self\((.+)\)', args='index')
    slot_fn('is_free', 'si_is_free', r'(.+)', ret='bool')
    slot_fn('is_free_end', 'si_is_free_end', r'(.+)', ret='bool')
    slot_fn('index_data', 'si_index_data',
            r'match self\.is_free_end\(\) \{ true => None, false => unsafe \{ Some\(TrimmedIndex::new_u32\((.+)\)\.unwrap_unchecked\(\)\) \}, \}')
    slot_fn('index_free', 'si_index_free',
            r'match self\.is_free_end\(\) \{ true => None, false => unsafe \{ Some\(TrimmedIndex::new_u32\((.+)\)\.unwrap_unchecked\(\)\) \}, \}')
    body = norm(fn_body(slot, 'free_end', within=r'impl\s+SlotIndex\s*\{'))
    if body != 'Self(FREE_LIST_END)':
        raise ExtractError('SlotIndex::free_end: unexpected body')

    # --- slot.rs: populate_free_list (the shape of the loop, with its three expressions translated)
    body = norm(fn_body(slot, 'populate_free_list', within=r'impl\s+Slot\s*\{'))
    pat = (r'if slots\.len\(\) > 0 \{ let start_idx = start\.into\(\); let end_idx = (.+?); '
           r'for idx in start_idx\.\.end_idx \{ let next = TrimmedIndex::new_usize\((.+?)\)\.unwrap\(\); '
           r'let slot = Slot::new_free\(SlotIndex::new_free\(next\)\); slots\.get_mut\(idx\)\.unwrap\(\)\.write\(slot\); \} '
           r'let last_slot = Slot::new_free\(SlotIndex::free_end\(\)\); slots\.get_mut\(end_idx\)\.unwrap\(\)\.write\(last_slot\); '
           r'SlotIndex::new_free\(start\) \} else \{ SlotIndex::free_end\(\) \}')
    m = re.fullmatch(pat, body)
    if not m:
        raise ExtractError('Slot::populate_free_list: unexpected shape %r' % body)
    e_end = compile_expr(m.group(1).replace('slots.len()', 'n'), {'n': 'n'}, 64, tw)
    e_next = compile_expr(m.group(2), {'idx': 'idx'}, 64, tw)
    out.append('(* populate_free_list(start, slots[0..n]) for n > 0: slots start..end_idx link to pf_next, slot end_idx ends the list *)')
    out.append('Definition pf_end_idx (n : N) : N := %s.' % e_end)
    out.append('Definition pf_next (idx : N) : N := %s.' % e_next)
    # Slot::new_free starts at the start version; assign keeps the version; release bumps it
    body = norm(fn_body(slot, 'new_free', within=r'impl\s+Slot\s*\{'))
    if body != 'debug_assert!(next_free.is_free()); Self { index: next_free, version: SlotVersion::start(), }':
        raise ExtractError('Slot::new_free: unexpected body')
    body = norm(fn_body(slot, 'assign', within=r'impl\s+Slot\s*\{'))
    if body != 'self.index = SlotIndex::new_data(index_data);':
        raise ExtractError('Slot::assign: unexpected body')
    return '\n'.join(out) + '\n'


def extract_version(repo):
    ver = strip_comments(open(os.path.join(repo, 'src/version.rs')).read())
    out = [HEADER % 'src/version.rs',
           'From Coq Require Import NArith Bool.\nFrom Gecs Require Import Prim.\nOpen Scope N_scope.\n']
    _ty, e = const_expr(ver, 'VERSION_START')
    if norm(e) != 'NonZeroU32::MIN':
        raise ExtractError('VERSION_START: expected NonZeroU32::MIN, got %r' % e)
    out.append('Definition VERSION_START : N := 1. (* NonZeroU32::MIN *)')
    env = {'VERSION_START': 'VERSION_START', ('self', 'version'): 'v', 'self': 'self'}
    for impl, g, msg in (('SlotVersion', 'slot_next', 'slot version overflow'),
                         ('ArchetypeVersion', 'arch_next', 'arch version overflow')):
        body = norm(fn_body(ver, 'next', within=r'impl\s+' + impl + r'\s*\{'))
        m = re.fullmatch(impl + r' \{ #\[cfg\(feature = "wrapping_version"\)\] version: (.+?), '
                         r'#\[cfg\(not\(feature = "wrapping_version"\)\)\] version: (.+?), \}', body)
        if not m:
            raise ExtractError('%s::next: unexpected body %r' % (impl, body))
        if '.expect("%s")' % msg not in m.group(2):
            raise ExtractError('%s::next: checked variant must panic with %r' % (impl, msg))
        wrap = compile_expr(drop_strings(m.group(1)), env, 32)
        chk = compile_expr(drop_strings(m.group(2)), env, 32)
        out.append('(* None = the `expect` panic *)')
        out.append('Definition %s (wrapping : bool) (v : N) : option N :=\n  if wrapping then Some %s else %s.' % (g, wrap, chk))
        body = norm(fn_body(ver, 'start', within=r'impl\s+' + impl + r'\s*\{'))
        if body != 'Self { version: VERSION_START, }':
            raise ExtractError('%s::start: unexpected body' % impl)
    return '\n'.join(out) + '\n'


# Effect statements of the storage functions: (label, regex on the normalised statement).
# The model's micro-step interpreter gives each label its meaning (coq/model/Storage.v).
DESTROY_EFFECTS = [
    ('DNextArch', r'let next_version = self\.version\.next\(\);'),
    ('DNextSlot', r'let next_slot_version = self \.slots \.slice\(self\.capacity\(\)\) \.get_unchecked\(slot_index_usize\) \.version\(\) \.next\(\);'),
    ('DEvent', r'#\[cfg\(feature = "events"\)\] \{ self\.destroyed\.push\(\*entities\.get_unchecked\(dense_index_usize\)\); \}'),
    ('DReadLast', r'let last_dense_index = self\.len - 1; let last_entity = \*entities\.get_unchecked\(last_dense_index\); let last_slot_index: usize = last_entity\.slot_index\(\)\.into\(\);'),
    ('DSwapEnts', r'self\.entities\.swap_remove\(dense_index_usize, self\.len\);'),
    ('DSwapCols', r'let result = <A::Components as \$components<#\(T~I,\)\*>>::raw_new\( #\(self\.d~I\.get_mut\(\)\.swap_remove\(dense_index_usize, self\.len\),\)\* \);'),
    ('DAssignLast', r'slots \.get_unchecked_mut\(last_slot_index\) \.assign\(dense_index\);'),
    ('DRelease', r'slots \.get_unchecked_mut\(slot_index_usize\) \.release\(self\.free_head\);'),
    ('DReleaseWith', r'slots \.get_unchecked_mut\(slot_index_usize\) \.release\(self\.free_head, next_slot_version\);'),
    ('DBumpArch', r'self\.version = self\.version\.next\(\);'),
    ('DSetArch', r'self\.version = next_version;'),
    ('DSetHead', r'self\.free_head = SlotIndex::new_free\(slot_index\);'),
    ('DDecLen', r'self\.len -= 1;'),
]
DESTROY_SKIP = [
    r'let \(slot_index, dense_index\) = indices;',
    r'let slot_index_usize: usize = slot_index\.into\(\);', r'let dense_index_usize: usize = dense_index\.into\(\);',
    r'debug_assert!\(.*?\);', r'debug_assert_eq!\(.*?\);',
    r'let entities = self\.entities\.slice\(self\.len\);',
    r'let slots = self\.slots\.slice_mut\(self\.capacity\(\)\);',
    r'let result = unsafe \{', r'result \};', r'result$',
]

CREATE_EFFECTS = [
    ('CPopFree', r'let slot_index = self\.free_head\.index_free\(\)\.unwrap_unchecked\(\);'),
    ('CDenseIndex', r'let dense_index = TrimmedIndex::new_usize\(self\.len\)\.unwrap_unchecked\(\);'),
    ('CSetHead', r'self\.free_head = slot\.index\(\);'),
    ('CAssign', r'slot\.assign\(dense_index\);'),
    ('CMakeEntity', r'let entity = Entity::new\(slot_index, slot\.version\(\)\);'),
    ('CIncLen', r'let index = self\.len; self\.len \+= 1;'),
    ('CWriteEnt', r'self\.entities\.write\(index, entity\);'),
    ('CWriteCols', r'#\(self\.d~I\.get_mut\(\)\.write\(index, data\.I\);\)\*'),
    ('CEvent', r'#\[cfg\(feature = "events"\)\] \{ self\.created\.push\(entity\); \}'),
]
CREATE_SKIP = [
    r'debug_assert!\(.*?\);', r'debug_checked_assume!\(.*?\);', r'unsafe \{',
    r'let slots = self\.slots\.slice_mut\(self\.capacity\(\)\);',
    r'let slot = slots\.get_unchecked_mut\(Into::<usize>::into\(slot_index\)\);',
    r'let data = data\.raw_get\(\);', r'entity \}$',
]

GROW_EFFECTS = [
    ('GGrowSlots', r'self\.slots\.grow\(self\.capacity, new_capacity\);'),
    ('GGrowEnts', r'self\.entities\.grow\(self\.capacity, new_capacity\);'),
    ('GGrowCols', r'#\(self\.d~I\.get_mut\(\)\.grow\(self\.capacity, new_capacity\);\)\*'),
    ('GPopulate', r'let free_start = TrimmedIndex::new_usize\(self\.len\)\.unwrap_unchecked\(\); let slots = self\.slots\.raw_data\(new_capacity\); self\.free_head = Slot::populate_free_list\(free_start, slots\);'),
    ('GSetCap', r'self\.capacity = new_capacity;'),
]
GROW_SKIP = [r'debug_assert!\(.*?\);', r'unsafe \{', r'\} true$']


def effect_list(body, effects, skips, what):
    s = norm(body)
    out = []
    while s:
        s = s.lstrip()
        if not s:
            break
        for pat in skips:
            m = re.match(pat, s)
            if m:
                s = s[m.end():]
                break
        else:
            for label, pat in effects:
                m = re.match(pat, s)
                if m:
                    out.append(label)
                    s = s[m.end():]
                    break
            else:
                raise ExtractError('%s: unrecognised statement at %r' % (what, s[:100]))
    return out


def extract_storage(repo):
    st = strip_comments(open(os.path.join(repo, 'src/archetype/storage.rs')).read())
    out = [HEADER % 'src/archetype/storage.rs',
           'From Coq Require Import NArith Bool List.\nFrom Gecs Require Import Prim ExtrBits.\nImport ListNotations.\nOpen Scope N_scope.\n']
    env = {'MAX_DATA_CAPACITY': 'MAX_DATA_CAPACITY'}
    tw = {}
    main_impl = r'impl<A: Archetype, #\(T~I,\)\*> \$name<A, #\(T~I,\)\*>\s*where\s*A::Components: \$components<#\(T~I,\)\*>,\s*\{'
    scope, _ = block_after(st, main_impl, what='impl StorageN')

    # with_capacity
    body = norm(fn_body(scope, 'with_capacity'))
    m = re.search(r'if (capacity > MAX_DATA_CAPACITY as usize) \{ panic!\("capacity may not exceed \{\}", MAX_DATA_CAPACITY\); \}', body)
    if not m:
        raise ExtractError('with_capacity: guard not found')
    out.append('Definition with_capacity_panics (capacity : N) : bool := %s.' % compile_expr(m.group(1), dict(env, capacity='capacity'), 64, tw))
    if 'let free_head = Slot::populate_free_list(TrimmedIndex::zero(), raw_data);' not in body or \
       'version: ArchetypeVersion::start(), len: 0, capacity, free_head, slots, entities: DataPtr::with_capacity(capacity),' not in body:
        raise ExtractError('with_capacity: unexpected construction')

    senv = dict(env)
    senv[('self', 'len')] = 'len'
    senv[('self', 'capacity')] = 'cap'
    senv['self'] = 'self'

    # push / push_within_capacity
    body = norm(fn_body(scope, 'push'))
    m = re.fullmatch(r'debug_assert!\(self\.len <= self\.capacity\(\)\); if (.+?) \{ debug_assert!\(self\.free_head\.is_free_end\(\)\); '
                     r'if self\.grow\(\) == false \{ panic!\("capacity overflow"\); \} \} unsafe \{ self\.force_create\(data\) \}', body)
    if not m:
        raise ExtractError('push: unexpected body %r' % body)
    out.append('Definition push_needs_grow (len cap : N) : bool := %s.' % compile_expr(m.group(1), senv, 64, tw))
    body = norm(fn_body(scope, 'push_within_capacity'))
    m = re.fullmatch(r'debug_assert!\(self\.len <= self\.capacity\(\)\); if (.+?) \{ debug_assert!\(self\.free_head\.is_free_end\(\)\); '
                     r'return Err\(data\); \} Ok\(unsafe \{ self\.force_create\(data\) \}\)', body)
    if not m:
        raise ExtractError('push_within_capacity: unexpected body %r' % body)
    out.append('Definition push_within_full (len cap : N) : bool := %s.' % compile_expr(m.group(1), senv, 64, tw))

    # grow
    gbody = fn_body(scope, 'grow')
    nb = norm(gbody)
    m = re.match(r'if (.+?) \{ return false; \} debug_assert!\(self\.len == self\.capacity\); '
                 r'let new_capacity = (.+?); let new_capacity = (.+?); unsafe \{(.*)$', nb)
    if not m:
        raise ExtractError('grow: unexpected prelude %r' % nb[:200])
    out.append('Definition grow_refused (cap : N) : bool := %s.' % compile_expr(m.group(1), senv, 64, tw))
    e1 = compile_expr(m.group(2), senv, 64, tw)
    e2 = compile_expr(m.group(3), dict(senv, new_capacity='new_capacity'), 64, tw)
    out.append('Definition grow_capacity (cap : N) : N := let new_capacity := %s in %s.' % (e1, e2))
    eff = effect_list(m.group(4), GROW_EFFECTS, GROW_SKIP, 'grow')
    out.append('Inductive gstep := GGrowSlots | GGrowEnts | GGrowCols | GPopulate | GSetCap.')
    out.append('Definition grow_prog : list gstep := [%s].' % '; '.join(eff))

    # resolve_entity
    body = norm(fn_body(scope, 'resolve_entity'))
    pats = [
        ('re_guard_empty', r'if (self\.len == 0) \{ return None; \}', ['len']),
        ('re_guard_oob', r'if (slot_index_usize >= self\.capacity\(\)) \{ return None; \}', ['slot_index_usize', 'cap']),
    ]
    for g, pat, args in pats:
        m = re.search(pat, body)
        if not m:
            raise ExtractError('resolve_entity: %s not found' % g)
        e = compile_expr(m.group(1), dict(senv, slot_index_usize='slot_index_usize'), 64, tw)
        out.append('Definition %s (%s : N) : bool := %s.' % (g, ' '.join(args), e))
    m = re.search(r'if (\(slot\.version\(\) != entity\.version\(\)\) \|\| slot\.is_free\(\)) \{ return None; \}', body)
    if not m:
        raise ExtractError('resolve_entity: stale guard not found')
    e = m.group(1).replace('slot.version()', 'slot_version').replace('entity.version()', 'entity_version').replace('slot.is_free()', 'slot_is_free')
    e = compile_expr(e, {'slot_version': 'slot_version', 'entity_version': 'entity_version', 'slot_is_free': 'slot_is_free'}, 32, tw)
    out.append('Definition re_guard_stale (slot_version entity_version : N) (slot_is_free : bool) : bool := %s.' % e)
    order = [body.find('if self.len == 0'), body.find('if slot_index_usize >= self.capacity()'),
             body.find('slots.get_unchecked(slot_index_usize)'), body.find('if (slot.version() != entity.version())'),
             body.find('slot.index().index_data().unwrap_unchecked()'), body.find('Some((slot_index, dense_index))')]
    if -1 in order or order != sorted(order):
        raise ExtractError('resolve_entity: guards are not in the expected order')

    # resolve_direct (the private one)
    body = norm(fn_body(scope, 'resolve_direct'))
    pats = [
        ('rd_guard_empty', r'if (self\.len == 0) \{ return None; \}', 'len', None),
        ('rd_guard_version', r'if (entity\.version\(\) != self\.version\(\)) \{ return None; \}', 'entity_version storage_version', None),
        ('rd_guard_oob', r'if (dense_index_usize >= self\.len\(\)) \{ return None; \}', 'dense_index_usize len', None),
    ]
    last = -1
    for g, pat, args, _ in pats:
        m = re.search(pat, body)
        if not m or m.start() < last:
            raise ExtractError('resolve_direct: %s not found (or out of order)' % g)
        last = m.start()
        e = m.group(1).replace('entity.version()', 'entity_version').replace('self.version()', 'storage_version').replace('self.len()', 'len')
        e = compile_expr(e, dict(senv, entity_version='entity_version', storage_version='storage_version', dense_index_usize='dense_index_usize', len='len'), 64, tw)
        out.append('Definition %s (%s : N) : bool := %s.' % (g, args, e))
    if not re.search(r'let lookup = entities\.get_unchecked\(dense_index_usize\); let slot_index = lookup\.slot_index\(\);', body) or \
       'Some((slot_index, dense_index))' not in body[last:]:
        raise ExtractError('resolve_direct: unexpected tail')

    # force_create / force_destroy
    eff = effect_list(fn_body(scope, 'force_create'), CREATE_EFFECTS, CREATE_SKIP, 'force_create')
    out.append('Inductive cstep := CPopFree | CDenseIndex | CSetHead | CAssign | CMakeEntity | CIncLen | CWriteEnt | CWriteCols | CEvent.')
    out.append('Definition force_create_prog : list cstep := [%s].' % '; '.join(eff))
    eff = effect_list(fn_body(scope, 'force_destroy'), DESTROY_EFFECTS, DESTROY_SKIP, 'force_destroy')
    out.append('Inductive dstep := DNextArch | DNextSlot | DEvent | DReadLast | DSwapEnts | DSwapCols | DAssignLast | DRelease | DReleaseWith | DBumpArch | DSetArch | DSetHead | DDecLen.')
    out.append('Definition force_destroy_prog : list dstep := [%s].' % '; '.join(eff))
    # Slot::release, as used by DRelease / DReleaseWith
    slot = strip_comments(open(os.path.join(repo, 'src/archetype/slot.rs')).read())
    body = norm(fn_body(slot, 'release', within=r'impl\s+Slot\s*\{'))
    if body == 'debug_assert!(self.is_free() == false); self.index = index_next_free; self.version = self.version.next();':
        out.append('Definition release_bumps_version : bool := true.')
    elif body == 'debug_assert!(self.is_free() == false); self.index = index_next_free; self.version = next_version;':
        out.append('Definition release_bumps_version : bool := false.')
    else:
        raise ExtractError('Slot::release: unexpected body %r' % body)

    # the eight StorageCanResolve methods
    def impl_block(key):
        b, _ = block_after(st, r'impl<A: Archetype, #\(T~I,\)\*> StorageCanResolve<' + key + r'<A>> for \$name<A, #\(T~I,\)\*>\s*where\s*A::Components: \$components<#\(T~I,\)\*>,\s*\{', what='StorageCanResolve<%s>' % key)
        return b
    be = impl_block('Entity')
    bd = impl_block('EntityDirect')
    chk = [
        (be, 'resolve_for', r'let \(_, dense_index\) = self\.resolve_entity\(entity\)\?; let dense_index_usize = dense_index\.into\(\); unsafe \{ debug_checked_assume!\(self\.len <= MAX_DATA_CAPACITY as usize\); debug_checked_assume!\(self\.len >= dense_index_usize\); \} Some\(dense_index_usize\)'),
        (be, 'resolve_direct', r'let \(_, dense_index\) = self\.resolve_entity\(entity\)\?; Some\(EntityDirect::new\(dense_index, self\.version\(\)\)\)'),
        (be, 'resolve_destroy', r'unsafe \{ Some\(self\.force_destroy\(self\.resolve_entity\(entity\)\?\)\) \}'),
        (bd, 'resolve_for', r'let \(_, dense_index\) = self\.resolve_direct\(entity\)\?; let dense_index_usize = dense_index\.into\(\); unsafe \{ debug_checked_assume!\(self\.len <= MAX_DATA_CAPACITY as usize\); debug_checked_assume!\(self\.len >= dense_index_usize\); \} Some\(dense_index_usize\)'),
        (bd, 'resolve_destroy', r'unsafe \{ Some\(self\.force_destroy\(self\.resolve_direct\(entity\)\?\)\) \}'),
    ]
    for blk, f, pat in chk:
        body = norm(fn_body(blk, f))
        if not re.fullmatch(pat, body):
            raise ExtractError('StorageCanResolve::%s: unexpected body %r' % (f, body))
    body = norm(fn_body(bd, 'resolve_direct'))
    if body == 'Some(entity)':
        out.append('Definition to_direct_of_direct_validates : bool := false.')
    elif body == 'self.resolve_direct(entity).map(|_| entity)':
        out.append('Definition to_direct_of_direct_validates : bool := true.')
    else:
        raise ExtractError('StorageCanResolve<EntityDirect>::resolve_direct: unexpected body %r' % body)

    # Clone: two loops with their bounds
    cb, _ = block_after(st, r'impl<A: Archetype, #\(T~I,\)\*> Clone for \$name<A, #\(T~I,\)\*>\s*where\s*A::Components: \$components<#\(T~I,\)\*>,\s*#\(T~I: Clone,\)\*\s*\{', what='impl Clone for StorageN')
    body = norm(fn_body(cb, 'clone'))
    pat = (r'#\(let ref_d~I = self\.d~I\.borrow\(\);\)\* let mut new_slots = DataPtr::with_capacity\(self\.capacity\); '
           r'let mut new_entities = DataPtr::with_capacity\(self\.capacity\); #\(let mut new_d~I = DataPtr::with_capacity\(self\.capacity\);\)\* '
           r'unsafe \{ let old_slots = self\.slots\.slice\(self\.capacity\); let old_entities = self\.entities\.slice\(self\.len\); '
           r'#\(let old_~I = ref_d~I\.slice\(self\.len\);\)\* '
           r'for idx in 0\.\.self\.(\w+) \{ new_slots\.write\(idx, old_slots\.get_unchecked\(idx\)\.clone\(\)\); \} '
           r'for idx in 0\.\.self\.(\w+) \{ new_entities\.write\(idx, old_entities\.get_unchecked\(idx\)\.clone\(\)\); '
           r'#\(new_d~I\.write\(idx, old_~I\.get_unchecked\(idx\)\.clone\(\)\);\)\* \} '
           r'Self \{ len: self\.len, version: self\.version, capacity: self\.capacity, free_head: self\.free_head, '
           r'slots: new_slots, entities: new_entities, #\(d~I: RefCell::new\(new_d~I\),\)\* '
           r'#\[cfg\(feature = "events"\)\] created: self\.created\.clone\(\), #\[cfg\(feature = "events"\)\] destroyed: self\.destroyed\.clone\(\), \} \}')
    m = re.fullmatch(pat, body)
    if not m:
        raise ExtractError('Clone::clone: unexpected body %r' % body)
    names = {'capacity': 'CBCapacity', 'len': 'CBLen'}
    if m.group(1) not in names or m.group(2) not in names:
        raise ExtractError('Clone::clone: unexpected loop bounds')
    out.append('Inductive clone_bound := CBCapacity | CBLen.')
    out.append('Definition clone_slots_bound : clone_bound := %s.' % names[m.group(1)])
    out.append('Definition clone_dense_bound : clone_bound := %s.' % names[m.group(2)])

    # Drop: drop_to(len) on every column, then dealloc
    db, _ = block_after(st, r'impl<A: Archetype, #\(T~I,\)\*> Drop\s+for \$name<A, #\(T~I,\)\*>\s*\{', what='impl Drop for StorageN')
    body = norm(fn_body(db, 'drop'))
    if body != ('unsafe { #(self.d~I.get_mut().drop_to(self.len);)* self.slots.dealloc(self.capacity); '
                'self.entities.dealloc(self.capacity); #(self.d~I.get_mut().dealloc(self.capacity);)* };'):
        raise ExtractError('Drop::drop: unexpected body %r' % body)
    out.append('Definition drop_bound : clone_bound := CBLen.')

    # DataPtr::swap_remove / drop_to shapes (the model's cell-level meaning of these two)
    dp, _ = block_after(st, r'impl<T> DataPtr<T>\s*\{', what='impl DataPtr')
    body = norm(fn_body(dp, 'swap_remove'))
    if not re.search(r'let last = len - 1; let array_ptr = self\.0\.as_ptr\(\); let result = ptr::read\(array_ptr\.add\(index\)\)\.assume_init\(\); '
                     r'ptr::copy\(array_ptr\.add\(last\), array_ptr\.add\(index\), 1\); \*array_ptr\.add\(last\) = MaybeUninit::uninit\(\); result', body):
        raise ExtractError('DataPtr::swap_remove: unexpected body %r' % body)
    body = norm(fn_body(dp, 'drop_to'))
    if body != 'unsafe { for i in 0..len { let i_ptr = self.0.as_ptr().add(i); ptr::drop_in_place(i_ptr as *mut T); ptr::write(i_ptr, MaybeUninit::uninit()); } };':
        raise ExtractError('DataPtr::drop_to: unexpected body %r' % body)

    # ---- the accessors: how many items each presents (the argument of slice()/slice_mut(), `remaining` of the iterators)
    bound = {'self.len': 'CBLen', 'self.source.len': 'CBLen', 'self.capacity': 'CBCapacity', 'self.source.capacity': 'CBCapacity'}
    assume = r'debug_checked_assume!\(self\.len <= MAX_DATA_CAPACITY as usize\); '
    acc = [
        ('len', r'(self\.\w+)', None), ('capacity', r'self\.capacity', None), ('version', r'self\.version', None),
        ('iter', r'unsafe \{ \$iter \{ remaining: (.+?), ptr_entity: self\.entities\.ptr_data\(\), #\(ptr_d~I: self\.d~I\.get_mut\(\)\.ptr_data\(\),\)\* phantom: PhantomData, \} \}', 0),
        ('iter_mut', r'unsafe \{ \$iter_mut \{ remaining: (.+?), ptr_entity: self\.entities\.ptr_data\(\), #\(ptr_d~I: self\.d~I\.get_mut\(\)\.ptr_data\(\),\)\* phantom: PhantomData, \} \}', 0),
        ('get_all_slices_mut', r'unsafe \{ ' + assume + r'S::new\( self\.entities\.slice\((.+?)\), #\(self\.d~I\.get_mut\(\)\.slice_mut\((.+?)\),\)\* \) \}', (0, 1)),
        ('get_slice_entities', r'unsafe \{ ' + assume + r'self\.entities\.slice\((.+?)\) \}', 0),
        ('get_slice_~I', r'unsafe \{ ' + assume + r'self\.d~I\.get_mut\(\)\.slice\((.+?)\) \}', 0),
        ('get_slice_mut_~I', r'unsafe \{ ' + assume + r'self\.d~I\.get_mut\(\)\.slice_mut\((.+?)\) \}', 0),
        ('borrow_slice_~I', r'Ref::map\(self\.d~I\.borrow\(\), \|slice\| unsafe \{ ' + assume + r'slice\.slice\((.+?)\) \}\)', 0),
        ('borrow_slice_mut_~I', r'RefMut::map\(self\.d~I\.borrow_mut\(\), \|slice\| unsafe \{ ' + assume + r'slice\.slice_mut\((.+?)\) \}\)', 0),
        ('borrow_component_~I', r'Ref::map\(self\.source\.d~I\.borrow\(\), \|slice\| unsafe \{ debug_assert!\(self\.index < self\.source\.len\); slice\.slice\((.+?)\)\.get_unchecked\(self\.index\) \}\)', 0),
        ('borrow_component_mut_~I', r'RefMut::map\(self\.source\.d~I\.borrow_mut\(\), \|slice\| unsafe \{ debug_assert!\(self\.index < self\.source\.len\); slice\.slice_mut\((.+?)\)\.get_unchecked_mut\(self\.index\) \}\)', 0),
    ]
    out.append('(* accessors: the number of items each one presents, as written in the source *)')
    table = []
    for name, pat, grp in acc:
        body = norm(fn_body(st, name))
        m = re.fullmatch(pat, body)
        if not m:
            raise ExtractError('accessor %s: unexpected body %r' % (name, body))
        if name == 'len':
            if m.group(1) != 'self.len':
                raise ExtractError('len(): returns %s' % m.group(1))
            continue
        if grp is None:
            continue
        for g in ((grp,) if isinstance(grp, int) else grp):
            b = m.group(g + 1)
            if b not in bound:
                raise ExtractError('accessor %s: unexpected bound %r' % (name, b))
            table.append((name.replace('_~I', ''), bound[b]))
    body = norm(fn_body(st, 'is_empty'))
    if body != 'self.len == 0':
        raise ExtractError('is_empty: unexpected body %r' % body)
    # DataPtr::slice / slice_mut: exactly `len` items whatever T is
    for name, want in (('slice', 'unsafe { slice::from_raw_parts(self.0.as_ptr() as *const T, len) }'),
                       ('slice_mut', 'unsafe { slice::from_raw_parts_mut(self.0.as_ptr() as *mut T, len) }')):
        body = norm(fn_body(dp, name))
        if body != want:
            raise ExtractError('DataPtr::%s: unexpected body %r' % (name, body))
    # the iterators step every pointer, unconditionally
    it = strip_comments(open(os.path.join(repo, 'src/archetype/iter.rs')).read())
    nexts = re.findall(r'fn next\(&mut self\) -> Option<Self::Item> \{(.*?)\n                \}', it, flags=re.S)
    want_next = ('if self.remaining == 0 { return None; } unsafe { let result = (&*self.ptr_entity, #(&%s*self.ptr_d~I,)*); '
                 'self.ptr_entity = self.ptr_entity.offset(1); #(self.ptr_d~I = self.ptr_d~I.offset(1);)* self.remaining -= 1; Some(result) }')
    if len(nexts) != 2 or norm(nexts[0]) != want_next % '' or norm(nexts[1]) != want_next % 'mut ':
        raise ExtractError('iter.rs: Iter/IterMut::next: unexpected bodies %r' % [norm(x) for x in nexts])
    out.append('Definition accessor_bounds : list clone_bound := [%s].   (* %s *)' % ('; '.join(b for _, b in table), ', '.join(n for n, _ in table)))
    out.append('Definition iterators_step_every_column : bool := true.')
    return '\n'.join(out) + '\n'


def extract_query(repo):
    q = strip_comments(open(os.path.join(repo, 'macros/src/generate/query.rs')).read())
    wsrc = strip_comments(open(os.path.join(repo, 'macros/src/generate/world.rs')).read())
    out = [HEADER % 'macros/src/generate/query.rs, macros/src/generate/world.rs',
           'From Coq Require Import NArith Bool List.\nImport ListNotations.\n']
    body = fn_body(q, 'generate_query_iter_destroy')
    m = re.search(r'queries\.push\(quote!\((.*?)\)\);\s*\}\s*\}\s*if queries\.is_empty\(\)', body, re.S)
    if not m:
        raise ExtractError('generate_query_iter_destroy: template not found')
    t = norm(m.group(1))
    pat_out = (r'\{ type MatchedArchetype = #Archetype; let mut closure = \|#\(#attrs #arg: &#maybe_mut #Type\),\*\| #body; '
               r'let archetype = #get_archetype; (let version = archetype\.version\(\); )?let len = archetype\.len\(\); '
               r'for idx in \(0\.\.len\)\.rev\(\) \{ (let version = archetype\.version\(\); )?let slices = #get_slices; '
               r'match closure\(#\(#attrs #bind\),\*\)\.into\(\) \{ EcsStepDestroy::Continue => \{ \}, EcsStepDestroy::Break => \{ return; \}, '
               r'EcsStepDestroy::ContinueDestroy => \{ let entity = slices\.entity\[idx\]; archetype\.destroy\(entity\); \}, '
               r'EcsStepDestroy::BreakDestroy => \{ let entity = slices\.entity\[idx\]; archetype\.destroy\(entity\); return; \}, \} \} \}')
    m = re.fullmatch(pat_out, t)
    if not m or (bool(m.group(1)) == bool(m.group(2))):
        raise ExtractError('generate_query_iter_destroy: unexpected template %r' % t)
    out.append('(* where ecs_iter_destroy! reads archetype.version(): inside the loop (true) or once before it (false) *)')
    out.append('Definition iter_destroy_version_in_loop : bool := %s.' % ('true' if m.group(2) else 'false'))

    body = fn_body(q, 'generate_query_iter')
    m = re.search(r'queries\.push\(quote!\((.*?)\)\);\s*\}\s*\}\s*if queries\.is_empty\(\)', body, re.S)
    t = norm(m.group(1)) if m else ''
    pat = (r'\{ type MatchedArchetype = #Archetype; let mut closure = \|#\(#attrs #arg: &#maybe_mut #Type\),\*\| #body; '
           r'let archetype = #get_archetype; let version = archetype\.version\(\); let len = archetype\.len\(\); let slices = #get_slices; '
           r'for idx in 0\.\.len \{ match closure\(#\(#attrs #bind\),\*\)\.into\(\) \{ EcsStep::Continue => \{ \}, EcsStep::Break => \{ return; \}, \} \} \}')
    if not re.fullmatch(pat, t):
        raise ExtractError('generate_query_iter: unexpected template %r' % t)
    out.append('Definition iter_break_returns_from_all : bool := true. (* `return` inside the one closure wrapping all archetypes *)')
    for fn in ('generate_query_iter', 'generate_query_iter_destroy'):
        if not re.search(r'Ok\(quote!\(\s*\(\|\|\{#\(#queries\)\*\}\)\(\)\s*\)\)', fn_body(q, fn)):
            raise ExtractError('%s: outer closure wrapper not found' % fn)

    # world.rs: dynamic keys with an undeclared id panic at world level, typed conversion is checked at archetype level
    cnt = len(re.findall(r'Err\(_\) => panic!\("invalid entity type"\),', wsrc))
    if cnt != 6:
        raise ExtractError('world.rs: expected 6 world-level dispatch fallbacks, found %d' % cnt)
    cnt = len(re.findall(r'Entity::<Self>::try_from\(entity\)\.ok\(\)\?', wsrc)) + len(re.findall(r'EntityDirect::<Self>::try_from\(entity\)\.ok\(\)\?', wsrc))
    if cnt != 10:
        raise ExtractError('world.rs: expected 10 archetype-level checked conversions, found %d' % cnt)
    out.append('Definition world_dispatch_unknown_panics : bool := true.')
    out.append('Definition arch_dispatch_checks_id : bool := true.')
    # find: the `_ => None` arm and the expect
    body = norm(fn_body(q, 'generate_query_find'))
    if 'match #__WorldSelectTotal::try_from(#entity).expect("invalid entity type") { #(#queries)* _ => None, }' not in body:
        raise ExtractError('generate_query_find: unexpected dispatch')
    return '\n'.join(out) + '\n'



def extract_macro(repo):
    d = strip_comments(open(os.path.join(repo, 'macros/src/data.rs')).read())
    out = [HEADER % 'macros/src/data.rs',
           'From Coq Require Import NArith Bool.\nFrom Gecs Require Import Prim.\nOpen Scope N_scope.\n']
    body = norm(fn_body(d, 'advance_attribute_id'))
    pat = (r'let next = \{ if let Some\(archetype_id\) = item\.id\(\) \{ Ok\(archetype_id\) \} else if let Some\(last\) = last \{ '
           r'if let Some\(next\) = (.+?) \{ Ok\(next\) \} else \{ let span = item\.name\(\)\.span\(\); '
           r'Err\(syn::Error::new\(span, "attribute id may not exceed 255"\)\) \} \} else \{ Ok\((.+?)\) \} \}\?; '
           r'if let Some\(name\) = ids\.insert\(next, item\.name\(\)\.to_string\(\)\) \{ Err\(syn::Error::new\( item\.name\(\)\.span\(\), '
           r'format!\("attribute id \{\} is already assigned to \{\}", next, name,\), \)\) \} else \{ Ok\(Some\(next\)\) \}')
    m = re.fullmatch(pat, body)
    if not m:
        raise ExtractError('advance_attribute_id: unexpected body %r' % body)
    succ = compile_expr(m.group(1), {'last': 'last'}, 8)
    first = compile_expr(m.group(2), {}, 8)
    out.append('(* ids are u8: `last.checked_add(1)` and the first id of a scope *)')
    out.append('Definition attr_succ (last : N) : option N := %s.' % succ)
    out.append('Definition attr_first : N := %s.' % first)
    # the id fields are u8 in DataArchetype / DataComponent / ParseAttributeId
    for pat2 in (r'pub struct DataArchetype \{ pub id: u8,', r'pub struct DataComponent \{ pub id: u8,'):
        if not re.search(pat2, norm(d)):
            raise ExtractError('data.rs: id field is not u8')
    # evaluate_cfgs: all predicates must be true
    body = norm(fn_body(d, 'evaluate_cfgs'))
    if body != 'for cfg in cfgs { let predicate = cfg.predicate.to_string(); if *cfg_lookup.get(&predicate).unwrap() == false { return false; } } true':
        raise ExtractError('evaluate_cfgs: unexpected body %r' % body)
    body = norm(fn_body(d, 'contains_component'))
    if body != 'for component in self.components.iter() { if component.name == name.to_string() { return true; } } false':
        raise ExtractError('contains_component: unexpected body %r' % body)
    # explicit ids: the literal is parsed straight into the u8 field, so anything above 255 is a parse error
    a = strip_comments(open(os.path.join(repo, 'macros/src/parse/attribute.rs')).read())
    if not re.search(r'pub struct ParseAttributeId \{ pub value: u8, \}', norm(a)):
        raise ExtractError('parse/attribute.rs: ParseAttributeId.value is not u8')
    body = norm(fn_body(a, 'parse', within=r'impl\s+Parse\s+for\s+ParseAttributeId\s*'))
    if body != 'let args; parenthesized!(args in input); let value = args.parse::<LitInt>()?.base10_parse()?; Ok(Self { value })':
        raise ExtractError('ParseAttributeId::parse: unexpected body %r' % body)
    out.append('(* parse/attribute.rs: explicit ids are parsed by LitInt::base10_parse into a u8 field *)')
    out.append('Definition explicit_id_max : N := 255.')
    # the cfg-probing macro_rules! chain (generate/cfg.rs): how each link extends the list of booleans
    c = strip_comments(open(os.path.join(repo, 'macros/src/generate/cfg.rs')).read())
    out.append('(* generate/cfg.rs: each link of the macro_rules! chain is emitted twice, under #[cfg(p)] and #[cfg(not(p))];')
    out.append('   (appends, literal): whether the link appends (true) or prepends (false) its literal to the list so far *)')
    templ = {
        'outer': ('let predicates = source.collect_all_cfg_predicates(); let mut macros = Vec::<TokenStream>::with_capacity(predicates.len()); '
                  'let start = format_ident!("__cfg_ecs_{}_0", name); let finish = format_ident!("__impl_ecs_{}", name); '
                  'if predicates.is_empty() { return quote!(::gecs::__internal::#finish!((), { #raw });); } '
                  'for (idx, predicate) in predicates.iter().enumerate() { let this = format_ident!("__cfg_ecs_{}_{}", name, idx); '
                  'let next = format_ident!("__cfg_ecs_{}_{}", name, idx + 1); let next = if (idx + 1) == predicates.len() { quote!(::gecs::__internal::#finish) } '
                  'else { quote!(__ecs_cfg_macros::#next) }; macros.push(quote!( #[cfg(#predicate)] #[doc(hidden)] macro_rules! #this { '
                  '(($($bools:expr),*), $($args:tt)*) => { #next!(@POS@, $($args)*); } } #[cfg(not(#predicate))] #[doc(hidden)] macro_rules! #this { '
                  '(($($bools:expr),*), $($args:tt)*) => { #next!(@NEG@, $($args)*); } } pub(super) use #this; )); } '
                  'quote!( mod __ecs_cfg_macros { #(#macros)* } __ecs_cfg_macros::#start!((), { #raw }); )'),
        'inner': ('let predicates = source.collect_all_cfg_predicates(); let mut macros = Vec::<TokenStream>::with_capacity(predicates.len()); '
                  'let start = format_ident!("__cfg_ecs_{}_0", name); let finish = format_ident!("__impl_ecs_{}", name); '
                  'if predicates.is_empty() { return quote!( { ::gecs::__internal::#finish!((), { #raw }) } ); } '
                  'for (idx, predicate) in predicates.iter().enumerate() { let this = format_ident!("__cfg_ecs_{}_{}", name, idx); '
                  'let next = format_ident!("__cfg_ecs_{}_{}", name, idx + 1); let next = if (idx + 1) == predicates.len() { quote!(::gecs::__internal::#finish) } '
                  'else { quote!(#next) }; macros.push(quote!( #[cfg(#predicate)] #[doc(hidden)] macro_rules! #this { '
                  '(($($bools:expr),*), $($args:tt)*) => { #next!(@POS@, $($args)*) } } #[cfg(not(#predicate))] #[doc(hidden)] macro_rules! #this { '
                  '(($($bools:expr),*), $($args:tt)*) => { #next!(@NEG@, $($args)*) } } )); } '
                  'quote!( { #(#macros)* #start!((), { #raw }) } )'),
    }
    forms = {'($($bools,)* true)': ('true', 'true'), '($($bools,)* false)': ('true', 'false'),
             '(true $(, $bools)*)': ('false', 'true'), '(false $(, $bools)*)': ('false', 'false'),
             '(true, $($bools),*)': ('false', 'true'), '(false, $($bools),*)': ('false', 'false')}
    for which, t in templ.items():
        body = norm(fn_body(c, 'generate_cfg_checks_' + which))
        pat = re.escape(t).replace('@POS@', r'(\(.*?\))').replace('@NEG@', r'(\(.*?\))')
        m = re.fullmatch(pat, body)
        if not m or m.group(1) not in forms or m.group(2) not in forms:
            raise ExtractError('generate_cfg_checks_%s: unexpected body %r' % (which, body))
        out.append('Definition cfg_%s_pos : bool * bool := (%s, %s).' % ((which,) + forms[m.group(1)]))
        out.append('Definition cfg_%s_neg : bool * bool := (%s, %s).' % ((which,) + forms[m.group(2)]))
    return '\n'.join(out) + '\n'


# ----------------------------------------------------------------------------- C18: templates and type tables

def macro_args(src, name):
    """Contents of every `name!( ... )` invocation (balanced parentheses)."""
    out = []
    for m in re.finditer(r'\b' + name + r'!\s*\(', src):
        i = m.end() - 1
        depth = 0
        j = i
        while j < len(src):
            ch = src[j]
            if ch == '"':
                k = j + 1
                while src[k] != '"':
                    k += 2 if src[k] == '\\' else 1
                j = k
            elif ch == '(':
                depth += 1
            elif ch == ')':
                depth -= 1
                if depth == 0:
                    break
            j += 1
        out.append(src[i + 1:j])
    return out


def coq_string(x):
    return '"%s"' % x.replace('"', '""')


def parse_type(t):
    """A Rust type of the few shapes the tables use -> Gallina [rty] term."""
    t = t.strip()
    prim = {'u32', 'u8', 'usize', 'bool', 'NonZeroU32'}
    if t in prim:
        return 'TPrim'
    m = re.fullmatch(r'PhantomData<fn\(\) -> (\w+)>', t)
    if m:
        return 'TPhantomFn'
    for wrap, con in (('RefCell', 'TRefCell'), ('DataPtr', 'TDataPtr'), ('Vec', 'TVec')):
        m = re.fullmatch(wrap + r'<(.+)>', t)
        if m:
            return '(%s %s)' % (con, parse_type(m.group(1)))
    m = re.fullmatch(r'(Entity|EntityDirect)<A>', t)
    if m:
        return '(TStruct %s)' % coq_string(m.group(1))
    if re.fullmatch(r'T~I', t):
        return 'TComp'
    if re.fullmatch(r'[A-Z]\w*', t):
        return '(TStruct %s)' % coq_string(t)
    raise ExtractError('type table: cannot parse type %r' % t)


def struct_fields(src, pattern, what):
    m = re.search(pattern, src, re.S)
    if not m:
        raise ExtractError('type table: struct %s not found' % what)
    body = m.group(1)
    body = re.sub(r'#\((\w[\w~]*\s*:\s*[^;]*?),\)\*', r'\1,', body)   # seq!-repeated field: one representative
    if '{' in m.group(0)[:m.group(0).find(body)]:
        fields = []
        for f in re.split(r',\s*(?![^<]*>)', re.sub(r'#\[[^\]]*\]', '', body)):
            f = f.strip()
            if not f:
                continue
            mm = re.fullmatch(r'(?:pub(?:\([a-z]+\))?\s+)?(#\()?(\w[\w~]*)\s*:\s*(.+?)(,\)\*)?', f, re.S)
            if not mm:
                raise ExtractError('type table: cannot parse field %r of %s' % (f, what))
            fields.append(parse_type(norm(mm.group(3))))
        return fields
    return [parse_type(norm(x)) for x in body.split(',') if x.strip()]


def extract_tokens(repo):
    gen = ''
    for fn in ('world.rs', 'query.rs', 'cfg.rs', 'util.rs'):
        gen += strip_comments(open(os.path.join(repo, 'macros/src/generate', fn)).read()) + '\n'
    idents = set()
    for body in macro_args(gen, 'quote') + [b.split('=>', 1)[1] if '=>' in b else b for b in macro_args(gen, 'quote_spanned')]:
        body = re.sub(r'"(?:[^"\\]|\\.)*"', ' ', body)
        for m in re.finditer(r'(#?)\b([A-Za-z_][A-Za-z0-9_]*)\b', body):
            if m.group(1) != '#':
                idents.add(m.group(2))
    patterns = set()
    for body in macro_args(gen, 'format_ident'):
        m = re.match(r'\s*"((?:[^"\\]|\\.)*)"', body)
        if not m:
            raise ExtractError('format_ident!: pattern is not a string literal: %r' % body[:60])
        patterns.add(m.group(1))
    # identifiers built any other way would escape the grammar below
    if re.search(r'\bIdent::new\(', gen.replace('Ident::new(&to_snake_str(&ident.to_string()), ident.span())', '')):
        raise ExtractError('generate/: Ident::new outside to_snake_ident')
    out = [HEADER % 'macros/src/generate/*.rs, src/entity.rs, src/version.rs, src/archetype/slot.rs, src/index.rs, src/archetype/storage.rs, src/archetype/iter.rs',
           'From Coq Require Import String List.\nImport ListNotations.\nOpen Scope string_scope.\n']
    out.append('(* every identifier token that occurs literally in a quote!/quote_spanned! template of the generators *)')
    out.append('Definition template_idents : list string := [%s].' % '; '.join(coq_string(x) for x in sorted(idents)))
    out.append('(* every format_ident! pattern ({} = a hole filled from user names, counters or the input hash) *)')
    out.append('Definition ident_patterns : list string := [%s].' % '; '.join(coq_string(x) for x in sorted(patterns)))

    # ---- type tables
    ent = strip_comments(open(os.path.join(repo, 'src/entity.rs')).read())
    ver = strip_comments(open(os.path.join(repo, 'src/version.rs')).read())
    slot = strip_comments(open(os.path.join(repo, 'src/archetype/slot.rs')).read())
    idx = strip_comments(open(os.path.join(repo, 'src/index.rs')).read())
    sto = strip_comments(open(os.path.join(repo, 'src/archetype/storage.rs')).read())
    itr = strip_comments(open(os.path.join(repo, 'src/archetype/iter.rs')).read())
    out.append('Inductive rty := TPrim | TComp | TPhantomFn | TRefCell (t : rty) | TDataPtr (t : rty) | TVec (t : rty) | TStruct (name : string).')
    table = [
        ('Entity', struct_fields(ent, r'pub struct Entity<A: Archetype> \{(.*?)\}', 'Entity')),
        ('EntityDirect', struct_fields(ent, r'pub struct EntityDirect<A: Archetype> \{(.*?)\}', 'EntityDirect')),
        ('EntityAny', struct_fields(ent, r'pub struct EntityAny \{(.*?)\}', 'EntityAny')),
        ('EntityDirectAny', struct_fields(ent, r'pub struct EntityDirectAny \{(.*?)\}', 'EntityDirectAny')),
        ('SlotVersion', struct_fields(ver, r'pub struct SlotVersion \{(.*?)\}', 'SlotVersion')),
        ('ArchetypeVersion', struct_fields(ver, r'pub struct ArchetypeVersion \{(.*?)\}', 'ArchetypeVersion')),
        ('SlotIndex', struct_fields(slot, r'pub\(crate\) struct SlotIndex\((.*?)\);', 'SlotIndex')),
        ('Slot', struct_fields(slot, r'pub struct Slot \{(.*?)\}', 'Slot')),
        ('TrimmedIndex', struct_fields(idx, r'pub\(crate\) struct TrimmedIndex\((.*?)\);', 'TrimmedIndex')),
        ('Storage', struct_fields(sto, r'pub struct \$name<A: Archetype, #\(T~I,\)\*> \{(.*?)\n\s*\}', 'StorageN')),
    ]
    out.append('Definition type_table : list (string * list rty) := [%s].' % ';\n  '.join(
        '(%s, [%s])' % (coq_string(n), '; '.join(fs)) for n, fs in table))
    # DataPtr: raw NonNull, with explicit unsafe impls bounded on T
    if not re.search(r'pub struct DataPtr<T>\(NonNull<MaybeUninit<T>>\);', sto):
        raise ExtractError('DataPtr: unexpected definition')
    snd = bool(re.search(r'unsafe impl<T> Send for DataPtr<T> where T: Send \{\}', sto))
    syn = bool(re.search(r'unsafe impl<T> Sync for DataPtr<T> where T: Sync \{\}', sto))
    if len(re.findall(r'unsafe impl', sto + ent + ver + slot + idx + itr)) != int(snd) + int(syn):
        raise ExtractError('unexpected `unsafe impl` in the runtime crate')
    out.append('Definition dataptr_send_if_t_send : bool := %s.' % ('true' if snd else 'false'))
    out.append('Definition dataptr_sync_if_t_sync : bool := %s.' % ('true' if syn else 'false'))
    # Copy: the four handle types
    cp = (len(re.findall(r'#\[derive\(Clone, Copy, Eq, PartialEq\)\]\s*pub struct (EntityAny|EntityDirectAny)', ent)) == 2
          and 'impl<A: Archetype> Copy for Entity<A> {}' in ent and 'impl<A: Archetype> Copy for EntityDirect<A> {}' in ent)
    out.append('Definition handles_are_copy : bool := %s.' % ('true' if cp else 'false'))
    # reference-to-reference handle conversions are transmutes: the output reference must carry the input's lifetime
    tr = re.findall(r"impl<'a, A: Archetype> From<&'a (mut )?(Entity|EntityDirect)<A>> for &'a (mut )?(EntityAny|EntityDirectAny) \{\s*"
                    r"(?:#\[inline\(always\)\]\s*)?fn from\(value: &'a (mut )?(Entity|EntityDirect)<A>\) -> Self \{", ent)
    tr_ok = (len(tr) == 4 and all(m[0] == m[2] == m[4] and m[1] == m[5] and m[3] == m[1] + 'Any' for m in tr)
             and len(re.findall(r'transmute', ent)) == 4 and len(re.findall(r'From<&', ent)) == 4)
    if len(re.findall(r'transmute', sto + ver + slot + idx + itr)) != 0:
        raise ExtractError('unexpected transmute in the runtime crate')
    out.append('Definition ref_conversions_tie_lifetimes : bool := %s.' % ('true' if tr_ok else 'false'))
    # iterators hold raw pointers plus PhantomData<&'a mut A>: they borrow the archetype mutably for 'a
    ph = len(re.findall(r"phantom: std::marker::PhantomData<&'a mut A>", itr)) == 2
    out.append('Definition iterators_borrow_archetype_mutably : bool := %s.' % ('true' if ph else 'false'))
    return '\n'.join(out) + '\n'

def main():
    repo, outdir = sys.argv[1], sys.argv[2]
    os.makedirs(outdir, exist_ok=True)
    files = {
        'ExtrBits.v': extract_bits,
        'ExtrVersion.v': extract_version,
        'ExtrStorage.v': extract_storage,
        'ExtrQuery.v': extract_query,
        'ExtrMacro.v': extract_macro,
        'ExtrTokens.v': extract_tokens,
    }
    failed = False
    for name, fn in files.items():
        path = os.path.join(outdir, name)
        try:
            text = fn(repo)
        except ExtractError as e:
            print('EXTRACT-ERROR %s: %s' % (name, e))
            failed = True
            continue
        old = open(path).read() if os.path.exists(path) else None
        if old != text:
            open(path, 'w').write(text)
    sys.exit(1 if failed else 0)


if __name__ == '__main__':
    main()
