#!/usr/bin/env python3
"""check.py <property id> [--tier quick|thorough]   |   check.py --replay <file>

Decides one property on /repo's current working tree:
  1. tools/extract.py regenerates coq/gen/*.v from the Rust sources (the translator tie);
  2. `make` re-checks the property's theorems (props/<id>.v and everything they depend on);
  3. the audit re-prints the assumptions of every property theorem and greps the development for
     forbidden constructs;
  4. the harness is rebuilt from /repo with the hooks on, the property's streams are generated and run
     on the implementation, and the model (coqc, vm_compute) and the specification oracle are evaluated
     on the very same operations and observations (the correspondence tie);
  5. a broken proof obligation, a lost translator anchor or a model/implementation disagreement
     starts a search for a concrete failing input (the specification oracle on more histories);
     the outcome is a VIOLATION line with a replay file, with `no-failing-input-found` when the search
     found none.
Exit status: 0 held, 1 violation, 2 internal error.
"""
import fcntl
import hashlib
import json
import os
import random
import re
import subprocess
import sys
import time

HERE = os.path.dirname(os.path.abspath(__file__))
ROOT = os.path.dirname(HERE)
sys.path.insert(0, HERE)

import coqrun  # noqa: E402
import gen_ops  # noqa: E402
import macro_check  # noqa: E402
import macro_gen  # noqa: E402
import c18_check  # noqa: E402
import fill_check  # noqa: E402
import cycle_check  # noqa: E402
import cfg_probe  # noqa: E402
import side_probe  # noqa: E402
import ops as O  # noqa: E402
import session  # noqa: E402
from props import PROPS, CONFIGS, THOROUGH_CONFIGS, AXIOM_ALLOW  # noqa: E402
from worlds import WORLDS  # noqa: E402

REPO = os.environ.get('VERIF_REPO', '/repo')
COQ = os.path.join(ROOT, 'coq')
CACHE = os.path.join(ROOT, '.cache')
HARNESS = os.path.join(ROOT, 'harness', 'storage_harness')
FORBIDDEN = re.compile(r'\b(Admitted|admit|Axiom|Axioms|Parameter|Parameters|Conjecture|Conjectures|Hypothesis|Hypotheses|Variable|Variables)\b|Unset\s+Guard|bypass_check|type-in-type|impredicative-set|Unset\s+Universe|Unset\s+Positivity|Admit\s+Obligations')


class Internal(Exception):
    pass


def sh(cmd, timeout=1800, cwd=None, env=None):
    e = dict(os.environ)
    e.update(CARGO_NET_OFFLINE='true')
    if env:
        e.update(env)
    try:
        r = subprocess.run(cmd, shell=True, cwd=cwd, capture_output=True, text=True, timeout=timeout, env=e, executable='/bin/bash')
    except subprocess.TimeoutExpired:
        raise Internal('timeout: %s' % cmd)
    return r.returncode, r.stdout + r.stderr


# ------------------------------------------------------------------------------- steps 1-3

def step_extract():
    rc, out = sh('python3 %s %s %s' % (os.path.join(HERE, 'extract.py'), REPO, os.path.join(COQ, 'gen')), timeout=120)
    return rc == 0, out.strip()


def ensure_makefile():
    mk = os.path.join(COQ, 'Makefile')
    if not os.path.exists(mk) or os.path.getmtime(mk) < os.path.getmtime(os.path.join(COQ, '_CoqProject')):
        rc, out = sh('coq_makefile -f _CoqProject -o Makefile', cwd=COQ)
        if rc != 0:
            raise Internal('coq_makefile failed: ' + out)


EXEC_TARGETS = ['spec/Spec.vo', 'model/Run.vo', 'model/MacroData.vo', 'model/Tokens.vo']


def step_make(targets):
    """Builds the executable part of the development first (model and specification oracle: the
    correspondence evaluates them even when a proof no longer checks), then the property's theorems."""
    ensure_makefile()
    rc0, out0 = sh('timeout 1500 make -j16 %s' % ' '.join(EXEC_TARGETS), cwd=COQ, timeout=1600)
    rc, out = sh('timeout 1500 make -j16 -k %s' % ' '.join(targets), cwd=COQ, timeout=1600) if targets else (0, '')
    if rc0 != 0:
        return False, 'the model or the specification oracle no longer compiles: ' + out0[-1500:]
    return rc == 0, out


def step_coqchk(pid):
    """Thorough tier: re-check the compiled property file and everything it depends on with the independent checker."""
    q = '-Q gen Gecs -Q model Gecs -Q spec Gecs -Q proofs Gecs -Q props Gecs'
    rc, out = sh('timeout 2400 coqchk -silent -o %s Gecs.%s' % (q, pid), cwd=COQ, timeout=2500)
    if rc != 0:
        return False, 'coqchk failed: ' + out[-800:]
    m = re.search(r'\* Axioms:\s*(.*?)\n\s*\n', out, flags=re.S)
    ax = (m.group(1).strip() if m else '?')
    bad = [k for k in ('type-in-type', 'unsafe (co)fixpoints', 'positivity is assumed') if not re.search(re.escape(k) + r':\s*<none>', out)]
    if ax != '<none>' and not all(a.strip() in AXIOM_ALLOW for a in ax.split('\n') if a.strip()):
        return False, 'coqchk reports axioms: ' + ax
    if bad:
        return False, 'coqchk reports: ' + ', '.join(bad)
    return True, 'coqchk: axioms ' + ax


def theorem_names(vfile):
    src = open(vfile).read()
    return re.findall(r'^\s*(?:Theorem|Corollary)\s+([A-Za-z0-9_\']+)', src, flags=re.M)


def cone(vfile, seen=None):
    """Transitive closure of `From Gecs Require Import ..` starting at vfile."""
    seen = seen if seen is not None else {}
    if vfile in seen:
        return seen
    src = open(vfile).read()
    seen[vfile] = src
    for m in re.finditer(r'From Gecs Require (?:Import|Export)\s+([^.]*)\.', src):
        for name in m.group(1).split():
            for d in ('gen', 'model', 'spec', 'proofs', 'props'):
                p = os.path.join(COQ, d, name + '.v')
                if os.path.exists(p):
                    cone(p, seen)
    return seen


def step_audit(pid, propfiles):
    """Print Assumptions of every property theorem + forbidden-construct grep over the cone."""
    problems = []
    axioms = set()
    names = []
    files = {}
    for pf in propfiles:
        names += [(os.path.basename(pf)[:-2], n) for n in theorem_names(pf)]
        cone(pf, files)
    for path, src in files.items():
        nocomment = re.sub(r'\(\*.*?\*\)', '', src, flags=re.S)
        for m in FORBIDDEN.finditer(nocomment):
            line = nocomment[:m.start()].count('\n') + 1
            problems.append('%s:%d: forbidden construct %r' % (os.path.relpath(path, COQ), line, m.group(0)))
    os.makedirs(os.path.join(CACHE, 'audit'), exist_ok=True)
    apath = os.path.join(CACHE, 'audit', 'audit_%s.v' % pid)
    with open(apath, 'w') as f:
        for mod in sorted(set(m for m, _ in names)):
            f.write('From Gecs Require Import %s.\n' % mod)
        for _, n in names:
            f.write('Print Assumptions %s.\n' % n)
    rc, out = sh('coqc -noglob %s -o %s %s' % (' '.join(coqrun.QFLAGS), apath + 'o', apath), cwd=COQ, timeout=600)
    if rc != 0:
        problems.append('audit file failed to compile: ' + out[-800:])
    else:
        closed = out.count('Closed under the global context')
        blocks = re.split(r'(?=Closed under the global context|Axioms:)', out)
        for b in blocks:
            if b.startswith('Axioms:'):
                for m in re.finditer(r'^([A-Za-z0-9_.\']+)\s*:', b[7:], flags=re.M):
                    axioms.add(m.group(1))
        if closed + sum(1 for b in blocks if b.startswith('Axioms:')) != len(names):
            problems.append('audit: expected %d Print Assumptions results, got %d' % (len(names), closed))
        for a in axioms:
            if a.split('.')[-1] not in AXIOM_ALLOW:
                problems.append('audit: theorem depends on axiom %s (not on the allow-list)' % a)
    obligations = sum(len(re.findall(r'\bQed\.', s)) for s in files.values())
    return problems, sorted(axioms), [n for _, n in names], obligations, sorted(os.path.relpath(p, COQ) for p in files)


# ------------------------------------------------------------------------------- harness

def harness_binary(cfgname):
    c = CONFIGS[cfgname]
    feats = ','.join(c['features'])
    tdir = os.path.join(CACHE, 'target-' + ('-'.join(sorted(c['features'])) or 'default'))
    prof = c['profile']
    sub = 'debug' if prof == 'dev' else prof
    cmd = 'cargo build --offline --profile %s --target-dir %s %s' % (prof, tdir, ('--features ' + feats) if feats else '')
    rc, out = sh(cmd, cwd=HARNESS, env={'RUSTFLAGS': '--cfg gecs_verif'}, timeout=1500)
    if rc != 0:
        return None, out
    return os.path.join(tdir, sub, 'storage_harness'), out


def prepare_harness_sources():
    if REPO != '/repo':
        # running from a snapshot against a copy of the repository: point the path dependencies at it
        for f in (os.path.join(HARNESS, 'Cargo.toml'), os.path.join(ROOT, 'harness', 'macro_drive', 'src', 'main.rs')):
            t = open(f).read()
            t2 = t.replace('"/repo"', '"%s"' % REPO).replace('"/repo/', '"%s/' % REPO)
            if t2 != t:
                open(f, 'w').write(t2)
    rc, out = sh('python3 %s' % os.path.join(HERE, 'gen_harness.py'))
    if rc != 0:
        raise Internal('gen_harness failed: ' + out)
    lock_src = os.path.join(REPO, 'Cargo.lock')
    lock_dst = os.path.join(HARNESS, 'Cargo.lock')
    if not os.path.exists(lock_dst):
        sh('cp %s %s' % (lock_src, lock_dst))


# ------------------------------------------------------------------------------- correspondence

def in_tags(sp, tags):
    """tags: property numbers, or (property number, reason code) pairs for a single kind of failure."""
    for t in tags:
        if isinstance(t, (tuple, list)):
            if sp['prop'] == t[0] and sp['reason'] == t[1]:
                return True
        elif sp['prop'] == t:
            return True
    return False



def direct_origins(w, ops, obs):
    """For every direct handle the run language has recorded so far (reference ('d', k)): the kind of the
    operation that issued it (todirect / find / iter / iterd)."""
    out = []
    for o, ob in zip(ops, obs):
        if not ob:
            continue
        if o[0] == 'todirect' and ob[0] == 1:
            out.append('todirect')
        elif o[0] in ('find', 'iter', 'iterd'):
            params = w.queries[o[1]]
            dpos = sum(1 for p in params if p[0].startswith('dir'))
            if not dpos:
                continue
            n = 0
            if o[0] == 'find':
                n = 1 if ob[0] == 1 else 0
            else:
                i = 1 if ob[0] == 1 else 2
                if ob[0] in (1, 2) and len(ob) > i:
                    n = ob[i]
            out += [o[0]] * (n * dpos)
    return out


def direct_ref_of(o):
    for x in o:
        if isinstance(x, tuple) and len(x) == 2 and x[0] == 'd':
            return x[1]
    return None


def direct_version_oracle(case):
    """C03/C09, read off the trace itself: a direct handle carries the archetype version it was issued at
    (`todirect` shows it); `len` shows the version a storage is at. A lookup through a direct handle whose version
    differs from the version the addressed storage was just seen at (no operation in between) must not accept it.
    Returns the index of the first op that violates this, or None."""
    w = WORLDS[case['world']]
    dver = []            # version of every recorded direct handle, None when unknown
    dkey = []            # its key word (dense index and packed archetype id), None when unknown
    seen = None          # (op index, arch index, version) of the latest `len` observation, valid only for the next ops that are lookups
    for i, (o, ob) in enumerate(zip(case['ops'], case['obs'])):
        if ob is None:
            break
        k = o[0]
        if k == 'todirect':
            if ob and ob[0] == 1:
                dver.append(ob[2])
                dkey.append(ob[1])
            continue_seen = True
        elif k in ('find', 'iter', 'iterd'):
            n_before = len(dver)
            org = direct_origins(w, case['ops'][:i + 1], case['obs'][:i + 1])
            dver += [None] * (len(org) - len(dver))
            dkey += [None] * (len(org) - len(dkey))
            continue_seen = (k == 'find')
        else:
            continue_seen = k in ('probe', 'len')
        if k == 'len' and ob and len(ob) >= 4:
            seen = (i, o[1], ob[3])
            continue
        if k in ('probe', 'find') and seen is not None:
            kind = o[2] if k == 'probe' else o[3]
            ref = o[4] if k == 'probe' else o[5]
            if kind == 'd' and ref[0] == 'd' and ref[1] < len(dver) and dver[ref[1]] is not None and dver[ref[1]] != seen[2]:
                # which archetype does the key address? for a world-level lookup its packed id, else the named archetype
                accepted = bool(ob) and ob[0] == 1
                lvl = o[1] if k == 'probe' else 'w'
                ty = o[3] if k == 'probe' else o[4]
                if lvl == 'w':
                    # the archetype a world-level lookup addresses: the static one of a typed key, else the one whose id the key packs
                    if ty != 'any':
                        addressed = ty[1]
                    else:
                        kid = dkey[ref[1]] & 0xff if ref[1] < len(dkey) and dkey[ref[1]] is not None else None
                        addressed = w.ids.index(kid) if kid in w.ids else None
                else:
                    addressed = lvl[1]
                if accepted and addressed == seen[1]:
                    return i
        if not continue_seen:
            seen = None
    return None


def generation_floor_oracle(case, wrapping):
    """C08 (and C19), read off the trace itself.  `preset a sv av` puts every slot the (empty) storage has at that
    moment at generation sv; harness/cycle_probe shows on every run that this is the state sv - 1 real
    create/destroy cycles of a slot reach, in which every generation below sv has been issued for that slot.
    Without wrapping_version a later create in one of those slots must therefore never return a generation below
    sv (it would be a handle of an earlier cycle, issued again instead of the overflow panic); likewise the
    generations one slot issues never decrease.  Slots known to exist at the preset: those below the capacity
    the world was created with (capacity never shrinks) and those already seen in a handle.
    Returns (op index, text) or None."""
    if wrapping:
        return None
    caps = []            # per world: initial capacity per archetype
    floors = []          # per world: {arch: (sv, number of slots known to exist at the preset)}
    last = []            # per world: {(arch, key): highest generation returned}
    seen = []            # per world: {arch: 1 + highest slot index seen}
    aver = []            # per world: {arch: archetype version last seen (`len`), or preset}
    cur = None
    for i, (o, ob) in enumerate(zip(case['ops'], case['obs'])):
        if ob is None:
            break
        k = o[0]
        if k == 'new' and ob and ob[0] == 1:
            caps.append(list(o[1])); floors.append({}); last.append({}); seen.append({}); aver.append({}); cur = len(floors) - 1
        elif k == 'clone' and ob and ob[0] == 1 and cur is not None and cur < len(floors):
            caps.append(list(caps[cur])); floors.append(dict(floors[cur])); last.append(dict(last[cur])); seen.append(dict(seen[cur])); aver.append(dict(aver[cur]))
        elif k == 'switch' and ob and ob[0] == 1:
            cur = o[1]
        elif k == 'preset' and ob and ob[0] == 1 and cur is not None and cur < len(floors):
            a = o[1]
            known = max(caps[cur][a] if a < len(caps[cur]) else 0, seen[cur].get(a, 0))
            floors[cur][a] = (o[2], known)
            aver[cur][a] = o[3]
            for kk in [kk for kk in last[cur] if kk[0] == a]:
                del last[cur][kk]      # the hook may also lower generations: what was issued before it says nothing about later creates
        elif k in ('create', 'createw') and ob and ob[0] == 1 and len(ob) == 3 and cur is not None and cur < len(floors):
            a, key, ver = o[1], ob[1], ob[2]
            slot = key >> 8
            fl = floors[cur].get(a)
            if fl is not None and slot < fl[1] and ver < fl[0]:
                return i, ('create returned generation %d for slot %d of a storage whose slots had all reached generation %d (preset = that many real cycles): a handle of an earlier cycle is issued again instead of the overflow panic' % (ver, slot, fl[0]))
            lv = last[cur].get((a, key))
            if lv is not None and ver <= lv:
                return i, 'create returned generation %d for a position that had already issued generation %d' % (ver, lv)
            last[cur][(a, key)] = ver
            seen[cur][a] = max(seen[cur].get(a, 0), slot + 1)
        elif k == 'len' and ob and len(ob) >= 4 and cur is not None and cur < len(floors):
            # the archetype version (what direct handles carry): it only ever counts removals upwards; a decrease means it
            # wrapped, and direct handles of earlier real removals would be accepted again instead of the overflow panic
            a, av = o[1], ob[3]
            pv = aver[cur].get(a)
            if pv is not None and av < pv:
                return i, ('the archetype version went from %d to %d without wrapping_version: it wrapped silently instead of the documented overflow panic, so direct handles issued %d removals ago are accepted again' % (pv, av, av))
            aver[cur][a] = av
    return None


def case_key(case):
    return hashlib.sha256(('\n'.join(O.to_rust(o) for o in case['ops'])).encode()).hexdigest()


def evaluate(cases, cfg, tag):
    """Model agreement and specification oracle for a list of implementation traces."""
    work = os.path.join(CACHE, 'work', tag)
    model = coqrun.run_cases(cases, cfg, work + '-m', fn='check_case_w', imports='Storage Query World Borrow Run')
    spec = coqrun.run_cases(cases, cfg, work + '-s', fn='spec_check', imports='Storage Query World Borrow Run Spec')
    out = []
    for c, m, s in zip(cases, model, spec):
        # (wf_case d ops, check_case ..): the first component says whether the history satisfies the
        # hypotheses of the run-level theorems (WorldInv.wf_case_never_ub)
        mm = re.match(r'^\((true|false), (true|false), (.*)\)$', m)
        if not mm:
            raise Internal('unexpected model result: ' + m[:200])
        c['wf'] = (mm.group(1) == 'true')
        c['hist'] = (mm.group(2) == 'true')
        m = mm.group(3)
        diff = None if m == 'None' else (coqrun.parse_diff(m) or m)
        sf = None
        if s != 'None':
            nums = [int(x) for x in re.findall(r'\d+', s)]
            sf = dict(index=nums[0], prop=nums[1], reason=nums[2])
        out.append(dict(case=c, diff=diff, spec=sf))
    return out


def load_corpus(world):
    out = []
    cdir = os.path.join(ROOT, 'corpus')
    for fn in sorted(os.listdir(cdir)) if os.path.isdir(cdir) else []:
        if fn.endswith('.json'):
            j = json.load(open(os.path.join(cdir, fn)))
            if j['world'] == world:
                out.append((fn[:-5], [tuplify(o) for o in j['ops']]))
    return out


def tuplify(o):
    if isinstance(o, list):
        return tuple(tuplify(x) for x in o)
    return o


def listify_caps(op):
    # ('new', caps) keeps its list
    if op[0] == 'new':
        return ('new', list(op[1]))
    return op


def run_streams(pid, streams, cfgname, binary, seed, scale, corpus=True):
    cfg = CONFIGS[cfgname]['cfg']
    results = []
    stats = dict(ops=0, cases=0, by_kind={}, outcomes={})
    for (wname, profile, n, maxlen) in streams:
        w = WORLDS[wname]
        if w.feature and w.feature not in CONFIGS[cfgname]['features']:
            continue
        cases = []
        if corpus:
            for name, cops in load_corpus(wname):
                c = session.replay_ops(binary, w, [listify_caps(o) for o in cops], cid='corpus-' + name)
                cases.append(c)
        if profile == 'BM' and scale == 1 and cfgname != 'dbg':
            continue   # quick tier: the exhaustive matrix runs on the debug build only
        if profile == 'BM':
            # the whole (outer access, inner access) matrix of the runtime-borrowed API, split into chunks
            for variant in (False, True):
                mc, _ = gen_ops.borrow_matrix(binary, w, variant)
                c0 = mc[0]
                npre = len([o for o in c0['ops'] if o[0] != 'borrow'])
                bo = list(zip(c0['ops'][npre:], c0['obs'][npre:]))
                for i in range(0, len(bo), 250):
                    part = bo[i:i + 250]
                    cases.append(dict(id='%s-%d' % (c0['id'], i), world=wname, decl=c0['decl'], exhaustive=True,
                                      ops=c0['ops'][:npre] + [x[0] for x in part], obs=c0['obs'][:npre] + [x[1] for x in part]))
        else:
            cases += gen_ops.generate(binary, w, profile, seed, n * scale, maxlen=maxlen, presets=(True if profile == 'S7' else ('some' if profile == 'S12' else False)))
        for c in cases:
            c['stream'] = profile
            c['config'] = cfgname
            if c['decl'] != O.decl_expected_line(w):
                c['decl_mismatch'] = True
            stats['cases'] += 1
            stats['ops'] += len(c['ops'])
            for o, ob in zip(c['ops'], c['obs']):
                stats['by_kind'][o[0]] = stats['by_kind'].get(o[0], 0) + 1
                tag = 'died' if ob is None else {0: 'absent', 1: 'ok', 2: 'panic', 3: 'conv_err', 4: 'full', 5: 'bad_raw'}.get(ob[0] if ob else -1, 'other')
                if o[0] in ('destroy', 'probe', 'todirect', 'find', 'write', 'create', 'createw', 'clone', 'drop'):
                    stats['outcomes'][tag] = stats['outcomes'].get(tag, 0) + 1
        results += evaluate(cases, cfg, '%s-%s-%s-%s' % (pid, cfgname, wname, profile))
    stats['wf_histories'] = sum(1 for r in results if r['case'].get('wf'))
    stats['hist_histories'] = sum(1 for r in results if r['case'].get('hist'))
    return results, stats


def minimise(binary, world, cfg, ops, pred, budget=25):
    """Delta debugging over the op list: keep a sub-list for which pred(trace) still holds."""
    ops = list(ops)
    n = 2
    tries = 0
    while len(ops) >= 2 and tries < budget:
        chunk = max(1, len(ops) // n)
        removed = False
        for i in range(0, len(ops), chunk):
            cand = ops[:i] + ops[i + chunk:]
            if not cand or cand[0][0] != 'new':
                continue
            tries += 1
            c = session.replay_ops(binary, world, cand)
            if pred(c):
                ops = cand
                n = max(n - 1, 2)
                removed = True
                break
            if tries >= budget:
                break
        if not removed:
            if chunk == 1:
                break
            n = min(len(ops), n * 2)
    return ops


def spec_failure_of(case, cfg, tags, tag):
    work = os.path.join(CACHE, 'work', tag)
    s = coqrun.run_cases([case], cfg, work + '-s', fn='spec_check', imports='Storage Query World Borrow Run Spec')[0]
    if s == 'None':
        return None
    nums = [int(x) for x in re.findall(r'\d+', s)]
    sp = dict(index=nums[0], prop=nums[1], reason=nums[2])
    if tags is None or in_tags(sp, tags):
        return sp
    return None


REASONS = {
    1: 'accepted although the specification requires rejection',
    2: 'rejected although the specification requires acceptance',
    3: 'panicked although the specification requires acceptance',
    4: 'panic that is not a documented clean panic',
    11: 'designates another entity', 12: 'not the entity\'s own latest values',
    24: 'lookup paths disagree about the same key', 99: 'the process died (memory safety)',
}


def write_replay(pid, payload):
    d = os.path.join(ROOT, 'replays')
    os.makedirs(d, exist_ok=True)
    h = hashlib.sha256(json.dumps(payload, sort_keys=True, default=str).encode()).hexdigest()[:12]
    path = os.path.join(d, '%s-%s.json' % (pid, h))
    json.dump(payload, open(path, 'w'), indent=1, default=str)
    return path


def known_findings():
    p = os.path.join(ROOT, 'known_findings.json')
    return json.load(open(p)) if os.path.exists(p) else dict(known=[], fixed=[])


def f3_instances(results):
    """Occurrences of the recorded class F3 in the traces of this run: a typed key whose packed
    archetype id is not its static archetype's (from_any_unchecked / &mut EntityAny assignment)
    that a lookup accepted."""
    hits = []
    for r in results:
        c = r['case']
        w = WORLDS[c['world']]
        issued = []
        for o, ob in zip(c['ops'], c['obs']):
            if ob is None:
                break
            if o[0] in ('create', 'createw') and ob and ob[0] == 1:
                issued.append((ob[1], ob[2]))
            if o[0] in ('probe', 'destroy', 'todirect', 'find') and ob and ob[0] == 1:
                kind, ty, ref = (o[2], o[3], o[4]) if o[0] != 'find' else (o[3], o[4], o[5])
                if kind != 'e' or ty == 'any' or ty[0] not in ('u', 'm'):
                    continue
                raw = issued[ref[1]] if ref[0] == 'i' and ref[1] < len(issued) else ((ref[1], ref[2]) if ref[0] == 'r' else None)
                if raw is None:
                    continue
                if (raw[0] & 0xFF) != w.ids[ty[1]]:
                    hits.append(dict(case=c['id'], op=O.to_rust(o), route='from_any_unchecked' if ty[0] == 'u' else '&mut EntityAny assignment'))
    return hits


def clone_audit(case):
    """Index of the first observation in which a fresh clone differs from its original (stream S11)."""
    ops, obs = case['ops'], case['obs']
    na = len(WORLDS[case['world']].archs)
    blk = 1 + 4 * na
    for i, (o, ob) in enumerate(zip(ops, obs)):
        if o[0] == 'clone' and ob and ob[0] == 1 and i + 2 * blk < len(ops) and ops[i + 1][0] == 'switch' and ops[i + 1 + blk][0] == 'switch':
            a_ = obs[i + 2:i + 1 + blk]
            b_ = obs[i + 2 + blk:i + 1 + 2 * blk]
            for j, (x, y) in enumerate(zip(a_, b_)):
                if x != y:
                    return i + 2 + blk + j
    return None


# ------------------------------------------------------------------------------- main flow

def check(pid, tier, seed):
    t0 = time.time()
    P = PROPS[pid]
    broken = []          # (kind, detail): obligations that no longer check
    notes = []
    ok, out = step_extract()
    if not ok:
        broken.append(('translator', out[-1500:]))
    ok, out = step_make(P['coq'])
    if not ok:
        m = re.search(r'File "([^"]+)", line (\d+).*?\n(Error:.*?)(?:\n\n|\Z)', out, flags=re.S)
        broken.append(('proof', (m.group(0) if m else out[-1500:])))
    propfiles = [os.path.join(COQ, t[:-1]) for t in P['coq']]
    problems, axioms, thms, obligations, conefiles = step_audit(pid, propfiles) if not any(k == 'proof' for k, _ in broken) else ([], [], [], 0, [])
    for pb in problems:
        broken.append(('audit', pb))
    coqchk_note = None
    if tier == 'thorough' and not any(k == 'proof' for k, _ in broken):
        okc, coqchk_note = step_coqchk(pid)
        if not okc:
            broken.append(('audit', coqchk_note))

    prepare_harness_sources()
    scale = 8 if tier == 'thorough' else 1
    cfgnames = list(P['configs']) if tier == 'quick' else [c for c in THOROUGH_CONFIGS]
    all_results = []
    stats_all = []
    for cfgname in cfgnames:
        binary, out = harness_binary(cfgname)
        if binary is None:
            broken.append(('build', 'harness does not build for %s: %s' % (cfgname, out[-1500:])))
            continue
        res, stats = run_streams(pid, P['streams'], cfgname, binary, seed, scale)
        for r in res:
            r['binary'] = binary
        all_results += res
        stats_all.append((cfgname, stats))

    macro_info = None
    macro_fail = []
    macro_diffs = []
    if 'macro' in P:
        mdir = os.path.join(ROOT, 'harness', 'macro_drive')
        if not os.path.exists(os.path.join(mdir, 'Cargo.lock')):
            sh('cp %s %s' % (os.path.join(REPO, 'Cargo.lock'), os.path.join(mdir, 'Cargo.lock')))
        feats = ''
        rc, out = sh('cargo build --offline --target-dir %s %s' % (os.path.join(CACHE, 'target-macro'), feats), cwd=mdir, timeout=900)
        mbin = os.path.join(CACHE, 'target-macro', 'debug', 'macro_drive')
        if rc != 0:
            broken.append(('build', 'macro_drive does not build: ' + out[-1500:]))
        else:
            n = P['macro']['cases'] * scale
            mcases = macro_gen.generate(mbin, seed, n, stress_ids=P['macro']['stress'])
            if P['macro']['stress']:
                mcases += macro_gen.generate(mbin, seed + 1, n // 2, stress_ids=False)
            vals = macro_check.run_model(mcases, os.path.join(CACHE, 'work', 'macro-' + pid))
            macro_diffs = [(c, v) for c, v in zip(mcases, vals) if v != 'None']
            macro_fail = macro_check.oracle_failures(pid, mcases, mbin)
            kinds = {}
            for c in mcases:
                k = '%s:%s' % (c['kind'], 'ok' if c['impl'][0] == 1 else 'err%d' % c['impl'][1])
                kinds[k] = kinds.get(k, 0) + 1
            macro_info = dict(cases=len(mcases), outcomes=kinds,
                              distinct=len(set(c['line'] for c in mcases if c['impl'][0] == 1 or c['impl'][1] in (1, 2))),
                              sample=dict(input=mcases[0]['line'], implementation=mcases[0]['raw'][:300]))

    c18_info = None
    c18_viol = []
    if 'c18' in P:
        mdir = os.path.join(ROOT, 'harness', 'macro_drive')
        if not os.path.exists(os.path.join(mdir, 'Cargo.lock')):
            sh('cp %s %s' % (os.path.join(REPO, 'Cargo.lock'), os.path.join(mdir, 'Cargo.lock')))
        rc, out = sh('cargo build --offline --target-dir %s' % os.path.join(CACHE, 'target-macro'), cwd=mdir, timeout=900)
        if rc != 0:
            broken.append(('build', 'macro_drive does not build: ' + out[-1500:]))
        else:
            r18 = c18_check.run(REPO, CACHE, os.path.join(CACHE, 'target-macro', 'debug', 'macro_drive'), seed, P['c18']['cases'] * scale)
            if r18['error']:
                broken.append(('build', 'C18 corpus could not be built: ' + r18['error']))
            else:
                for b in r18['corpus_bad']:
                    c18_viol.append(dict(kind='corpus', **b))
                for b in r18['token_forbidden'][:3]:
                    c18_viol.append(dict(kind='forbidden-token-in-expansion', **b))
                for b in r18['corpus_wrong_reason']:
                    broken.append(('correspondence', 'unsound program %s is rejected, but not for the expected reason (%s): %s' % (b['program'], b['expected_error'], b['observed'])))
                for b in r18['token_unknown'][:3]:
                    broken.append(('correspondence', 'expansion contains tokens outside the translated grammar: %s (input %s)' % (b['tokens'], b['input'][:200])))
                c18_info = dict(programs=len(r18['corpus']), expansions_checked=r18['expansions_checked'],
                                template_idents=r18['template_idents'], patterns=r18['patterns'],
                                corpus=[dict(program=n, expected='compiles' if e else 'rejected', observed='compiled' if o else f) for n, e, o, f in r18['corpus']])

    fill_info = None
    fill_viol = []
    if P.get('fill'):
        fr = fill_check.run(REPO, CACHE, COQ, debug=False)
        if fr['error']:
            broken.append(('build', 'fill probe: ' + fr['error']))
        else:
            fill_viol = fr['violations']
            if fr['correspondence']:
                broken.append(('correspondence', fr['correspondence']))
            fill_info = dict(entities_created=fr['entities'], records=fr['records'], growth_steps=len(fr['grows']), last_records=fr['tail'])
        if not fr['error']:
            fr2 = fill_check.run(REPO, CACHE, COQ, debug=True)
            if fr2['error']:
                broken.append(('build', 'fill probe (debug): ' + fr2['error']))
            else:
                fill_viol += fr2['violations']
                if fr2['correspondence']:
                    broken.append(('correspondence', 'debug build: ' + fr2['correspondence']))
                fill_info['debug_build'] = dict(entities_created=fr2['entities'], records=fr2['records'])

    cycle_info = None
    cycle_viol = []
    if P.get('cycle'):
        # quick tier: 50 million real cycles per configuration (a second); thorough tier: the whole 2^32 range (about 90 s)
        yr = cycle_check.run(REPO, CACHE, COQ, limit=None if tier == 'thorough' else 50000000)
        if yr['error']:
            broken.append(('build', 'cycle probe: ' + yr['error']))
        else:
            cycle_viol = yr['violations']
            for c in yr['correspondence']:
                broken.append(('correspondence', 'cycle probe: ' + c))
            cycle_info = dict(real_create_destroy_cycles=yr['cycles'], whole_generation_range=(tier == 'thorough'), runs=yr['runs'])

    cfgp_info = None
    cfgp_viol = []
    if P.get('cfgprobe'):
        cr = cfg_probe.run(REPO, CACHE, seed, 12 * scale)
        if cr['error']:
            broken.append(('build', 'cfg probe: ' + cr['error']))
        else:
            cfgp_viol = cr['rule_violations'] if P['cfgprobe'] == 'rule' else cr['violations']
            cfgp_info = dict(kind=P['cfgprobe'], pairs_compiled_and_compared=cr['pairs'], emitted_ids_compared_with_the_rule=cr['rule_checked'],
                             skipped_invalid=cr.get('skipped', 0), sample=cr['sample'])

    side_info = None
    side_viol = []
    if P.get('side'):
        sr = side_probe.run(REPO, CACHE, seed, 40 * scale)
        if sr['error']:
            broken.append(('build', 'side probe: ' + sr['error']))
        else:
            side_viol = sr[P['side'] + '_failures']
            side_info = dict(kind=P['side'], scenarios=sr[P['side'] + '_scenarios'], builds=['debug', 'release'])

    big_info = None
    big_viol = []
    if P.get('big'):
        br = side_probe.run_big(REPO, CACHE)
        if br['error']:
            broken.append(('build', 'big probe: ' + br['error']))
        else:
            big_viol = br['failures']
            big_info = dict(archetypes=256, builds=br['builds'])

    api_info = None
    api_viol = []
    if P.get('api'):
        ar = side_probe.run_api(REPO, CACHE)
        if ar['error']:
            broken.append(('build', 'api probe: ' + ar['error']))
        else:
            api_viol = ar['failures']
            api_info = dict(builds=ar['builds'], checks=ar['checks'])

    if P.get('xcrate'):
        xr = side_probe.run_api(REPO, CACHE, name='xcrate_probe', tdirname='target-xcrate')
        if xr['error']:
            broken.append(('build', 'cross-crate probe: ' + xr['error']))
        else:
            api_viol = api_viol + ['[world declared in another crate] ' + f for f in xr['failures']]
            api_info = dict(api_info or {}, xcrate_builds=xr['builds'], xcrate_checks=xr['checks'])

    violations = []
    known_hits = []
    kf = known_findings()
    for v in c18_viol:
        path = write_replay(pid, dict(property=pid, kind='specification-violation', harness='c18', detail=v, broken=broken))
        violations.append('VIOLATION property=%s replay=%s' % (pid, path))
    for v in api_viol[:3]:
        path = write_replay(pid, dict(property=pid, kind='specification-violation', harness='api_probe', reason=v, broken=broken,
                                      how='harness/api_probe: every rarely used entry point compared with the commonly used one that must agree with it; see the header of its main.rs'))
        violations.append('VIOLATION property=%s replay=%s' % (pid, path))
    for v in big_viol[:2]:
        path = write_replay(pid, dict(property=pid, kind='specification-violation', harness='big_probe', reason=v, broken=broken,
                                      how='harness/big_probe: a world with 256 archetypes (ids 0..=255), events feature; see the header of its main.rs'))
        violations.append('VIOLATION property=%s replay=%s' % (pid, path))
    for v in side_viol[:3]:
        path = write_replay(pid, dict(property=pid, kind='specification-violation', harness='side_probe', which=P['side'], reason=v, seed=seed, broken=broken,
                                      how='harness/side_probe %s scenarios (see the header of its main.rs); re-run: cargo run -- <seed %% 100000> <n>' % P['side']))
        violations.append('VIOLATION property=%s replay=%s' % (pid, path))
    for v in cfgp_viol[:3]:
        path = write_replay(pid, dict(property=pid, kind='specification-violation', harness='cfg_probe', reason=v['what'], description=v['description'],
                                      program=v['program'], erased=v.get('erased'), seed=seed, pair=v['pair'], broken=broken))
        violations.append('VIOLATION property=%s replay=%s' % (pid, path))
    for v in cycle_viol[:3]:
        path = write_replay(pid, dict(property=pid, kind='specification-violation', harness='cycle', reason=v['reason'], record=v['record'],
                                      how='harness/cycle_probe creates and destroys one storage position (capacity 1) through the public API, up to 2^32+5 times; see the header of its main.rs', broken=broken))
        violations.append('VIOLATION property=%s replay=%s' % (pid, path))
    for v in fill_viol[:3]:
        path = write_replay(pid, dict(property=pid, kind='specification-violation', harness='fill', reason=v['reason'], record=v['record'],
                                      how='harness/fill_probe creates entities in one archetype (u8 component) from an empty world until create panics', broken=broken))
        violations.append('VIOLATION property=%s replay=%s' % (pid, path))
    for c, msg in macro_fail[:3]:
        path = write_replay(pid, dict(property=pid, kind='specification-violation', harness='macro_drive', input=c['line'],
                                      implementation=c['raw'], reason=msg, broken=broken))
        violations.append('VIOLATION property=%s replay=%s' % (pid, path))
    if macro_diffs and not macro_fail:
        c, v = macro_diffs[0]
        broken.append(('correspondence', 'macro model and macro code disagree on `%s`: implementation %s, model %s' % (c['line'], c['impl'], v)))
    # 1. observations the specification forbids (for this property)
    own = [r for r in all_results if r['spec'] and in_tags(r['spec'], P['tags'])]
    if pid == 'C07':
        # C07's last clause: a direct handle the loop hands to the closure designates the visited entity.
        # The oracle reports such failures under C09; they are C07's when the handle was issued by ecs_iter_destroy!.
        for r in all_results:
            sp, c = r['spec'], r['case']
            if sp and sp['prop'] == 9 and r not in own and sp['index'] < len(c['ops']):
                k = direct_ref_of(c['ops'][sp['index']])
                org = direct_origins(WORLDS[c['world']], c['ops'], c['obs'])
                if k is not None and k < len(org) and org[k] == 'iterd':
                    r['as_tags'] = [9]
                    own.append(r)
    # 1b. the harness's own assertions about the implementation (it prints them and dies): the history up to the
    #     death is a concrete failing input for the properties the assertion speaks about
    HARNESS_ASSERTS = [('clone_from differs', (13,), 'Clone::clone_from into another world gives a world that differs (bookkeeping dump or rows) from what clone() gives'),
                       ('iterator adaptor', (6, 2), 'Archetype::iter()/iter_mut() consumed through the standard adaptors (skip, step_by, nth, count, last) presents other items than a plain loop over it'),
                       ('handle equality', (14,), 'handle equality (==, !=, Hash) disagrees with bit equality: handles of distinct entities compare equal, or equal handles compare unequal or hash differently'),
                       ('try_from/from_any disagree', (14, 19, 3), 'try_from and from_any disagree on the same dynamically typed handle (one accepts what the other refuses)'),
                       ('slice length mismatch', (6, 12, 2, 3), 'a slice accessor presents a number of items different from len()'),
                       ('canary', (2, 3, 10), 'a component value read back is not a value that was stored (canary bytes differ)'),
                       ('misaligned', (2, 3), 'a component reference is misaligned')]
    harness_hits = []
    for r in all_results:
        d = r['case'].get('died') or ''
        for needle, props, text in HARNESS_ASSERTS:
            if 'harness: ' in d and needle in d and any(in_tags(dict(prop=p_, reason=99), P['tags']) for p_ in props):
                harness_hits.append((r, text))
                break
    for r, text in harness_hits[:2]:
        c = r['case']
        n = len([o for o in c['obs'] if o is not None]) + 1
        path = write_replay(pid, dict(property=pid, kind='specification-violation', world=c['world'], config=c['config'], seed=seed, stream=c.get('stream'),
                                      reason=text + ' (assertion of the harness; the process then exits)', failing_op_index=n - 1,
                                      ops=[O.to_rust(o) for o in c['ops'][:n]], ops_struct=c['ops'][:n], observed=c['obs'][:n], died=c.get('died'), broken=broken))
        violations.append('VIOLATION property=%s replay=%s' % (pid, path))
    # 1c. direct handles and versions (C03, C09): decided from the trace's own observations
    if pid in ('C03', 'C09') and not violations:
        for r in all_results:
            bad = direct_version_oracle(r['case'])
            if bad is not None:
                c = r['case']
                path = write_replay(pid, dict(property=pid, kind='specification-violation', world=c['world'], config=c['config'], seed=seed, stream=c.get('stream'),
                                              reason='a direct handle whose version differs from the version its archetype was just observed at (the preceding `len`) was accepted',
                                              failing_op_index=bad, ops=[O.to_rust(o) for o in c['ops'][:bad + 1]], ops_struct=c['ops'][:bad + 1],
                                              observed=c['obs'][:bad + 1], oracle='direct_version', broken=broken))
                violations.append('VIOLATION property=%s replay=%s' % (pid, path))
                break
    # 1d. generations never fall below what a storage already issued (C08; C19 for the configurations without wrapping_version)
    if pid in ('C08', 'C09', 'C19') and not violations:
        for r in all_results:
            c = r['case']
            hit = generation_floor_oracle(c, CONFIGS[c['config']]['cfg']['wrapping'])
            if hit is not None:
                bad, text = hit
                path = write_replay(pid, dict(property=pid, kind='specification-violation', world=c['world'], config=c['config'], seed=seed, stream=c.get('stream'),
                                              reason=text, failing_op_index=bad, ops=[O.to_rust(o) for o in c['ops'][:bad + 1]], ops_struct=c['ops'][:bad + 1],
                                              observed=c['obs'][:bad + 1], oracle='generation_floor', broken=broken))
                violations.append('VIOLATION property=%s replay=%s' % (pid, path))
                break
    # 2. model / implementation disagreements, decl mismatches, deaths
    diffs = [r for r in all_results if r['diff'] is not None or r['case'].get('died') or r['case'].get('decl_mismatch')]

    def report_spec(r, extra=None):
        c = r['case']
        w = WORLDS[c['world']]
        cfg = CONFIGS[c['config']]['cfg']
        sp = r['spec']
        tags = r.get('as_tags') or P['tags']
        ops_min = minimise(r['binary'], w, cfg, c['ops'][:sp['index'] + 1],
                           lambda cc: spec_failure_of(cc, cfg, tags, 'min-' + pid) is not None)
        cc = session.replay_ops(r['binary'], w, ops_min)
        sp2 = spec_failure_of(cc, cfg, tags, 'min-' + pid) or sp
        payload = dict(property=pid, kind='specification-violation', world=c['world'], config=c['config'], seed=seed,
                       stream=c.get('stream'), reason_code=sp2['reason'], reason=REASONS.get(sp2['reason'], 'see coq/spec/Spec.v'),
                       failing_op_index=sp2['index'], ops=[O.to_rust(o) for o in ops_min], ops_struct=ops_min,
                       observed=cc['obs'], broken=broken, extra=extra)
        return write_replay(pid, payload)

    seen_reasons = set()
    for r in own:
        key = (r['spec']['reason'], r['case']['config'])
        if key in seen_reasons:
            continue
        seen_reasons.add(key)
        path = report_spec(r)
        violations.append('VIOLATION property=%s replay=%s' % (pid, path))

    if pid == 'C11' and not violations:
        for r in all_results:
            d = r['diff']
            if isinstance(d, tuple) and d[0] < len(r['case']['ops']) and r['case']['ops'][d[0]][0] == 'borrow':
                c = r['case']
                npre = len([o for o in c['ops'] if o[0] != 'borrow'])
                ops_min = [o for o in c['ops'][:npre]] + [c['ops'][d[0]]]
                path = write_replay(pid, dict(property=pid, kind='specification-violation', world=c['world'], config=c['config'], seed=seed,
                                              reason='a runtime-borrowed access was granted/refused against the RefCell rule (expected = model column)',
                                              expected=d[1], observed_record=d[2], failing_op_index=len(ops_min) - 1,
                                              ops=[O.to_rust(o) for o in ops_min], ops_struct=ops_min, observed=c['obs'][:npre] + [c['obs'][d[0]]]))
                violations.append('VIOLATION property=%s replay=%s' % (pid, path))
                break

    # C13: the clone audit of stream S11 -- the observation blocks of original and clone must be equal
    if pid == 'C13' and not violations:
        for r in all_results:
            bad = clone_audit(r['case'])
            if bad is not None:
                c = r['case']
                path = write_replay(pid, dict(property=pid, kind='specification-violation', world=c['world'], config=c['config'], seed=seed,
                                              reason='after clone, the clone answers differently from the original', failing_op_index=bad,
                                              ops=[O.to_rust(o) for o in c['ops'][:bad + 1]], ops_struct=c['ops'][:bad + 1], observed=c['obs'][:bad + 1]))
                violations.append('VIOLATION property=%s replay=%s' % (pid, path))
                break

    if not violations and (broken or diffs):
        # search: the specification oracle on more histories, all streams of this property, fresh seeds
        found = None
        search_cfgs = sorted(set(r['case']['config'] for r in diffs)) or cfgnames[:1]
        for cfgname in search_cfgs:
            binary, _ = harness_binary(cfgname)
            if binary is None:
                continue
            for k in range(1, 3):
                res, _ = run_streams(pid, P['streams'], cfgname, binary, seed + 7919 * k, 2, corpus=False)
                hit = [r for r in res if r['spec'] and in_tags(r['spec'], P['tags'])]
                if hit:
                    hit[0]['binary'] = binary
                    found = hit[0]
                    break
            if found:
                break
        first = diffs[0] if diffs else None
        extra = None
        if first is not None:
            c = first['case']
            d = first['diff']
            extra = dict(correspondence='model and implementation disagree', case=c['id'], config=c['config'],
                         ops=[O.to_rust(o) for o in c['ops'][:(d[0] + 1) if isinstance(d, tuple) else None]],
                         model=d[1] if isinstance(d, tuple) else None, implementation=d[2] if isinstance(d, tuple) else None,
                         died=c.get('died'), decl_mismatch=c.get('decl_mismatch', False))
        if found:
            path = report_spec(found, extra)
            violations.append('VIOLATION property=%s replay=%s' % (pid, path))
        else:
            payload = dict(property=pid, kind='no-failing-input-found', broken=broken, correspondence=extra, seed=seed,
                           note='the property is no longer shown to hold: the obligations listed under "broken" / "correspondence" no longer check; '
                                'the search (specification oracle on additional histories) found no input on which the property itself fails')
            path = write_replay(pid, payload)
            violations.append('VIOLATION property=%s replay=%s no-failing-input-found' % (pid, path))

    # known findings: reported, never suppressing anything else
    if pid == 'C03':
        hits = f3_instances(all_results)
        listed = [k for k in kf.get('known', []) if k.get('property') == 'C03']
        if hits and listed:
            known_hits.append('KNOWN-FINDING: property=C03 %s (%d occurrences this run, e.g. `%s` via %s)' % (listed[0]['what'], len(hits), hits[0]['op'], hits[0]['route']))
        elif hits:
            path = write_replay(pid, dict(property=pid, kind='unlisted-finding', hits=hits[:5]))
            violations.append('VIOLATION property=%s replay=%s' % (pid, path))

    # ---------------- evidence
    total_cases = sum(s['cases'] for _, s in stats_all)
    need = set(P.get('need', []))
    distinct = {}
    for r in all_results:
        c = r['case']
        kinds = set(o[0] for o in c['ops'])
        if len(c['ops']) >= 10 and need <= kinds:
            distinct[case_key(c)] = True
    sample = None
    for r in all_results:
        if not r['case']['id'].startswith('corpus'):
            c = r['case']
            sample = dict(id=c['id'], config=c['config'], ops=[O.to_rust(o) for o in c['ops'][:25]], observations=c['obs'][:25])
            break
    ev = dict(
        property_id=pid, tier=tier, seed=seed, level='proof',
        coverage=dict(
            obligations=max(obligations, 1), discharged=(obligations if not any(k in ('proof', 'audit') for k, _ in broken) else 0),
            checker_cmd='make -C coq %s (coqc 8.16.1, full .vo build) + Print Assumptions audit' % ' '.join(P['coq']),
            trusted_base=['Coq 8.16.1 kernel incl. vm_compute', 'tools/extract.py (translator)', 'correspondence harness (harness/storage_harness, tools/gen_ops.py, tools/coqrun.py)',
                          'rustc/cargo', 'axioms: ' + (', '.join(axioms) if axioms else 'none (Closed under the global context)')],
            theorems=thms, cone_files=conefiles,
            evaluations=total_cases + (big_info['builds'] if big_info else 0) + (side_info['scenarios'] if side_info else 0) + (1 if fill_info else 0) + ((api_info.get('checks', 0) + api_info.get('xcrate_checks', 0)) if api_info else 0) + (len(cycle_info['runs']) if cycle_info else 0) + (cfgp_info['pairs_compiled_and_compared'] if cfgp_info else 0) + (macro_info['cases'] if macro_info else 0) + ((c18_info['programs'] + c18_info['expansions_checked']) if c18_info else 0),
            distinct_nontrivial=len(distinct) + (macro_info['distinct'] if macro_info else 0) + ((c18_info['programs'] + c18_info['expansions_checked']) if c18_info else 0),
            rule='histories generated interactively from VERIF_SEED per stream; non-trivial = at least 10 operations including every kind in %s; distinct by the hash of the operation list' % sorted(need),
            traces_validated_against_impl=total_cases,
            model_disagreements=len(diffs), spec_failures=len(own),
            streams=[dict(config=cn, cases=s['cases'], ops=s['ops'], histories_meeting_run_theorem_hypotheses=s.get('wf_histories', 0), histories_meeting_history_theorem_hypotheses=s.get('hist_histories', 0), ops_by_kind=s['by_kind'], outcomes=s['outcomes']) for cn, s in stats_all],
            samples=([sample] if sample else []) + ([macro_info['sample']] if macro_info else []),
            macro=macro_info, c18=c18_info, fill=fill_info, api_probe=api_info, cycle=cycle_info, big_world=big_info, side_probe=side_info, cfg_probe=cfgp_info, coqchk=coqchk_note, programs=(c18_info['programs'] if c18_info else 0),
            exhaustive=any(r['case'].get('exhaustive') for r in all_results) if pid == 'C11' else False,
            explanation='machine-checked theorems over the model; model tied to the source by translation (coq/gen regenerated this run) and by differential execution of the same operations on the implementation',
        ),
        assumptions=['the hand-written part of the model (coq/model) mirrors the Rust it names; agreement is checked on the streams above, not proved',
                     'std::alloc, RefCell, Vec and rustc are trusted', 'specification oracle (coq/spec/Spec.v) is an unproved monitor used for search and replay'],
        wall_s=round(time.time() - t0, 1), violations=len(violations),
    )
    evdir = os.environ.get('VERIF_EVIDENCE_DIR') or os.path.join(ROOT, 'evidence')   # seeded-change experiments write elsewhere
    os.makedirs(evdir, exist_ok=True)
    json.dump(ev, open(os.path.join(evdir, pid + '.json'), 'w'), indent=1, default=str)
    for k in known_hits:
        print(k)
    for v in violations:
        print(v)
    return 1 if violations else 0


def c18_corpus_run():
    import c18_corpus
    return c18_corpus.run(REPO, CACHE)


def replay(path):
    j = json.load(open(path))
    pid = j['property']
    # the model the replay is compared with is the one translated from the current source
    step_extract()
    step_make([])
    if j.get('harness') == 'c18':
        d = j['detail']
        if d['kind'] == 'corpus':
            res, err = c18_corpus_run()
            for name, exp, ok, first in res or []:
                if name == d['program']:
                    print(name, 'expected', 'compiles' if exp else 'rejected', '- now', 'compiled' if ok else 'rejected: ' + first)
                    if exp != ok:
                        print('VIOLATION property=%s replay=%s' % (pid, path))
                        return 1
            return 0
        print(json.dumps(d, indent=1))
        return 0
    if j.get('harness') == 'big_probe':
        br = side_probe.run_big(REPO, CACHE)
        print('recorded:', j['reason'])
        print('now:', br['failures'] or 'as expected', br['error'] or '')
        if br['failures']:
            print('VIOLATION property=%s replay=%s' % (pid, path))
            return 1
        return 0
    if j.get('harness') == 'side_probe':
        sr = side_probe.run(REPO, CACHE, j['seed'], 40)
        now = sr[j['which'] + '_failures']
        print('recorded:', j['reason'])
        print('now:', now[:3] if now else 'no failing scenario', sr['error'] or '')
        if now:
            print('VIOLATION property=%s replay=%s' % (pid, path))
            return 1
        return 0
    if j.get('harness') == 'cfg_probe':
        cr = cfg_probe.run(REPO, CACHE, j['seed'], 12)
        hit = [v for v in cr['violations'] + cr['rule_violations'] if v['pair'] == j['pair']]
        print('recorded:', j['reason'])
        print('now:', hit[0]['what'] if hit else 'decorated and erased declarations agree', cr['error'] or '')
        if hit:
            print('VIOLATION property=%s replay=%s' % (pid, path))
            return 1
        return 0
    if j.get('harness') == 'api_probe':
        ar = side_probe.run_api(REPO, CACHE)
        print('recorded:', j['reason'])
        print('now:', ar['failures'], ar['error'])
        if ar['failures']:
            print('VIOLATION property=%s replay=%s' % (pid, path))
            return 1
        return 0
    if j.get('harness') == 'cycle':
        yr = cycle_check.run(REPO, CACHE, COQ)
        print('recorded:', j['reason'], '|', j['record'])
        print('now:', yr['runs'], yr['violations'], yr['error'])
        if yr['violations']:
            print('VIOLATION property=%s replay=%s' % (pid, path))
            return 1
        return 0
    if j.get('harness') == 'fill':
        fr = fill_check.run(REPO, CACHE, COQ)
        print('recorded:', j['reason'], '|', j['record'])
        print('now:', fr['tail'], fr['violations'], fr['error'])
        if fr['violations']:
            print('VIOLATION property=%s replay=%s' % (pid, path))
            return 1
        return 0
    if j.get('harness') == 'macro_drive':
        mdir = os.path.join(ROOT, 'harness', 'macro_drive')
        rc, out = sh('cargo build --offline --target-dir %s' % os.path.join(CACHE, 'target-macro'), cwd=mdir, timeout=900)
        if rc != 0:
            raise Internal('macro_drive build failed: ' + out[-1000:])
        mbin = os.path.join(CACHE, 'target-macro', 'debug', 'macro_drive')
        now = macro_gen.run_drive(mbin, [j['input']])[0]
        print('input:          ', j['input'])
        print('recorded output:', j['implementation'])
        print('current output: ', now)
        print('reason recorded:', j['reason'])
        if now == j['implementation']:
            print('VIOLATION property=%s replay=%s' % (pid, path))
            return 1
        return 0
    if j.get('kind') == 'no-failing-input-found' or 'ops_struct' not in j:
        print('replay: %s names obligations, not an input:' % path)
        print(json.dumps(j.get('broken'), indent=1))
        print(json.dumps(j.get('correspondence'), indent=1))
        return 0
    prepare_harness_sources()
    binary, out = harness_binary(j['config'])
    if binary is None:
        raise Internal('harness build failed: ' + out[-1000:])
    w = WORLDS[j['world']]
    cfg = CONFIGS[j['config']]['cfg']
    ops = [listify_caps(tuplify(o)) for o in j['ops_struct']]
    c = session.replay_ops(binary, w, ops)
    r = evaluate([c], cfg, 'replay-' + pid)[0]
    for o, ob in zip(c['ops'], c['obs']):
        print('%-40s => %s' % (O.to_rust(o), ob))
    print('model agreement:', 'yes' if r['diff'] is None else r['diff'])
    print('specification oracle:', r['spec'])
    c07_direct = False
    if pid == 'C07' and r['spec'] and r['spec']['prop'] == 9 and r['spec']['index'] < len(c['ops']):
        k = direct_ref_of(c['ops'][r['spec']['index']])
        org = direct_origins(w, c['ops'], c['obs'])
        c07_direct = k is not None and k < len(org) and org[k] == 'iterd'
    if j.get('oracle') == 'generation_floor':
        hit = generation_floor_oracle(c, CONFIGS[j['config']]['cfg']['wrapping'])
        print('generation-floor oracle:', ('violated at op %s: %s' % hit) if hit is not None else 'satisfied')
        if hit is not None:
            print('VIOLATION property=%s replay=%s' % (pid, path))
            return 1
        return 0
    if j.get('oracle') == 'direct_version':
        bad = direct_version_oracle(c)
        print('direct-version oracle:', 'violated at op %s' % bad if bad is not None else 'satisfied')
        if bad is not None:
            print('VIOLATION property=%s replay=%s' % (pid, path))
            return 1
        return 0
    if j.get('died') and c.get('died') and 'harness: ' in c['died']:
        print('the harness asserts:', c['died'][-300:])
        print('VIOLATION property=%s replay=%s' % (pid, path))
        return 1
    if (r['spec'] and in_tags(r['spec'], PROPS[pid]['tags'])) or c07_direct or (pid == 'C11' and r['diff'] is not None):
        print('VIOLATION property=%s replay=%s' % (pid, path))
        return 1
    return 0


def main():
    args = sys.argv[1:]
    os.makedirs(CACHE, exist_ok=True)
    lock = open(os.path.join(CACHE, 'lock'), 'w')
    fcntl.flock(lock, fcntl.LOCK_EX)
    try:
        if args and args[0] == '--replay':
            sys.exit(replay(args[1]))
        pid = args[0]
        tier = os.environ.get('VERIF_TIER', 'quick')
        if '--tier' in args:
            tier = args[args.index('--tier') + 1]
        seed = int(os.environ.get('VERIF_SEED', '20260929'))
        sys.exit(check(pid, tier, seed))
    except Internal as e:
        print('INTERNAL-ERROR %s' % e)
        sys.exit(2)


if __name__ == '__main__':
    main()
