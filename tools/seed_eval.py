#!/usr/bin/env python3
"""seed_eval.py [ids...]: for every seeded change under seeded/<id>/ apply patch.diff to the repository copy
named by $VERIF_REPO (default /repo), run the quick checks listed in meta.json ("checks"), undo it, and write
seeded/<id>/result.json.  Meant to run from a snapshot (vp run --with-repo) so that it never touches /repo."""
import json, os, subprocess, sys, time
ROOT = os.path.dirname(os.path.dirname(os.path.abspath(__file__)))
REPO = os.environ.get('VP_RUN_REPO') or os.environ.get('VERIF_REPO', '/repo')
os.environ['VERIF_REPO'] = REPO
ids = sys.argv[1:] or sorted(os.listdir(os.path.join(ROOT, 'seeded')))
if REPO == '/repo' and not os.environ.get('SEED_EVAL_ALLOW_REPO'):
    print('refusing to patch /repo itself; run through `vp run --with-repo` or set SEED_EVAL_ALLOW_REPO=1'); sys.exit(2)
subprocess.run('bash tools/setup.sh > setup.log 2>&1', shell=True, cwd=ROOT)
for sid in ids:
    d = os.path.join(ROOT, 'seeded', sid)
    meta = json.load(open(os.path.join(d, 'meta.json')))
    r = subprocess.run(['git', '-C', REPO, 'apply', os.path.join(d, 'patch.diff')], capture_output=True, text=True)
    if r.returncode:
        print(sid, 'patch does not apply', r.stderr); continue
    out = {}
    for pid in meta['checks']:
        t = time.time()
        p = subprocess.run(['python3', 'tools/check.py', pid], cwd=ROOT, capture_output=True, text=True)
        lines = [l for l in p.stdout.split('\n') if l.startswith(('VIOLATION', 'KNOWN-FINDING', 'INTERNAL'))]
        detail = None
        for l in lines:
            if l.startswith('VIOLATION') and 'replay=' in l:
                path = l.split('replay=')[1].split()[0]
                try:
                    j = json.load(open(path))
                    detail = dict(kind=j.get('kind'), reason=j.get('reason'), ops=j.get('ops'), broken=[b[0] for b in j.get('broken') or []], input=j.get('input'))
                except Exception as e:
                    detail = str(e)
        out[pid] = dict(exit=p.returncode, lines=lines, wall_s=round(time.time() - t, 1), detail=detail)
        print(sid, pid, p.returncode, lines, round(time.time() - t, 1), flush=True)
    subprocess.run(['git', '-C', REPO, 'checkout', '--', '.'])
    json.dump(out, open(os.path.join(d, 'result.json'), 'w'), indent=1)
# finally: the unchanged tree must be quiet
for pid in sorted(set(c for sid in ids for c in json.load(open(os.path.join(ROOT, 'seeded', sid, 'meta.json')))['checks'])):
    p = subprocess.run(['python3', 'tools/check.py', pid], cwd=ROOT, capture_output=True, text=True)
    print('unchanged', pid, p.returncode, [l for l in p.stdout.split('\n') if l.startswith(('VIOLATION', 'INTERNAL'))], flush=True)
