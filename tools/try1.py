import sys, os
sys.path.insert(0, os.path.dirname(__file__))
from worlds import WORLDS
import session, coqrun, ops as O
W = WORLDS['w1']
A = lambda i: ('a', i)
ops = [
 ('new',[0,2,0,1]), ('create',0,5), ('create',1,6), ('create',1,7), ('create',1,8), ('len',1), ('dump',1),
 ('probe','w','e','any',('i',1)), ('probe','w','e',('t',1),('i',1)), ('probe',A(1),'e','any',('i',1)), ('probe',A(1),'e',('t',1),('i',2)),
 ('probe','w','e',('t',0),('i',1)), ('probe','w','e',('u',0),('i',1)), ('probe','w','e',('m',0),('i',1)),
 ('destroy','w','e','any',('i',1)), ('probe','w','e','any',('i',1)), ('probe','w','e','any',('i',3)),
 ('readall','iter',1), ('readall','slices',1), ('todirect','w','e','any',('i',2)), ('probe','w','d','any',('d',0)), ('probe','w','d',('t',1),('d',0)),
 ('iter',0,False,None,None,0), ('iter',1,False,None,None,5), ('iter',1,True,1,None,0), ('iterd',1,'cC'), ('readall','bslice',1), ('readall','itermut',0),
 ('reg',), ('clone',), ('switch',1), ('reg',), ('len',1), ('drop',0), ('reg',),
 ('find',3,False,'e','any',('i',2),1), ('find',4,True,'e',('t',1),('i',2),0), ('write','view',1,'e',('t',1),('i',2),1,99), ('write','find',1,'e','any',('i',2),0,77),
 ('readall','slice',1), ('events','w'), ('preset',2,100,200), ('create',2,1), ('dump',2),
]
binary = sys.argv[1] if len(sys.argv) > 1 else 'harness/storage_harness/target/debug/storage_harness'
case = session.replay_ops(binary, W, ops)
print(case['decl'] == O.decl_expected_line(W), case.get('died'))
cfg = dict(wrapping=False, events=False, debug=True)
res = coqrun.run_cases([case], cfg, '/verif/work/try1')
print(res)
for r in res:
    d = coqrun.parse_diff(r)
    if d:
        i, m, im = d
        print('op', i, O.to_rust(ops[i])); print(' model', m); print(' impl ', im)
