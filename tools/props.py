"""Per-property configuration of the checks: Coq targets, correspondence streams, oracle tags."""

# Build configurations of the Rust harness: name -> (cargo profile, features, model config)
CONFIGS = {
    'dbg':      dict(profile='dev', features=[], cfg=dict(wrapping=False, events=False, debug=True)),
    'rel':      dict(profile='fastrel', features=['events', 'wrapping_version'], cfg=dict(wrapping=True, events=True, debug=False)),
    'dbg-ev':   dict(profile='dev', features=['events'], cfg=dict(wrapping=False, events=True, debug=True)),
    'dbg-wrap': dict(profile='dev', features=['wrapping_version'], cfg=dict(wrapping=True, events=False, debug=True)),
    'dbg-all':  dict(profile='dev', features=['events', 'wrapping_version', 'comps32'], cfg=dict(wrapping=True, events=True, debug=True)),
    'rel-plain': dict(profile='fastrel', features=[], cfg=dict(wrapping=False, events=False, debug=False)),
    'rel-ev':   dict(profile='fastrel', features=['events'], cfg=dict(wrapping=False, events=True, debug=False)),
    'rel-all':  dict(profile='fastrel', features=['events', 'wrapping_version', 'comps32'], cfg=dict(wrapping=True, events=True, debug=False)),
    'dbg-32':   dict(profile='dev', features=['comps32'], cfg=dict(wrapping=False, events=False, debug=True)),
}

# stream = (world, profile, cases, maxlen); quick tier counts (thorough multiplies by 8)
PROPS = {
    'C01': dict(title='A handle resolves iff its entity is alive; stale handles never resolve',
                coq=['props/C01.vo'], tags=[1],
                streams=[('w1', 'S1', 40, 60), ('w2', 'S1', 20, 60), ('w1', 'S7', 20, 60)],
                configs=['dbg', 'rel'],
                need=['destroy', 'probe', 'create']),
    'C14': dict(title='Handle conversions are lossless, type-faithful and consistent with Eq/Hash',
                coq=['props/C14.vo'], tags=[14],
                streams=[('w1', 'H1', 40, 60), ('w2', 'H1', 40, 60)],
                configs=['dbg', 'rel'],
                need=['conv']),
}

THOROUGH_CONFIGS = ['dbg', 'rel', 'dbg-ev', 'dbg-wrap', 'dbg-all', 'rel-plain', 'rel-ev', 'rel-all']

AXIOM_ALLOW = []   # names of standard-library axioms a theorem may depend on (none needed so far)
