"""Per-property configuration of the checks: Coq targets, correspondence streams, oracle tags."""

# Build configurations of the Rust harness: name -> (cargo profile, features, model config)
CONFIGS = {
    'dbg':      dict(profile='dev', features=[], cfg=dict(wrapping=False, events=False, debug=True)),
    'rel':      dict(profile='fastrel', features=['events', 'wrapping_version'], cfg=dict(wrapping=True, events=True, debug=False)),
    'dbg-ev':   dict(profile='dev', features=['events'], cfg=dict(wrapping=False, events=True, debug=True)),
    'dbg-wrap': dict(profile='dev', features=['wrapping_version'], cfg=dict(wrapping=True, events=False, debug=True)),
    'dbg-all':  dict(profile='dev', features=['events', 'wrapping_version', 'comps32'], cfg=dict(wrapping=True, events=True, debug=True)),
    'rel-plain': dict(profile='fastrel', features=[], cfg=dict(wrapping=False, events=False, debug=False)),
    'rel-ev':   dict(profile='fastrel', features=['events'], cfg=dict(wrapping=False, events=True, debug=False)),
    'rel-all':  dict(profile='fastrel', features=['events', 'wrapping_version', 'comps32'], cfg=dict(wrapping=True, events=True, debug=False)),
    'dbg-32':   dict(profile='dev', features=['comps32'], cfg=dict(wrapping=False, events=False, debug=True)),
}

# stream = (world, profile, cases, maxlen); quick tier counts (thorough multiplies by 8)
PROPS = {
    'C01': dict(title='A handle resolves iff its entity is alive; stale handles never resolve',
                coq=['props/C01.vo'], tags=[1, 8],
                streams=[('w1', 'S1', 40, 60), ('w2', 'S1', 20, 60), ('w1', 'S7', 20, 60)],
                configs=['dbg', 'rel'], need=['destroy', 'probe', 'create']),
    'C02': dict(title='Every access path returns the entity\'s own, latest component values',
                coq=['props/C02.vo'], api=True, tags=[2, 6, (9, 11)],   # (9, 11): a read through a direct handle returned another entity's values
                streams=[('w1', 'S2', 40, 70), ('w2', 'S2', 30, 70)],
                configs=['dbg', 'rel'], need=['write', 'readall', 'create']),
    'C03': dict(title='Arbitrary, forged or foreign handles are memory-safe and never match by accident',
                coq=['props/C03.vo'], tags=[3],
                streams=[('w1', 'S3', 50, 60), ('w2', 'S3', 20, 60)],
                configs=['dbg', 'rel'], need=['probe', 'create']),
    'C04': dict(title='Each component value is dropped exactly once; nothing leaks or double-drops',
                coq=['props/C04.vo'], side='clone', tags=[4],
                streams=[('w1', 'S4', 50, 60), ('w2', 'S4', 25, 60)], configs=['dbg', 'rel'], need=['create', 'destroy', 'reg']),
    'C05': dict(title='Queries act on exactly the archetypes whose component set satisfies them',
                coq=['props/C05.vo'], cfgprobe='cfg', xcrate=True, tags=[5], macro=dict(cases=150, stress=False),
                streams=[('w1', 'S5', 20, 50), ('w2', 'S5', 10, 50)], configs=['dbg'], need=['find', 'iter']),
    'C06': dict(title='Iteration visits every matching live entity exactly once with its own data',
                coq=['props/C06.vo'], tags=[6], fill=True,
                streams=[('w1', 'S5', 50, 60), ('w2', 'S5', 25, 60)], configs=['dbg', 'rel'], need=['iter', 'readall']),
    'C07': dict(title='ecs_iter_destroy! visits each entity once and destroys exactly the flagged ones',
                coq=['props/C07.vo'], tags=[7],
                streams=[('w1', 'S6', 50, 60), ('w2', 'S6', 25, 60)], configs=['dbg', 'rel'], need=['iterd', 'create']),
    'C08': dict(title='No handle is ever issued twice within a world',
                coq=['props/C08.vo'], macro=dict(cases=120, stress=True), tags=[8], cycle=True,
                streams=[('w1', 'S7', 40, 60), ('w1', 'S1', 20, 60), ('w2', 'S7', 20, 60)],
                configs=['dbg', 'rel-plain'], need=['create', 'destroy']),
    'C09': dict(title='A direct handle never designates another entity and dies with any removal',
                coq=['props/C09.vo'], tags=[9],
                streams=[('w1', 'S8', 50, 60), ('w2', 'S8', 20, 60), ('w1', 'S6', 20, 50), ('w1', 'S7', 15, 60)],
                configs=['dbg', 'rel'], need=['todirect', 'destroy']),
    'C10': dict(title='A panic escaping any operation leaves the world consistent and memory-safe',
                coq=['props/C10.vo'], side='leak', tags=[10, 4],
                streams=[('w1', 'S9', 40, 60), ('w1', 'S7', 30, 60), ('w2', 'S9', 20, 60)],
                configs=['dbg', 'rel-plain'], need=['create', 'reg']),
    'C11': dict(title='Runtime-borrowed access panics instead of aliasing, and never refuses wrongly',
                coq=['props/C11.vo'], tags=[11],
                streams=[('w1', 'BM', 1, 0), ('w2', 'BM', 1, 0), ('w1', 'B1', 40, 50), ('w2', 'B1', 20, 50)],
                configs=['dbg', 'rel'], need=['borrow']),
    'C12': dict(title='len and capacity are exact; creation respects capacity and the 2^24 limit',
                coq=['props/C12.vo'], tags=[12],
                streams=[('w1', 'S10', 50, 60), ('w2', 'S10', 20, 60), ('w1', 'S12', 12, 70)], fill=True, api=True,
                configs=['dbg', 'rel'], need=['create', 'createw', 'len']),
    'C13': dict(title='A cloned world is observationally identical and thereafter independent',
                coq=['props/C13.vo'], side='clone', tags=[13],
                streams=[('w1', 'S11', 40, 70), ('w2', 'S11', 20, 70)],
                configs=['dbg', 'rel'], need=['clone', 'switch']),
    'C14': dict(title='Handle conversions are lossless, type-faithful and consistent with Eq/Hash',
                coq=['props/C14.vo'], fill=True, api=True, tags=[14],
                streams=[('w1', 'H1', 40, 60), ('w2', 'H1', 40, 60)],
                configs=['dbg', 'rel'], need=['conv']),
}

PROPS['C17'] = dict(title='Event logs record exactly the creations and destructions since the last clear',
                    coq=['props/C17.vo'], big=True, tags=[17],
                    streams=[('w1', 'S12', 50, 60), ('w2', 'S12', 25, 60)], configs=['dbg-ev', 'rel'], need=['events', 'create', 'destroy'])
PROPS['C18'] = dict(title='Generated code is unsafe-free and unsound client programs do not compile',
                    coq=['props/C18.vo'], tags=[18], c18=dict(cases=60),
                    streams=[], configs=['dbg'], need=[])
PROPS['C19'] = dict(title='Crate features and build profiles change nothing but what they document',
                    coq=['props/C19.vo'], big=True, cycle=True, fill=True, tags=[1, 2, 3, 4, 5, 6, 7, 8, 9, 10, 12, 13, 14, 17, 19],
                    streams=[('w1', 'S1', 12, 50), ('w1', 'S2', 10, 50), ('w1', 'S7', 12, 50), ('w1', 'S12', 10, 50), ('w1', 'S9', 8, 50), ('w3', 'S2', 10, 40), ('w3', 'S1', 8, 40)],
                    configs=['dbg-ev', 'dbg-wrap', 'rel', 'rel-plain', 'dbg-32'], need=['create'])
PROPS['C15'] = dict(title='Archetype and component ids follow the discriminant rule and are unique',
                    coq=['props/C15.vo'], big=True, api=True, cfgprobe='rule', tags=[15], macro=dict(cases=200, stress=True),
                    streams=[('w2', 'H1', 10, 40)], configs=['dbg'], need=['conv'])
PROPS['C16'] = dict(title='#[cfg]-disabled archetypes, components and query parameters behave as absent',
                    coq=['props/C16.vo'], tags=[16], macro=dict(cases=200, stress=False), cfgprobe='cfg', xcrate=True,
                    streams=[], configs=['dbg'], need=[])

THOROUGH_CONFIGS = ['dbg', 'rel', 'dbg-ev', 'dbg-wrap', 'dbg-all', 'rel-plain', 'rel-ev', 'rel-all']

AXIOM_ALLOW = []   # names of standard-library axioms a theorem may depend on (none needed so far)
