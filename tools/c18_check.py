"""C18: rustc as the oracle for the unsound/sound corpus, and the token grammar of the expansions (stream T1)."""
import os
import re

import c18_corpus
import macro_gen as G

ROOT = os.path.dirname(os.path.dirname(os.path.abspath(__file__)))
FORBIDDEN = ['unsafe', 'no_mangle', 'export_name', 'link_section', 'link_name', 'extern', 'asm', 'global_asm', 'naked', 'transmute']


def load_tables():
    src = open(os.path.join(ROOT, 'coq', 'gen', 'ExtrTokens.v')).read()
    def lst(name):
        m = re.search(r'Definition %s : list string := \[(.*?)\]\.' % name, src, re.S)
        return re.findall(r'"((?:[^"]|"")*)"', m.group(1))
    return set(lst('template_idents')), lst('ident_patterns')


def pattern_regex(p):
    return re.compile('^' + '.*'.join(re.escape(x) for x in p.split('{}')) + '$')


def token_check(expansion, user_idents, templates, patterns):
    """Returns (forbidden tokens found, tokens outside the grammar)."""
    text = re.sub(r'(?:\br#*)?"(?:[^"\\]|\\.)*"#*', ' ', expansion)
    toks = set(re.findall(r'\b[A-Za-z_][A-Za-z0-9_]*\b', text))
    forb = sorted(t for t in toks if t in FORBIDDEN)
    regs = [pattern_regex(p) for p in patterns if p != '{}']
    unknown = []
    for t in sorted(toks):
        if t in templates or t in user_idents or re.fullmatch(r'[ui](8|16|32|64|128|size)', t):
            continue
        if any(r.match(t) for r in regs):
            continue
        unknown.append(t)
    return forb, unknown


def run(repo, cache, mbin, seed, n):
    """Returns dict(corpus=[...], corpus_bad=[...], token_forbidden=[...], token_unknown=[...], stats)."""
    out = dict(corpus_bad=[], corpus_wrong_reason=[], token_forbidden=[], token_unknown=[], error=None)
    res, err = c18_corpus.run(repo, cache)
    if res is None:
        out['error'] = err
        return out
    out['corpus'] = [(name, exp, ok, first) for name, exp, ok, first in res]
    for name, exp, ok, first in res:
        if exp != ok:
            out['corpus_bad'].append(dict(program=name, expected='compiles' if exp else 'rejected', observed='compiled' if ok else ('rejected: ' + first)))
        elif not exp:
            want = c18_corpus.EXPECT.get(name[:2])
            if want and want not in first:
                out['corpus_wrong_reason'].append(dict(program=name, expected_error=want, observed=first))
    templates, patterns = load_tables()
    cases = G.generate(mbin, seed, n)
    lines, users = [], []
    for c in cases:
        names = set(['A%d' % a['name'] for a in c['archs']] + ['C%d' % x['name'] for a in c['archs'] for x in a['comps']] +
                    ['a_%d' % a['name'] for a in c['archs']] + ['c_%d' % x['name'] for a in c['archs'] for x in a['comps']] +
                    ['feature', 'cfg', 'EcsWorld', 'ecs_world', 'world', 'entity'] + ['q%d' % i for i in range(8)] +
                    ['A%d' % i for i in range(12)] + ['a_%d' % i for i in range(12)] + ['C%d' % i for i in range(10)] + ['c_%d' % i for i in range(10)])
        if c['kind'] == 'W':
            lines.append('T\t%s\t%s' % (G.bools_rust(c['wstates']), G.world_rust(c['archs'])))
        else:
            lines.append(c['line'] + '\tfull')
        users.append(names)
    outs = G.run_drive(mbin, lines)
    checked = 0
    for l, u, o in zip(lines, users, outs):
        if not o.startswith('ok '):
            continue
        checked += 1
        forb, unk = token_check(o[3:], u, templates, patterns)
        if forb:
            out['token_forbidden'].append(dict(input=l, tokens=forb))
        if unk:
            out['token_unknown'].append(dict(input=l, tokens=unk[:10]))
    out['expansions_checked'] = checked
    out['template_idents'] = len(templates)
    out['patterns'] = len(patterns)
    return out


if __name__ == '__main__':
    import json, sys
    r = run('/repo', os.path.join(ROOT, '.cache'), os.path.join(ROOT, '.cache', 'target-macro', 'debug', 'macro_drive'), 1, 60)
    print(json.dumps({k: (v if not isinstance(v, list) else v[:3]) for k, v in r.items() if k != 'corpus'}, indent=1)[:3000])
