"""Interactive session with the Rust harness: send one op, read its observation."""
import subprocess

import ops as O


class HarnessDied(Exception):
    pass


class Session:
    def __init__(self, binary, world):
        self.world = world
        self.p = subprocess.Popen([binary, world.name], stdin=subprocess.PIPE, stdout=subprocess.PIPE,
                                  stderr=subprocess.PIPE, text=True, bufsize=1)
        self.cases = []          # finished and current cases: dict(id, ops, obs, decl)
        self.cur = None

    def start_case(self, cid):
        self.p.stdin.write('case %s\n' % cid)
        self.p.stdin.flush()
        line = self.p.stdout.readline()
        if not line.startswith('#case'):
            raise HarnessDied(self._err())
        decl = [int(x) for x in line.split()[2:]]
        self.cur = dict(id=cid, ops=[], obs=[], decl=decl, world=self.world.name)
        self.cases.append(self.cur)
        return decl

    def do(self, op):
        self.p.stdin.write(O.to_rust(op) + '\n')
        try:
            self.p.stdin.flush()
        except BrokenPipeError:
            raise HarnessDied(self._err())
        line = self.p.stdout.readline()
        if not line:
            self.cur['ops'].append(op)
            self.cur['obs'].append(None)
            raise HarnessDied(self._err())
        obs = [int(x) for x in line.split()]
        self.cur['ops'].append(op)
        self.cur['obs'].append(obs)
        return obs

    def _err(self):
        try:
            self.p.stdin.close()
        except Exception:
            pass
        rc = self.p.wait()
        return 'harness exited with %s: %s' % (rc, self.p.stderr.read()[-2000:])

    def close(self):
        try:
            self.p.stdin.close()
        except Exception:
            pass
        rc = self.p.wait()
        err = self.p.stderr.read()
        return rc, err


def replay_ops(binary, world, ops, cid='replay'):
    """Run a fixed op list; returns the case dict (obs None from the point the harness died)."""
    s = Session(binary, world)
    try:
        s.start_case(cid)
        for op in ops:
            s.do(op)
    except HarnessDied as e:
        s.cur['died'] = str(e)
        while len(s.cur['obs']) < len(ops):
            if len(s.cur['ops']) < len(ops):
                s.cur['ops'].append(ops[len(s.cur['ops'])])
            s.cur['obs'].append(None)
        return s.cur
    rc, err = s.close()
    s.cur['stderr'] = err
    return s.cur
