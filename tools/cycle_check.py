"""C08 / C19 at real scale (thorough tier): harness/cycle_probe creates and destroys one storage position
through the public API until the generation counter is exhausted - 2^32 - 1 creations, about 75 s in a
release build, no preset hook - in the default configuration and with `wrapping_version`, and checks
  * against the property texts: every create returns the previous generation + 1 (so no handle is issued
    twice), the handle destroyed in the previous cycle and the very first handle are rejected at every
    cycle, destroy hands back the value just created; in the default configuration the library panics
    instead of reissuing a handle and the world stays consistent (the live entity fully present, its
    destroy panics again, nothing else changes); with wrapping_version nothing panics, the generation
    wraps to VERSION_START and the only handle matched again is the ancient one the feature documents;
  * against the model: the cycle at which the panic comes and the generation it leaves are the ones the
    translated `slot_next` / `arch_next` give (first value without a successor), the wrap target is
    `slot_next true (2^32-1)`;
  * the preset hook against reality (built with --cfg gecs_verif): the bookkeeping dump after N real
    cycles equals the dump of a fresh storage preset to generation N+1, so the states the correspondence
    streams reach by `verif_preset_versions` are states real histories reach."""
import os
import re
import subprocess

ROOT = os.path.dirname(os.path.dirname(os.path.abspath(__file__)))
U32 = (1 << 32) - 1


def build(repo, cache, features='', hook=False):
    probe = os.path.join(ROOT, 'harness', 'cycle_probe')
    toml = os.path.join(probe, 'Cargo.toml')
    t = open(toml).read()
    t2 = re.sub(r'gecs = \{ path = "[^"]*" \}', 'gecs = { path = "%s" }' % repo, t)
    if t2 != t:
        open(toml, 'w').write(t2)
    lock = os.path.join(probe, 'Cargo.lock')
    if not os.path.exists(lock):
        subprocess.run(['cp', os.path.join(repo, 'Cargo.lock'), lock])
    tdir = os.path.join(cache, 'target-cycle' + ('-wrap' if features else '') + ('-hook' if hook else ''))
    env = dict(os.environ, CARGO_NET_OFFLINE='true')
    if hook:
        env['RUSTFLAGS'] = '--cfg gecs_verif'
    r = subprocess.run('cargo build --offline --release --target-dir %s %s' % (tdir, ('--features ' + features) if features else ''),
                       shell=True, cwd=probe, capture_output=True, text=True, env=env)
    if r.returncode != 0:
        return None, r.stderr[-2000:]
    return os.path.join(tdir, 'release', 'cycle_probe'), ''


def parse(out):
    recs = []
    for line in out.split('\n'):
        f = line.split()
        if f:
            recs.append((f[0], [int(x) for x in f[1:]]))
    return recs


def model_facts(coqdir, cache):
    """first generation without a successor (checked), the wrap target, VERSION_START - from the translated definitions."""
    path = os.path.join(cache, 'work', 'cycle_facts.v')
    os.makedirs(os.path.dirname(path), exist_ok=True)
    open(path, 'w').write(
        'From Coq Require Import NArith List.\nFrom Gecs Require Import Prim ExtrVersion.\nOpen Scope N_scope.\n'
        'Definition o2n (o : option N) : N := match o with Some x => x + 1 | None => 0 end.\n'
        'Eval vm_compute in (o2n (slot_next false 4294967295), o2n (arch_next false 4294967295), o2n (slot_next false 4294967294), o2n (arch_next false 4294967294),\n'
        '                    o2n (slot_next true 4294967295), o2n (arch_next true 4294967295), VERSION_START).\n')
    q = '-Q gen Gecs -Q model Gecs -Q spec Gecs -Q proofs Gecs -Q props Gecs'
    r = subprocess.run('cd %s && coqc -noglob %s -o %s %s' % (coqdir, q, path + 'o', path), shell=True, capture_output=True, text=True)
    if r.returncode != 0:
        return None, (r.stdout + r.stderr)[-1500:]
    nums = [int(x) for x in re.findall(r'\d+', r.stdout.split(' : ')[0])]
    return nums, ''


BAD = {1: 'create returned generation %(b)d after generation %(a)d (not the successor): a handle may be issued twice',
       2: 'the handle destroyed in the previous cycle (generation %(a)d) is accepted again',
       3: 'the very first handle is accepted again while the live handle has generation %(a)d',
       4: 'destroy handed back %(a)d instead of the value %(b)d just created',
       5: 'find on the live handle did not reach its value',
       6: 'the position was not reused: key %(b)d instead of %(a)d'}


def oracle(recs, wrapping, limit):
    bad = []
    for k, v in recs:
        if k == 'bad':
            if wrapping and v[1] == 3:
                continue      # documented: an ancient handle may match again (reported through `done`)
            bad.append(('cycle %d: ' % v[0] + BAD.get(v[1], 'code %d' % v[1]) % dict(a=v[2], b=v[3]), (k, v)))
    d = dict((k, v) for k, v in recs)
    if 'done' not in d or 'dropped' not in d:
        bad.append(('the probe died (no `done`/`dropped` record): %s' % [k for k, _ in recs][-3:], ('none', [])))
        return bad
    if not wrapping:
        if 'panic' not in d:
            if limit is None:
                bad.append(('the generation counter ran past 2^32 - 1 creations without the overflow panic (handles reissued)', ('done', d['done'])))
        else:
            p = d['panic']
            if p[2] == 0 and p[1] == 0:
                pass
            a = d.get('after')
            if a and not (a[1] == 1 and a[3] == 1 and a[4] == 1 and a[0] == a[5]):
                bad.append(('after the overflow panic the world is not consistent: len %d, live entity reachable %d, create_within_capacity refused %d, first handle rejected %d, len afterwards %d'
                            % (a[0], a[1], a[3], a[4], a[5]), ('after', a)))
    else:
        if 'panic' in d:
            bad.append(('wrapping_version: a panic after %d cycles (stage %d)' % (d['panic'][0], d['panic'][1]), ('panic', d['panic'])))
    return bad


def run(repo, cache, coqdir, limit=None):
    """limit: number of cycles for a shortened run (None = the full 2^32 range)."""
    out = dict(error=None, violations=[], correspondence=[], runs=[], cycles=0)
    facts, err = model_facts(coqdir, cache)
    if facts is None:
        out['error'] = 'coqc failed on the version facts: ' + err
        return out
    sn_max, an_max, sn_pre, an_pre, sn_wrap, an_wrap, vstart = facts
    procs = []
    for feats, hook in (('', False), ('wrapping_version', False), ('', True)):
        b, err = build(repo, cache, feats, hook)
        if b is None:
            out['error'] = 'cycle probe (%s) does not build: %s' % (feats or 'default', err)
            return out
        if hook:
            n = 3000000
            args = [b, str(n), str(n + vstart)]
        elif feats:
            args = [b, str(limit if limit else (1 << 32) + 5)]
        else:
            args = [b] + ([str(limit)] if limit else [])
        procs.append((feats, hook, subprocess.Popen(args, stdout=subprocess.PIPE, stderr=subprocess.PIPE, text=True)))
    for feats, hook, p in procs:
        so, se = p.communicate(timeout=3000)
        recs = parse(so)
        d = dict((k, v) for k, v in recs)
        name = 'hook' if hook else (feats or 'default')
        out['runs'].append(dict(config=name, exit=p.returncode, records=[' '.join([k] + [str(x) for x in v]) for k, v in recs][-8:]))
        out['cycles'] += d.get('done', [0])[0]
        out['violations'] += [dict(reason='[%s] %s' % (name, m), record=' '.join([r[0]] + [str(x) for x in r[1]])) for m, r in oracle(recs, bool(feats), limit or (3000000 if hook else None))]
        if hook:
            if d.get('dump') != d.get('preset') or 'dump' not in d:
                out['correspondence'].append('after %s real cycles the bookkeeping is %s, the preset hook gives %s' % (d.get('done', ['?'])[0], d.get('dump'), d.get('preset')))
            continue
        if limit:
            continue
        if not feats:
            # model: slot_next/arch_next (checked) have no successor exactly at 2^32-1 -> the create of generation 2^32-1
            # succeeds, its destroy panics; 2^32-2 completed cycles (generations start at VERSION_START)
            want_panic = (sn_max == 0 or an_max == 0) and sn_pre != 0 and an_pre != 0
            want_done = U32 - vstart
            if 'panic' in d:
                if not want_panic or d['panic'][0] != want_done or d['panic'][1] != 1 or d['panic'][2] != U32:
                    out['correspondence'].append('default: panic after %d cycles at stage %d with live generation %d; the translated counters say after %d cycles, in destroy, with generation %d'
                                                 % (d['panic'][0], d['panic'][1], d['panic'][2], want_done, U32))
            elif want_panic:
                out['correspondence'].append('default: no overflow panic, the translated counters have no successor at 2^32-1')
        else:
            dn = d.get('done')
            if dn and sn_wrap != 0:
                wrap_to = sn_wrap - 1
                # after generation 2^32-1 the next is wrap_to; the first handle (generation VERSION_START) matches again exactly then
                if dn[2] != 1 or (wrap_to == vstart and dn[3] != U32 - vstart + 1):
                    out['correspondence'].append('wrapping: %d wraps, first handle matched again at cycle %d; the translated counter wraps 2^32-1 -> %d' % (dn[2], dn[3], wrap_to))
    return out


if __name__ == '__main__':
    import json, sys
    lim = int(sys.argv[2]) if len(sys.argv) > 2 else None
    print(json.dumps(run(sys.argv[1] if len(sys.argv) > 1 else '/repo', os.path.join(ROOT, '.cache'), os.path.join(ROOT, 'coq'), lim), indent=1))
