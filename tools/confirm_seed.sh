#!/bin/bash
# confirm_seed.sh <worktree>: test suite passes with the change; demo fails with it and passes without it.
W=$1
cd $W || exit 2
git apply --check -R patch.diff 2>/dev/null || { echo "patch not applied in worktree; applying"; git apply patch.diff || exit 2; }
echo "== test suite with the change"
CARGO_TARGET_DIR=$W/target cargo test --offline 2>&1 | grep -E "^test result|FAILED|error" | awk '{p+=$4; f+=$6} END {print "passed", p, "failed", f}'
echo "== demo with the change"
if [ -f demo/run.sh ]; then (cd demo && CARGO_TARGET_DIR=$W/demo_target bash run.sh >/dev/null 2>&1); echo "exit $?"; else (cd demo && CARGO_TARGET_DIR=$W/demo_target cargo run --offline $2 2>&1 | tail -3; echo "exit ${PIPESTATUS[0]}"); fi
git apply -R patch.diff
echo "== demo without the change"
if [ -f demo/run.sh ]; then (cd demo && CARGO_TARGET_DIR=$W/demo_target bash run.sh >/dev/null 2>&1); echo "exit $?"; else (cd demo && CARGO_TARGET_DIR=$W/demo_target cargo run --offline $2 2>&1 | tail -3; echo "exit ${PIPESTATUS[0]}"); fi
git apply patch.diff
