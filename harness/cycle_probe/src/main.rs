//! C08 / C19 at real scale: one storage position created and destroyed again and again through the
//! public API until the generation counter is exhausted (2^32 - 1 creations; no preset hook).
//! Output (one record per line, numbers only after the tag):
//!   start <capacity>
//!   bad <cycle> <code> <a> <b>          something the property texts forbid, seen at that cycle
//!        code 1: generation of the new handle is not the previous one + 1 (a = previous, b = new)
//!        code 2: the handle destroyed in the previous cycle is accepted again
//!        code 3: the very first handle is accepted again (a = generation of the live handle)
//!        code 4: destroy did not hand back the value just created (a = got, b = want)
//!        code 5: find on the live handle did not reach its value
//!        code 6: the new handle's key differs from the first handle's key (other slot or id)
//!   panic <completed cycles> <stage: 0 in create, 1 in destroy> <generation of the live handle or 0>
//!   after <len> <find ok> <second destroy panics> <within refused> <first rejected> <len again>
//!   done <completed cycles> <last generation> <wraps seen> <first handle matched again at cycle or 0>
//!   dump ...                            (only with --cfg gecs_verif: the bookkeeping after the run)
#![forbid(unsafe_code)]
use gecs::prelude::*;
use std::panic::{catch_unwind, AssertUnwindSafe};

pub struct CompA(pub u32);
ecs_world! {
    ecs_archetype!(ArchA, CompA);
}

fn main() {
    std::panic::set_hook(Box::new(|_| {}));
    let max: u64 = std::env::args().nth(1).map(|s| s.parse().unwrap()).unwrap_or(u64::MAX);
    let mut world = EcsWorld::with_capacity(EcsWorldCapacity { arch_a: 1 });
    println!("start {}", world.archetype::<ArchA>().capacity());
    let mut done: u64 = 0;
    let mut stage: u32 = 0;
    let mut last_ver: u32 = 0;
    let mut live: Option<Entity<ArchA>> = None;
    let mut prev: Option<Entity<ArchA>> = None;
    let mut first: Option<Entity<ArchA>> = None;
    let mut bad: u32 = 0;
    let mut wraps: u64 = 0;
    let mut rematch: u64 = 0;
    let r = catch_unwind(AssertUnwindSafe(|| {
        while done < max {
            stage = 0;
            let e = world.archetype_mut::<ArchA>().create((CompA(done as u32),));
            live = Some(e);
            stage = 1;
            let (key, ver) = e.into_any().raw();
            let expect = if cfg!(feature = "wrapping_version") && last_ver == u32::MAX { 1 } else { last_ver.wrapping_add(1) };
            if ver != expect && bad < 20 {
                println!("bad {} 1 {} {}", done, last_ver, ver);
                bad += 1;
            }
            if ver < last_ver {
                wraps += 1;
            }
            last_ver = ver;
            if let Some(p) = prev {
                if world.archetype::<ArchA>().contains(p) && p != e && bad < 20 {
                    println!("bad {} 2 {} {}", done, p.into_any().raw().1, ver);
                    bad += 1;
                }
            }
            match first {
                None => first = Some(e),
                Some(f) => {
                    if f.into_any().raw().0 != key && bad < 20 {
                        println!("bad {} 6 {} {}", done, f.into_any().raw().0, key);
                        bad += 1;
                    }
                    if world.archetype::<ArchA>().contains(f) {
                        if f == e {
                            if rematch == 0 {
                                rematch = done;
                            }
                        } else if bad < 20 {
                            println!("bad {} 3 {} 0", done, ver);
                            bad += 1;
                        }
                    }
                }
            }
            if (done & 0xffff) == 0 || done > 4_294_967_000 {
                let v = ecs_find!(world, e, |c: &CompA| c.0);
                if v != Some(done as u32) && bad < 20 {
                    println!("bad {} 5 0 0", done);
                    bad += 1;
                }
            }
            let d = world.archetype_mut::<ArchA>().destroy(e);
            match d {
                Some(ArchAComponents { comp_a: CompA(v) }) if v == done as u32 => {}
                Some(ArchAComponents { comp_a: CompA(v) }) => {
                    if bad < 20 {
                        println!("bad {} 4 {} {}", done, v, done as u32);
                        bad += 1;
                    }
                }
                None => {
                    if bad < 20 {
                        println!("bad {} 4 0 {}", done, done as u32);
                        bad += 1;
                    }
                }
            }
            live = None;
            prev = Some(e);
            done += 1;
        }
    }));
    if r.is_err() {
        let g = live.map(|e| e.into_any().raw().1).unwrap_or(0);
        println!("panic {} {} {}", done, stage, g);
        // the world must still be consistent: the live entity is fully present
        let len = world.archetype::<ArchA>().len();
        let find_ok = match live {
            Some(e) => ecs_find!(world, e, |c: &CompA| c.0) == Some(done as u32),
            None => len == 0,
        };
        let again = match live {
            Some(e) => catch_unwind(AssertUnwindSafe(|| world.archetype_mut::<ArchA>().destroy(e).is_some())).is_err(),
            None => false,
        };
        let within = world.archetype_mut::<ArchA>().create_within_capacity((CompA(1),)).is_err();
        let first_rej = match (first, live) {
            (Some(f), Some(e)) if f != e => !world.archetype::<ArchA>().contains(f),
            _ => true,
        };
        println!("after {} {} {} {} {} {}", len, find_ok as u8, again as u8, within as u8, first_rej as u8, world.archetype::<ArchA>().len());
    }
    println!("done {} {} {} {}", done, last_ver, wraps, rematch);
    #[cfg(gecs_verif)]
    {
        let (ver, len, cap, head, slots, ents) = world.arch_a.data.verif_dump();
        let f = |v: &Vec<(u32, u32)>| v.iter().map(|(a, b)| format!("{} {}", a, b)).collect::<Vec<_>>().join(" ");
        println!("dump {} {} {} {} {} {}", ver, len, cap, head, f(&slots), f(&ents));
        // the same state reached by the preset hook (what the correspondence streams use instead of 2^32 cycles)
        if let Some(pv) = std::env::args().nth(2) {
            let pv: u32 = pv.parse().unwrap();
            let mut w2 = EcsWorld::with_capacity(EcsWorldCapacity { arch_a: 1 });
            w2.arch_a.data.verif_preset_versions(pv, pv);
            let (ver, len, cap, head, slots, ents) = w2.arch_a.data.verif_dump();
            println!("preset {} {} {} {} {} {}", ver, len, cap, head, f(&slots), f(&ents));
        }
    }
    drop(world);
    println!("dropped 1");
}
