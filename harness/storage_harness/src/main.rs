//! Op interpreter over real gecs worlds: reads one op per line on stdin, prints one
//! observation (space separated integers) per line. `case <id>` starts a fresh history.
#![forbid(unsafe_code)]
#![allow(unexpected_cfgs)]

#[macro_use]
mod tok;
mod common;
mod gen_w1;
mod gen_w2;
#[cfg(feature = "comps32")]
mod gen_w3;

use std::io::{BufRead, Write};

macro_rules! run_world {
    ($m:ident) => {{
        let stdin = std::io::stdin();
        let stdout = std::io::stdout();
        let mut out = std::io::BufWriter::new(stdout.lock());
        let mut h = $m::Harness::new();
        for line in stdin.lock().lines() {
            let line = line.unwrap();
            let line = line.trim();
            if line.is_empty() { continue; }
            if let Some(id) = line.strip_prefix("case ") {
                // Drop the previous history's worlds before resetting the registry.
                let _ = common::guard(move || drop(h));
                tok::REG.with(|r| *r.borrow_mut() = tok::Registry::default());
                h = $m::Harness::new();
                let d: Vec<String> = $m::decl().iter().map(|x| x.to_string()).collect();
                writeln!(out, "#case {} {}", id, d.join(" ")).unwrap();
                out.flush().unwrap();
                continue;
            }
            let obs = h.step(line);
            let s: Vec<String> = obs.iter().map(|x| x.to_string()).collect();
            writeln!(out, "{}", s.join(" ")).unwrap();
            out.flush().unwrap();
        }
        out.flush().unwrap();
    }};
}

fn main() {
    common::install_panic_hook();
    let world = std::env::args().nth(1).unwrap_or_else(|| "w1".to_string());
    match world.as_str() {
        "w1" => run_world!(gen_w1),
        "w2" => run_world!(gen_w2),
        #[cfg(feature = "comps32")]
        "w3" => run_world!(gen_w3),
        _ => { eprintln!("unknown world"); std::process::exit(2); }
    }
}
