//! Shared plumbing of the op interpreters: panic capture, reference parsing, output encoding.
use gecs::prelude::*;
use std::cell::RefCell;
use std::panic::{catch_unwind, AssertUnwindSafe};

use crate::tok::REG;

thread_local! {
    static LAST_PANIC: RefCell<String> = RefCell::new(String::new());
}

pub fn install_panic_hook() {
    std::panic::set_hook(Box::new(|info| {
        let msg = if let Some(s) = info.payload().downcast_ref::<&str>() {
            s.to_string()
        } else if let Some(s) = info.payload().downcast_ref::<String>() {
            s.clone()
        } else {
            "<non-string panic>".to_string()
        };
        if msg.starts_with("harness:") {
            // the harness's own assertions about the implementation: reported on stderr, the process then dies
            eprintln!("{}", msg);
        }
        LAST_PANIC.with(|l| *l.borrow_mut() = msg);
    }));
}

/// Panic kinds (second integer of a `2 k` outcome).
pub fn panic_kind(msg: &str) -> u64 {
    if msg.starts_with("harness:") {
        // A failed self-check of the harness is not an outcome of the system under test.
        eprintln!("HARNESS-ERROR {}", msg);
        std::process::exit(3);
    }
    if msg.contains("capacity overflow") { 1 }
    else if msg.contains("capacity may not exceed") { 2 }
    else if msg.contains("slot version overflow") { 3 }
    else if msg.contains("arch version overflow") { 4 }
    else if msg.contains("invalid entity type") { 6 }
    else if msg.contains("invalid entity conversion") { 7 }
    else if msg.contains("already borrowed") || msg.contains("already mutably borrowed") || msg.contains("BorrowMutError") || msg.contains("BorrowError") { 8 }
    else if msg.contains("injected closure panic") { 9 }
    else if msg.contains("injected clone panic") { 10 }
    else if msg.contains("injected drop panic") { 11 }
    else if msg.contains("index out of bounds") { 12 }
    else if msg.contains("verif_preset_versions") { 13 }
    else if msg.contains("assertion") || msg.contains("invalid entity handle") { 5 }
    else { eprintln!("UNKNOWN-PANIC {}", msg); 99 }
}

pub fn guard<R>(f: impl FnOnce() -> R) -> Result<R, u64> {
    match catch_unwind(AssertUnwindSafe(f)) {
        Ok(r) => Ok(r),
        Err(_) => {
            let msg = LAST_PANIC.with(|l| l.borrow().clone());
            if msg.starts_with("harness:") {
                // one of the harness's own assertions about the implementation: never an outcome to compare, always fatal
                std::process::exit(101);
            }
            Err(panic_kind(&msg))
        }
    }
}

#[derive(Clone, Copy, PartialEq, Eq, Debug)]
pub enum Ty { Any, Checked(usize), Unchecked(usize), Mut(usize) }

#[derive(Clone, Copy, PartialEq, Eq, Debug)]
pub enum Lvl { World, Arch(usize) }

pub struct Ctx {
    pub opn: String,
    pub lvl: Lvl,
    pub path: String,
    pub wc: usize,
    pub wv: u64,
    pub fq: usize,
    pub fdelta: u64,
    pub fmode_b: bool,
}

#[derive(Clone, Copy)]
pub enum Href { Raw((u32, u32)), Dir(EntityDirectAny) }

pub fn parse_ty(t: &str) -> Ty {
    if t == "any" { return Ty::Any; }
    let a: usize = t[1..].parse().unwrap();
    match &t[..1] { "t" => Ty::Checked(a), "u" => Ty::Unchecked(a), "m" => Ty::Mut(a), _ => panic!("harness: bad ty") }
}

pub fn parse_lvl(t: &str) -> Lvl {
    if t == "w" { Lvl::World } else { Lvl::Arch(t[1..].parse().unwrap()) }
}

pub fn parse_href(t: &str, issued: &[(u32, u32)], directs: &[EntityDirectAny]) -> Option<Href> {
    match &t[..1] {
        "i" => issued.get(t[1..].parse::<usize>().unwrap()).map(|r| Href::Raw(*r)),
        "d" => directs.get(t[1..].parse::<usize>().unwrap()).map(|d| Href::Dir(*d)),
        "r" => { let mut it = t[1..].split(':'); let k: u32 = it.next().unwrap().parse().unwrap(); let v: u32 = it.next().unwrap().parse().unwrap(); Some(Href::Raw((k, v))) }
        _ => None,
    }
}

pub fn push_raw(out: &mut Vec<u64>, raw: (u32, u32)) {
    out.push(raw.0 as u64);
    out.push(raw.1 as u64);
}

/// The raw (key, version) pair of a direct handle, recovered from its Debug output
/// (there is no public raw accessor for direct handles).
pub fn draw(d: EntityDirectAny) -> (u32, u32) {
    let s = format!("{:?}", d);
    let nums: Vec<u64> = s
        .split(|c: char| !c.is_ascii_digit())
        .filter(|x| !x.is_empty())
        .map(|x| x.parse().unwrap())
        .collect();
    assert!(nums.len() == 3, "harness: unexpected Debug format for EntityDirectAny");
    assert!(nums[0] == d.archetype_id() as u64, "harness: Debug/archetype_id disagree");
    (((nums[1] << 8) | nums[0]) as u32, nums[2] as u32)
}

/// The number inside an ArchetypeVersion (no public accessor; recovered from Debug output).
pub fn ver_num(v: impl std::fmt::Debug) -> u64 {
    let s = format!("{:?}", v);
    let nums: Vec<u64> = s.split(|c: char| !c.is_ascii_digit()).filter(|x| !x.is_empty()).map(|x| x.parse().unwrap()).collect();
    assert!(nums.len() == 1, "harness: unexpected Debug format for ArchetypeVersion");
    nums[0]
}

pub fn out_bool(out: &mut Vec<u64>, r: Result<bool, u64>) {
    match r { Ok(true) => out.push(1), Ok(false) => out.push(0), Err(k) => { out.push(2); out.push(k) } }
}

pub fn out_direct(out: &mut Vec<u64>, r: Result<Option<EntityDirectAny>, u64>) {
    match r {
        Ok(Some(d)) => { out.push(1); push_raw(out, draw(d)) }
        Ok(None) => out.push(0),
        Err(k) => { out.push(2); out.push(k) }
    }
}

pub fn out_unit(r: Result<Option<()>, u64>) -> Vec<u64> {
    match r { Ok(Some(())) => vec![1], Ok(None) => vec![0], Err(k) => vec![2, k] }
}

pub fn drop_guarded<T>(c: T, o: Vec<u64>) -> Vec<u64> {
    match guard(move || drop(c)) { Ok(()) => o, Err(k) => vec![2, k] }
}

pub fn finish_visits(r: Result<(), u64>, visits: Vec<Vec<u64>>) -> Vec<u64> {
    let mut o = match r { Ok(()) => vec![1], Err(k) => vec![2, k] };
    o.push(visits.len() as u64);
    for v in visits { o.push(v.len() as u64); o.extend(v); }
    o
}

#[cfg(gecs_verif)]
pub fn dump_out(d: (u32, usize, usize, u32, Vec<(u32, u32)>, Vec<(u32, u32)>)) -> Vec<u64> {
    let mut o = vec![d.0 as u64, d.1 as u64, d.2 as u64, d.3 as u64, d.4.len() as u64];
    for s in d.4 { push_raw(&mut o, s); }
    o.push(d.5.len() as u64);
    for e in d.5 { push_raw(&mut o, e); }
    o
}

pub fn reg_out() -> Vec<u64> {
    REG.with(|r| { let r = r.borrow(); vec![r.live.len() as u64, r.double_drops, r.use_after_drop, r.zst_live as u64] })
}

#[cfg(feature = "events")]
pub fn world_events<'a, I: Iterator<Item = &'a EntityAny>>(o: &mut Vec<u64>, mk: impl FnOnce() -> I) {
    let mut it = mk();
    let mut ents = Vec::new();
    let mut hints = Vec::new();
    loop {
        hints.push(it.size_hint());
        match it.next() { Some(e) => ents.push(e.raw()), None => break }
    }
    o.push(ents.len() as u64);
    for e in ents { push_raw(o, e); }
    for (lo, hi) in hints { o.push(lo as u64); o.push(match hi { Some(h) => h as u64 + 1, None => 0 }); }
}

/// A hasher that records the 64-bit words it is fed (handles feed exactly one).
#[derive(Default)]
pub struct WordHasher { pub words: Vec<u64>, pub other: usize }

impl std::hash::Hasher for WordHasher {
    fn finish(&self) -> u64 { 0 }
    fn write(&mut self, bytes: &[u8]) { self.other += bytes.len(); }
    fn write_u64(&mut self, i: u64) { self.words.push(i); }
}

pub fn hash_word<T: std::hash::Hash>(x: &T) -> u64 {
    let mut h = WordHasher::default();
    x.hash(&mut h);
    assert!(h.words.len() == 1 && h.other == 0, "harness: handle did not hash as one u64");
    h.words[0]
}

/// Eq/Hash consistency as a HashSet sees it: a set holding `x` contains a copy of `x`.
pub fn set_contains(x: EntityAny) -> bool {
    let mut s = std::collections::HashSet::new();
    s.insert(x);
    let (k, v) = x.raw();
    s.contains(&EntityAny::from_raw((k, v)).unwrap())
}

// ---- runtime-borrow programs (C11)
pub trait Held {}
impl<T> Held for T {}

pub enum BCmd {
    Hc { a: usize, c: usize, m: bool, k: usize },
    Hs { a: usize, c: usize, m: bool },
    Rel,
    Fb { q: usize, k: usize, body: Vec<BCmd> },
    Ib { q: usize, body: Vec<BCmd> },
    Cl,
    Pn,
}

/// One length-prefixed record of a borrow program's observation.
pub fn rec(out: &mut Vec<u64>, r: &[u64]) {
    out.push(r.len() as u64);
    out.extend_from_slice(r);
}

fn parse_bseq(t: &[&str], pos: &mut usize) -> Vec<BCmd> {
    let mut out = Vec::new();
    while *pos < t.len() {
        let tok = t[*pos];
        *pos += 1;
        match tok {
            ")" => return out,
            "rel" => out.push(BCmd::Rel),
            "cl" => out.push(BCmd::Cl),
            "pn" => out.push(BCmd::Pn),
            "hs" => { let a = t[*pos].parse().unwrap(); let c = t[*pos + 1].parse().unwrap(); let m = t[*pos + 2] == "m"; *pos += 3; out.push(BCmd::Hs { a, c, m }); }
            "hc" => { let a = t[*pos].parse().unwrap(); let c = t[*pos + 1].parse().unwrap(); let m = t[*pos + 2] == "m"; let k = t[*pos + 3].parse().unwrap(); *pos += 4; out.push(BCmd::Hc { a, c, m, k }); }
            "fb" => { let q = t[*pos].parse().unwrap(); let k = t[*pos + 1].parse().unwrap(); assert!(t[*pos + 2] == "(", "harness: expected ("); *pos += 3; let body = parse_bseq(t, pos); out.push(BCmd::Fb { q, k, body }); }
            "ib" => { let q = t[*pos].parse().unwrap(); assert!(t[*pos + 1] == "(", "harness: expected ("); *pos += 2; let body = parse_bseq(t, pos); out.push(BCmd::Ib { q, body }); }
            _ => panic!("harness: bad borrow token"),
        }
    }
    out
}

pub fn parse_bprog(t: &[&str]) -> Vec<BCmd> {
    let mut pos = 0;
    parse_bseq(t, &mut pos)
}
