//! Instrumented component payloads: every value has an identity registered in a
//! thread-local registry, so leaks, double drops and reads of dropped values are observable.
use std::cell::RefCell;
use std::collections::HashSet;

#[derive(Default)]
pub struct Registry {
    pub live: HashSet<u64>,
    pub next_uid: u64,
    pub double_drops: u64,
    pub use_after_drop: u64,
    pub zst_live: i64,
    pub clones: u64,
    pub drops: u64,
    /// Panic at the n-th (1-based, counting down) Clone::clone / Drop::drop of a Tok.
    pub clone_panic_in: u64,
    pub drop_panic_in: u64,
}

thread_local! {
    pub static REG: RefCell<Registry> = RefCell::new(Registry::default());
}

pub struct Tok {
    uid: u64,
    val: u64,
}

impl Tok {
    pub fn new(val: u64) -> Self {
        REG.with(|r| {
            let mut r = r.borrow_mut();
            r.next_uid += 1;
            let uid = r.next_uid;
            r.live.insert(uid);
            Tok { uid, val }
        })
    }
    pub fn get(&self) -> u64 {
        REG.with(|r| {
            let mut r = r.borrow_mut();
            if !r.live.contains(&self.uid) {
                r.use_after_drop += 1;
            }
        });
        self.val
    }
    pub fn set(&mut self, v: u64) {
        REG.with(|r| {
            let mut r = r.borrow_mut();
            if !r.live.contains(&self.uid) {
                r.use_after_drop += 1;
            }
        });
        self.val = v;
    }
}

impl Clone for Tok {
    fn clone(&self) -> Self {
        let fire = REG.with(|r| {
            let mut r = r.borrow_mut();
            r.clones += 1;
            if r.clone_panic_in > 0 {
                r.clone_panic_in -= 1;
                r.clone_panic_in == 0
            } else {
                false
            }
        });
        if fire {
            panic!("injected clone panic");
        }
        Tok::new(self.get())
    }
}

impl Drop for Tok {
    fn drop(&mut self) {
        let fire = REG.with(|r| {
            let mut r = r.borrow_mut();
            r.drops += 1;
            if !r.live.remove(&self.uid) {
                r.double_drops += 1;
            }
            if r.drop_panic_in > 0 && !std::thread::panicking() {
                r.drop_panic_in -= 1;
                r.drop_panic_in == 0
            } else {
                false
            }
        });
        if fire {
            panic!("injected drop panic");
        }
    }
}

/// Zero-sized component with a Drop impl (counted, as it cannot carry an identity).
pub struct ZTok;

impl ZTok {
    pub fn new() -> Self {
        REG.with(|r| r.borrow_mut().zst_live += 1);
        ZTok
    }
}

impl Clone for ZTok {
    fn clone(&self) -> Self {
        ZTok::new()
    }
}

impl Drop for ZTok {
    fn drop(&mut self) {
        REG.with(|r| r.borrow_mut().zst_live -= 1);
    }
}

/// Interface shared by all generated component types.
pub trait Comp: Clone {
    fn new(val: u64) -> Self;
    fn get(&self) -> u64;
    fn set(&mut self, v: u64);
}

macro_rules! plain_comp {
    ($name:ident) => {
        #[derive(Clone)]
        pub struct $name(pub $crate::tok::Tok);
        impl $crate::tok::Comp for $name {
            fn new(val: u64) -> Self { $name($crate::tok::Tok::new(val)) }
            fn get(&self) -> u64 { self.0.get() }
            fn set(&mut self, v: u64) { self.0.set(v) }
        }
    };
}
macro_rules! byte_comp {
    ($name:ident) => {
        #[derive(Clone)]
        pub struct $name(pub u8, pub $crate::tok::Tok, pub u8);
        impl $crate::tok::Comp for $name {
            fn new(val: u64) -> Self { $name(0xA5, $crate::tok::Tok::new(val), 0x5A) }
            fn get(&self) -> u64 { assert!(self.0 == 0xA5 && self.2 == 0x5A, "harness: canary"); self.1.get() }
            fn set(&mut self, v: u64) { self.1.set(v) }
        }
    };
}
macro_rules! boxed_comp {
    ($name:ident) => {
        #[derive(Clone)]
        pub struct $name(pub Box<$crate::tok::Tok>, pub String);
        impl $crate::tok::Comp for $name {
            fn new(val: u64) -> Self { $name(Box::new($crate::tok::Tok::new(val)), format!("s{}", val)) }
            fn get(&self) -> u64 { assert!(self.1.starts_with('s'), "harness: canary"); self.0.get() }
            fn set(&mut self, v: u64) { self.0.set(v) }
        }
    };
}
macro_rules! aligned_comp {
    ($name:ident) => {
        #[derive(Clone)]
        #[repr(align(32))]
        pub struct $name(pub $crate::tok::Tok);
        impl $crate::tok::Comp for $name {
            fn new(val: u64) -> Self { $name($crate::tok::Tok::new(val)) }
            fn get(&self) -> u64 {
                assert!((self as *const Self as usize) % 32 == 0, "harness: misaligned");
                self.0.get()
            }
            fn set(&mut self, v: u64) { self.0.set(v) }
        }
    };
}
macro_rules! zst_comp {
    ($name:ident) => {
        #[derive(Clone)]
        pub struct $name(pub $crate::tok::ZTok);
        impl $crate::tok::Comp for $name {
            fn new(_val: u64) -> Self { $name($crate::tok::ZTok::new()) }
            fn get(&self) -> u64 { 0 }
            fn set(&mut self, _v: u64) {}
        }
    };
}
pub(crate) use {aligned_comp, boxed_comp, byte_comp, plain_comp, zst_comp};
