//! Drives the macro crate's own data / parse / generate modules as a library (included by path from
//! /repo/macros/src), so the logic of DataWorld::new, bind_query_params and the three query
//! generators runs on generated declarations and queries without going through rustc.
//!
//! stdin, one case per line, tab separated:
//!   W <bools> <world tokens>
//!   Q <find|iter|iterd> <m|b> <world bools> <world tokens> <query bools> <query param tokens>
//!   T <world bools> <world tokens>                 (all tokens of the world expansion, for C18)
//! stdout, one line per case.
#![allow(dead_code, unused_imports, unused_variables, non_snake_case)]

#[path = "/repo/macros/src/data.rs"]
mod data;
#[path = "/repo/macros/src/generate/mod.rs"]
mod generate;
#[path = "/repo/macros/src/parse/mod.rs"]
mod parse;

use std::io::{BufRead, Write};
use std::panic::{catch_unwind, AssertUnwindSafe};

use data::DataWorld;
use generate::FetchMode;
use parse::*;
use proc_macro2::TokenStream;
use std::str::FromStr;

fn decorated(bools: &str, inner: &str) -> Result<TokenStream, String> {
    TokenStream::from_str(&format!("({}), {{ {} }}", bools, inner)).map_err(|e| format!("lex: {}", e))
}

fn world_of(bools: &str, src: &str) -> Result<DataWorld, String> {
    let ts = decorated(bools, src)?;
    let parsed = syn::parse2::<ParseCfgDecorated<ParseEcsWorld>>(ts).map_err(|e| format!("parse: {}", e))?;
    DataWorld::new(parsed).map_err(|e| format!("data: {}", e))
}

fn show_world(w: &DataWorld) -> String {
    let mut out = String::new();
    for a in &w.archetypes {
        out.push_str(&format!("{}:{}:[", a.name, a.id));
        for c in &a.components {
            out.push_str(&format!("{}:{},", c.name, c.id));
        }
        out.push_str("];");
    }
    out
}

/// Matched archetypes in emission order with the closure parameter list emitted for each.
fn show_arms(ts: &TokenStream) -> String {
    let s = ts.to_string();
    let mut out = String::new();
    let mut rest: &str = &s;
    let key = "type MatchedArchetype = ";
    while let Some(i) = rest.find(key) {
        rest = &rest[i + key.len()..];
        let semi = rest.find(';').unwrap();
        let arch = rest[..semi].trim().to_string();
        let ck = "let mut closure = |";
        let j = rest.find(ck).unwrap();
        let after = &rest[j + ck.len()..];
        let end = after.find('|').unwrap();
        let params = after[..end].trim().to_string();
        out.push_str(&format!("{} <{}>;", arch, params));
        rest = &after[end..];
    }
    out
}

fn run_case(line: &str) -> String {
    let f: Vec<&str> = line.split('\t').collect();
    match f[0] {
        "W" => match world_of(f[1], f[2]) {
            Ok(w) => format!("ok {}", show_world(&w)),
            Err(e) => format!("err {}", e),
        },
        "T" => match world_of(f[1], f[2]) {
            Ok(w) => format!("ok {}", generate::generate_world(&w, f[2]).to_string()),
            Err(e) => format!("err {}", e),
        },
        "Q" => {
            let w = match world_of(f[3], f[4]) { Ok(w) => w, Err(e) => return format!("werr {}", e) };
            let b64 = w.to_base64();
            let kind = f[1];
            let mode = if f[2] == "b" { FetchMode::Borrow } else { FetchMode::Mut };
            let inner = match kind {
                "find" => format!("\"{}\", world, entity, |{}| {{ }}", b64, f[6]),
                _ => format!("\"{}\", world, |{}| {{ }}", b64, f[6]),
            };
            let ts = match decorated(f[5], &inner) { Ok(t) => t, Err(e) => return format!("err {}", e) };
            let r = match kind {
                "find" => syn::parse2::<ParseCfgDecorated<ParseQueryFind>>(ts).map_err(|e| format!("parse: {}", e))
                    .and_then(|q| generate::generate_query_find(mode, q).map_err(|e| format!("gen: {}", e))),
                "iter" => syn::parse2::<ParseCfgDecorated<ParseQueryIter>>(ts).map_err(|e| format!("parse: {}", e))
                    .and_then(|q| generate::generate_query_iter(mode, q).map_err(|e| format!("gen: {}", e))),
                "iterd" => syn::parse2::<ParseCfgDecorated<ParseQueryIterDestroy>>(ts).map_err(|e| format!("parse: {}", e))
                    .and_then(|q| generate::generate_query_iter_destroy(FetchMode::Mut, q).map_err(|e| format!("gen: {}", e))),
                _ => Err("bad kind".to_string()),
            };
            match r {
                Ok(ts) => format!("ok {}", if f.len() > 7 && f[7] == "full" { ts.to_string() } else { show_arms(&ts) }),
                Err(e) => format!("err {}", e),
            }
        }
        _ => "bad".to_string(),
    }
}

fn main() {
    std::panic::set_hook(Box::new(|_| {}));
    let stdin = std::io::stdin();
    let stdout = std::io::stdout();
    let mut out = std::io::BufWriter::new(stdout.lock());
    for line in stdin.lock().lines() {
        let line = line.unwrap();
        if line.trim().is_empty() { continue; }
        let r = catch_unwind(AssertUnwindSafe(|| run_case(&line))).unwrap_or_else(|_| "panic".to_string());
        writeln!(out, "{}", r.replace('\n', " ")).unwrap();
    }
    out.flush().unwrap();
}
