//! Two implementation-level probes whose oracles are read directly off the property texts:
//!
//! clone  (C04, C13): world.clone() calls Clone::clone exactly once per live component, whatever the
//!         component type (with or without drop glue, zero-sized, Copy-like), the clone owns values
//!         disjoint from the original's, and nothing leaks or drops twice.
//! leak   (C10): with a runtime-borrow guard leaked by mem::forget (safe Rust), every `&mut` operation
//!         either behaves exactly as on a twin world without the leak, or panics leaving the world
//!         exactly as it was before the operation.
//!
//! clonefrom (C10, C13): dst.clone_from(&src) between two worlds that diverged (sometimes from a common clone, so that
//!         capacities, lengths and versions coincide), sometimes with a component Clone panicking part-way: without a panic
//!         dst answers exactly like src; after a caught panic dst is consistent (every listed entity resolves to itself, len()
//!         is the number listed, no handle reaches a row that is not its own), and nothing is dropped twice.
//!
//! Output: lines `ok <scenario>` / `FAIL <scenario> <what>`; exit code 1 if any FAIL.
#![forbid(unsafe_code)]
use gecs::prelude::*;
use std::cell::RefCell;
use std::collections::HashSet;
use std::panic::{catch_unwind, AssertUnwindSafe};

#[derive(Default)]
struct Reg {
    next: u64,
    live: HashSet<u64>,
    double_drops: u64,
    tracked_clones: u64,
    lease_clones: u64,
    marker_clones: u64,
    plain_clones: u64,
    clone_panic_in: u64,
}
thread_local! { static REG: RefCell<Reg> = RefCell::new(Reg::default()); }
fn reg<R>(f: impl FnOnce(&mut Reg) -> R) -> R { REG.with(|r| f(&mut r.borrow_mut())) }

/// has drop glue
pub struct Tracked { id: u64, pub val: u32 }
impl Tracked {
    fn new(val: u32) -> Self { let id = reg(|r| { r.next += 1; let id = r.next; r.live.insert(id); id }); Tracked { id, val } }
}
impl Clone for Tracked { fn clone(&self) -> Self {
    let fire = reg(|r| { r.tracked_clones += 1; if r.clone_panic_in > 0 { r.clone_panic_in -= 1; r.clone_panic_in == 0 } else { false } });
    if fire { panic!("injected Clone panic"); }
    Tracked::new(self.val) } }
impl Drop for Tracked { fn drop(&mut self) { let id = self.id; reg(|r| if !r.live.remove(&id) { r.double_drops += 1 }) } }

/// no drop glue, Clone with a side effect (a fresh identity per clone)
pub struct Lease { pub id: u64, pub val: u32 }
impl Lease { fn new(val: u32) -> Self { Lease { id: reg(|r| { r.next += 1; r.next }), val } } }
impl Clone for Lease { fn clone(&self) -> Self { reg(|r| r.lease_clones += 1); Lease::new(self.val) } }

/// zero-sized, no drop glue, Clone with a side effect
pub struct Marker;
impl Clone for Marker { fn clone(&self) -> Self { reg(|r| r.marker_clones += 1); Marker } }

/// plain data, Clone counted
pub struct Plain(pub u32);
impl Clone for Plain { fn clone(&self) -> Self { reg(|r| r.plain_clones += 1); Plain(self.0) } }

ecs_world! {
    ecs_archetype!(ArchA, Tracked, Lease);
    ecs_archetype!(ArchB, Lease, Plain, Tracked, Marker);
}

struct Lcg(u64);
impl Lcg {
    fn next(&mut self) -> u64 { self.0 = self.0.wrapping_mul(6364136223846793005).wrapping_add(1442695040888963407); self.0 >> 33 }
    fn below(&mut self, n: u64) -> u64 { self.next() % n.max(1) }
}

#[derive(Clone, PartialEq, Debug)]
enum Op { CreateA(u32), CreateB(u32), DestroyA(usize), DestroyB(usize), WithinA(u32), IterDestroy(u32) }

fn gen_ops(rng: &mut Lcg, n: usize) -> Vec<Op> {
    (0..n).map(|i| match rng.below(10) {
        0..=2 => Op::CreateA(i as u32),
        3..=4 => Op::CreateB(i as u32),
        5..=6 => Op::DestroyA(rng.below(8) as usize),
        7 => Op::DestroyB(rng.below(8) as usize),
        8 => Op::WithinA(i as u32),
        _ => Op::IterDestroy(rng.below(4) as u32),
    }).collect()
}

struct Twin { world: EcsWorld, a: Vec<Entity<ArchA>>, b: Vec<Entity<ArchB>> }

fn apply(t: &mut Twin, op: &Op) -> String {
    match op {
        Op::CreateA(v) => { let e = t.world.arch_a.create((Tracked::new(*v), Lease::new(*v))); t.a.push(e); format!("created {:?}", e) }
        Op::CreateB(v) => { let e = t.world.arch_b.create((Lease::new(*v), Plain(*v), Tracked::new(*v), Marker)); t.b.push(e); format!("created {:?}", e) }
        Op::DestroyA(k) => { if t.a.is_empty() { return "none".into(); } let e = t.a[*k % t.a.len()];
            match t.world.arch_a.destroy(e) { Some(c) => format!("destroyed {} {}", c.tracked.val, c.lease.val), None => "absent".into() } }
        Op::DestroyB(k) => { if t.b.is_empty() { return "none".into(); } let e = t.b[*k % t.b.len()];
            match t.world.arch_b.destroy(e) { Some(c) => format!("destroyed {} {} {}", c.lease.val, c.plain.0, c.tracked.val), None => "absent".into() } }
        Op::WithinA(v) => match t.world.arch_a.create_within_capacity((Tracked::new(*v), Lease::new(*v))) {
            Ok(e) => { t.a.push(e); format!("within {:?}", e) } Err(c) => format!("full {}", c.tracked.val) },
        Op::IterDestroy(m) => { let mut n = 0; let m = *m;
            ecs_iter_destroy!(t.world, |x: &Tracked| { n += 1; if x.val % 4 == m { EcsStepDestroy::ContinueDestroy } else { EcsStepDestroy::Continue } });
            format!("iterd {}", n) }
    }
}

/// Everything observable through `&mut` paths and the slot lookup (no runtime-borrowed access).
fn snapshot(t: &mut Twin) -> String {
    let mut s = format!("lenA {} capA {} lenB {} capB {};", t.world.arch_a.len(), t.world.arch_a.capacity(), t.world.arch_b.len(), t.world.arch_b.capacity());
    for (e, x, l) in t.world.arch_a.iter_mut().map(|v| (*v.0, v.1.val, v.2.val)) { s += &format!(" A{:?}:{}:{}", e, x, l); }
    for (e, l, p, x) in t.world.arch_b.iter_mut().map(|v| (*v.0, v.1.val, v.2 .0, v.3.val)) { s += &format!(" B{:?}:{}:{}:{}", e, l, p, x); }
    for e in t.a.iter() { s += if t.world.arch_a.contains(*e) { " +" } else { " -" }; }
    for e in t.b.iter() { s += if t.world.arch_b.contains(*e) { " +" } else { " -" }; }
    s
}

fn consistent(t: &mut Twin) -> Option<String> {
    let ents: Vec<_> = t.world.arch_a.iter_mut().map(|v| *v.0).collect();
    let uniq: HashSet<_> = ents.iter().map(|e| format!("{:?}", e)).collect();
    if uniq.len() != ents.len() { return Some("an entity is listed twice".into()); }
    if ents.len() != t.world.arch_a.len() { return Some("len() differs from the number of entities".into()); }
    for e in ents { if !t.world.arch_a.contains(e) { return Some(format!("listed entity {:?} does not resolve", e)); } }
    None
}

fn clone_scenario(seed: u64, fails: &mut Vec<String>) {
    let name = format!("clone seed={}", seed);
    let mut rng = Lcg(seed);
    let mut t = Twin { world: EcsWorld::default(), a: vec![], b: vec![] };
    for op in gen_ops(&mut rng, 10 + (seed % 30) as usize) { apply(&mut t, &op); }
    let (la, lb) = (t.world.arch_a.len() as u64, t.world.arch_b.len() as u64);
    let before = reg(|r| (r.tracked_clones, r.lease_clones, r.marker_clones, r.plain_clones));
    let mut orig_ids = HashSet::new();
    ecs_iter!(t.world, |l: &Lease| { orig_ids.insert(l.id); });
    let mut w2 = t.world.clone();
    let after = reg(|r| (r.tracked_clones, r.lease_clones, r.marker_clones, r.plain_clones));
    let d = (after.0 - before.0, after.1 - before.1, after.2 - before.2, after.3 - before.3);
    let want = (la + lb, la + lb, lb, lb);
    if d != want { fails.push(format!("{} Clone::clone calls (drop-glue, no-drop-glue, zero-sized, plain) = {:?}, live components = {:?}", name, d, want)); }
    let mut shared = 0;
    ecs_iter!(w2, |l: &Lease| { if orig_ids.contains(&l.id) { shared += 1; } });
    if shared != 0 { fails.push(format!("{} {} values of the clone are the original's own (same identity)", name, shared)); }
    let mut t2 = Twin { world: w2, a: t.a.clone(), b: t.b.clone() };
    let (s1, s2) = (snapshot(&mut t), snapshot(&mut t2));
    if s1 != s2 { fails.push(format!("{} the clone answers differently from the original", name)); }
    drop(t2); drop(t);
    let (live, dd) = reg(|r| (r.live.len(), r.double_drops));
    if live != 0 || dd != 0 { fails.push(format!("{} after dropping both worlds: {} values leaked, {} double drops", name, live, dd)); reg(|r| { r.live.clear(); r.double_drops = 0; }); }
}

/// Every handle of [hs] either is rejected or reaches a row whose stored handle is itself (and the same through iteration).
fn handles_sound(t: &mut Twin, ha: &[Entity<ArchA>], hb: &[Entity<ArchB>]) -> Option<String> {
    for e in ha.iter() {
        // a handle of another lineage may trip the documented debug assertion (slot beyond the capacity): that is a clean refusal
        if catch_unwind(AssertUnwindSafe(|| t.world.arch_a.contains(*e))).unwrap_or(false) {
            match t.world.arch_a.borrow(*e) {
                Some(b) => {
                    if b.entity() != e { return Some(format!("handle {:?} reaches the row of {:?}", e, b.entity())); }
                    let id = b.component::<Tracked>().id;
                    if !reg(|r| r.live.contains(&id)) { return Some(format!("handle {:?} reaches a component value that was already dropped (use after drop)", e)); }
                }
                None => return Some(format!("contains({:?}) but borrow gives None", e)),
            }
        }
    }
    for e in hb.iter() {
        if catch_unwind(AssertUnwindSafe(|| t.world.arch_b.contains(*e))).unwrap_or(false) {
            match t.world.arch_b.borrow(*e) {
                Some(b) => {
                    if b.entity() != e { return Some(format!("handle {:?} reaches the row of {:?}", e, b.entity())); }
                    let id = b.component::<Tracked>().id;
                    if !reg(|r| r.live.contains(&id)) { return Some(format!("handle {:?} reaches a component value that was already dropped (use after drop)", e)); }
                }
                None => return Some(format!("contains({:?}) but borrow gives None", e)),
            }
        }
    }
    for id in t.world.arch_a.iter_mut().map(|v| v.1.id).collect::<Vec<_>>() { if !reg(|r| r.live.contains(&id)) { return Some("a listed row holds a component value that was already dropped".into()); } }
    for id in t.world.arch_b.iter_mut().map(|v| v.3.id).collect::<Vec<_>>() { if !reg(|r| r.live.contains(&id)) { return Some("a listed row holds a component value that was already dropped".into()); } }
    let listed_b: Vec<_> = t.world.arch_b.iter_mut().map(|v| *v.0).collect();
    if listed_b.len() != t.world.arch_b.len() { return Some("len() of the second archetype differs from the number of entities".into()); }
    for e in listed_b { if !t.world.arch_b.contains(e) { return Some(format!("listed entity {:?} does not resolve", e)); } }
    consistent(t)
}

fn clone_from_scenario(seed: u64, fails: &mut Vec<String>) {
    let name = format!("clone_from seed={}", seed);
    let mut rng = Lcg(seed ^ 0x51ed);
    let mut src = Twin { world: EcsWorld::default(), a: vec![], b: vec![] };
    for op in gen_ops(&mut rng, 8 + (seed % 16) as usize) { apply(&mut src, &op); }
    // the destination: a clone of src that then diverges by a few operations, or an unrelated world
    let mut dst = if seed % 3 != 0 { Twin { world: src.world.clone(), a: src.a.clone(), b: src.b.clone() } } else { Twin { world: EcsWorld::default(), a: vec![], b: vec![] } };
    for op in gen_ops(&mut rng, (seed % 7) as usize) { apply(&mut dst, &op); }
    for op in gen_ops(&mut rng, (seed % 5) as usize) { apply(&mut src, &op); }
    let live_comps = (src.world.arch_a.len() + src.world.arch_b.len()) as u64;
    let arm = if seed % 2 == 0 { 0 } else { 1 + rng.below(live_comps.max(1)) };
    reg(|r| r.clone_panic_in = arm);
    let (old_a, old_b) = (dst.a.clone(), dst.b.clone());
    let r = { let (d, s) = (&mut dst.world, &src.world); catch_unwind(AssertUnwindSafe(|| d.clone_from(s))) };
    reg(|r| r.clone_panic_in = 0);
    match r {
        Ok(()) => {
            dst.a = src.a.clone(); dst.b = src.b.clone();
            let (s1, s2) = (snapshot(&mut src), snapshot(&mut dst));
            if s1 != s2 { fails.push(format!("{} after clone_from the destination answers differently from the source", name)); }
            if let Some(b) = handles_sound(&mut dst, &old_a, &old_b) { fails.push(format!("{} after clone_from: {}", name, b)); }
        }
        Err(_) => {
            let all_a: Vec<_> = old_a.iter().chain(src.a.iter()).cloned().collect();
            let all_b: Vec<_> = old_b.iter().chain(src.b.iter()).cloned().collect();
            let chk = catch_unwind(AssertUnwindSafe(|| handles_sound(&mut dst, &all_a, &all_b)));
            match chk {
                Err(_) => fails.push(format!("{} after a Clone panic inside clone_from (armed at call {}) the destination cannot be used (it panics)", name, arm)),
                Ok(Some(b)) => fails.push(format!("{} after a Clone panic inside clone_from (armed at call {}): {}", name, arm, b)),
                Ok(None) => {}
            }
        }
    }
    let panicked = r.is_err();
    let dr = catch_unwind(AssertUnwindSafe(move || { drop(dst); drop(src); }));
    let (live, dd) = reg(|r| (r.live.len(), r.double_drops));
    if dr.is_err() || dd != 0 || (!panicked && live != 0) { fails.push(format!("{} after dropping both worlds: {} values leaked, {} double drops{}", name, live, dd, if dr.is_err() { ", drop panicked" } else { "" })); }
    reg(|r| { r.live.clear(); r.double_drops = 0; });
}

/// A value whose conversion into the archetype's components panics (user code run inside `create`).
pub struct Spawn(pub u32);
impl From<Spawn> for ArchAComponents { fn from(_: Spawn) -> Self { panic!("injected Into panic") } }

/// C10: a panic raised by the user's `Into<Components>` conversion inside create / create_within_capacity leaves the
/// archetype exactly as it was (len, capacity, every row, every handle).
fn into_panic_scenario(seed: u64, fails: &mut Vec<String>) {
    let name = format!("into_panic seed={}", seed);
    let mut rng = Lcg(seed ^ 0x1a7);
    let mut t = Twin { world: EcsWorld::default(), a: vec![], b: vec![] };
    for op in gen_ops(&mut rng, 4 + (seed % 12) as usize) { apply(&mut t, &op); }
    let before = snapshot(&mut t);
    let (len0, cap0) = (t.world.arch_a.len(), t.world.arch_a.capacity());
    let within = seed % 2 == 1;
    let r = { let w = &mut t.world; catch_unwind(AssertUnwindSafe(|| if within { w.arch_a.create_within_capacity(Spawn(1)).is_ok() } else { w.arch_a.create(Spawn(1)); true })) };
    let (len1, cap1) = (t.world.arch_a.len(), t.world.arch_a.capacity());
    if r.is_ok() && !(within && len0 == cap0) { fails.push(format!("{} the conversion did not run (no panic)", name)); }
    if len1 != len0 { fails.push(format!("{} len() is {} after a create whose Into conversion panicked (it was {})", name, len1, len0)); }
    else if cap1 < cap0 { fails.push(format!("{} capacity shrank from {} to {}", name, cap0, cap1)); }
    else {
        // capacity may have grown before the conversion ran; everything else must be as before
        let after = snapshot(&mut t).replace(&format!("capA {}", cap1), &format!("capA {}", cap0));
        if after != before { fails.push(format!("{} the archetype changed although create panicked in the Into conversion", name)); }
    }
    if len1 == len0 { let dr = catch_unwind(AssertUnwindSafe(move || drop(t))); if dr.is_err() { fails.push(format!("{} drop panicked", name)); } } else { std::mem::forget(t); }
    let dd = reg(|r| r.double_drops);
    if dd != 0 { fails.push(format!("{} {} double drops", name, dd)); }
    reg(|r| { r.live.clear(); r.double_drops = 0; });
}

fn leak_scenario(seed: u64, which: u32, fails: &mut Vec<String>) {
    let name = format!("leak seed={} guard={}", seed, which);
    let mut rng = Lcg(seed ^ 0x9e37);
    let mut w = Twin { world: EcsWorld::default(), a: vec![], b: vec![] };
    let mut v = Twin { world: EcsWorld::default(), a: vec![], b: vec![] };
    let pre = gen_ops(&mut rng, 8);
    for op in pre.iter() { apply(&mut w, op); apply(&mut v, op); }
    match which {
        0 => std::mem::forget(w.world.arch_a.borrow_slice::<Tracked>()),
        1 => std::mem::forget(w.world.arch_a.borrow_slice::<Lease>()),
        2 => std::mem::forget(w.world.arch_a.borrow_slice_mut::<Lease>()),
        3 => std::mem::forget(w.world.arch_b.borrow_slice::<Tracked>()),
        4 => std::mem::forget(w.world.arch_b.borrow_slice_mut::<Plain>()),
        _ => std::mem::forget(w.world.arch_b.borrow_slice::<Marker>()),
    }
    for (i, op) in gen_ops(&mut rng, 24).iter().enumerate() {
        let s_pre = snapshot(&mut v);
        let r = catch_unwind(AssertUnwindSafe(|| apply(&mut w, op)));
        match r {
            Ok(out_w) => {
                let out_v = apply(&mut v, op);
                let (sw, sv) = (snapshot(&mut w), snapshot(&mut v));
                if out_w != out_v || sw != sv { fails.push(format!("{} op {} {:?}: differs from the twin without a leaked guard", name, i, op)); return; }
            }
            Err(_) => {
                // a refusal is tolerated only if nothing changed
                let sw = catch_unwind(AssertUnwindSafe(|| snapshot(&mut w)));
                let bad = match sw { Err(_) => Some("the world cannot even be read afterwards".to_string()),
                    Ok(sw) => if sw != s_pre { Some("the world changed although the operation panicked".to_string()) } else { consistent(&mut w) } };
                // keep the handle tables of the twins aligned (a create that panicked registered nothing)
                w.a.truncate(v.a.len()); w.b.truncate(v.b.len());
                if let Some(b) = bad { fails.push(format!("{} op {} {:?} panicked with a guard leaked, and {}", name, i, op, b)); return; }
            }
        }
    }
    drop(w); drop(v);
    let (live, dd) = reg(|r| (r.live.len(), r.double_drops));
    if live != 0 || dd != 0 { fails.push(format!("{} after dropping both worlds: {} values leaked, {} double drops", name, live, dd)); reg(|r| { r.live.clear(); r.double_drops = 0; }); }
}

fn main() {
    if std::env::var("SIDE_VERBOSE").is_err() { std::panic::set_hook(Box::new(|_| {})); }
    let args: Vec<String> = std::env::args().collect();
    let seed: u64 = args.get(1).map(|s| s.parse().unwrap()).unwrap_or(1);
    let n: u64 = args.get(2).map(|s| s.parse().unwrap()).unwrap_or(40);
    let mut fails = Vec::new();
    for k in 0..n { clone_scenario(seed * 1000 + k, &mut fails); }
    println!("clone scenarios {} failures {}", n, fails.len());
    let c = fails.len();
    for k in 0..n { leak_scenario(seed * 1000 + k, (k % 6) as u32, &mut fails); }
    println!("leak scenarios {} failures {}", n, fails.len() - c);
    let c2 = fails.len();
    for k in 0..n { clone_from_scenario(seed * 1000 + k, &mut fails); }
    println!("clonefrom scenarios {} failures {}", n, fails.len() - c2);
    let c3 = fails.len();
    for k in 0..n { into_panic_scenario(seed * 1000 + k, &mut fails); }
    println!("intopanic scenarios {} failures {}", n, fails.len() - c3);
    for f in fails.iter().take(12) { println!("FAIL {}", f); }
    std::process::exit(if fails.is_empty() { 0 } else { 1 });
}
