//! The rarely used part of the API surface, each entry point compared with the commonly used one that
//! must agree with it (the property texts fix the relation): constructors (Default / new / with_capacity,
//! of worlds and of stand-alone archetypes), the trait-generic World and Archetype entry points, the
//! Components accessors and tuple conversions, View/Borrow index() and entity(), every From / TryFrom
//! form of the Select* enums (by value, by & and by &mut, typed and untyped, slot and direct handles),
//! ecs_component_id!.  Prints `bad <what>` for every disagreement, then `done <checks>`.
#![forbid(unsafe_code)]
#![allow(unused, dead_code)]
use gecs::prelude::*;
use gecs::error::EcsError;

#[derive(Debug, Clone, PartialEq)]
pub struct CompA(pub u32);
#[derive(Debug, Clone, PartialEq)]
pub struct CompB(pub u64);
#[derive(Debug, Clone, PartialEq)]
pub struct CompC(pub String);

ecs_world! {
    #[archetype_id(3)]
    ecs_archetype!(ArchFoo, CompA, CompB);
    ecs_archetype!(ArchBar, CompB, CompC, CompA);
    #[archetype_id(250)]
    ecs_archetype!(ArchBaz, CompC);
}

struct Ck { n: u32, bad: u32 }
impl Ck {
    fn ck(&mut self, ok: bool, what: &str) { self.n += 1; if !ok { self.bad += 1; println!("bad {}", what); } }
}

fn sel_e(s: Result<SelectEntity, EcsError>) -> Option<(u8, (u32, u32))> {
    match s { Ok(SelectEntity::ArchFoo(e)) => Some((0, e.into_any().raw())), Ok(SelectEntity::ArchBar(e)) => Some((1, e.into_any().raw())), Ok(SelectEntity::ArchBaz(e)) => Some((2, e.into_any().raw())), Err(_) => None }
}
fn sel_d(s: Result<SelectEntityDirect, EcsError>) -> Option<(u8, EntityDirectAny)> {
    match s { Ok(SelectEntityDirect::ArchFoo(e)) => Some((0, e.into_any())), Ok(SelectEntityDirect::ArchBar(e)) => Some((1, e.into_any())), Ok(SelectEntityDirect::ArchBaz(e)) => Some((2, e.into_any())), Err(_) => None }
}
fn sel_a(s: Result<SelectArchetype, EcsError>) -> Option<u8> {
    match s { Ok(SelectArchetype::ArchFoo) => Some(0), Ok(SelectArchetype::ArchBar) => Some(1), Ok(SelectArchetype::ArchBaz) => Some(2), Err(_) => None }
}

fn main() {
    let mut c = Ck { n: 0, bad: 0 };
    // ---- constructors
    let wd = EcsWorld::default();
    let wn = EcsWorld::new();
    let wz = EcsWorld::with_capacity(EcsWorldCapacity { arch_foo: 0, arch_bar: 0, arch_baz: 0 });
    for (name, w) in [("default", &wd), ("new", &wn), ("with_capacity(0)", &wz)] {
        c.ck(w.arch_foo.len() == 0 && w.arch_bar.len() == 0 && w.arch_baz.len() == 0, &format!("World::{} is not empty", name));
        c.ck(w.arch_foo.is_empty() && w.archetype::<ArchBar>().is_empty(), &format!("World::{}: is_empty", name));
        c.ck(w.arch_foo.capacity() == 0 && w.arch_baz.capacity() == 0, &format!("World::{}: capacity is not 0", name));
    }
    let wc = EcsWorld::with_capacity(EcsWorldCapacity { arch_foo: 5, arch_bar: 1, arch_baz: 9 });
    c.ck(wc.arch_foo.capacity() >= 5 && wc.arch_bar.capacity() >= 1 && wc.arch_baz.capacity() >= 9, "World::with_capacity gives each archetype its own capacity");
    c.ck(wc.archetype::<ArchFoo>().capacity() == wc.arch_foo.capacity() && wc.archetype::<ArchBaz>().capacity() == wc.arch_baz.capacity(), "World::archetype::<A>() is the field");
    // stand-alone archetypes
    let mut sa = ArchBar::with_capacity(3);
    let mut sn = ArchBar::new();
    let mut sd = ArchBar::default();
    c.ck(sa.capacity() >= 3 && sa.len() == 0 && sn.len() == 0 && sn.capacity() == 0 && sd.len() == 0 && sd.capacity() == 0, "Archetype::with_capacity/new/default");
    let h1 = sa.create((CompB(1), CompC("one".into()), CompA(11)));
    let h2 = sn.create((CompB(2), CompC("two".into()), CompA(22)));
    let h3 = sd.create(ArchBarComponents { comp_b: CompB(3), comp_c: CompC("three".into()), comp_a: CompA(33) });
    c.ck(sa.len() == 1 && sn.len() == 1 && sd.len() == 1 && sa.contains(h1) && sn.contains(h2) && sd.contains(h3), "stand-alone archetypes: create / contains");
    c.ck(h1.archetype_id() == ArchBar::ARCHETYPE_ID && ArchBar::ARCHETYPE_ID == 4 && ArchFoo::ARCHETYPE_ID == 3 && ArchBaz::ARCHETYPE_ID == 250, "ARCHETYPE_ID constants");
    match sd.destroy(h3) {
        Some(comps) => {
            c.ck(comps.get::<CompB>() == &CompB(3) && comps.get::<CompC>() == &CompC("three".into()) && comps.get::<CompA>() == &CompA(33), "Components::get");
            let mut comps = comps;
            comps.get_mut::<CompA>().0 += 1;
            *comps.get_mut::<CompC>() = CompC("3".into());
            c.ck(comps.comp_a == CompA(34) && comps.comp_c == CompC("3".into()) && comps.comp_b == CompB(3), "Components::get_mut writes the named field");
            let t = comps.into_tuple();
            c.ck(t == (CompB(3), CompC("3".into()), CompA(34)), "Components::into_tuple keeps declaration order");
            let back: ArchBarComponents = t.clone().into();
            c.ck(back.comp_b == t.0 && back.comp_c == t.1 && back.comp_a == t.2, "From<tuple> for Components");
            let t2: (CompB, CompC, CompA) = back.into();
            c.ck(t2 == t, "From<Components> for tuple");
        }
        None => c.ck(false, "stand-alone archetype: destroy of a live handle"),
    }
    // ---- trait-generic world entry points against the fields
    let mut w = EcsWorld::default();
    let f1 = w.create::<ArchFoo>((CompA(1), CompB(10)));
    let f2 = w.arch_foo.create((CompA(2), CompB(20)));
    let b1 = w.archetype_mut::<ArchBar>().create((CompB(5), CompC("x".into()), CompA(6)));
    let z1 = w.create::<ArchBaz>((CompC("z".into()),));
    c.ck(w.arch_foo.len() == 2 && w.archetype::<ArchFoo>().len() == 2 && w.archetype::<ArchBar>().entities() == &[b1], "create through three routes; entities()");
    let full = w.create_within_capacity::<ArchBaz>((CompC("zz".into()),));
    match full {
        Ok(e) => c.ck(w.arch_baz.len() == 2 && w.contains(e), "World::create_within_capacity success"),
        Err(back) => c.ck(w.arch_baz.len() == 1 && w.arch_baz.len() == w.arch_baz.capacity() && back.comp_c == CompC("zz".into()), "World::create_within_capacity refusal hands the argument back at len == capacity"),
    }
    // views and borrows
    {
        let mut v = w.view(f2).unwrap();
        c.ck(v.index() == 1 && v.component::<CompA>() == &CompA(2), "View::index / component");
        v.component_mut::<CompB>().0 = 21;
    }
    {
        let b = w.borrow(f2).unwrap();
        c.ck(b.index() == 1 && b.entity() == &f2 && b.component::<CompB>().0 == 21, "Borrow::index / entity / component sees the write made through the view");
    }
    {
        let b = w.arch_bar.borrow(b1.into_any()).unwrap();
        c.ck(b.index() == 0 && *b.entity() == b1 && b.component::<CompC>().0 == "x", "Archetype::borrow with a dynamically typed key");
    }
    c.ck(w.arch_foo.resolve(f1) == Some(0) && w.arch_foo.resolve(f2.into_any()) == Some(1) && w.arch_bar.resolve(f2.into_any()) == None, "Archetype::resolve");
    // ---- Select* conversions: every form agrees with the by-value untyped one
    let d_f2 = w.to_direct(f2).unwrap();
    let d_b1 = w.to_direct(b1).unwrap();
    for (which, any) in [(0u8, f1.into_any()), (0, f2.into_any()), (1, b1.into_any()), (2, z1.into_any())] {
        let base = sel_e(SelectEntity::try_from(any));
        c.ck(base == Some((which, any.raw())), "SelectEntity::try_from(EntityAny) picks the creating archetype and keeps the handle");
        c.ck(sel_a(SelectArchetype::try_from(any)) == Some(which), "SelectArchetype::try_from(EntityAny)");
        c.ck(sel_a(SelectArchetype::try_from(any.archetype_id())) == Some(which), "SelectArchetype::try_from(ArchetypeId)");
        c.ck(SelectArchetype::try_from(any).map(|s| s.archetype_id()).ok() == Some(any.archetype_id()), "SelectArchetype::archetype_id reports the declared id");
    }
    c.ck(sel_e(Ok(SelectEntity::from(f2))) == Some((0, f2.into_any().raw())) && sel_e(Ok(SelectEntity::from(&b1))) == Some((1, b1.into_any().raw())), "SelectEntity::from(Entity<A> / &Entity<A>)");
    c.ck(sel_a(Ok(SelectArchetype::from(f2))) == Some(0) && sel_a(Ok(SelectArchetype::from(z1))) == Some(2) && sel_a(Ok(SelectArchetype::from(d_b1))) == Some(1), "SelectArchetype::from(Entity<A> / EntityDirect<A>)");
    for (which, d) in [(0u8, d_f2.into_any()), (1, d_b1.into_any())] {
        let base = sel_d(SelectEntityDirect::try_from(d));
        c.ck(base == Some((which, d)), "SelectEntityDirect::try_from(EntityDirectAny)");
    }
    c.ck(sel_d(Ok(SelectEntityDirect::from(d_f2))) == Some((0, d_f2.into_any())) && sel_d(Ok(SelectEntityDirect::from(&d_b1))) == Some((1, d_b1.into_any())), "SelectEntityDirect::from(EntityDirect<A> / &EntityDirect<A>)");
    // a handle naming no declared archetype
    let ghost = EntityAny::from_raw((7 << 8 | 9, 1)).unwrap();
    c.ck(sel_e(SelectEntity::try_from(ghost)).is_none() && sel_a(SelectArchetype::try_from(ghost)).is_none() && sel_a(SelectArchetype::try_from(9u8)).is_none(), "Select* reject an undeclared archetype id");
    // ---- component ids
    c.ck(ecs_component_id!(CompA, ArchFoo) == 0 && ecs_component_id!(CompB, ArchFoo) == 1 && ecs_component_id!(CompB, ArchBar) == 0 && ecs_component_id!(CompC, ArchBar) == 1 && ecs_component_id!(CompA, ArchBar) == 2 && ecs_component_id!(CompC, ArchBaz) == 0, "ecs_component_id!(C, A)");
    let mut ids: Vec<(u8, u8)> = Vec::new();
    ecs_iter!(w, |_c: &CompA| { ids.push((<MatchedArchetype as Archetype>::ARCHETYPE_ID, ecs_component_id!(CompA))); });
    c.ck(ids == vec![(3, 0), (3, 0), (4, 2)], "ecs_component_id!(C) inside a query body");
    // ---- destroy through the typed world path returns the components, untyped returns ()
    let got = w.destroy(f1);
    c.ck(matches!(got, Some(ArchFooComponents { comp_a: CompA(1), comp_b: CompB(10) })) && w.destroy(f1).is_none(), "World::destroy(Entity<A>) returns the row once");
    c.ck(w.destroy(b1.into_any()) == Some(()) && w.destroy(b1.into_any()).is_none() && w.arch_bar.is_empty(), "World::destroy(EntityAny)");
    println!("done {} {}", c.n, c.bad);
    if c.bad > 0 { std::process::exit(1); }
}
