//! The world lives in its own crate, built with its feature "extra" ON and "lite" OFF; the probe crate that
//! queries it has both features OFF.  cfg predicates are evaluated per crate.
use gecs::prelude::*;

pub struct CompA(pub u32);
pub struct CompB(pub u32);
pub struct CompC(pub u32);

ecs_world! {
    ecs_archetype!(ArchFoo, CompA);
    ecs_archetype!(ArchBar, CompA, #[cfg(feature = "extra")] CompB, #[cfg(feature = "lite")] CompC);
    #[cfg(not(feature = "lite"))]
    ecs_archetype!(ArchBaz, #[cfg(not(feature = "extra"))] CompB, CompC, CompA);
}
