//! C16 across crates: a world declared in another crate (where feature "extra" is on) is queried from this crate
//! (where "extra" and "lite" are off).  Every query with cfg-decorated parameters must behave exactly like the
//! query with the disabled parameters left out and the attributes of the enabled ones removed - with the predicates
//! evaluated in THIS crate.  Prints `bad <what>` per disagreement and `done <checks> <bad>`.
#![forbid(unsafe_code)]
#![allow(unused, dead_code)]
use gecs::prelude::*;
use shared_world::*;

fn main() {
    assert!(!cfg!(feature = "extra") && !cfg!(feature = "lite"));
    let mut n = 0u32; let mut bad = 0u32;
    let mut ck = |ok: bool, what: &str| { n += 1; if !ok { bad += 1; println!("bad {}", what); } };
    let mut world = EcsWorld::default();
    let f1 = world.create::<ArchFoo>((CompA(1),));
    let b1 = world.create::<ArchBar>((CompA(10), CompB(100)));
    let z1 = world.create::<ArchBaz>((CompC(1000), CompA(20)));
    ck(ArchFoo::ARCHETYPE_ID == 0 && ArchBar::ARCHETYPE_ID == 1 && ArchBaz::ARCHETYPE_ID == 2, "ids of the world crate's declaration");

    // a parameter disabled in this crate (but whose predicate is true in the world crate)
    let (mut h1, mut s1) = (0, 0);
    ecs_iter!(world, |a: &CompA, #[cfg(feature = "extra")] b: &CompB| { h1 += 1; s1 += a.0; });
    let (mut h0, mut s0) = (0, 0);
    ecs_iter!(world, |a: &CompA| { h0 += 1; s0 += a.0; });
    ck((h0, s0) == (3, 31), "reference query |a: &CompA| visits the three archetypes");
    ck((h1, s1) == (h0, s0), "ecs_iter!: a parameter whose predicate is false in the querying crate behaves as absent");
    let (mut h2, mut s2) = (0, 0);
    ecs_iter_borrow!(world, |a: &CompA, #[cfg(feature = "extra")] b: &CompB| { h2 += 1; s2 += a.0; });
    ck((h2, s2) == (h0, s0), "ecs_iter_borrow!: disabled parameter behaves as absent");
    let mut h3 = 0;
    ecs_iter_destroy!(world, |a: &CompA, #[cfg(feature = "extra")] b: &CompB| { h3 += 1; EcsStepDestroy::Continue });
    ck(h3 == h0, "ecs_iter_destroy!: disabled parameter behaves as absent");
    ck(ecs_find!(world, f1, |a: &CompA, #[cfg(feature = "extra")] _b: &CompB| a.0) == Some(1), "ecs_find!: disabled parameter does not exclude ArchFoo");
    ck(ecs_find_borrow!(world, f1, |a: &CompA, #[cfg(feature = "lite")] _c: &CompC| a.0) == Some(1), "ecs_find_borrow!: disabled parameter does not exclude ArchFoo");

    // a parameter enabled in this crate (its predicate is false in the world crate)
    let (mut h4, mut s4) = (0, 0);
    ecs_iter!(world, |a: &CompA, #[cfg(not(feature = "extra"))] b: &CompB| { h4 += 1; s4 += a.0; #[cfg(not(feature = "extra"))] { s4 += b.0; } });
    let (mut h5, mut s5) = (0, 0);
    ecs_iter!(world, |a: &CompA, b: &CompB| { h5 += 1; s5 += a.0 + b.0; });
    ck((h5, s5) == (1, 110), "reference query |a: &CompA, b: &CompB| visits ArchBar only");
    ck((h4, s4) == (h5, s5), "ecs_iter!: a parameter whose predicate is true in the querying crate behaves as written");
    ck(ecs_find!(world, f1, |a: &CompA, #[cfg(not(feature = "extra"))] _b: &CompB| a.0).is_none(), "ecs_find!: enabled parameter excludes ArchFoo");
    ck(ecs_find!(world, b1, |a: &CompA, #[cfg(not(feature = "extra"))] b: &CompB| a.0 + b.0) == Some(110), "ecs_find!: enabled parameter binds on ArchBar");

    // two different predicates with different values in this crate
    let (mut h6, mut s6) = (0, 0);
    ecs_iter!(world, |#[cfg(feature = "lite")] b: &CompB, c: &CompC, #[cfg(not(feature = "lite"))] a: &CompA| { h6 += 1; s6 += c.0; #[cfg(not(feature = "lite"))] { s6 += a.0; } });
    ck((h6, s6) == (1, 1020), "ecs_iter!: two differently valued predicates in one query");
    println!("done {} {}", n, bad);
    if bad > 0 { std::process::exit(1); }
}
