//! C12 at real scale: fill one archetype until create panics, recording every capacity change.
//! Output (one record per line, numbers only):
//!   grow <len before the create> <old capacity> <new capacity>
//!   within <len> <capacity> <1 if create_within_capacity succeeded else 0>     (at each growth boundary, before growing)
//!   panic <len> <capacity>                                                       (the create that panicked)
//!   full <len> <ecs_iter! visits or -1 if it panicked> <sum of the values seen> <get_all_slices_mut length or -1> <ecs_iter_destroy! visits or -1> <ecs_iter_borrow! visits or -1> <iter() items or -1>
//!        (every iteration path over the archetype while it holds the maximum number of entities)
//!   after <len> <capacity> <destroy ok> <create ok> <len after> <capacity after> <old handle rejected>
//!   wcap <requested> <1 if with_capacity panicked else 0> <capacity or 0>
#![forbid(unsafe_code)]
use gecs::prelude::*;
use std::panic::{catch_unwind, AssertUnwindSafe};

pub struct CompA(pub u8);
ecs_world! {
    ecs_archetype!(ArchA, CompA);
}

/// creation ordinals whose handles are looked at again at the end (slot indices across every byte of the 24-bit field)
const SAMPLES: [usize; 12] = [0, 1, 255, 256, 65_535, 65_536, 1_000_000, 8_388_607, 8_388_608, 16_777_213, 16_777_214, 16_777_215];

fn main() {
    std::panic::set_hook(Box::new(|_| {}));
    let limit: usize = std::env::args().nth(1).map(|s| s.parse().unwrap()).unwrap_or(usize::MAX);
    // optional second argument: the capacity the archetype starts with (with_capacity)
    let start: usize = std::env::args().nth(2).map(|s| s.parse().unwrap()).unwrap_or(0);
    let mut world = if start == 0 { EcsWorld::default() } else { EcsWorld::with_capacity(EcsWorldCapacity { arch_a: start }) };
    println!("start {} {}", start, world.archetype::<ArchA>().capacity());
    let mut first = None;
    let mut samples: Vec<(usize, Entity<ArchA>)> = Vec::new();
    let mut n: usize = 0;
    loop {
        if n >= limit {
            println!("limit {} {}", world.archetype::<ArchA>().len(), world.archetype::<ArchA>().capacity());
            return;
        }
        let (len, cap) = (world.archetype::<ArchA>().len(), world.archetype::<ArchA>().capacity());
        if len != n || cap < len {
            println!("bad {} {} {}", n, len, cap);
            return;
        }
        if len == cap {
            // create_within_capacity must refuse and hand its argument back
            let r = world.archetype_mut::<ArchA>().create_within_capacity((CompA(7),));
            println!("within {} {} {}", len, cap, if r.is_ok() { 1 } else { 0 });
            if r.is_ok() {
                return;
            }
        }
        let r = catch_unwind(AssertUnwindSafe(|| world.archetype_mut::<ArchA>().create((CompA((n & 0xff) as u8),))));
        match r {
            Ok(e) => {
                if first.is_none() {
                    first = Some(e);
                }
                if SAMPLES.contains(&n) {
                    samples.push((n, e));
                }
                let cap2 = world.archetype::<ArchA>().capacity();
                if cap2 != cap {
                    println!("grow {} {} {}", len, cap, cap2);
                }
                n += 1;
            }
            Err(_) => {
                println!("panic {} {}", world.archetype::<ArchA>().len(), world.archetype::<ArchA>().capacity());
                break;
            }
        }
    }
    // every iteration path over the full archetype (len == capacity == the limit)
    {
        let len = world.archetype::<ArchA>().len();
        let mut sum: u64 = 0;
        let it = catch_unwind(AssertUnwindSafe(|| { let mut k: i64 = 0; ecs_iter!(world, |c: &CompA| { k += 1; sum += c.0 as u64; }); k })).unwrap_or(-1);
        let sl = catch_unwind(AssertUnwindSafe(|| { let s = world.archetype_mut::<ArchA>().get_all_slices_mut(); if s.comp_a.len() == s.entity.len() { s.comp_a.len() as i64 } else { -2 } })).unwrap_or(-1);
        let itd = catch_unwind(AssertUnwindSafe(|| { let mut k: i64 = 0; ecs_iter_destroy!(world, |_c: &CompA| { k += 1; EcsStepDestroy::Continue }); k })).unwrap_or(-1);
        let itb = catch_unwind(AssertUnwindSafe(|| { let mut k: i64 = 0; ecs_iter_borrow!(world, |_c: &CompA| { k += 1; }); k })).unwrap_or(-1);
        let iti = catch_unwind(AssertUnwindSafe(|| world.archetype_mut::<ArchA>().iter().count() as i64)).unwrap_or(-1);
        println!("full {} {} {} {} {} {} {}", len, it, sum, sl, itd, itb, iti);
    }
    // handles with large slot indices: still their own entity, through every key kind and the raw round trip
    for (i, e) in samples.iter() {
        let want = (*i & 0xff) as u8;
        let any = e.into_any();
        let v1 = ecs_find!(world, *e, |c: &CompA| c.0);
        let v2 = ecs_find!(world, any, |c: &CompA| c.0);
        let raw = any.raw();
        let back = EntityAny::from_raw(raw);
        let rt = matches!(back, Ok(b) if b == any);
        let d = world.to_direct(*e);
        let v3 = d.and_then(|d| ecs_find!(world, d, |c: &CompA| c.0));
        let typed_back = Entity::<ArchA>::try_from(any).map(|t| t == *e).unwrap_or(false);
        println!("sample {} {} {} {} {} {} {}", i, (v1 == Some(want)) as u8, (v2 == Some(want)) as u8, rt as u8, (v3 == Some(want)) as u8,
                 typed_back as u8, world.archetype::<ArchA>().contains(*e) as u8);
    }
    // nothing corrupted: the world keeps working, the freed position is reusable
    let (len, cap) = (world.archetype::<ArchA>().len(), world.archetype::<ArchA>().capacity());
    let e0 = first.unwrap();
    let d = world.archetype_mut::<ArchA>().destroy(e0);
    let dok = matches!(d, Some(ArchAComponents { comp_a: CompA(0) }));
    let c = catch_unwind(AssertUnwindSafe(|| world.archetype_mut::<ArchA>().create((CompA(9),))));
    let cok = c.is_ok();
    let stale = !world.archetype::<ArchA>().contains(e0);
    println!("after {} {} {} {} {} {} {}", len, cap, dok as u8, cok as u8,
             world.archetype::<ArchA>().len(), world.archetype::<ArchA>().capacity(), stale as u8);
    drop(world);
    for req in [16_777_216usize, 16_777_217usize] {
        let r = catch_unwind(|| {
            let w = EcsWorld::with_capacity(EcsWorldCapacity { arch_a: req });
            w.archetype::<ArchA>().capacity()
        });
        match r {
            Ok(c) => println!("wcap {} 0 {}", req, c),
            Err(_) => println!("wcap {} 1 0", req),
        }
    }
}
