//! C12 at real scale: fill one archetype until create panics, recording every capacity change.
//! Output (one record per line, numbers only):
//!   grow <len before the create> <old capacity> <new capacity>
//!   within <len> <capacity> <1 if create_within_capacity succeeded else 0>     (at each growth boundary, before growing)
//!   panic <len> <capacity>                                                       (the create that panicked)
//!   after <len> <capacity> <destroy ok> <create ok> <len after> <capacity after> <old handle rejected>
//!   wcap <requested> <1 if with_capacity panicked else 0> <capacity or 0>
#![forbid(unsafe_code)]
use gecs::prelude::*;
use std::panic::{catch_unwind, AssertUnwindSafe};

pub struct CompA(pub u8);
ecs_world! {
    ecs_archetype!(ArchA, CompA);
}

fn main() {
    std::panic::set_hook(Box::new(|_| {}));
    let limit: usize = std::env::args().nth(1).map(|s| s.parse().unwrap()).unwrap_or(usize::MAX);
    // optional second argument: the capacity the archetype starts with (with_capacity)
    let start: usize = std::env::args().nth(2).map(|s| s.parse().unwrap()).unwrap_or(0);
    let mut world = if start == 0 { EcsWorld::default() } else { EcsWorld::with_capacity(EcsWorldCapacity { arch_a: start }) };
    println!("start {} {}", start, world.archetype::<ArchA>().capacity());
    let mut first = None;
    let mut n: usize = 0;
    loop {
        if n >= limit {
            println!("limit {} {}", world.archetype::<ArchA>().len(), world.archetype::<ArchA>().capacity());
            return;
        }
        let (len, cap) = (world.archetype::<ArchA>().len(), world.archetype::<ArchA>().capacity());
        if len != n || cap < len {
            println!("bad {} {} {}", n, len, cap);
            return;
        }
        if len == cap {
            // create_within_capacity must refuse and hand its argument back
            let r = world.archetype_mut::<ArchA>().create_within_capacity((CompA(7),));
            println!("within {} {} {}", len, cap, if r.is_ok() { 1 } else { 0 });
            if r.is_ok() {
                return;
            }
        }
        let r = catch_unwind(AssertUnwindSafe(|| world.archetype_mut::<ArchA>().create((CompA((n & 0xff) as u8),))));
        match r {
            Ok(e) => {
                if first.is_none() {
                    first = Some(e);
                }
                let cap2 = world.archetype::<ArchA>().capacity();
                if cap2 != cap {
                    println!("grow {} {} {}", len, cap, cap2);
                }
                n += 1;
            }
            Err(_) => {
                println!("panic {} {}", world.archetype::<ArchA>().len(), world.archetype::<ArchA>().capacity());
                break;
            }
        }
    }
    // nothing corrupted: the world keeps working, the freed position is reusable
    let (len, cap) = (world.archetype::<ArchA>().len(), world.archetype::<ArchA>().capacity());
    let e0 = first.unwrap();
    let d = world.archetype_mut::<ArchA>().destroy(e0);
    let dok = matches!(d, Some(ArchAComponents { comp_a: CompA(0) }));
    let c = catch_unwind(AssertUnwindSafe(|| world.archetype_mut::<ArchA>().create((CompA(9),))));
    let cok = c.is_ok();
    let stale = !world.archetype::<ArchA>().contains(e0);
    println!("after {} {} {} {} {} {} {}", len, cap, dok as u8, cok as u8,
             world.archetype::<ArchA>().len(), world.archetype::<ArchA>().capacity(), stale as u8);
    drop(world);
    for req in [16_777_216usize, 16_777_217usize] {
        let r = catch_unwind(|| {
            let w = EcsWorld::with_capacity(EcsWorldCapacity { arch_a: req });
            w.archetype::<ArchA>().capacity()
        });
        match r {
            Ok(c) => println!("wcap {} 0 {}", req, c),
            Err(_) => println!("wcap {} 1 0", req),
        }
    }
}
