fn main() {}
