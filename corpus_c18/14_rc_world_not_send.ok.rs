#![forbid(unsafe_code)]
#![allow(unused, dead_code)]
use gecs::prelude::*;
use std::rc::Rc;
use std::sync::Arc;
pub struct CompR(pub Rc<u32>);
pub struct CompS(pub Arc<u32>);
ecs_world! { ecs_archetype!(ArchRc, CompR); }
mod sendable { use super::*; ecs_world! { ecs_name!(SendWorld); ecs_archetype!(ArchArc, CompS); } }
fn handle_traits<T: Copy + Send + Sync + 'static>() {}
fn main() {
    // handles of a world with a non-Send component are still Copy + Send + Sync
    handle_traits::<Entity<ArchRc>>();
    handle_traits::<EntityDirect<ArchRc>>();
    handle_traits::<EntityAny>();
    handle_traits::<EntityDirectAny>();
    // a world of Send components can be sent
    let mut world = sendable::SendWorld::default();
    world.create::<sendable::ArchArc>((CompS(Arc::new(1)),));
    std::thread::spawn(move || { let w = world; drop(w); }).join().unwrap();
}
