#![forbid(unsafe_code)]
#![allow(unused, dead_code)]
use gecs::prelude::*;
pub struct CompA(pub u32);
pub struct CompB(pub u32);
ecs_world! {
    ecs_archetype!(ArchFoo, CompA, CompB);
    ecs_archetype!(ArchBar, CompA);
}
fn use_it<T>(_t: T) {}
fn main() {
    let mut world = EcsWorld::default();
    let e = world.create::<ArchFoo>((CompA(1), CompB(2)));
    let s = world.arch_foo.get_all_slices_mut();
    use_it(s.comp_a[0].0);
    world.destroy(e);
}
