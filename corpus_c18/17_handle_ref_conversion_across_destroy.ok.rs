#![forbid(unsafe_code)]
#![allow(unused, dead_code)]
use gecs::prelude::*;
pub struct CompA(pub u32);
pub struct CompB(pub u32);
ecs_world! {
    ecs_archetype!(ArchFoo, CompA, CompB);
    ecs_archetype!(ArchBar, CompA);
}
fn use_it<T>(_t: T) {}
fn main() {
    let mut world = EcsWorld::default();
    let e = world.create::<ArchFoo>((CompA(1), CompB(2)));
    let first: &EntityAny = (&world.arch_foo.entities()[0]).into();
    use_it(*first);
    world.destroy(e);
}
