#![forbid(unsafe_code)]
#![allow(unused, dead_code)]
use gecs::prelude::*;
use std::rc::Rc;
pub struct CompR(pub Rc<u32>);
ecs_world! { ecs_archetype!(ArchRc, CompR); }
fn main() {
    let mut world = EcsWorld::default();
    world.create::<ArchRc>((CompR(Rc::new(1)),));
    std::thread::spawn(move || { let w = world; drop(w); }).join().unwrap();
}
