#![forbid(unsafe_code)]
#![allow(unused, dead_code)]
use gecs::prelude::*;
pub struct CompA(pub u32);
pub struct CompB(pub u32);
ecs_world! { ecs_archetype!(ArchFoo, CompA, CompB); }
fn main() {
    let mut world = EcsWorld::default();
    world.create::<ArchFoo>((CompA(1), CompB(2)));
    {
        let s = world.arch_foo.get_slice::<CompA>();
        println!("{}", s[0].0);
    }
    {
        let mut g = world.arch_foo.borrow_slice_mut::<CompA>();
        g[0].0 += 100;
    }
    let s = world.arch_foo.get_slice::<CompA>();
    println!("{}", s[0].0);
}
