#![forbid(unsafe_code)]
#![allow(unused, dead_code)]
// A component that is Send but not Sync (a Cell): the world is Send, since all its components are.
use gecs::prelude::*;
use std::cell::Cell;
pub struct CompC(pub Cell<u32>);
ecs_world! { ecs_archetype!(ArchC, CompC); }
fn main() {
    let mut world = EcsWorld::default();
    world.create::<ArchC>((CompC(Cell::new(1)),));
    std::thread::spawn(move || { let w = world; drop(w); }).join().unwrap();
}
