#![forbid(unsafe_code)]
#![allow(unused, dead_code)]
use gecs::prelude::*;
pub struct CompA(pub u32);
pub struct CompB(pub u32);
ecs_world! {
    ecs_archetype!(ArchFoo, CompA, CompB);
    ecs_archetype!(ArchBar, CompA);
}
fn use_it<T>(_t: T) {}
fn main() {
    let mut world = EcsWorld::default();
    let e = world.create::<ArchFoo>((CompA(1), CompB(2)));
    let mut handle: Entity<ArchFoo> = e;
    let mut direct: EntityDirect<ArchFoo> = world.to_direct(e).unwrap();
    let one: &mut EntityAny = (&mut handle).into();
    *one = e.into_any();
    let two: &mut EntityAny = (&mut handle).into();
    *two = e.into_any();
    let d2: &EntityDirectAny = (&direct).into();
    let copy = *d2;
    let d1: &mut EntityDirectAny = (&mut direct).into();
    *d1 = copy;
}
