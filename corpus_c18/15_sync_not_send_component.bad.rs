#![forbid(unsafe_code)]
#![allow(unused, dead_code)]
// A component that is Sync but not Send (a MutexGuard): the world must not be Send, or the lock
// would be released on a thread that never took it.
use gecs::prelude::*;
use std::sync::{Mutex, MutexGuard};
pub struct CompG(pub MutexGuard<'static, u32>);
ecs_world! { ecs_archetype!(ArchG, CompG); }
fn main() {
    let m: &'static Mutex<u32> = Box::leak(Box::new(Mutex::new(1)));
    let mut world = EcsWorld::default();
    world.create::<ArchG>((CompG(m.lock().unwrap()),));
    std::thread::spawn(move || { let w = world; drop(w); }).join().unwrap();
}
