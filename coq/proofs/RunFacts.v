(** Facts about the run-level model (coq/model/World.v, Run.v): what reading everything shows,
    how the query loops visit an archetype, event logs. *)
From Coq Require Import NArith Lia Bool.
From stdpp Require Import base list numbers option sets.
From Gecs Require Import Prim ExtrBits ExtrVersion ExtrStorage ExtrQuery Storage Query World Run
                         BitsFacts VersionFacts StorageInv StorageResolve StorageHist StorageOps.
Local Open Scope nat_scope.
Set Default Proof Using "Type".

(* ---------------------------------------------------------------- reading everything (C06) *)

Definition row_obs (s : storage) (i : nat) : option (list N) :=
  match ents s !! i, row_at (cols s) i with Some e, Some r => Some (o_handle e ++ r) | _, _ => None end.

Lemma mapM_seq_some {A} (f : nat -> option A) n (g : nat -> A) : (forall i, i < n -> f i = Some (g i)) ->
  mapM f (seq 0 n) = Some (g <$> seq 0 n).
Proof.
  intros H. apply mapM_Some. apply Forall2_fmap_r. apply Forall2_same_length_lookup. split; [done|].
  intros i x y Hx Hy. rewrite Hx in Hy. injection Hy as <-. apply lookup_seq in Hx as [-> Hi]. by apply H.
Qed.

(** Every slice accessor / Archetype::iter(_mut) / entities(): exactly len items, item i being the
    handle and the row of dense position i. *)
Lemma all_rows_spec s : Inv s ->
  exists rows, all_rows s = Some rows /\ length rows = len s /\
    forall i, i < len s -> exists e r, abs_at s i = Some (e, r) /\ rows !! i = Some (o_handle e ++ r).
Proof.
  intros HI. unfold all_rows.
  assert ((len s <=? length (ents s)) = true) as -> by (apply Nat.leb_le; rewrite (i_lents s HI); lia).
  rewrite (forallb_cols_len (len s) (len s) (cols s) (i_lcols s HI)) by lia. cbn [negb orb].
  set (g := fun i => match abs_at s i with Some (e, r) => o_handle e ++ r | None => [] end).
  rewrite (mapM_seq_some _ (len s) g).
  - eexists. split; [done|]. split; [by rewrite fmap_length, seq_length|].
    intros i Hi. destruct (abs_at_some s i HI Hi) as (e & r & Ha & He & Hr). exists e, r. split; [done|].
    rewrite list_lookup_fmap, lookup_seq_lt by done. simpl. unfold g. by rewrite Ha.
  - intros i Hi. destruct (abs_at_some s i HI Hi) as (e & r & Ha & He & Hr). unfold g. rewrite Ha.
    unfold abs_at in Ha. destruct (ents s !! i); [|done]. destruct (row_at (cols s) i); [|done]. by injection Ha as <- <-.
Qed.

(** The handles presented in one pass are pairwise distinct. *)
Lemma pass_handles_distinct s : Inv s -> NoDup (ents s).
Proof. exact (ents_NoDup s). Qed.

(* ---------------------------------------------------------------- event logs (C17) *)

Lemma created_events cfg s h x vs :
  created (created_state cfg s h x vs) = (if events cfg then created s ++ [created_handle s h x] else created s) /\
  destroyed (created_state cfg s h x vs) = destroyed s.
Proof. done. Qed.

Lemma destroyed_events cfg s si d e le va vs' :
  destroyed (destroyed_state cfg s si d e le va vs') = (if events cfg then destroyed s ++ [e] else destroyed s) /\
  created (destroyed_state cfg s si d e le va vs') = created s.
Proof. done. Qed.

Lemma clear_events_spec s : created (clear_events s) = [] /\ destroyed (clear_events s) = [] /\
  ents (clear_events s) = ents s /\ cols (clear_events s) = cols s /\ slots (clear_events s) = slots s /\
  len (clear_events s) = len s /\ cap (clear_events s) = cap s /\ version (clear_events s) = version s /\ head (clear_events s) = head s.
Proof. done. Qed.

Lemma grown_events s n : created (grown s n) = created s /\ destroyed (grown s n) = destroyed s.
Proof. done. Qed.

(** A panicking destroy logs nothing (the event push comes after the two overflow checks). *)
Lemma destroy_panic_logs_nothing cfg k s h p s' : Inv s -> key32 h -> destroy cfg k s h = Panic p s' -> s' = s.
Proof. intros HI Hk H. pose proof (destroy_cases cfg k s h HI Hk) as Hc. rewrite H in Hc. by inversion Hc. Qed.

(* ---------------------------------------------------------------- value accounting (C04) *)

(** Dropping a storage drops exactly its initialised cells (every column, positions 0..len), once each,
    and deallocates what was allocated. *)
Lemma drop_cells_spec s : Inv s -> drop_cells s = Some (cols s).
Proof.
  intros HI. destruct (i_alloc s HI) as (A1 & A2 & A3). unfold drop_cells. change drop_bound with CBLen. cbn [clone_bound_of].
  rewrite (forallb_cols_len (len s) (len s) (cols s) (i_lcols s HI)) by lia.
  rewrite A1, A2, A3, !Nat.eqb_refl. cbn [andb]. f_equal.
  apply list_eq. intros i. rewrite list_lookup_fmap. destruct (cols s !! i) as [c|] eqn:Hc; [|done]. simpl.
  pose proof (Forall_lookup_1 _ _ _ _ (i_lcols s HI) Hc) as Hl. simpl in Hl. by rewrite take_ge by lia.
Qed.

(** The number of component cells is len * columns: nothing is stored twice, nothing is missing. *)
Lemma cells_count s : Inv s -> Forall (fun c => length c = len s) (cols s).
Proof. exact (i_lcols s). Qed.
