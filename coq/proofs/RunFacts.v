(** Facts about the run-level model (coq/model/World.v, Run.v): what reading everything shows,
    how the query loops visit an archetype, event logs. *)
From Coq Require Import NArith Lia Bool.
From stdpp Require Import base list numbers option sets.
From Gecs Require Import Prim ExtrBits ExtrVersion ExtrStorage ExtrQuery Storage Query World Run
                         BitsFacts VersionFacts StorageInv StorageResolve StorageHist StorageOps.
Local Open Scope nat_scope.
Set Default Proof Using "Type".

(* ---------------------------------------------------------------- reading everything (C06) *)

Definition row_obs (s : storage) (i : nat) : option (list N) :=
  match ents s !! i, row_at (cols s) i with Some e, Some r => Some (o_handle e ++ r) | _, _ => None end.

Lemma mapM_seq_some {A} (f : nat -> option A) n (g : nat -> A) : (forall i, i < n -> f i = Some (g i)) ->
  mapM f (seq 0 n) = Some (g <$> seq 0 n).
Proof.
  intros H. apply mapM_Some. apply Forall2_fmap_r. apply Forall2_same_length_lookup. split; [done|].
  intros i x y Hx Hy. rewrite Hx in Hy. injection Hy as <-. apply lookup_seq in Hx as [-> Hi]. by apply H.
Qed.

(** Every slice accessor / Archetype::iter(_mut) / entities(): exactly len items, item i being the
    handle and the row of dense position i. *)
Lemma all_rows_spec s : Inv s ->
  exists rows, all_rows s = Some rows /\ length rows = len s /\
    forall i, i < len s -> exists e r, abs_at s i = Some (e, r) /\ rows !! i = Some (o_handle e ++ r).
Proof.
  intros HI. unfold all_rows.
  assert ((len s <=? length (ents s)) = true) as -> by (apply Nat.leb_le; rewrite (i_lents s HI); lia).
  rewrite (forallb_cols_len (len s) (len s) (cols s) (i_lcols s HI)) by lia. cbn [negb orb].
  set (g := fun i => match abs_at s i with Some (e, r) => o_handle e ++ r | None => [] end).
  rewrite (mapM_seq_some _ (len s) g).
  - eexists. split; [done|]. split; [by rewrite fmap_length, seq_length|].
    intros i Hi. destruct (abs_at_some s i HI Hi) as (e & r & Ha & He & Hr). exists e, r. split; [done|].
    rewrite list_lookup_fmap, lookup_seq_lt by done. simpl. unfold g. by rewrite Ha.
  - intros i Hi. destruct (abs_at_some s i HI Hi) as (e & r & Ha & He & Hr). unfold g. rewrite Ha.
    unfold abs_at in Ha. destruct (ents s !! i); [|done]. destruct (row_at (cols s) i); [|done]. by injection Ha as <- <-.
Qed.

(** The handles presented in one pass are pairwise distinct. *)
Lemma pass_handles_distinct s : Inv s -> NoDup (ents s).
Proof. exact (ents_NoDup s). Qed.

(* ---------------------------------------------------------------- event logs (C17) *)

Lemma created_events cfg s h x vs :
  created (created_state cfg s h x vs) = (if events cfg then created s ++ [created_handle s h x] else created s) /\
  destroyed (created_state cfg s h x vs) = destroyed s.
Proof. done. Qed.

Lemma destroyed_events cfg s si d e le va vs' :
  destroyed (destroyed_state cfg s si d e le va vs') = (if events cfg then destroyed s ++ [e] else destroyed s) /\
  created (destroyed_state cfg s si d e le va vs') = created s.
Proof. done. Qed.

Lemma clear_events_spec s : created (clear_events s) = [] /\ destroyed (clear_events s) = [] /\
  ents (clear_events s) = ents s /\ cols (clear_events s) = cols s /\ slots (clear_events s) = slots s /\
  len (clear_events s) = len s /\ cap (clear_events s) = cap s /\ version (clear_events s) = version s /\ head (clear_events s) = head s.
Proof. done. Qed.

Lemma grown_events s n : created (grown s n) = created s /\ destroyed (grown s n) = destroyed s.
Proof. done. Qed.

(** A panicking destroy logs nothing (the event push comes after the two overflow checks). *)
Lemma destroy_panic_logs_nothing cfg k s h p s' : Inv s -> key32 h -> destroy cfg k s h = Panic p s' -> s' = s.
Proof. intros HI Hk H. pose proof (destroy_cases cfg k s h HI Hk) as Hc. rewrite H in Hc. by inversion Hc. Qed.

(* ---------------------------------------------------------------- value accounting (C04) *)

(** Dropping a storage drops exactly its initialised cells (every column, positions 0..len), once each,
    and deallocates what was allocated. *)
Lemma drop_cells_spec s : Inv s -> drop_cells s = Some (cols s).
Proof.
  intros HI. destruct (i_alloc s HI) as (A1 & A2 & A3). unfold drop_cells. change drop_bound with CBLen. cbn [clone_bound_of].
  rewrite (forallb_cols_len (len s) (len s) (cols s) (i_lcols s HI)) by lia.
  rewrite A1, A2, A3, !Nat.eqb_refl. cbn [andb]. f_equal.
  apply list_eq. intros i. rewrite list_lookup_fmap. destruct (cols s !! i) as [c|] eqn:Hc; [|done]. simpl.
  pose proof (Forall_lookup_1 _ _ _ _ (i_lcols s HI) Hc) as Hl. simpl in Hl. by rewrite take_ge by lia.
Qed.

(** The number of component cells is len * columns: nothing is stored twice, nothing is missing. *)
Lemma cells_count s : Inv s -> Forall (fun c => length c = len s) (cols s).
Proof. exact (i_lcols s). Qed.

(* ---------------------------------------------------------------- configurations (C19) *)

Definition with_events (cfg : config) (b : bool) : config := Config (wrapping cfg) b (debug cfg).
Definition with_debug (cfg : config) (b : bool) : config := Config (wrapping cfg) (events cfg) b.

(** The events feature only adds the logs: erasing them from a state produced with the feature on
    gives the state produced with it off. *)
Lemma created_state_events_conservative cfg s h x vs :
  clear_events (created_state (with_events cfg true) s h x vs) = clear_events (created_state (with_events cfg false) s h x vs).
Proof. done. Qed.

Lemma destroyed_state_events_conservative cfg s si d e le va vs' :
  clear_events (destroyed_state (with_events cfg true) s si d e le va vs') =
  clear_events (destroyed_state (with_events cfg false) s si d e le va vs').
Proof. done. Qed.

Lemma created_state_ignores_logs cfg s h x vs :
  clear_events (created_state cfg (clear_events s) h x vs) = clear_events (created_state cfg s h x vs).
Proof. done. Qed.

(** Lookups never read the logs, nor the events flag. *)
Lemma resolve_entity_ignores_events cfg b s h : resolve_entity (with_events cfg b) (clear_events s) h = resolve_entity cfg s h.
Proof. done. Qed.
Lemma resolve_direct_ignores_events cfg b s h : resolve_direct (with_events cfg b) (clear_events s) h = resolve_direct cfg s h.
Proof. done. Qed.

(** wrapping_version changes nothing below the overflow boundary. *)
Lemma next_wrapping_conservative v : in_ver v -> (v + 1 < 2^32)%N -> slot_next true v = slot_next false v /\ arch_next true v = arch_next false v.
Proof.
  intros Hv Hlt. assert (H : slot_next true v = slot_next false v).
  { rewrite slot_next_wrapping by done. rewrite slot_next_checked_some by done.
    destruct (N.eqb_spec v (2^32 - 1)); [lia|done]. }
  split; [exact H|exact H].
Qed.

(** Closed form of the slot lookup on an invariant state: debug assertions change exactly one case
    (a slot index beyond the capacity: clean panic instead of absence) and nothing else. *)
Lemma resolve_entity_form cfg s h : Inv s -> key32 h ->
  resolve_entity cfg s h =
    if len s =? 0 then ROk None
    else if (N.of_nat (cap s) <=? hslot h)%N then (if debug cfg then RPanic PDebug else ROk None)
    else match slots s !! N.to_nat (hslot h) with
         | Some (Slot (Data d) v) => if (v =? snd h)%N then ROk (Some (N.to_nat (hslot h), d)) else ROk None
         | _ => ROk None
         end.
Proof.
  intros HI Hk. pose proof (i_le s HI) as Hle. pose proof (hslot_lt h Hk) as Hs24.
  unfold resolve_entity.
  assert ((len s <=? cap s) = true) as -> by (apply Nat.leb_le; done). rewrite andb_false_r.
  unfold re_guard_empty. destruct (Nat.eqb_spec (len s) 0) as [E0|E0].
  { destruct (N.eqb_spec (N.of_nat (len s)) 0); [done|lia]. }
  destruct (N.eqb_spec (N.of_nat (len s)) 0); [lia|].
  assert (trimmed_ok_u32 (hslot h) = true) as -> by (by apply trimmed_ok_spec). cbn [negb].
  unfold re_guard_oob. destruct (N.leb_spec (N.of_nat (cap s)) (hslot h)) as [Hoob|Hin]; [done|].
  assert (Hlt : N.to_nat (hslot h) < length (slots s)) by (rewrite (i_lslots s HI); lia).
  destruct (lookup_lt_is_Some_2 _ _ Hlt) as [[ix v] Hx]. rewrite Hx. cbn [s_ver s_idx].
  unfold re_guard_stale, neqb. destruct (N.eqb_spec v (snd h)) as [Hv|Hv]; cbn [negb orb].
  2: { by destruct ix. }
  destruct ix as [d| |]; cbn [sidx_is_free]; [|done|done].
  destruct (bwd' s _ _ d HI Hx eq_refl) as (e & He & Hes & Hev). cbn [s_ver] in Hev.
  destruct (fwd' s d e HI He) as (_ & _ & _ & Hdl & Hhe).
  assert (Hh : hslot e = hslot h) by (rewrite Hhe, Hes; lia).
  assert ((d <? len s) = true) as -> by (apply Nat.ltb_lt; done). cbn [negb].
  rewrite He, Hh, N.eqb_refl. rewrite Hev, Hv, N.eqb_refl. cbn [negb orb]. by destruct (debug cfg).
Qed.

Lemma resolve_entity_debug_conservative cfg s h : Inv s -> key32 h ->
  resolve_entity (with_debug cfg true) s h <> RPanic PDebug ->
  resolve_entity (with_debug cfg true) s h = resolve_entity (with_debug cfg false) s h.
Proof.
  intros HI Hk Hn. rewrite !(resolve_entity_form _ s h HI Hk) in *. cbn [debug with_debug] in *.
  destruct (len s =? 0); [done|]. destruct (N.leb (N.of_nat (cap s)) (hslot h)); [done|done].
Qed.
