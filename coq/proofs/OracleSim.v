(** The model refines the specification oracle on a core language: for EVERY history consisting of
    creations, destructions through an archetype with issued handles, and probes (world level and
    archetype level) with issued handles, in one world, without wrapping_version, the oracle
    (spec/Spec.v) accepts the whole run of the model: [spec_check (run ..) = None].  The proof is a
    simulation: a relation between the model's state and the oracle's state that every step keeps. *)
From Coq Require Import NArith Lia Bool.
From stdpp Require Import base list numbers option sets.
From Gecs Require Import Prim ExtrBits ExtrVersion ExtrStorage ExtrQuery Storage Query World Borrow Run
                         BitsFacts VersionFacts ConvFacts StorageInv StorageResolve StorageHist StorageOps RunFacts WorldInv LoopFacts
                         ObsFacts Spec OracleFacts.
Local Open Scope nat_scope.
Set Default Proof Using "Type".

(* ---------------------------------------------------------------- storage level: what create and destroy do to the set of rows *)

Definition has_row (s : storage) (e : handle) (r : list val) : Prop := exists dd, dd < len s /\ abs_at s dd = Some (e, r).

Lemma has_row_ents s e r : has_row s e r -> e ∈ ents s.
Proof.
  intros (dd & _ & Ha). unfold abs_at in Ha. destruct (ents s !! dd) as [e'|] eqn:He; [|done].
  destruct (row_at (cols s) dd); [|done]. injection Ha as <- _. by eapply elem_of_list_lookup_2.
Qed.

Lemma ents_has_row s e : Inv s -> e ∈ ents s -> exists r, has_row s e r.
Proof.
  intros HI Hin. apply elem_of_list_lookup in Hin as [dd Hd].
  assert (Hdl : dd < len s) by (rewrite <- (i_lents s HI); by eapply lookup_lt_Some).
  destruct (abs_at_some s dd HI Hdl) as (e' & r & Ha & He & _). rewrite Hd in He. injection He as <-.
  exists r, dd. done.
Qed.

Lemma has_row_fun s e r r' : Inv s -> has_row s e r -> has_row s e r' -> r = r'.
Proof.
  intros HI (d1 & H1 & A1) (d2 & H2 & A2).
  assert (E1 : ents s !! d1 = Some e) by (unfold abs_at in A1; destruct (ents s !! d1); [|done]; destruct (row_at _ _); [|done]; by injection A1 as -> _).
  assert (E2 : ents s !! d2 = Some e) by (unfold abs_at in A2; destruct (ents s !! d2); [|done]; destruct (row_at _ _); [|done]; by injection A2 as -> _).
  assert (d1 = d2) as -> by (eapply NoDup_lookup; [apply (pass_handles_distinct s HI)|done|done]).
  rewrite A1 in A2. by injection A2.
Qed.

(** One row appended under the head of the free list (what create does once there is room). *)
Lemma created_summary cfg s s1 iss vs h x : Inv s1 -> Hist s1 iss -> len s1 < cap s1 -> len s1 = len s -> (forall i, abs_at s1 i = abs_at s i) ->
  length vs = length (cols s1) -> head s1 = Free h -> slots s1 !! h = Some x ->
  Hist (created_state cfg s1 h x vs) (iss ++ [created_handle s1 h x]) /\ created_handle s1 h x ∉ iss /\
  len (created_state cfg s1 h x vs) = S (len s) /\
  (forall e r, has_row (created_state cfg s1 h x vs) e r <-> has_row s e r \/ (e = created_handle s1 h x /\ r = vs)).
Proof.
  intros HI1 HH1 Hlt Hlen Habs Hvs1 Hh Hx.
  destruct (free_head_exists s1 HI1 Hlt) as (h0 & x0 & fl & Hh0 & Hx0 & Hxf & _).
  rewrite Hh in Hh0. injection Hh0 as <-. rewrite Hx in Hx0. injection Hx0 as <-.
  assert (Hhc : h < cap s1) by (rewrite <- (i_lslots s1 HI1); by eapply lookup_lt_Some).
  split_and!; [by apply hist_created|by eapply created_fresh|cbn; lia|].
  intros e r. split.
  - intros (dd & Hdd & Ha). cbn [len created_state] in Hdd.
    rewrite (created_abs cfg s1 h x vs dd HI1 Hvs1) in Ha by lia. case_decide as Hc.
    + injection Ha as <- <-. by right.
    + left. exists dd. split; [lia|]. by rewrite <- Habs.
  - intros [(dd & Hdd & Ha)|[-> ->]].
    + exists dd. split; [cbn; lia|]. rewrite (created_abs cfg s1 h x vs dd HI1 Hvs1) by lia.
      rewrite decide_False by lia. by rewrite Habs.
    + exists (len s1). split; [cbn; lia|]. rewrite (created_abs cfg s1 h x vs (len s1) HI1 Hvs1) by lia.
      by rewrite decide_True.
Qed.

(** create, summarised: an invariant state whose rows are the old ones plus the new row, under a handle
    that was never issued for this storage; or the capacity-limit panic, which changes nothing. *)
Lemma push_summary cfg s iss vs : Inv s -> Hist s iss -> length vs = length (cols s) ->
  match push cfg s vs with
  | Ok s' h => Hist s' (iss ++ [h]) /\ h ∉ iss /\ len s' = S (len s) /\ (len s < cap s -> cap s' = cap s) /\ cap s <= cap s' /\
               (forall e r, has_row s' e r <-> has_row s e r \/ (e = h /\ r = vs))
  | Panic p s' => s' = s /\ p = PCapOverflow /\ (N.of_nat (len s) = MAX_DATA_CAPACITY)%N
  | UB => False
  end.
Proof.
  intros HI HH Hvs. destruct (push_spec cfg s vs HI Hvs) as [Hout Hpost].
  destruct Hout as [h x Hlt Hh Hx|n h x Hfull Hn Hnc Hneq Hh Hx|Hfull Hmax].
  - destruct (created_summary cfg s s iss vs h x HI HH Hlt eq_refl ltac:(done) Hvs Hh Hx) as (A & B & C & D). split_and!; try done.
  - assert (HIg : Inv (grown s n)) by (by apply grown_inv).
    destruct (created_summary cfg s (grown s n) iss vs h x HIg ltac:(apply hist_grown; [done|done|lia]) ltac:(cbn; lia) eq_refl ltac:(done) Hvs Hh Hx) as (A & B & C & D).
    split_and!; try done; [intros Hlt; lia|cbn; lia].
  - split_and!; [done|done|lia].
Qed.

(** create_within_capacity, summarised: it succeeds exactly when there is room, and then does what create does
    without touching the capacity; otherwise it changes nothing. *)
Lemma push_within_summary cfg s iss vs : Inv s -> Hist s iss -> length vs = length (cols s) ->
  match push_within cfg s vs with
  | Ok s' (Some h) => len s < cap s /\ Hist s' (iss ++ [h]) /\ h ∉ iss /\ len s' = S (len s) /\ cap s' = cap s /\
                      (forall e r, has_row s' e r <-> has_row s e r \/ (e = h /\ r = vs))
  | Ok s' None => s' = s /\ ~ len s < cap s
  | Panic _ _ | UB => False
  end.
Proof.
  intros HI HH Hvs. pose proof (push_within_spec cfg s vs HI Hvs) as Hp. case_decide as Hlt.
  - destruct Hp as (h & x & -> & _ & Hcap & Hh & Hx).
    destruct (created_summary cfg s s iss vs h x HI HH Hlt eq_refl ltac:(done) Hvs Hh Hx) as (A & B & C & D). done.
  - rewrite Hp. done.
Qed.

(** destroy with a key of this archetype, summarised (no wrapping_version). *)
Lemma destroy_summary cfg s iss e : wrapping cfg = false -> Inv s -> Hist s iss -> key32 e ->
  key_arch_id (fst e) = aid s -> eslot e < cap s ->
  match destroy cfg KEnt s e with
  | Ok s' (Some row) => has_row s e row /\ Hist s' iss /\ cap s' = cap s /\ len s' = len s - 1 /\ 0 < len s /\
                        (forall e' r, has_row s' e' r <-> has_row s e' r /\ e' <> e)
  | Ok s' None => s' = s /\ e ∉ ents s
  | Panic p s' => s' = s /\ (p = PArchOverflow \/ p = PSlotOverflow)
  | UB => False
  end.
Proof.
  intros Hw HI HH Hk Hid Hc.
  destruct (decide (e ∈ ents s)) as [Hin|Hnin].
  2: { unfold destroy. cbn [resolve_key]. by rewrite (resolve_entity_unstored cfg s HI e Hk Hid Hc Hnin). }
  apply elem_of_list_lookup in Hin as [d Hd].
  rewrite (destroy_live cfg s d e HI Hd). rewrite Hw.
  destruct (fwd' s d e HI Hd) as (Hs & Hf & _ & Hdl & _).
  destruct (arch_next false (version s)) as [va|] eqn:Hva; [|by split; [|left]].
  destruct (slot_next false (snd e)) as [vs'|] eqn:Hvs; [|by split; [|right]].
  assert (Hive : in_ver (snd e)) by exact (proj2 (i_ver s HI) _ _ Hs).
  destruct (slot_next_checked _ _ Hvs) as [Hvs1 _].
  assert (Hiva : in_ver va) by (rewrite arch_next_eq in Hva; eapply slot_next_in; [apply (i_ver s HI)|done]).
  assert (Hivs : in_ver vs') by (eapply slot_next_in; [exact Hive|done]).
  destruct (hist_destroyed (Config false (events cfg) (debug cfg)) s iss (eslot e) d e va vs' HI HH Hd eq_refl ltac:(lia) Hiva Hivs) as [HH' Hgone].
  destruct (abs_at_some s d HI Hdl) as (e0 & row & Ha & He0 & _). rewrite Hd in He0. injection He0 as <-.
  assert (row_of s d = row) as ->.
  { unfold abs_at in Ha. rewrite Hd in Ha. unfold row_of. destruct (row_at (cols s) d); by inversion Ha. }
  set (s' := destroyed_state cfg s (eslot e) d e (last_ent s e) va vs').
  assert (Hs'eq : destroyed_state (Config false (events cfg) (debug cfg)) s (eslot e) d e (last_ent s e) va vs' = s') by (destruct cfg; cbn in Hw; by subst).
  rewrite Hs'eq in HH', Hgone.
  split_and!; [by exists d|done|done|done|lia|].
  intros e' r. split.
  - intros (i & Hi & Hai). assert (Hl : len s' = len s - 1) by done. rewrite Hl in Hi.
    assert (Hne : e' <> e).
    { intros ->. apply (Hgone i). unfold abs_at in Hai. destruct (ents s' !! i); [|done]. destruct (row_at _ _); [|done]. by injection Hai as -> _. }
    split; [|done]. unfold s' in Hai. rewrite (destroyed_abs cfg s (eslot e) d e va vs' i HI Hd Hi) in Hai.
    case_decide; [exists (len s - 1); split; [lia|done]|exists i; split; [lia|done]].
  - intros [(i & Hi & Hai) Hne]. assert (Hid' : i <> d) by (intros ->; rewrite Ha in Hai; by injection Hai as <- _).
    destruct (decide (i = len s - 1)) as [->|Hnl].
    + exists d. split; [change (len s') with (len s - 1); lia|]. unfold s'.
      rewrite (destroyed_abs cfg s (eslot e) d e va vs' d HI Hd) by lia. by rewrite decide_True.
    + exists i. split; [change (len s') with (len s - 1); lia|]. unfold s'.
      rewrite (destroyed_abs cfg s (eslot e) d e va vs' i HI Hd) by lia. by rewrite decide_False.
Qed.

(* ---------------------------------------------------------------- the oracle's entity lists *)

Lemma heqb_eq a b : heqb a b = true <-> a = b.
Proof.
  unfold heqb. destruct a as [a1 a2], b as [b1 b2]. cbn [fst snd]. rewrite andb_true_iff, !N.eqb_eq. split; [by intros [-> ->]|by intros [= -> ->]].
Qed.

Lemma find_sent_nil h : find_sent h [] = None.
Proof. done. Qed.

Lemma find_sent_cons h x l : find_sent h (x :: l) = if decide (se_h x = h) then Some x else find_sent h l.
Proof.
  unfold find_sent. cbn [list_find]. case_decide as Hd; case_decide as He; cbn.
  - done.
  - exfalso. apply He. by apply heqb_eq.
  - exfalso. apply Hd. subst. by apply heqb_eq.
  - by destruct (list_find _ l) as [[i y]|].
Qed.

Definition handles_of (l : list sent) : list handle := se_h <$> l.

Lemma find_sent_none h l : find_sent h l = None <-> h ∉ handles_of l.
Proof.
  induction l as [|x l IH]; [split; [intros _ H; by apply elem_of_nil in H|done]|].
  rewrite find_sent_cons. unfold handles_of in *. rewrite fmap_cons, not_elem_of_cons. case_decide as Hd.
  - split; [done|]. intros [Hn _]. by subst.
  - rewrite IH. split; [intros ?; split; [by intros ->|done]|by intros [_ ?]].
Qed.

Lemma find_sent_snoc h l y : find_sent h (l ++ [y]) =
  match find_sent h l with Some x => Some x | None => if decide (se_h y = h) then Some y else None end.
Proof.
  induction l as [|x l IH]; cbn [app].
  - rewrite find_sent_cons. change (find_sent h []) with (@None sent). reflexivity.
  - rewrite !find_sent_cons. destruct (decide (se_h x = h)); [reflexivity|exact IH].
Qed.

Lemma find_sent_remove h e l : find_sent h (remove_sent e l) = if decide (h = e) then None else find_sent h l.
Proof.
  unfold remove_sent. induction l as [|x l IH].
  - rewrite filter_nil. change (find_sent h []) with (@None sent). by destruct (decide (h = e)).
  - rewrite filter_cons. destruct (decide (heqb (se_h x) e = false)) as [Hf|Hf].
    + rewrite !find_sent_cons. destruct (decide (se_h x = h)) as [Hx|Hx].
      * subst h. rewrite decide_False; [done|]. intros E. apply heqb_eq in E. congruence.
      * exact IH.
    + rewrite find_sent_cons, IH. assert (se_h x = e) as Hxe by (apply heqb_eq; by destruct (heqb (se_h x) e)).
      destruct (decide (h = e)) as [Hhe|Hhe]; [done|]. rewrite decide_False; [done|]. congruence.
Qed.

Lemma handles_remove e l : handles_of (remove_sent e l) = filter (fun h => h <> e) (handles_of l).
Proof.
  unfold remove_sent, handles_of. induction l as [|x l IH]; [done|].
  rewrite fmap_cons, !filter_cons. destruct (decide (heqb (se_h x) e = false)) as [Hf|Hf].
  - rewrite decide_True; [by rewrite fmap_cons, IH|]. intros E. apply heqb_eq in E. congruence.
  - rewrite decide_False; [exact IH|]. intros Hne. apply Hne. apply heqb_eq. by destruct (heqb (se_h x) e).
Qed.

Lemma length_remove_nodup e (l : list handle) : NoDup l -> e ∈ l -> length (filter (fun h => h <> e) l) = length l - 1.
Proof.
  induction 1 as [|x l Hx Hnd IH]; [intros H; by apply elem_of_nil in H|].
  rewrite filter_cons. intros Hin. apply elem_of_cons in Hin as [->|Hin].
  - rewrite decide_False by (by intros ?). cbn [length].
    assert (filter (fun h => h <> x) l = l) as ->; [|lia].
    clear IH Hnd. induction l as [|y l IHl]; [done|]. rewrite filter_cons. apply not_elem_of_cons in Hx as [Hne Hx].
    rewrite decide_True by done. by rewrite IHl.
  - rewrite decide_True by (intros ->; done). cbn [length]. rewrite IH by done.
    destruct l; [by apply elem_of_nil in Hin|cbn; lia].
Qed.

Lemma count_h_zero h l : h ∉ l -> count_h h l = 0.
Proof.
  unfold count_h. induction l as [|x l IH]; [done|]. intros Hn. apply not_elem_of_cons in Hn as [Hne Hn].
  rewrite filter_cons. rewrite decide_False; [by apply IH|]. intros E. apply heqb_eq in E. congruence.
Qed.

(* ---------------------------------------------------------------- the simulation relation *)

Definition iss_of (id : N) (iss : list handle) : list handle := filter (fun e => key_arch_id (fst e) = id) iss.

(** One archetype: the oracle's list of live entities is exactly the storage's set of rows. *)
Record ARel (s : storage) (x : sarch) (iss : list handle) : Prop := {
  a_sync : sa_synced x = true;
  a_b1 : forall e r, has_row s e r -> find_sent e (sa_live x) = Some (SE e r);
  a_b2 : forall e, e ∉ ents s -> find_sent e (sa_live x) = None;
  a_nodup : NoDup (handles_of (sa_live x));
  a_len : length (sa_live x) = len s;
  a_hist : Hist s (iss_of (aid s) iss);
  a_cap : sa_cap_exact x = true -> sa_cap x = cap s;
  a_cap_le : sa_cap x <= cap s;
}.

Record Rel (d : wdecl) (st : rstate) (sst : sstate) : Prop := {
  r_inv : RInv d st;
  r_w : exists w sw, worlds st = [Some w] /\ s_worlds sst = [Some sw] /\
        forall a ad, wd_archs d !! a = Some ad -> exists s x, w !! a = Some s /\ sw !! a = Some x /\ ARel s x (issued st);
  r_cur : cur st = 0 /\ s_cur sst = 0;
  r_iss : fst <$> s_issued sst = issued st /\ s_wissued sst = [issued st];
  r_ids : forall e, e ∈ issued st -> snd e <> 0%N /\ exists a ad, wd_archs d !! a = Some ad /\ da_id ad = key_arch_id (fst e);
  r_drop : drop_in st = 0%N;
  r_arch : forall i e a0, s_issued sst !! i = Some (e, a0) -> exists ad, wd_archs d !! a0 = Some ad /\ da_id ad = key_arch_id (fst e);
}.

(** The belief the probe theorems of OracleFacts need follows from the relation. *)
Lemma arel_belief s x iss e : Inv s -> ARel s x iss -> belief_true s x e.
Proof.
  intros HI HA. split; [apply (a_sync _ _ _ HA)|].
  destruct (list_find (fun y => y = e) (ents s)) as [[dd y]|] eqn:Hlf.
  - apply list_find_Some in Hlf as (Hdd & -> & _).
    assert (Hd : dd < len s) by (rewrite <- (i_lents s HI); by eapply lookup_lt_Some).
    destruct (abs_at_some s dd HI Hd) as (e' & r & Ha & He' & _). rewrite Hdd in He'. injection He' as <-.
    exists (SE e r). split; [|done]. apply (a_b1 _ _ _ HA). by exists dd.
  - apply list_find_None in Hlf. apply (a_b2 _ _ _ HA). intros Hin. rewrite Forall_forall in Hlf. by apply (Hlf e Hin).
Qed.

(* ---------------------------------------------------------------- facts every step needs *)

Lemma rel_cur d st sst : Rel d st sst -> exists w sw, worlds st = [Some w] /\ s_worlds sst = [Some sw] /\
  cur_world st = Some w /\ cur_sworld sst = Some sw /\ WInv d w /\
  forall a ad, wd_archs d !! a = Some ad -> exists s x, w !! a = Some s /\ sw !! a = Some x /\ ARel s x (issued st) /\ SInv ad s.
Proof.
  intros HR. destruct (r_w _ _ _ HR) as (w & sw & Hw & Hsw & Harch). destruct (r_cur _ _ _ HR) as [Hc Hsc].
  assert (Hcw : cur_world st = Some w) by (unfold cur_world; by rewrite Hw, Hc).
  assert (HWI : WInv d w) by (eapply RInv_cur; [apply (r_inv _ _ _ HR)|done]).
  exists w, sw. split_and!; try done.
  - unfold cur_sworld. by rewrite Hsw, Hsc.
  - intros a ad Had. destruct (Harch a ad Had) as (s & x & Hs & Hx & HA). exists s, x. split_and!; try done.
    destruct (Forall2_lookup_l _ _ _ _ _ HWI Had) as (s' & Hs' & HS). by assert (Some s' = Some s) as [= ->] by (etrans; [symmetry; exact Hs'|exact Hs]).
Qed.

(** An issued handle: its archetype, the storage and the oracle's record of it, and the side conditions
    of the probe and destroy theorems. *)
Lemma rel_issued d st sst w sw i e : NoDup (da_id <$> wd_archs d) -> Rel d st sst ->
  worlds st = [Some w] -> s_worlds sst = [Some sw] -> issued st !! i = Some e ->
  snd e <> 0%N /\ key32 e /\ (exists a0, s_issued sst !! i = Some (e, a0)) /\
  exists a ad s x, wd_archs d !! a = Some ad /\ da_id ad = key_arch_id (fst e) /\
    find_arch (wd_archs d) (key_arch_id (fst e)) = Some a /\
    w !! a = Some s /\ sw !! a = Some x /\ ARel s x (issued st) /\ SInv ad s /\ eslot e < cap s.
Proof.
  intros Hnd HR Hw Hsw Hi.
  assert (Hin : e ∈ issued st) by (by eapply elem_of_list_lookup_2).
  destruct (r_ids _ _ _ HR e Hin) as (Hv & a & ad & Had & Hid).
  destruct (r_inv _ _ _ HR) as (_ & Hiss & _). rewrite Forall_forall in Hiss. specialize (Hiss e Hin).
  destruct (rel_cur d st sst HR) as (w' & sw' & Hw' & Hsw' & _ & _ & _ & Harch).
  rewrite Hw in Hw'. injection Hw' as <-. rewrite Hsw in Hsw'. injection Hsw' as <-.
  destruct (Harch a ad Had) as (s & x & Hs & Hx & HA & HS).
  split_and!; [done|by apply hpair32_key32| |].
  - destruct (r_iss _ _ _ HR) as [Hf _]. assert (Hl : (fst <$> s_issued sst) !! i = Some e) by (by rewrite Hf).
    rewrite list_lookup_fmap in Hl. destruct (s_issued sst !! i) as [[e' a0]|]; [|done]. cbn in Hl. injection Hl as ->. by exists a0.
  - exists a, ad, s, x. destruct HS as (HI & Haid & Hcols). split_and!; try done.
    + by apply (find_arch_unique _ _ a ad).
    + assert (He : e ∈ iss_of (aid s) (issued st)) by (apply elem_of_list_filter; split; [congruence|done]).
      by destruct (h_shape _ _ (a_hist _ _ _ HA) e He).
Qed.

(* ---------------------------------------------------------------- the core language *)

Definition wpath_direct (p : wpath) : bool := match p with WFind | WFindB => false | _ => true end.

Definition l0_op (d : wdecl) (o : op) : bool :=
  match o with
  | OCreate _ _ | OCreateW _ _ => true
  | ODestroy (LArch b) KEnt TAny (RIssued _) | OProbe (LArch b) KEnt TAny (RIssued _) => b <? length (wd_archs d)
  | OProbe LWorld KEnt TAny (RIssued _) | ODestroy LWorld KEnt TAny (RIssued _) | OToDirect LWorld KEnt TAny (RIssued _) => true
  | OToDirect (LArch b) KEnt TAny (RIssued _) => b <? length (wd_archs d)
  | OWrite p _ KEnt TAny (RIssued _) _ _ => wpath_direct p
  | OLen _ => true
  | OReadAll _ a => a <? length (wd_archs d)
  | _ => false
  end.

Lemma rel_step_probe cfg d qs st sst l i : NoDup (da_id <$> wd_archs d) -> Rel d st sst ->
  l0_op d (OProbe l KEnt TAny (RIssued i)) = true ->
  exists obs, step cfg d qs st (OProbe l KEnt TAny (RIssued i)) = Some (st, obs) /\
              spec_step cfg d qs sst (OProbe l KEnt TAny (RIssued i)) obs = inr sst /\ obs <> [254%N].
Proof.
  intros Hnd HR Hl0. destruct (rel_cur d st sst HR) as (w & sw & Hw & Hsw & Hcw & Hcsw & HWI & Harch).
  destruct (issued st !! i) as [e|] eqn:Hi.
  2: { exists [8%N]. split_and!; [| |done].
       - cbn [step]. rewrite Hcw. cbn [get_href]. by rewrite Hi.
       - cbn [spec_step]. rewrite Hcsw. destruct (r_iss _ _ _ HR) as [Hf _].
         assert (Hl : (fst <$> s_issued sst) !! i = None) by (by rewrite Hf). rewrite list_lookup_fmap in Hl.
         destruct (s_issued sst !! i); [done|]. done. }
  destruct (rel_issued d st sst w sw i e Hnd HR Hw Hsw Hi) as (Hv & Hk & (a0 & Hsi) & a & ad & s & x & Had & Hid & Hfa & Hs & Hx & HA & HS & Hc).
  destruct l as [|b].
  - destruct (probe_world_oracle_accepts cfg d qs st sst w sw i e a0 a s x) as (obs & Hstep & Hspec); try done; [apply (r_inv _ _ _ HR)| |].
    { apply (arel_belief s x (issued st)); [apply HS|done]. }
    exists obs. split_and!; [done|done|].
    pose proof (step_probe_any_world cfg d qs st w (RIssued i) e a s (r_inv _ _ _ HR) Hcw ltac:(exact Hi) Hv Hk Hfa Hs Hc) as Hcf.
    rewrite Hstep in Hcf. injection Hcf as ->. destruct (list_find _ (ents s)) as [[dd y]|]; unfold acc_world, rej_world; cbn [app]; discriminate.
  - cbn [l0_op] in Hl0. apply Nat.ltb_lt in Hl0. destruct (lookup_lt_is_Some_2 _ _ Hl0) as [bd Hbd].
    destruct (Harch b bd Hbd) as (sb & xb & Hsb & Hxb & HAb & HSb).
    assert (Hsame : da_id bd = key_arch_id (fst e) -> b = a).
    { intros E. assert (Hfb : find_arch (wd_archs d) (key_arch_id (fst e)) = Some b) by (by apply (find_arch_unique _ _ b bd)). congruence. }
    assert (Hcb : da_id bd = key_arch_id (fst e) -> eslot e < cap sb).
    { intros E. specialize (Hsame E). subst b. by assert (Some sb = Some s) as [= ->] by (etrans; [symmetry; exact Hsb|exact Hs]). }
    destruct (probe_arch_oracle_accepts cfg d qs st sst w sw i e a0 b bd sb xb) as (obs & Hstep & Hspec); try done; [apply (r_inv _ _ _ HR)| |].
    { intros E. apply (arel_belief sb xb (issued st)); [apply HSb|done]. }
    exists obs. split_and!; [done|done|].
    pose proof (step_probe_any_arch cfg d qs st w (RIssued i) e b bd sb (r_inv _ _ _ HR) Hcw ltac:(exact Hi) Hv Hk Hbd Hsb Hcb) as Hcf.
    rewrite Hstep in Hcf. injection Hcf as ->. case_decide; [destruct (list_find _ (ents sb)) as [[dd y]|]|]; unfold acc_arch, rej_arch; cbn [app]; discriminate.
Qed.

Lemma iss_of_app id l1 l2 : iss_of id (l1 ++ l2) = iss_of id l1 ++ iss_of id l2.
Proof. unfold iss_of. by rewrite filter_app. Qed.

Lemma iss_of_one id h : iss_of id [h] = if decide (key_arch_id (fst h) = id) then [h] else [].
Proof. unfold iss_of. rewrite filter_cons, filter_nil. done. Qed.

(** The archetype id a stored handle carries, and that its generation is not zero. *)
Lemma stored_handle_facts s e : Inv s -> e ∈ ents s -> key_arch_id (fst e) = aid s /\ snd e <> 0%N.
Proof.
  intros HI Hin. apply elem_of_list_lookup in Hin as [dd Hd].
  destruct (fwd' s dd e HI Hd) as (Hs & Hf & Hc & _ & _). split.
  - rewrite Hf. apply key_arch_id_pack; [by eapply cap_lt_pow24|apply (i_aid s HI)].
  - pose proof (proj2 (i_ver s HI) _ _ Hs) as Hv. cbn in Hv. unfold in_ver in Hv. lia.
Qed.

Lemma rel_step_create cfg d qs st sst a v : wrapping cfg = false -> wf_decl d -> NoDup (da_id <$> wd_archs d) -> Rel d st sst ->
  exists st' obs sst', step cfg d qs st (OCreate a v) = Some (st', obs) /\ obs <> [254%N] /\
    spec_step cfg d qs sst (OCreate a v) obs = inr sst' /\ Rel d st' sst'.
Proof.
  intros Hwr Hwf Hnd HR. destruct (rel_cur d st sst HR) as (w & sw & Hw & Hsw & Hcw & Hcsw & HWI & Harch).
  destruct (r_cur _ _ _ HR) as [Hc0 Hsc0]. destruct (r_iss _ _ _ HR) as [Hfi Hwi].
  pose proof (step_inv cfg d qs st (OCreate a v) Hwf I (r_inv _ _ _ HR)) as Hinv.
  destruct (wd_archs d !! a) as [ad|] eqn:Had.
  2: { exists st, [8%N], sst. split_and!; [|done|by cbn [spec_step]; rewrite Hcsw, Had|done].
       cbn [step]. by rewrite Hcw, Had. }
  destruct (Harch a ad Had) as (s & x & Hs & Hx & HA & (HI & Haid & Hcols)).
  set (vs := row_values d ad v).
  assert (Hvs : length vs = length (cols s)) by (rewrite Hcols; apply row_values_length).
  pose proof (push_summary cfg s (iss_of (aid s) (issued st)) vs HI (a_hist _ _ _ HA) Hvs) as Hp.
  cbn [step] in Hinv |- *. rewrite Hcw, Had, Hs in Hinv |- *. fold vs in Hinv |- *.
  destruct (push cfg s vs) as [s' h|p s'|] eqn:Hpush; [| |done].
  - (* created *)
    destruct Hp as (HH' & Hfresh & Hlen' & Hcapf & Hcapm & Hrows).
    cbn [ret] in Hinv.
    set (st' := add_issued (set_world st (upd w a s')) h) in *.
    assert (Hw' : worlds st' = [Some (upd w a s')]) by (cbn; by rewrite Hw, Hc0).
    assert (HS' : SInv ad s').
    { assert (HWI' : WInv d (upd w a s')) by (eapply (RInv_cur d st'); [done|unfold cur_world; cbn; by rewrite Hw, Hc0]).
      destruct (Forall2_lookup_l _ _ _ _ _ HWI' Had) as (s2 & Hs2 & HS2).
      assert (Hup : upd w a s' !! a = Some s') by (unfold upd; apply list_lookup_insert; by eapply lookup_lt_Some).
      by assert (Some s2 = Some s') as [= ->] by (etrans; [symmetry; exact Hs2|exact Hup]). }
    destruct HS' as (HI' & Haid' & Hcols').
    assert (Hhin : h ∈ ents s') by (eapply has_row_ents, Hrows; by right).
    destruct (stored_handle_facts s' h HI' Hhin) as [Hhid Hhv].
    assert (Hhid2 : key_arch_id (fst h) = da_id ad) by congruence.
    assert (Hnew : h ∉ issued st).
    { intros Hin. apply Hfresh. apply elem_of_list_filter. split; [congruence|done]. }
    set (x' := sarch_add x h vs).
    set (sst' := SS (<[0 := Some (<[a := x']> sw)]> (s_worlds sst)) [issued st ++ [h]] 0 (s_issued sst ++ [(h, a)]) (s_directs sst)
                    (s_inexact sst) (s_presets sst) (s_clone_armed sst) (s_drop_armed sst)).
    exists st', (1%N :: o_handle h), sst'. split_and!; [done|done| |].
    + cbn [spec_step o_handle]. rewrite Hcsw, Had, Hx. rewrite Hhid2, N.eqb_refl. cbn [negb]. rewrite Hwr. cbn [andb negb].
      rewrite Hsc0, Hwi. cbn [lookup list_lookup default from_option id]. replace (h.1, h.2) with h by (by destruct h).
      rewrite (count_h_zero h (issued st) Hnew). cbn [Nat.ltb Nat.leb].
      unfold sst', x', vs, row_vals, set_sarch, set_sworld.
      cbn [s_worlds s_wissued s_cur s_issued s_directs s_inexact s_presets s_clone_armed s_drop_armed].
      rewrite Hsc0, Hwi. reflexivity.
    + assert (Hxb2 : find_sent h (sa_live x) = None).
      { apply (a_b2 _ _ _ HA). intros Hin. apply Hfresh. apply elem_of_list_lookup in Hin as [k Hk].
        exact (h_stored _ _ (a_hist _ _ _ HA) k h Hk). }
      constructor; try done.
      * exists (upd w a s'), (<[a := x']> sw). split_and!; [done|cbn; by rewrite Hsw| ].
        intros a2 ad2 Had2. destruct (decide (a2 = a)) as [->|Hne].
        -- rewrite Had in Had2. injection Had2 as <-. exists s', x'. unfold upd.
           split_and!; [apply list_lookup_insert; by eapply lookup_lt_Some|apply list_lookup_insert; by eapply lookup_lt_Some|].
           constructor.
           ++ apply (a_sync _ _ _ HA).
           ++ intros e r Hr. cbn [x' sarch_add sa_live]. rewrite find_sent_snoc. apply Hrows in Hr as [Hr|[-> ->]].
              ** by rewrite (a_b1 _ _ _ HA e r Hr).
              ** rewrite Hxb2. cbn [se_h]. by rewrite decide_True.
           ++ intros e He. cbn [x' sarch_add sa_live]. rewrite find_sent_snoc.
              assert (He0 : e ∉ ents s).
              { intros Hin. destruct (ents_has_row s e HI Hin) as [r Hr]. apply He. eapply has_row_ents, Hrows. by left. }
              rewrite (a_b2 _ _ _ HA e He0). cbn [se_h]. rewrite decide_False; [done|]. by intros ->.
           ++ cbn [x' sarch_add sa_live]. unfold handles_of. rewrite fmap_app. cbn [fmap list_fmap se_h].
              apply NoDup_app. split_and!; [apply (a_nodup _ _ _ HA)| |apply NoDup_singleton].
              intros y Hy Hy2. apply elem_of_list_singleton in Hy2 as ->. by apply (find_sent_none h (sa_live x)).
           ++ cbn [x' sarch_add sa_live]. rewrite app_length. cbn [length]. rewrite (a_len _ _ _ HA). lia.
           ++ cbn [st' add_issued issued set_world]. rewrite iss_of_app, iss_of_one, decide_True by congruence.
              assert (aid s' = aid s) as -> by congruence. done.
           ++ cbn [x' sarch_add sa_cap sa_cap_exact]. rewrite negb_involutive. intros Hex. apply andb_true_iff in Hex as [Hex Hng].
              apply Nat.ltb_lt in Hng. rewrite (a_len _ _ _ HA), (a_cap _ _ _ HA Hex) in Hng. rewrite (a_cap _ _ _ HA Hex). symmetry. by apply Hcapf.
           ++ cbn [x' sarch_add sa_cap]. pose proof (a_cap_le _ _ _ HA). lia.
        -- destruct (Harch a2 ad2 Had2) as (s2 & x2 & Hs2 & Hx2 & HA2 & (HI2 & Haid2 & _)).
           exists s2, x2. unfold upd.
           split_and!; [etrans; [apply list_lookup_insert_ne; congruence|exact Hs2]|etrans; [apply list_lookup_insert_ne; congruence|exact Hx2]|].
           destruct HA2 as [A1 A2 A3 A4 A5 A6 A7 A8]. constructor; try done.
           cbn [st' add_issued issued set_world]. rewrite iss_of_app, iss_of_one, decide_False, app_nil_r; [done|].
           rewrite Hhid2, Haid2. intros E. apply Hne. eapply NoDup_lookup; [exact Hnd| |].
           ++ rewrite list_lookup_fmap, Had2. done.
           ++ rewrite list_lookup_fmap, Had. cbn. by rewrite E.
      * cbn. rewrite fmap_app. cbn. by rewrite Hfi.
      * intros e He. cbn [st' add_issued issued set_world] in He. apply elem_of_app in He as [He|He].
        -- apply (r_ids _ _ _ HR e He).
        -- apply elem_of_list_singleton in He as ->. split; [done|]. by exists a, ad.
      * apply (r_drop _ _ _ HR).
      * intros j e0 b0 Hl. cbn in Hl. apply lookup_app_Some in Hl as [Hl|[_ Hl]]; [by apply (r_arch _ _ _ HR j)|].
        apply list_lookup_singleton_Some in Hl as [_ [= <- <-]]. by exists ad.
  - (* capacity limit *)
    destruct Hp as (-> & -> & Hmax).
    unfold after_drop in Hinv |- *. cbn [drop_in set_world] in Hinv |- *. rewrite (r_drop _ _ _ HR) in Hinv |- *.
    cbn [drop_row N.eqb ret] in Hinv |- *.
    set (st' := set_drop_in (set_world st (upd w a s)) 0%N) in *.
    exists st', [2%N; pcode PCapOverflow], sst. split_and!; [done|done| |].
    + cbn [spec_step pcode]. rewrite Hcsw, Had, Hx. rewrite (a_len _ _ _ HA), Hmax.
      by rewrite N.ltb_irrefl.
    + assert (Hupd : upd w a s = w) by (unfold upd; by apply list_insert_id).
      constructor; try done.
      * exists w, sw. split_and!; [cbn; by rewrite Hw, Hc0, Hupd|done|].
        intros a2 ad2 Had2. destruct (Harch a2 ad2 Had2) as (s2 & x2 & ? & ? & ? & _). by exists s2, x2.
      * apply (r_ids _ _ _ HR).
      * apply (r_arch _ _ _ HR).
Qed.

Lemma rel_step_createw cfg d qs st sst a v : wrapping cfg = false -> wf_decl d -> NoDup (da_id <$> wd_archs d) -> Rel d st sst ->
  exists st' obs sst', step cfg d qs st (OCreateW a v) = Some (st', obs) /\ obs <> [254%N] /\
    spec_step cfg d qs sst (OCreateW a v) obs = inr sst' /\ Rel d st' sst'.
Proof.
  intros Hwr Hwf Hnd HR. destruct (rel_cur d st sst HR) as (w & sw & Hw & Hsw & Hcw & Hcsw & HWI & Harch).
  destruct (r_cur _ _ _ HR) as [Hc0 Hsc0]. destruct (r_iss _ _ _ HR) as [Hfi Hwi].
  pose proof (step_inv cfg d qs st (OCreateW a v) Hwf I (r_inv _ _ _ HR)) as Hinv.
  destruct (wd_archs d !! a) as [ad|] eqn:Had.
  2: { exists st, [8%N], sst. split_and!; [|done|by cbn [spec_step]; rewrite Hcsw, Had|done].
       cbn [step]. by rewrite Hcw, Had. }
  destruct (Harch a ad Had) as (s & x & Hs & Hx & HA & (HI & Haid & Hcols)).
  set (vs := row_values d ad v).
  assert (Hvs : length vs = length (cols s)) by (rewrite Hcols; apply row_values_length).
  pose proof (push_within_summary cfg s (iss_of (aid s) (issued st)) vs HI (a_hist _ _ _ HA) Hvs) as Hp.
  cbn [step] in Hinv |- *. rewrite Hcw, Had, Hs in Hinv |- *. fold vs in Hinv |- *.
  destruct (push_within cfg s vs) as [s' [h|]|p s'|] eqn:Hpush; [| |done|done].
  - (* created *)
    destruct Hp as (Hlt & HH' & Hfresh & Hlen' & Hcap' & Hrows). assert (Hcapf : len s < cap s -> cap s' = cap s) by done. assert (Hcapm : cap s <= cap s') by lia.
    cbn [ret] in Hinv.
    set (st' := add_issued (set_world st (upd w a s')) h) in *.
    assert (Hw' : worlds st' = [Some (upd w a s')]) by (cbn; by rewrite Hw, Hc0).
    assert (HS' : SInv ad s').
    { assert (HWI' : WInv d (upd w a s')) by (eapply (RInv_cur d st'); [done|unfold cur_world; cbn; by rewrite Hw, Hc0]).
      destruct (Forall2_lookup_l _ _ _ _ _ HWI' Had) as (s2 & Hs2 & HS2).
      assert (Hup : upd w a s' !! a = Some s') by (unfold upd; apply list_lookup_insert; by eapply lookup_lt_Some).
      by assert (Some s2 = Some s') as [= ->] by (etrans; [symmetry; exact Hs2|exact Hup]). }
    destruct HS' as (HI' & Haid' & Hcols').
    assert (Hhin : h ∈ ents s') by (eapply has_row_ents, Hrows; by right).
    destruct (stored_handle_facts s' h HI' Hhin) as [Hhid Hhv].
    assert (Hhid2 : key_arch_id (fst h) = da_id ad) by congruence.
    assert (Hnew : h ∉ issued st).
    { intros Hin. apply Hfresh. apply elem_of_list_filter. split; [congruence|done]. }
    set (x' := sarch_add x h vs).
    set (sst' := SS (<[0 := Some (<[a := x']> sw)]> (s_worlds sst)) [issued st ++ [h]] 0 (s_issued sst ++ [(h, a)]) (s_directs sst)
                    (s_inexact sst) (s_presets sst) (s_clone_armed sst) (s_drop_armed sst)).
    exists st', (1%N :: o_handle h), sst'. split_and!; [done|done| |].
    + cbn [spec_step o_handle]. rewrite Hcsw, Had, Hx. rewrite Hhid2, N.eqb_refl. cbn [negb]. rewrite Hwr. cbn [andb negb].
      rewrite Hsc0, Hwi. cbn [lookup list_lookup default from_option id]. replace (h.1, h.2) with h by (by destruct h).
      rewrite (count_h_zero h (issued st) Hnew). cbn [Nat.ltb Nat.leb].
      assert (Hw0 : (sa_cap_exact x && negb (length (sa_live x) <? sa_cap x)) = false).
      { destruct (sa_cap_exact x) eqn:Hex; [|done]. rewrite (a_cap _ _ _ HA Hex), (a_len _ _ _ HA). cbn [andb]. apply negb_false_iff, Nat.ltb_lt. done. }
      change (match sa_cap x with 0 => false | S m' => length (sa_live x) <=? m' end) with (length (sa_live x) <? sa_cap x).
      rewrite Hw0.
      unfold sst', x', vs, row_vals, set_sarch, set_sworld.
      cbn [s_worlds s_wissued s_cur s_issued s_directs s_inexact s_presets s_clone_armed s_drop_armed].
      rewrite Hsc0, Hwi. reflexivity.
    + assert (Hxb2 : find_sent h (sa_live x) = None).
      { apply (a_b2 _ _ _ HA). intros Hin. apply Hfresh. apply elem_of_list_lookup in Hin as [k Hk].
        exact (h_stored _ _ (a_hist _ _ _ HA) k h Hk). }
      constructor; try done.
      * exists (upd w a s'), (<[a := x']> sw). split_and!; [done|cbn; by rewrite Hsw| ].
        intros a2 ad2 Had2. destruct (decide (a2 = a)) as [->|Hne].
        -- rewrite Had in Had2. injection Had2 as <-. exists s', x'. unfold upd.
           split_and!; [apply list_lookup_insert; by eapply lookup_lt_Some|apply list_lookup_insert; by eapply lookup_lt_Some|].
           constructor.
           ++ apply (a_sync _ _ _ HA).
           ++ intros e r Hr. cbn [x' sarch_add sa_live]. rewrite find_sent_snoc. apply Hrows in Hr as [Hr|[-> ->]].
              ** by rewrite (a_b1 _ _ _ HA e r Hr).
              ** rewrite Hxb2. cbn [se_h]. by rewrite decide_True.
           ++ intros e He. cbn [x' sarch_add sa_live]. rewrite find_sent_snoc.
              assert (He0 : e ∉ ents s).
              { intros Hin. destruct (ents_has_row s e HI Hin) as [r Hr]. apply He. eapply has_row_ents, Hrows. by left. }
              rewrite (a_b2 _ _ _ HA e He0). cbn [se_h]. rewrite decide_False; [done|]. by intros ->.
           ++ cbn [x' sarch_add sa_live]. unfold handles_of. rewrite fmap_app. cbn [fmap list_fmap se_h].
              apply NoDup_app. split_and!; [apply (a_nodup _ _ _ HA)| |apply NoDup_singleton].
              intros y Hy Hy2. apply elem_of_list_singleton in Hy2 as ->. by apply (find_sent_none h (sa_live x)).
           ++ cbn [x' sarch_add sa_live]. rewrite app_length. cbn [length]. rewrite (a_len _ _ _ HA). lia.
           ++ cbn [st' add_issued issued set_world]. rewrite iss_of_app, iss_of_one, decide_True by congruence.
              assert (aid s' = aid s) as -> by congruence. done.
           ++ cbn [x' sarch_add sa_cap sa_cap_exact]. rewrite negb_involutive. intros Hex. apply andb_true_iff in Hex as [Hex Hng].
              apply Nat.ltb_lt in Hng. rewrite (a_len _ _ _ HA), (a_cap _ _ _ HA Hex) in Hng. rewrite (a_cap _ _ _ HA Hex). symmetry. by apply Hcapf.
           ++ cbn [x' sarch_add sa_cap]. pose proof (a_cap_le _ _ _ HA). lia.
        -- destruct (Harch a2 ad2 Had2) as (s2 & x2 & Hs2 & Hx2 & HA2 & (HI2 & Haid2 & _)).
           exists s2, x2. unfold upd.
           split_and!; [etrans; [apply list_lookup_insert_ne; congruence|exact Hs2]|etrans; [apply list_lookup_insert_ne; congruence|exact Hx2]|].
           destruct HA2 as [A1 A2 A3 A4 A5 A6 A7 A8]. constructor; try done.
           cbn [st' add_issued issued set_world]. rewrite iss_of_app, iss_of_one, decide_False, app_nil_r; [done|].
           rewrite Hhid2, Haid2. intros E. apply Hne. eapply NoDup_lookup; [exact Hnd| |].
           ++ rewrite list_lookup_fmap, Had2. done.
           ++ rewrite list_lookup_fmap, Had. cbn. by rewrite E.
      * cbn. rewrite fmap_app. cbn. by rewrite Hfi.
      * intros e He. cbn [st' add_issued issued set_world] in He. apply elem_of_app in He as [He|He].
        -- apply (r_ids _ _ _ HR e He).
        -- apply elem_of_list_singleton in He as ->. split; [done|]. by exists a, ad.
      * apply (r_drop _ _ _ HR).
      * intros j e0 b0 Hl. cbn in Hl. apply lookup_app_Some in Hl as [Hl|[_ Hl]]; [by apply (r_arch _ _ _ HR j)|].
        apply list_lookup_singleton_Some in Hl as [_ [= <- <-]]. by exists ad.
  - (* refused: no room *)
    destruct Hp as (-> & Hnlt).
    unfold after_drop in Hinv |- *. cbn [drop_in set_world] in Hinv |- *. rewrite (r_drop _ _ _ HR) in Hinv |- *.
    cbn [drop_row N.eqb ret] in Hinv |- *.
    set (st' := set_drop_in (set_world st (upd w a s)) 0%N) in *.
    exists st', (4%N :: vs), sst. split_and!; [done|done| |].
    + cbn [spec_step]. rewrite Hcsw, Had, Hx. cbn [negb].
      assert (Hw0 : (sa_cap_exact x && (length (sa_live x) <? sa_cap x)) = false).
      { destruct (sa_cap_exact x) eqn:Hex; [|done]. rewrite (a_cap _ _ _ HA Hex), (a_len _ _ _ HA). cbn [andb]. apply Nat.ltb_ge. lia. }
      rewrite Hw0. unfold lNeqb, row_vals. fold vs. by rewrite bool_decide_eq_true_2.
    + assert (Hupd : upd w a s = w) by (unfold upd; by apply list_insert_id).
      constructor; try done.
      * exists w, sw. split_and!; [cbn; by rewrite Hw, Hc0, Hupd|done|].
        intros a2 ad2 Had2. destruct (Harch a2 ad2 Had2) as (s2 & x2 & ? & ? & ? & _). by exists s2, x2.
      * apply (r_ids _ _ _ HR).
      * apply (r_arch _ _ _ HR).
Qed.

Lemma step_destroy_unfold cfg d qs st w i e b bd s : cur_world st = Some w -> issued st !! i = Some e -> snd e <> 0%N ->
  wd_archs d !! b = Some bd -> w !! b = Some s ->
  step cfg d qs st (ODestroy (LArch b) KEnt TAny (RIssued i)) =
    if decide (da_id bd = key_arch_id (fst e)) then
      match destroy cfg KEnt s e with
      | Ok s1 (Some row) => let '(st2, obs) := after_drop d bd (set_world st (upd w b s1)) (1%N :: row) in ret st2 obs
      | Ok s1 None => ret st [0%N]
      | Panic p s1 => ret (set_world st (upd w b s1)) [2%N; pcode p]
      | UB => None
      end
    else Some (st, [0%N]).
Proof.
  intros Hcur Hi Hv Had Hs. cbn [step]. rewrite Hcur. cbn [get_href]. rewrite Hi. unfold make_key.
  assert (raw_ok (snd e) = true) as -> by (unfold raw_ok, nonzero_new; destruct (N.eqb_spec (snd e) 0); done).
  cbn [negb dispatch_arch]. rewrite Had. change arch_dispatch_checks_id with true. cbn [id_ok]. unfold conv_ok.
  case_decide as Hid.
  - rewrite <- Hid, N.eqb_refl. cbn [fmap option_fmap option_map]. rewrite Had, Hs. done.
  - destruct (N.eqb_spec (key_arch_id (fst e)) (da_id bd)) as [E|_]; [by rewrite E in Hid|]. done.
Qed.

Lemma rel_step_destroy cfg d qs st sst b i : wrapping cfg = false -> wf_decl d -> NoDup (da_id <$> wd_archs d) -> Rel d st sst ->
  l0_op d (ODestroy (LArch b) KEnt TAny (RIssued i)) = true ->
  exists st' obs sst', step cfg d qs st (ODestroy (LArch b) KEnt TAny (RIssued i)) = Some (st', obs) /\ obs <> [254%N] /\
    spec_step cfg d qs sst (ODestroy (LArch b) KEnt TAny (RIssued i)) obs = inr sst' /\ Rel d st' sst'.
Proof.
  intros Hwr Hwf Hnd HR Hl0. destruct (rel_cur d st sst HR) as (w & sw & Hw & Hsw & Hcw & Hcsw & HWI & Harch).
  destruct (r_cur _ _ _ HR) as [Hc0 Hsc0]. destruct (r_iss _ _ _ HR) as [Hfi Hwi].
  pose proof (step_inv cfg d qs st (ODestroy (LArch b) KEnt TAny (RIssued i)) Hwf I (r_inv _ _ _ HR)) as Hinv.
  destruct (issued st !! i) as [e|] eqn:Hi.
  2: { exists st, [8%N], sst. split_and!; [|done|cbn [spec_step]; rewrite Hcsw|done].
       - cbn [step]. rewrite Hcw. cbn [get_href]. by rewrite Hi.
       - assert (Hl : (fst <$> s_issued sst) !! i = None) by (by rewrite Hfi). rewrite list_lookup_fmap in Hl.
         destruct (s_issued sst !! i); [done|]. done. }
  destruct (rel_issued d st sst w sw i e Hnd HR Hw Hsw Hi) as (Hv & Hk & (a0 & Hsi) & a & ad & s & x & Had & Hid & Hfa & Hs & Hx & HA & HS & Hc).
  cbn [l0_op] in Hl0. apply Nat.ltb_lt in Hl0. destruct (lookup_lt_is_Some_2 _ _ Hl0) as [bd Hbd].
  destruct (Harch b bd Hbd) as (sb & xb & Hsb & Hxb & HAb & HSb).
  rewrite (step_destroy_unfold cfg d qs st w i e b bd sb Hcw Hi Hv Hbd Hsb) in Hinv |- *.
  assert (Hissued_here : (0 <? count_h e (default [] (s_wissued sst !! s_cur sst))) = true).
  { rewrite Hsc0, Hwi. change (default [] ([issued st] !! 0)) with (issued st). apply Nat.ltb_lt. unfold count_h.
    assert (Hin : e ∈ filter (fun y => heqb y e = true) (issued st)) by (apply elem_of_list_filter; split; [by apply heqb_eq|by eapply elem_of_list_lookup_2]).
    destruct (filter _ (issued st)); [by apply elem_of_nil in Hin|cbn; lia]. }
  case_decide as Hide.
  2: { (* another archetype's handle: absent *)
       exists st, [0%N], sst. split_and!; [done|done| |done].
       cbn [spec_step]. rewrite Hcsw, Hsi. cbn [fmap option_fmap option_map fst]. unfold expect_key. cbn [fst snd].
       destruct (N.eqb_spec (snd e) 0) as [|_]; [done|]. rewrite Hbd.
       destruct (N.eqb_spec (da_id bd) (key_arch_id (fst e))) as [|_]; [done|]. done. }
  assert (b = a) as -> by (assert (Hfb : find_arch (wd_archs d) (key_arch_id (fst e)) = Some b) by (by apply (find_arch_unique _ _ b bd)); congruence).
  assert (bd = ad) as -> by congruence.
  assert (Some sb = Some s) as [= ->] by (etrans; [symmetry; exact Hsb|exact Hs]).
  assert (Some xb = Some x) as [= ->] by (etrans; [symmetry; exact Hxb|exact Hx]).
  destruct HS as (HI & Haid & Hcols).
  pose proof (destroy_summary cfg s (iss_of (aid s) (issued st)) e Hwr HI (a_hist _ _ _ HA) Hk ltac:(congruence) Hc) as Hds.
  (* the oracle's prefix *)
  assert (Hpre : forall obs, spec_step cfg d qs sst (ODestroy (LArch a) KEnt TAny (RIssued i)) obs =
    match obs with
    | 1%N :: vals => match find_sent e (sa_live x) with
                     | None => inl (1%N, 1%N)
                     | Some e0 => if negb (lNeqb vals (se_vals e0)) then inl (2%N, 30%N) else inr (set_sarch sst sw a (sarch_remove x e))
                     end
    | _ => spec_step cfg d qs sst (ODestroy (LArch a) KEnt TAny (RIssued i)) obs
    end).
  { intros obs. destruct obs as [|o1 vals]; [done|]. destruct (N.eq_dec o1 1) as [->|Hne]; [|by destruct o1 as [|[| |]]].
    cbn [spec_step]. rewrite Hcsw, Hsi. cbn [fmap option_fmap option_map fst]. unfold expect_key. cbn [fst snd].
    destruct (N.eqb_spec (snd e) 0) as [|_]; [done|]. rewrite Had. rewrite Hide, N.eqb_refl. rewrite Hx. rewrite Hissued_here.
    destruct (find_sent e (sa_live x)); done. }
  destruct (destroy cfg KEnt s e) as [s' [row|]|p s'|] eqn:Hdes; [| | |done].
  - (* removed *)
    destruct Hds as (Hrow & HH' & Hcap' & Hlen' & Hpos & Hrows).
    unfold after_drop in Hinv |- *. cbn [drop_in set_world] in Hinv |- *. rewrite (r_drop _ _ _ HR) in Hinv |- *.
    cbn [drop_row N.eqb ret] in Hinv |- *.
    set (st' := set_drop_in (set_world st (upd w a s')) 0%N) in *.
    assert (HS' : SInv ad s').
    { assert (HWI' : WInv d (upd w a s')) by (eapply (RInv_cur d st'); [done|unfold cur_world; cbn; by rewrite Hw, Hc0]).
      destruct (Forall2_lookup_l _ _ _ _ _ HWI' Had) as (s2 & Hs2 & HS2).
      assert (Hup : upd w a s' !! a = Some s') by (unfold upd; apply list_lookup_insert; by eapply lookup_lt_Some).
      by assert (Some s2 = Some s') as [= ->] by (etrans; [symmetry; exact Hs2|exact Hup]). }
    destruct HS' as (HI' & Haid' & Hcols').
    pose proof (a_b1 _ _ _ HA e row Hrow) as Hfind.
    exists st', (1%N :: row), (set_sarch sst sw a (sarch_remove x e)). split_and!; [done|done| |].
    + rewrite Hpre, Hfind. cbn [se_vals]. unfold lNeqb. by rewrite bool_decide_eq_true_2.
    + constructor; try done.
      * exists (upd w a s'), (<[a := sarch_remove x e]> sw). split_and!; [cbn; by rewrite Hw, Hc0|cbn; by rewrite Hsw, Hsc0|].
        intros a2 ad2 Had2. destruct (decide (a2 = a)) as [->|Hne].
        -- rewrite Had in Had2. injection Had2 as <-. exists s', (sarch_remove x e). unfold upd.
           split_and!; [apply list_lookup_insert; by eapply lookup_lt_Some|apply list_lookup_insert; by eapply lookup_lt_Some|].
           constructor.
           ++ apply (a_sync _ _ _ HA).
           ++ intros e' r Hr. apply Hrows in Hr as [Hr Hne']. cbn [sarch_remove sa_live]. rewrite find_sent_remove, decide_False by done.
              by apply (a_b1 _ _ _ HA).
           ++ intros e' He'. cbn [sarch_remove sa_live]. rewrite find_sent_remove. case_decide as Hee; [done|].
              apply (a_b2 _ _ _ HA). intros Hin. destruct (ents_has_row s e' HI Hin) as [r Hr]. apply He'.
              eapply has_row_ents, Hrows. done.
           ++ cbn [sarch_remove sa_live]. rewrite handles_remove. apply NoDup_filter, (a_nodup _ _ _ HA).
           ++ cbn [sarch_remove sa_live]. rewrite <- (fmap_length se_h). fold (handles_of (remove_sent e (sa_live x))).
              rewrite handles_remove, length_remove_nodup; [|apply (a_nodup _ _ _ HA)|].
              ** unfold handles_of. rewrite fmap_length, (a_len _ _ _ HA). lia.
              ** destruct (decide (e ∈ handles_of (sa_live x))) as [|Hn]; [done|]. apply find_sent_none in Hn. congruence.
           ++ cbn [st' set_drop_in set_world issued]. assert (aid s' = aid s) as -> by congruence. done.
           ++ cbn [sarch_remove sa_cap sa_cap_exact]. intros Hex. rewrite (a_cap _ _ _ HA Hex). congruence.
           ++ cbn [sarch_remove sa_cap]. pose proof (a_cap_le _ _ _ HA). lia.
        -- destruct (Harch a2 ad2 Had2) as (s2 & x2 & Hs2 & Hx2 & HA2 & _).
           exists s2, x2. unfold upd.
           split_and!; [etrans; [apply list_lookup_insert_ne; congruence|exact Hs2]|etrans; [apply list_lookup_insert_ne; congruence|exact Hx2]|done].
      * apply (r_ids _ _ _ HR).
      * apply (r_arch _ _ _ HR).
  - (* absent *)
    destruct Hds as (-> & Hnin). cbn [ret] in Hinv |- *.
    exists st, [0%N], sst. split_and!; [done|done| |done].
    cbn [spec_step]. rewrite Hcsw, Hsi. cbn [fmap option_fmap option_map fst]. unfold expect_key. cbn [fst snd].
    destruct (N.eqb_spec (snd e) 0) as [|_]; [done|]. rewrite Had. rewrite Hide, N.eqb_refl. rewrite Hx.
    rewrite (a_sync _ _ _ HA), (a_b2 _ _ _ HA e Hnin). cbn. done.
  - (* generation / version overflow *)
    destruct Hds as (-> & Hp). cbn [ret] in Hinv |- *.
    set (st' := set_world st (upd w a s)) in *.
    exists st', [2%N; pcode p], sst. split_and!; [done|by destruct Hp as [-> | ->]| |].
    + cbn [spec_step]. rewrite Hcsw, Hsi. cbn [fmap option_fmap option_map fst]. unfold expect_key. cbn [fst snd].
      destruct (N.eqb_spec (snd e) 0) as [|_]; [done|]. rewrite Had. rewrite Hide, N.eqb_refl. rewrite Hx.
      rewrite (a_sync _ _ _ HA), Hwr. destruct Hp as [-> | ->]; cbn [pcode N.eqb orb]; done.
    + assert (Hupd : upd w a s = w) by (unfold upd; by apply list_insert_id).
      constructor; try done.
      * exists w, sw. split_and!; [cbn; by rewrite Hw, Hc0, Hupd|done|].
        intros a2 ad2 Had2. destruct (Harch a2 ad2 Had2) as (s2 & x2 & ? & ? & ? & _). by exists s2, x2.
      * apply (r_ids _ _ _ HR).
      * apply (r_drop _ _ _ HR).
      * apply (r_arch _ _ _ HR).
Qed.

Lemma step_destroy_world_unfold cfg d qs st w i e b bd s : cur_world st = Some w -> issued st !! i = Some e -> snd e <> 0%N ->
  wd_archs d !! b = Some bd -> w !! b = Some s -> find_arch (wd_archs d) (key_arch_id (fst e)) = Some b ->
  step cfg d qs st (ODestroy LWorld KEnt TAny (RIssued i)) =
    if decide (da_id bd = key_arch_id (fst e)) then
      match destroy cfg KEnt s e with
      | Ok s1 (Some row) => let '(st2, obs) := after_drop d bd (set_world st (upd w b s1)) [1%N] in ret st2 obs
      | Ok s1 None => ret st [0%N]
      | Panic p s1 => ret (set_world st (upd w b s1)) [2%N; pcode p]
      | UB => None
      end
    else Some (st, [0%N]).
Proof.
  intros Hcur Hi Hv Had Hs Hfa. destruct (find_arch_some _ _ _ Hfa) as (ad' & Had' & Hid' & _).
  assert (ad' = bd) as -> by congruence. rewrite decide_True by done.
  cbn [step]. rewrite Hcur. cbn [get_href]. rewrite Hi. unfold make_key.
  assert (raw_ok (snd e) = true) as -> by (unfold raw_ok, nonzero_new; destruct (N.eqb_spec (snd e) 0); done).
  cbn [negb dispatch_world]. rewrite Hfa. rewrite Had, Hs. done.
Qed.

Lemma rel_step_destroy_world cfg d qs st sst i : wrapping cfg = false -> wf_decl d -> NoDup (da_id <$> wd_archs d) -> Rel d st sst ->
  exists st' obs sst', step cfg d qs st (ODestroy LWorld KEnt TAny (RIssued i)) = Some (st', obs) /\ obs <> [254%N] /\
    spec_step cfg d qs sst (ODestroy LWorld KEnt TAny (RIssued i)) obs = inr sst' /\ Rel d st' sst'.
Proof.
  intros Hwr Hwf Hnd HR. destruct (rel_cur d st sst HR) as (w & sw & Hw & Hsw & Hcw & Hcsw & HWI & Harch).
  destruct (r_cur _ _ _ HR) as [Hc0 Hsc0]. destruct (r_iss _ _ _ HR) as [Hfi Hwi].
  pose proof (step_inv cfg d qs st (ODestroy LWorld KEnt TAny (RIssued i)) Hwf I (r_inv _ _ _ HR)) as Hinv.
  destruct (issued st !! i) as [e|] eqn:Hi.
  2: { exists st, [8%N], sst. split_and!; [|done|cbn [spec_step]; rewrite Hcsw|done].
       - cbn [step]. rewrite Hcw. cbn [get_href]. by rewrite Hi.
       - assert (Hl : (fst <$> s_issued sst) !! i = None) by (by rewrite Hfi). rewrite list_lookup_fmap in Hl.
         destruct (s_issued sst !! i); [done|]. done. }
  destruct (rel_issued d st sst w sw i e Hnd HR Hw Hsw Hi) as (Hv & Hk & (a0 & Hsi) & a & ad & s & x & Had & Hid & Hfa & Hs & Hx & HA & HS & Hc).
  rewrite (step_destroy_world_unfold cfg d qs st w i e a ad s Hcw Hi Hv Had Hs Hfa) in Hinv |- *.
  assert (Hissued_here : (0 <? count_h e (default [] (s_wissued sst !! s_cur sst))) = true).
  { rewrite Hsc0, Hwi. change (default [] ([issued st] !! 0)) with (issued st). apply Nat.ltb_lt. unfold count_h.
    assert (Hin : e ∈ filter (fun y => heqb y e = true) (issued st)) by (apply elem_of_list_filter; split; [by apply heqb_eq|by eapply elem_of_list_lookup_2]).
    destruct (filter _ (issued st)); [by apply elem_of_nil in Hin|cbn; lia]. }
  rewrite decide_True in Hinv |- * by done. pose proof Hid as Hide.
  destruct HS as (HI & Haid & Hcols).
  pose proof (destroy_summary cfg s (iss_of (aid s) (issued st)) e Hwr HI (a_hist _ _ _ HA) Hk ltac:(congruence) Hc) as Hds.
  (* the oracle's prefix *)
  assert (Hpre : forall obs, spec_step cfg d qs sst (ODestroy LWorld KEnt TAny (RIssued i)) obs =
    match obs with
    | 1%N :: vals => match find_sent e (sa_live x) with
                     | None => inl (1%N, 1%N)
                     | Some e0 => inr (set_sarch sst sw a (sarch_remove x e))
                     end
    | _ => spec_step cfg d qs sst (ODestroy LWorld KEnt TAny (RIssued i)) obs
    end).
  { intros obs. destruct obs as [|o1 vals]; [done|]. destruct (N.eq_dec o1 1) as [->|Hne]; [|by destruct o1 as [|[| |]]].
    cbn [spec_step]. rewrite Hcsw, Hsi. cbn [fmap option_fmap option_map fst]. unfold expect_key. cbn [fst snd].
    destruct (N.eqb_spec (snd e) 0) as [|_]; [done|]. rewrite Hfa. rewrite Hx. rewrite Hissued_here.
    destruct (find_sent e (sa_live x)); done. }
  destruct (destroy cfg KEnt s e) as [s' [row|]|p s'|] eqn:Hdes; [| | |done].
  - (* removed *)
    destruct Hds as (Hrow & HH' & Hcap' & Hlen' & Hpos & Hrows).
    unfold after_drop in Hinv |- *. cbn [drop_in set_world] in Hinv |- *. rewrite (r_drop _ _ _ HR) in Hinv |- *.
    cbn [drop_row N.eqb ret] in Hinv |- *.
    set (st' := set_drop_in (set_world st (upd w a s')) 0%N) in *.
    assert (HS' : SInv ad s').
    { assert (HWI' : WInv d (upd w a s')) by (eapply (RInv_cur d st'); [done|unfold cur_world; cbn; by rewrite Hw, Hc0]).
      destruct (Forall2_lookup_l _ _ _ _ _ HWI' Had) as (s2 & Hs2 & HS2).
      assert (Hup : upd w a s' !! a = Some s') by (unfold upd; apply list_lookup_insert; by eapply lookup_lt_Some).
      by assert (Some s2 = Some s') as [= ->] by (etrans; [symmetry; exact Hs2|exact Hup]). }
    destruct HS' as (HI' & Haid' & Hcols').
    pose proof (a_b1 _ _ _ HA e row Hrow) as Hfind.
    exists st', [1%N], (set_sarch sst sw a (sarch_remove x e)). split_and!; [done|done| |].
    + by rewrite Hpre, Hfind.
    + constructor; try done.
      * exists (upd w a s'), (<[a := sarch_remove x e]> sw). split_and!; [cbn; by rewrite Hw, Hc0|cbn; by rewrite Hsw, Hsc0|].
        intros a2 ad2 Had2. destruct (decide (a2 = a)) as [->|Hne].
        -- rewrite Had in Had2. injection Had2 as <-. exists s', (sarch_remove x e). unfold upd.
           split_and!; [apply list_lookup_insert; by eapply lookup_lt_Some|apply list_lookup_insert; by eapply lookup_lt_Some|].
           constructor.
           ++ apply (a_sync _ _ _ HA).
           ++ intros e' r Hr. apply Hrows in Hr as [Hr Hne']. cbn [sarch_remove sa_live]. rewrite find_sent_remove, decide_False by done.
              by apply (a_b1 _ _ _ HA).
           ++ intros e' He'. cbn [sarch_remove sa_live]. rewrite find_sent_remove. case_decide as Hee; [done|].
              apply (a_b2 _ _ _ HA). intros Hin. destruct (ents_has_row s e' HI Hin) as [r Hr]. apply He'.
              eapply has_row_ents, Hrows. done.
           ++ cbn [sarch_remove sa_live]. rewrite handles_remove. apply NoDup_filter, (a_nodup _ _ _ HA).
           ++ cbn [sarch_remove sa_live]. rewrite <- (fmap_length se_h). fold (handles_of (remove_sent e (sa_live x))).
              rewrite handles_remove, length_remove_nodup; [|apply (a_nodup _ _ _ HA)|].
              ** unfold handles_of. rewrite fmap_length, (a_len _ _ _ HA). lia.
              ** destruct (decide (e ∈ handles_of (sa_live x))) as [|Hn]; [done|]. apply find_sent_none in Hn. congruence.
           ++ cbn [st' set_drop_in set_world issued]. assert (aid s' = aid s) as -> by congruence. done.
           ++ cbn [sarch_remove sa_cap sa_cap_exact]. intros Hex. rewrite (a_cap _ _ _ HA Hex). congruence.
           ++ cbn [sarch_remove sa_cap]. pose proof (a_cap_le _ _ _ HA). lia.
        -- destruct (Harch a2 ad2 Had2) as (s2 & x2 & Hs2 & Hx2 & HA2 & _).
           exists s2, x2. unfold upd.
           split_and!; [etrans; [apply list_lookup_insert_ne; congruence|exact Hs2]|etrans; [apply list_lookup_insert_ne; congruence|exact Hx2]|done].
      * apply (r_ids _ _ _ HR).
      * apply (r_arch _ _ _ HR).
  - (* absent *)
    destruct Hds as (-> & Hnin). cbn [ret] in Hinv |- *.
    exists st, [0%N], sst. split_and!; [done|done| |done].
    cbn [spec_step]. rewrite Hcsw, Hsi. cbn [fmap option_fmap option_map fst]. unfold expect_key. cbn [fst snd].
    destruct (N.eqb_spec (snd e) 0) as [|_]; [done|]. rewrite Hfa. rewrite Hx.
    rewrite (a_sync _ _ _ HA), (a_b2 _ _ _ HA e Hnin). cbn. done.
  - (* generation / version overflow *)
    destruct Hds as (-> & Hp). cbn [ret] in Hinv |- *.
    set (st' := set_world st (upd w a s)) in *.
    exists st', [2%N; pcode p], sst. split_and!; [done|by destruct Hp as [-> | ->]| |].
    + cbn [spec_step]. rewrite Hcsw, Hsi. cbn [fmap option_fmap option_map fst]. unfold expect_key. cbn [fst snd].
      destruct (N.eqb_spec (snd e) 0) as [|_]; [done|]. rewrite Hfa. rewrite Hx.
      rewrite (a_sync _ _ _ HA), Hwr. destruct Hp as [-> | ->]; cbn [pcode N.eqb orb]; done.
    + assert (Hupd : upd w a s = w) by (unfold upd; by apply list_insert_id).
      constructor; try done.
      * exists w, sw. split_and!; [cbn; by rewrite Hw, Hc0, Hupd|done|].
        intros a2 ad2 Had2. destruct (Harch a2 ad2 Had2) as (s2 & x2 & ? & ? & ? & _). by exists s2, x2.
      * apply (r_ids _ _ _ HR).
      * apply (r_drop _ _ _ HR).
      * apply (r_arch _ _ _ HR).
Qed.


(* ---------------------------------------------------------------- to_direct *)

Lemma step_todirect_unfold cfg d qs st w l i e b bd s : cur_world st = Some w -> issued st !! i = Some e -> snd e <> 0%N ->
  wd_archs d !! b = Some bd -> w !! b = Some s ->
  match l with LWorld => find_arch (wd_archs d) (key_arch_id (fst e)) = Some b | LArch b' => b' = b end ->
  step cfg d qs st (OToDirect l KEnt TAny (RIssued i)) =
    if decide (da_id bd = key_arch_id (fst e)) then
      match to_direct cfg KEnt s e with
      | ROk (Some dh) => ret (add_directs st [dh]) (1%N :: o_handle dh)
      | ROk None => ret st [0%N]
      | RPanic p => ret st [2%N; pcode p]
      | RUB => None
      end
    else Some (st, [0%N]).
Proof.
  intros Hcur Hi Hv Had Hs Hl. cbn [step]. rewrite Hcur. cbn [get_href]. rewrite Hi. unfold make_key.
  assert (raw_ok (snd e) = true) as -> by (unfold raw_ok, nonzero_new; destruct (N.eqb_spec (snd e) 0); done).
  cbn [negb]. destruct l as [|b'].
  - destruct (find_arch_some _ _ _ Hl) as (ad' & Had' & Hid' & _). assert (ad' = bd) as -> by congruence. rewrite decide_True by done.
    cbn [dispatch_world]. rewrite Hl, Had, Hs. done.
  - subst b'. cbn [dispatch_arch]. rewrite Had. change arch_dispatch_checks_id with true. cbn [id_ok]. unfold conv_ok.
    case_decide as Hid.
    + rewrite <- Hid, N.eqb_refl. cbn [fmap option_fmap option_map]. rewrite Nat.eqb_refl || idtac. rewrite Had, Hs. done.
    + destruct (N.eqb_spec (key_arch_id (fst e)) (da_id bd)) as [E|_]; [by rewrite E in Hid|]. done.
Qed.

Lemma rel_add_directs d st sst ds dd infos : Rel d st sst -> RInv d (add_directs st ds) -> Rel d (add_directs st ds) (add_direct sst dd infos).
Proof.
  intros HR Hinv. destruct HR as [R1 R2 R3 R4 R5 R6 R7]. constructor; try done.
Qed.

Lemma rel_step_todirect cfg d qs st sst l i : wf_decl d -> NoDup (da_id <$> wd_archs d) -> Rel d st sst ->
  match l with LWorld => True | LArch b => b < length (wd_archs d) end ->
  exists st' obs sst', step cfg d qs st (OToDirect l KEnt TAny (RIssued i)) = Some (st', obs) /\ obs <> [254%N] /\
    spec_step cfg d qs sst (OToDirect l KEnt TAny (RIssued i)) obs = inr sst' /\ Rel d st' sst'.
Proof.
  intros Hwf Hnd HR Hl0. destruct (rel_cur d st sst HR) as (w & sw & Hw & Hsw & Hcw & Hcsw & HWI & Harch).
  destruct (r_cur _ _ _ HR) as [Hc0 Hsc0]. destruct (r_iss _ _ _ HR) as [Hfi Hwi].
  pose proof (step_inv cfg d qs st (OToDirect l KEnt TAny (RIssued i)) Hwf I (r_inv _ _ _ HR)) as Hinv.
  destruct (issued st !! i) as [e|] eqn:Hi.
  2: { exists st, [8%N], sst. split_and!; [|done|cbn [spec_step]; rewrite Hcsw|done].
       - cbn [step]. rewrite Hcw. cbn [get_href]. by rewrite Hi.
       - assert (Hl : (fst <$> s_issued sst) !! i = None) by (by rewrite Hfi). rewrite list_lookup_fmap in Hl.
         destruct (s_issued sst !! i); [done|]. done. }
  destruct (rel_issued d st sst w sw i e Hnd HR Hw Hsw Hi) as (Hv & Hk & (a0 & Hsi) & a & ad & s & x & Had & Hid & Hfa & Hs & Hx & HA & HS & Hc).
  (* the archetype that decides: a for the world level, b for the archetype level *)
  assert (Hsel : exists b bd sb xb, wd_archs d !! b = Some bd /\ w !! b = Some sb /\ sw !! b = Some xb /\ ARel sb xb (issued st) /\ SInv bd sb /\
            match l with LWorld => find_arch (wd_archs d) (key_arch_id (fst e)) = Some b | LArch b' => b' = b end /\
            (da_id bd = key_arch_id (fst e) -> b = a)).
  { destruct l as [|b].
    - exists a, ad, s, x. done.
    - destruct (lookup_lt_is_Some_2 _ _ Hl0) as [bd Hbd]. destruct (Harch b bd Hbd) as (sb & xb & Hsb & Hxb & HAb & HSb).
      exists b, bd, sb, xb. split_and!; try done. intros E.
      assert (Hfb : find_arch (wd_archs d) (key_arch_id (fst e)) = Some b) by (by apply (find_arch_unique _ _ b bd)). congruence. }
  destruct Hsel as (b & bd & sb & xb & Hbd & Hsb & Hxb & HAb & HSb & Hlb & Hsame).
  rewrite (step_todirect_unfold cfg d qs st w l i e b bd sb Hcw Hi Hv Hbd Hsb Hlb) in Hinv |- *.
  assert (Hih : (0 <? count_h e (default [] (s_wissued sst !! s_cur sst))) = true).
  { rewrite Hsc0, Hwi. change (default [] ([issued st] !! 0)) with (issued st). apply Nat.ltb_lt. unfold count_h.
    assert (Hin : e ∈ filter (fun y => heqb y e = true) (issued st)) by (apply elem_of_list_filter; split; [by apply heqb_eq|by eapply elem_of_list_lookup_2]).
    destruct (filter _ (issued st)); [by apply elem_of_nil in Hin|cbn; lia]. }
  (* the oracle on the two observations the model can print *)
  assert (Hexp : forall obs, obs = [0%N] \/ (exists dk dv, obs = [1%N; dk; dv]) ->
     spec_step cfg d qs sst (OToDirect l KEnt TAny (RIssued i)) obs =
     if decide (da_id bd = key_arch_id (fst e)) then
       match obs with
       | [1%N; dk; dv] => match find_sent e (sa_live xb) with
                          | None => inl (1%N, 1%N)
                          | Some _ => if negb (N.eqb (dkey_arch_id dk) (da_id bd)) then inl (14%N, 15%N)
                                      else inr (add_direct sst (dk, dv) (mk_dinfo sst sw b (Some e)))
                          end
       | _ => match find_sent e (sa_live xb) with Some _ => inl (1%N, 2%N) | None => inr sst end
       end
     else if lNeqb obs [0%N] then inr sst else inl (1%N, 21%N)).
  { intros obs Hobs. cbn [spec_step]. rewrite Hcsw, Hsi. cbn [fmap option_fmap option_map fst].
    rewrite Hih. unfold expect_key. cbn [fst snd]. destruct (N.eqb_spec (snd e) 0) as [|_]; [done|].
    assert (Hcore : match w0 ← Some sw; w0 !! b with Some _ => True | None => True end) by (by destruct (Some sw ≫= _)).
    clear Hcore.
    destruct l as [|b'].
    - rewrite Hlb. rewrite Hxb. destruct (find_arch_some _ _ _ Hlb) as (ad' & Had' & Hid' & _). assert (ad' = bd) as -> by congruence.
      rewrite decide_True by done. rewrite (a_sync _ _ _ HAb). unfold aid_of. rewrite Hbd.
      destruct Hobs as [->|(dk & dv & ->)]; destruct (find_sent e (sa_live xb)); cbn; try done.
    - subst b'. rewrite Hbd. case_decide as Hd.
      + assert ((da_id bd =? key_arch_id (fst e))%N = true) as -> by (by apply N.eqb_eq).
        rewrite Hxb. rewrite (a_sync _ _ _ HAb). unfold aid_of. rewrite Hbd.
        destruct Hobs as [->|(dk & dv & ->)]; destruct (find_sent e (sa_live xb)); cbn; try done.
      + destruct (N.eqb_spec (da_id bd) (key_arch_id (fst e))) as [|_]; [done|]. done. }
  case_decide as Hide.
  2: { exists st, [0%N], sst. split_and!; [done|done| |done]. by rewrite Hexp by (by left). }
  assert (b = a) as -> by auto. assert (bd = ad) as -> by congruence.
  assert (Some sb = Some s) as [= ->] by (etrans; [symmetry; exact Hsb|exact Hs]).
  assert (Some xb = Some x) as [= ->] by (etrans; [symmetry; exact Hxb|exact Hx]).
  destruct HS as (HI & Haid & Hcols).
  destruct (decide (e ∈ ents s)) as [Hin|Hnin].
  - apply elem_of_list_lookup in Hin as [dd Hdd].
    assert (Hd : dd < len s) by (rewrite <- (i_lents s HI); by eapply lookup_lt_Some).
    rewrite (to_direct_stored cfg s HI dd e Hdd) in Hinv |- *. cbn [ret] in Hinv.
    destruct (abs_at_some s dd HI Hd) as (e' & row & Ha & He' & _). rewrite Hdd in He'. injection He' as <-.
    pose proof (a_b1 _ _ _ HA e row ltac:(by exists dd)) as Hfind.
    exists (add_directs st [direct_of s dd]), (1%N :: o_handle (direct_of s dd)), (add_direct sst (direct_of s dd) (mk_dinfo sst sw a (Some e))).
    split_and!; [done|done| |by apply rel_add_directs].
    rewrite Hexp by (right; by eexists _, _). cbn [o_handle]. rewrite Hfind.
    rewrite (direct_of_id s dd HI Hd), Haid, N.eqb_refl. cbn [negb]. by destruct (direct_of s dd).
  - unfold to_direct in Hinv |- *. rewrite (resolve_entity_unstored cfg s HI e Hk ltac:(congruence) Hc Hnin) in Hinv |- *.
    exists st, [0%N], sst. split_and!; [done|done| |done].
    rewrite Hexp by (by left). by rewrite (a_b2 _ _ _ HA e Hnin).
Qed.

(* ---------------------------------------------------------------- writes *)

Definition upd_sent (h : handle) (col : nat) (v : N) (e : sent) : sent :=
  if heqb (se_h e) h then SE (se_h e) (<[col := v]> (se_vals e)) else e.

Lemma upd_sent_h h col v e : se_h (upd_sent h col v e) = se_h e.
Proof. unfold upd_sent. by destruct (heqb (se_h e) h). Qed.

Lemma find_sent_upd e' h col v l : find_sent e' (upd_sent h col v <$> l) =
  match find_sent e' l with
  | Some se => Some (if decide (e' = h) then SE (se_h se) (<[col := v]> (se_vals se)) else se)
  | None => None
  end.
Proof.
  induction l as [|x l IH]; [done|]. rewrite fmap_cons, !find_sent_cons, upd_sent_h.
  destruct (decide (se_h x = e')) as [Hx|Hx]; [|exact IH].
  f_equal. unfold upd_sent. subst e'. destruct (decide (se_h x = h)) as [->|Hne].
  - assert (heqb h h = true) as -> by (by apply heqb_eq). done.
  - destruct (heqb (se_h x) h) eqn:E; [apply heqb_eq in E; done|done].
Qed.

Lemma handles_upd h col v l : handles_of (upd_sent h col v <$> l) = handles_of l.
Proof. unfold handles_of. rewrite <- list_fmap_compose. apply list_fmap_ext. intros ? x _. apply upd_sent_h. Qed.

(** What a write of column [col] of the entity at dense position [d] does to the set of rows. *)
Lemma write_rows s col d v s' e row : Inv s -> write_col s col d v = Some s' -> d < len s -> abs_at s d = Some (e, row) ->
  forall e' r', has_row s' e' r' <-> (e' <> e /\ has_row s e' r') \/ (e' = e /\ r' = <[col := v]> row).
Proof.
  intros HI Hw Hd Ha e' r'. destruct (write_col_spec s col d v s' Hw) as (_ & _ & He & _ & Hl & _).
  assert (Hed : ents s !! d = Some e) by (unfold abs_at in Ha; destruct (ents s !! d); [|done]; destruct (row_at _ _); [|done]; by injection Ha as -> _).
  split.
  - intros (i & Hi & Hai). rewrite (write_col_abs s col d v s' i Hw) in Hai. rewrite Hl in Hi.
    destruct (abs_at s i) as [[e0 r0]|] eqn:Hs0; [|done]. injection Hai as <- <-. case_decide as Hid.
    + subst i. rewrite Ha in Hs0. injection Hs0 as <- <-. by right.
    + left. split; [|by exists i]. intros ->.
      assert (Hei : ents s !! i = Some e) by (unfold abs_at in Hs0; destruct (ents s !! i); [|done]; destruct (row_at _ _); [|done]; by injection Hs0 as -> _).
      apply Hid. eapply NoDup_lookup; [apply (pass_handles_distinct s HI)|done|done].
  - intros [[Hne (i & Hi & Hai)]|[-> ->]].
    + exists i. rewrite Hl. split; [done|]. rewrite (write_col_abs s col d v s' i Hw), Hai. rewrite decide_False; [done|].
      intros ->. rewrite Ha in Hai. by injection Hai as <- _.
    + exists d. rewrite Hl. split; [done|]. rewrite (write_col_abs s col d v s' d Hw), Ha. by rewrite decide_True.
Qed.

Lemma rel_step_write cfg d qs st sst p b i c v : wf_decl d -> NoDup (da_id <$> wd_archs d) -> Rel d st sst -> wpath_direct p = true ->
  exists st' obs sst', step cfg d qs st (OWrite p b KEnt TAny (RIssued i) c v) = Some (st', obs) /\ obs <> [254%N] /\
    spec_step cfg d qs sst (OWrite p b KEnt TAny (RIssued i) c v) obs = inr sst' /\ Rel d st' sst'.
Proof.
  intros Hwf Hnd HR Hp. destruct (rel_cur d st sst HR) as (w & sw & Hw & Hsw & Hcw & Hcsw & HWI & Harch).
  destruct (r_cur _ _ _ HR) as [Hc0 Hsc0]. destruct (r_iss _ _ _ HR) as [Hfi Hwi].
  pose proof (step_inv cfg d qs st (OWrite p b KEnt TAny (RIssued i) c v) Hwf I (r_inv _ _ _ HR)) as Hinv.
  destruct (issued st !! i) as [e|] eqn:Hi.
  2: { exists st, [8%N], sst. split_and!; [|done|cbn [spec_step]; rewrite Hcsw|done].
       - cbn [step]. rewrite Hcw. cbn [get_href]. by rewrite Hi.
       - assert (Hl : (fst <$> s_issued sst) !! i = None) by (by rewrite Hfi). rewrite list_lookup_fmap in Hl.
         destruct (s_issued sst !! i); [done|]. done. }
  destruct (rel_issued d st sst w sw i e Hnd HR Hw Hsw Hi) as (Hv & Hk & (a0 & Hsi) & a & ad & s & x & Had & Hid & Hfa & Hs & Hx & HA & HS & Hc).
  (* the archetype the oracle recorded for the handle is the one its id names *)
  assert (a0 = a) as ->.
  { destruct (r_arch _ _ _ HR i e a0 Hsi) as (ad0 & Had0 & Hid0).
    eapply (NoDup_lookup _ a0 a (da_id ad)); [exact Hnd| |].
    - rewrite list_lookup_fmap, Had0. cbn. congruence.
    - by rewrite list_lookup_fmap, Had. }
  (* the model's step, unfolded up to the lookup *)
  cbn [step] in Hinv |- *. rewrite Hcw in Hinv |- *. cbn [get_href] in Hinv |- *. rewrite Hi in Hinv |- *. unfold make_key in Hinv |- *.
  assert (raw_ok (snd e) = true) as Hraw by (unfold raw_ok, nonzero_new; destruct (N.eqb_spec (snd e) 0); done).
  rewrite Hraw in Hinv |- *. cbn [negb] in Hinv |- *.
  destruct (wd_archs d !! b) as [bd|] eqn:Hbd.
  2: { exists st, [8%N], sst. split_and!; [done|done| |done]. cbn [spec_step]. rewrite Hcsw, Hsi. by rewrite ?Had, ?Hx. }
  destruct (index_of c (arch_comps bd)) as [colb|] eqn:Hcolb.
  2: { exists st, [6%N], sst. split_and!; [done|done| |done]. cbn [spec_step]. rewrite Hcsw, Hsi. by rewrite ?Had, ?Hx. }
  assert (Hstep : forall (X : stepres), (match p with
            | WFind | WFindB => X
            | _ => match dispatch_arch d KEnt b (KAny e), w !! b with
                   | None, _ => ret st [0%N]
                   | Some h, Some s0 =>
                       match resolve_for cfg KEnt s0 h with
                       | ROk (Some i0) =>
                           if negb (len s0 <=? length (ents s0)) || negb (forallb (fun x0 => len s0 <=? length x0) (cols s0)) then None
                           else if negb (i0 <? len s0) then (match p with WView | WBorrow => None | _ => ret st [2%N; pcode PIndexOOB] end)
                           else if is_zst d c then ret st [1%N]
                           else match write_col s0 colb i0 v with Some s' => ret (set_world st (upd w b s')) [1%N] | None => None end
                       | ROk None => ret st [0%N]
                       | RPanic pp => ret st [2%N; pcode pp]
                       | RUB => None
                       end
                   | _, None => ret st [8%N]
                   end
            end) =
           match dispatch_arch d KEnt b (KAny e), w !! b with
                   | None, _ => ret st [0%N]
                   | Some h, Some s0 =>
                       match resolve_for cfg KEnt s0 h with
                       | ROk (Some i0) =>
                           if negb (len s0 <=? length (ents s0)) || negb (forallb (fun x0 => len s0 <=? length x0) (cols s0)) then None
                           else if negb (i0 <? len s0) then (match p with WView | WBorrow => None | _ => ret st [2%N; pcode PIndexOOB] end)
                           else if is_zst d c then ret st [1%N]
                           else match write_col s0 colb i0 v with Some s' => ret (set_world st (upd w b s')) [1%N] | None => None end
                       | ROk None => ret st [0%N]
                       | RPanic pp => ret st [2%N; pcode pp]
                       | RUB => None
                       end
                   | _, None => ret st [8%N]
                   end) by (by destruct p).
  rewrite Hstep in Hinv |- *. clear Hstep.
  cbn [dispatch_arch] in Hinv |- *. rewrite Hbd in Hinv |- *. change arch_dispatch_checks_id with true in Hinv |- *. cbn [id_ok] in Hinv |- *. unfold conv_ok in Hinv |- *.
  destruct (N.eqb_spec (key_arch_id (fst e)) (da_id bd)) as [Hidb|Hidb].
  2: { exists st, [0%N], sst. split_and!; [done|done| |done]. cbn [spec_step]. rewrite Hcsw, Hsi. by rewrite ?Had, ?Hx. }
  assert (b = a) as -> by (assert (Hfb : find_arch (wd_archs d) (key_arch_id (fst e)) = Some b) by (by apply (find_arch_unique _ _ b bd)); congruence).
  assert (bd = ad) as -> by congruence. rewrite Hs in Hinv |- *.
  destruct HS as (HI & Haid & Hcols).
  destruct (decide (e ∈ ents s)) as [Hin|Hnin].
  2: { rewrite (resolve_for_unstored cfg s HI e Hk ltac:(congruence) Hc Hnin) in Hinv |- *.
       exists st, [0%N], sst. split_and!; [done|done| |done]. cbn [spec_step]. rewrite Hcsw, Hsi. by rewrite ?Had, ?Hx. }
  apply elem_of_list_lookup in Hin as [dd Hdd].
  assert (Hd : dd < len s) by (rewrite <- (i_lents s HI); by eapply lookup_lt_Some).
  rewrite (resolve_for_stored cfg s HI dd e Hdd) in Hinv |- *.
  assert ((len s <=? length (ents s)) = true) as Hg1 by (apply Nat.leb_le; rewrite (i_lents s HI); lia).
  rewrite Hg1, (forallb_cols_len (len s) (len s) (cols s) (i_lcols s HI)) in Hinv |- * by lia.
  assert ((dd <? len s) = true) as Hg2 by (by apply Nat.ltb_lt). rewrite Hg2 in Hinv |- *. cbn [negb orb] in Hinv |- *.
  destruct (abs_at_some s dd HI Hd) as (e' & row & Ha & He' & Hlr). rewrite Hdd in He'. injection He' as <-.
  pose proof (a_b1 _ _ _ HA e row ltac:(by exists dd)) as Hfind.
  destruct (is_zst d c) eqn:Hz.
  - exists st, [1%N], sst. split_and!; [done|done| |done]. cbn [spec_step]. rewrite Hcsw, Hsi, Had, Hx, Hfind, Hcolb, Hz. done.
  - assert (Hcl : colb < length (cols s)) by (rewrite Hcols; apply index_of_lt in Hcolb; unfold arch_comps in Hcolb; by rewrite fmap_length in Hcolb).
    destruct (write_col_some s colb dd v HI Hcl Hd) as [s' Hw']. rewrite Hw' in Hinv |- *. cbn [ret] in Hinv.
    set (st' := set_world st (upd w a s')) in *.
    destruct (write_col_spec s colb dd v s' Hw') as (_ & _ & Hents & Hslots & Hlen' & Hcap' & _ & _ & Haid' & _).
    pose proof (write_rows s colb dd v s' e row HI Hw' Hd Ha) as Hrows.
    exists st', [1%N], (set_sarch sst sw a (set_val x e colb v)). split_and!; [done|done| |].
    + cbn [spec_step]. rewrite Hcsw, Hsi, Had, Hx, Hfind, Hcolb, Hz. done.
    + constructor; try done.
      * exists (upd w a s'), (<[a := set_val x e colb v]> sw). split_and!; [cbn; by rewrite Hw, Hc0|cbn; by rewrite Hsw, Hsc0|].
        intros a2 ad2 Had2. destruct (decide (a2 = a)) as [->|Hne].
        -- rewrite Had in Had2. injection Had2 as <-. exists s', (set_val x e colb v). unfold upd.
           split_and!; [apply list_lookup_insert; by eapply lookup_lt_Some|apply list_lookup_insert; by eapply lookup_lt_Some|].
           assert (Hlive : sa_live (set_val x e colb v) = upd_sent e colb v <$> sa_live x) by done.
           constructor.
           ++ apply (a_sync _ _ _ HA).
           ++ intros e1 r1 Hr. rewrite Hlive, find_sent_upd. apply Hrows in Hr as [[Hne Hr]|[-> ->]].
              ** rewrite (a_b1 _ _ _ HA e1 r1 Hr). by rewrite decide_False.
              ** rewrite Hfind. by rewrite decide_True.
           ++ intros e1 He1. rewrite Hlive, find_sent_upd. rewrite Hents in He1. by rewrite (a_b2 _ _ _ HA e1 He1).
           ++ rewrite Hlive, handles_upd. apply (a_nodup _ _ _ HA).
           ++ rewrite Hlive, fmap_length, Hlen'. apply (a_len _ _ _ HA).
           ++ cbn [st' set_world issued]. rewrite Haid'. eapply hist_same_bookkeeping; [apply (a_hist _ _ _ HA)|done|done|done|done].
           ++ cbn. intros Hex. rewrite (a_cap _ _ _ HA Hex). congruence.
           ++ cbn. pose proof (a_cap_le _ _ _ HA). lia.
        -- destruct (Harch a2 ad2 Had2) as (s2 & x2 & Hs2 & Hx2 & HA2 & _).
           exists s2, x2. unfold upd.
           split_and!; [etrans; [apply list_lookup_insert_ne; congruence|exact Hs2]|etrans; [apply list_lookup_insert_ne; congruence|exact Hx2]|done].
      * apply (r_ids _ _ _ HR).
      * apply (r_drop _ _ _ HR).
      * apply (r_arch _ _ _ HR).
Qed.

(* ---------------------------------------------------------------- len / capacity *)

Lemma rel_step_len cfg d qs st sst a : Rel d st sst ->
  exists st' obs sst', step cfg d qs st (OLen a) = Some (st', obs) /\ obs <> [254%N] /\
    spec_step cfg d qs sst (OLen a) obs = inr sst' /\ Rel d st' sst'.
Proof.
  intros HR. destruct (rel_cur d st sst HR) as (w & sw & Hw & Hsw & Hcw & Hcsw & HWI & Harch).
  destruct (r_cur _ _ _ HR) as [Hc0 Hsc0].
  destruct (wd_archs d !! a) as [ad|] eqn:Had.
  2: { assert (Hwn : w !! a = None) by (apply lookup_ge_None; rewrite <- (Forall2_length _ _ _ HWI); by apply lookup_ge_None).
       exists st, [8%N], sst. split_and!; [|done| |done].
       - cbn [step]. by rewrite Hcw, Hwn.
       - cbn [spec_step]. rewrite Hcsw. by destruct (sw !! a). }
  destruct (Harch a ad Had) as (s & x & Hs & Hx & HA & (HI & Haid & Hcols)).
  set (x' := SA (sa_live x) (cap s) true (sa_rem x) (sa_cre x) (sa_created x) (sa_destroyed x) (sa_synced x) (sa_evok x)).
  exists st, [N.of_nat (len s); N.of_nat (cap s); (if len s =? 0 then 1%N else 0%N); version s; N.of_nat (len s); N.of_nat (cap s)],
         (set_sarch sst sw a x').
  split_and!; [|done| |].
  - cbn [step]. by rewrite Hcw, Hs.
  - cbn [spec_step]. rewrite Hcsw, Hx. rewrite !N.eqb_refl. cbn [andb negb].
    rewrite (a_sync _ _ _ HA), Nat2N.id, (a_len _ _ _ HA), Nat.eqb_refl. cbn [andb negb].
    assert ((if (N.of_nat (len s) =? 0)%N then 1%N else 0%N) = (if len s =? 0 then 1%N else 0%N)) as ->.
    { destruct (Nat.eqb_spec (len s) 0) as [->|Hne]; [done|]. destruct (N.eqb_spec (N.of_nat (len s)) 0); [lia|done]. }
    rewrite N.eqb_refl. cbn [negb].
    pose proof (i_le s HI) as Hle. pose proof (a_cap_le _ _ _ HA) as Hcl.
    assert ((N.of_nat (cap s) <? N.of_nat (len s))%N = false) as -> by (apply N.ltb_ge; lia).
    rewrite !Nat2N.id.
    assert ((cap s <? sa_cap x) = false) as -> by (apply Nat.ltb_ge; lia).
    assert ((sa_cap_exact x && negb (cap s =? sa_cap x)) = false) as ->.
    { destruct (sa_cap_exact x) eqn:Hex; [|done]. rewrite (a_cap _ _ _ HA Hex), Nat.eqb_refl. done. }
    unfold x'. by rewrite (a_sync _ _ _ HA).
  - destruct HR as [R1 R2 R3 R4 R5 R6 R7]. constructor; try done.
    exists w, (<[a := x']> sw). split_and!; [done|cbn; by rewrite Hsw, Hsc0|].
    intros a2 ad2 Had2. destruct (decide (a2 = a)) as [->|Hne].
    + rewrite Had in Had2. injection Had2 as <-. exists s, x'.
      split_and!; [done|apply list_lookup_insert; by eapply lookup_lt_Some|].
      destruct HA as [A1 A2 A3 A4 A5 A6 A7 A8]. constructor; try done.
    + destruct (Harch a2 ad2 Had2) as (s2 & x2 & Hs2 & Hx2 & HA2 & _). exists s2, x2.
      split_and!; [done|etrans; [apply list_lookup_insert_ne; congruence|exact Hx2]|done].
Qed.

(* ---------------------------------------------------------------- reading everything *)

Lemma chunk_concat k : 0 < k -> forall (rows : list (list N)) f, Forall (fun r => length r = k) rows -> length rows <= f ->
  chunk k f (concat rows) = rows.
Proof.
  intros Hk. induction rows as [|r rs IH]; intros f Hall Hf.
  - by destruct f.
  - apply Forall_cons in Hall as [Hr Hall]. destruct f as [|f]; [cbn in Hf; lia|]. cbn [concat chunk].
    destruct (r ++ concat rs) as [|x l] eqn:E.
    { destruct r; [cbn in Hr; lia|done]. }
    rewrite <- E. rewrite take_app_alt, drop_app_alt by done. f_equal. apply IH; [done|cbn in Hf; lia].
Qed.

Lemma multiset_eq_perm (a b : list (list N)) : a ≡ₚ b -> multiset_eq a b = true.
Proof.
  intros Hp. unfold multiset_eq. rewrite (Permutation_length Hp), Nat.eqb_refl. cbn [andb].
  apply forallb_forall. intros x _. apply Nat.eqb_eq. apply Permutation_length. by apply filter_Permutation.
Qed.

Lemma find_sent_some_elem h l se : find_sent h l = Some se -> se ∈ l /\ se_h se = h.
Proof.
  induction l as [|x l IH]; [done|]. rewrite find_sent_cons. case_decide as Hd.
  - intros [= <-]. split; [apply elem_of_list_here|done].
  - intros Hf. destruct (IH Hf) as [Hin Hh]. split; [by apply elem_of_list_further|done].
Qed.

Lemma find_sent_nodup l se : NoDup (handles_of l) -> se ∈ l -> find_sent (se_h se) l = Some se.
Proof.
  induction l as [|x l IH]; [intros _ H; by apply elem_of_nil in H|].
  unfold handles_of. rewrite fmap_cons. intros Hnd Hin. apply NoDup_cons in Hnd as [Hx Hnd]. rewrite find_sent_cons.
  apply elem_of_cons in Hin as [->|Hin]; [by rewrite decide_True|].
  rewrite decide_False; [by apply IH|]. intros E. apply Hx. rewrite E. by apply elem_of_list_fmap_1.
Qed.

Lemma sent_row_inj a b : sent_row a = sent_row b -> a = b.
Proof. destruct a as [[k1 v1] r1], b as [[k2 v2] r2]. unfold sent_row, o_handle. cbn. by intros [= -> -> ->]. Qed.

(** The rows a read-all pass presents are, as a multiset, exactly the oracle's live entities. *)
Lemma rows_perm s x iss rows : Inv s -> ARel s x iss -> length rows = len s ->
  (forall i, i < len s -> exists e r, abs_at s i = Some (e, r) /\ rows !! i = Some (o_handle e ++ r)) ->
  rows ≡ₚ sent_row <$> sa_live x.
Proof.
  intros HI HA Hlen Hrows.
  assert (Hmem : forall y, y ∈ rows <-> exists e r, has_row s e r /\ y = o_handle e ++ r).
  { intros y. split.
    - intros Hy. apply elem_of_list_lookup in Hy as [i Hi]. assert (Hil : i < len s) by (rewrite <- Hlen; by eapply lookup_lt_Some).
      destruct (Hrows i Hil) as (e & r & Ha & Hr). rewrite Hi in Hr. injection Hr as ->. exists e, r. split; [by exists i|done].
    - intros (e & r & (i & Hi & Ha) & ->). destruct (Hrows i Hi) as (e' & r' & Ha' & Hr). rewrite Ha in Ha'. injection Ha' as <- <-.
      by eapply elem_of_list_lookup_2. }
  assert (Hlive : forall se, se ∈ sa_live x <-> has_row s (se_h se) (se_vals se)).
  { intros se. split.
    - intros Hin. pose proof (find_sent_nodup _ se (a_nodup _ _ _ HA) Hin) as Hf.
      destruct (decide (se_h se ∈ ents s)) as [He|He]; [|rewrite (a_b2 _ _ _ HA _ He) in Hf; done].
      destruct (ents_has_row s _ HI He) as [r Hr]. rewrite (a_b1 _ _ _ HA _ _ Hr) in Hf. injection Hf as <-. done.
    - intros Hr. pose proof (a_b1 _ _ _ HA _ _ Hr) as Hf. destruct (find_sent_some_elem _ _ _ Hf) as [Hin _]. by destruct se. }
  apply NoDup_Permutation.
  - apply NoDup_alt. intros i j y Hi Hj.
    assert (Hil : i < len s) by (rewrite <- Hlen; by eapply lookup_lt_Some). assert (Hjl : j < len s) by (rewrite <- Hlen; by eapply lookup_lt_Some).
    destruct (Hrows i Hil) as (e1 & r1 & Ha1 & Hr1). destruct (Hrows j Hjl) as (e2 & r2 & Ha2 & Hr2).
    rewrite Hi in Hr1. rewrite Hj in Hr2. injection Hr1 as ->. injection Hr2 as Heq.
    assert (e1 = e2) as ->.
    { destruct e1 as [k1 v1], e2 as [k2 v2]. cbn in *. congruence. }
    assert (E1 : ents s !! i = Some e2) by (unfold abs_at in Ha1; destruct (ents s !! i); [|done]; destruct (row_at _ _); [|done]; by injection Ha1 as -> _).
    assert (E2 : ents s !! j = Some e2) by (unfold abs_at in Ha2; destruct (ents s !! j); [|done]; destruct (row_at _ _); [|done]; by injection Ha2 as -> _).
    eapply NoDup_lookup; [apply (pass_handles_distinct s HI)|done|done].
  - apply NoDup_fmap_2_strong; [|].
    + intros a b _ _. apply sent_row_inj.
    + assert (Hnd : NoDup (handles_of (sa_live x))) by apply (a_nodup _ _ _ HA). unfold handles_of in Hnd. by eapply NoDup_fmap_1.
  - intros y. rewrite Hmem. rewrite elem_of_list_fmap. split.
    + intros (e & r & Hr & ->). exists (SE e r). split; [done|]. by apply Hlive.
    + intros (se & -> & Hin). exists (se_h se), (se_vals se). split; [by apply Hlive|done].
Qed.

Lemma rel_step_readall cfg d qs st sst p a : Rel d st sst -> a < length (wd_archs d) ->
  exists st' obs sst', step cfg d qs st (OReadAll p a) = Some (st', obs) /\ obs <> [254%N] /\
    spec_step cfg d qs sst (OReadAll p a) obs = inr sst' /\ Rel d st' sst'.
Proof.
  intros HR Hlt. destruct (rel_cur d st sst HR) as (w & sw & Hw & Hsw & Hcw & Hcsw & HWI & Harch).
  destruct (lookup_lt_is_Some_2 _ _ Hlt) as [ad Had].
  destruct (Harch a ad Had) as (s & x & Hs & Hx & HA & (HI & Haid & Hcols)).
  destruct (all_rows_spec s HI) as (rows & Hall & Hlen & Hrows).
  assert (Hwidth : Forall (fun r => length r = 2 + length (da_comps ad)) rows).
  { apply Forall_forall. intros y Hy. apply elem_of_list_lookup in Hy as [i Hi].
    assert (Hil : i < len s) by (rewrite <- Hlen; by eapply lookup_lt_Some).
    destruct (Hrows i Hil) as (e & r & Ha & Hr). rewrite Hi in Hr. injection Hr as ->.
    destruct (abs_at_some s i HI Hil) as (e' & r' & Ha' & _ & Hlr). rewrite Ha in Ha'. injection Ha' as <- <-.
    unfold o_handle. cbn [app length]. rewrite <- Hcols, <- Hlr. reflexivity. }
  exists st, (N.of_nat (length rows) :: concat rows), sst. split_and!; [| | |done].
  - cbn [step]. by rewrite Hcw, Hs, Hall.
  - intros [= Hn Hc]. destruct rows as [|r rs]; [done|]. apply Forall_cons in Hwidth as [Hr _]. destruct r; [cbn in Hr; lia|done].
  - assert (Hflat : length (concat rows) = length rows * (2 + length (da_comps ad))).
    { clear -Hwidth. induction Hwidth as [|r rs Hr _ IH]; [done|]. cbn [concat length]. rewrite app_length, IH, Hr. lia. }
    cbn [spec_step]. rewrite Hcsw, Hx. unfold ncols_of. rewrite Had.
    rewrite (chunk_concat (2 + length (da_comps ad)) ltac:(lia) rows (S (length (concat rows))) Hwidth) by (rewrite Hflat; nia).
    rewrite Nat2N.id, Nat.eqb_refl. rewrite Hflat, Nat.eqb_refl. cbn [negb orb].
    rewrite (a_sync _ _ _ HA). rewrite Hlen, (a_len _ _ _ HA), Nat.eqb_refl. cbn [negb].
    by rewrite (multiset_eq_perm rows _ (rows_perm s x (issued st) rows HI HA Hlen Hrows)).
Qed.

(* ---------------------------------------------------------------- the initial world and whole histories *)

Lemma new_world_fresh archs : forall caps w a s c, new_world archs caps = Ok w tt -> w !! a = Some s -> caps !! a = Some c ->
  len s = 0 /\ cap s = c.
Proof.
  induction archs as [|ad ar IH]; intros caps w a s c.
  { destruct caps; cbn [new_world]; intros [= <-] Hl; by destruct a. }
  destruct caps as [|c0 cr]; cbn [new_world]; [intros [= <-] Hl; by destruct a|].
  unfold with_capacity. destruct (with_capacity_panics (N.of_nat c0)); [done|].
  destruct (new_world ar cr) as [w' []|p w'|] eqn:Hn; [|done|done]. intros [= <-]. destruct a as [|a]; cbn.
  - by intros [= <-] [= <-].
  - by apply (IH cr w').
Qed.

Lemma rel_init cfg d qs caps w : wf_decl d -> length caps = length (wd_archs d) -> new_world (wd_archs d) caps = Ok w tt ->
  exists st sst, step cfg d qs rs0 (ONew caps) = Some (st, [1%N; 0%N]) /\
    spec_step cfg d qs ss0 (ONew caps) [1%N; 0%N] = inr sst /\ Rel d st sst.
Proof.
  intros Hwf Hlen Hnw.
  assert (HR0 : RInv d rs0) by (split_and!; constructor).
  pose proof (step_inv cfg d qs rs0 (ONew caps) Hwf Hlen HR0) as Hinv.
  cbn [step] in Hinv |- *. rewrite Hnw in Hinv |- *. cbn [ret worlds rs0 length app] in Hinv |- *.
  eexists _, _. split_and!; [reflexivity|reflexivity|].
  assert (HWI : WInv d w).
  { destruct Hinv as (HW & _). rewrite Forall_forall in HW. apply (HW (Some w)). cbn. apply elem_of_list_singleton. done. }
  constructor; cbn; try done.
  - exists w, ((fun c => SA [] c true 0 0 [] [] true true) <$> caps). split_and!; [done|done|].
    intros a ad Had. destruct (Forall2_lookup_l _ _ _ _ _ HWI Had) as (s & Hs & (HI & Haid & Hcols)).
    assert (Ha : a < length caps) by (rewrite Hlen; by eapply lookup_lt_Some).
    destruct (lookup_lt_is_Some_2 _ _ Ha) as [c Hc].
    exists s, (SA [] c true 0 0 [] [] true true). split_and!; [done|etrans; [apply list_lookup_fmap|by rewrite Hc]|].
    destruct (new_world_fresh _ _ _ _ _ c Hnw Hs Hc) as [Hl0 Hc0].
    constructor; cbn; try done.
    + intros e r (dd & Hdd & _). lia.
    + constructor.
    + apply hist_empty; done.
    + lia.
  - intros e He. by apply elem_of_nil in He.
Qed.

(** One step of the core language keeps the relation, and the oracle accepts what the model prints. *)
Lemma rel_step cfg d qs st sst o : wrapping cfg = false -> wf_decl d -> NoDup (da_id <$> wd_archs d) -> Rel d st sst ->
  l0_op d o = true ->
  exists st' obs sst', step cfg d qs st o = Some (st', obs) /\ obs <> [254%N] /\
    spec_step cfg d qs sst o obs = inr sst' /\ Rel d st' sst'.
Proof.
  intros Hwr Hwf Hnd HR Hl0. destruct o as [| | | |a v|a v|l k t r|l k t r|l k t r|p b k t r c v| |p a| | |a| | | | | | | |]; try done.
  - by apply rel_step_create.
  - by apply rel_step_createw.
  - destruct k; [|by destruct l]. destruct t; try (by destruct l). destruct r as [i| |]; try (by destruct l).
    destruct l as [|b]; [by apply rel_step_destroy_world|by apply rel_step_destroy].
  - destruct k; [|by destruct l]. destruct t; try (by destruct l). destruct r as [i| |]; try (by destruct l).
    destruct (rel_step_probe cfg d qs st sst l i Hnd HR Hl0) as (obs & Hst & Hsp & Hne).
    exists st, obs, sst. done.
  - destruct k; [|by destruct l]. destruct t; try (by destruct l). destruct r as [i| |]; try (by destruct l).
    apply rel_step_todirect; try done. destruct l as [|b]; [done|]. cbn [l0_op] in Hl0. by apply Nat.ltb_lt.
  - destruct k; [|done]. destruct t; try done. destruct r as [i| |]; try done. by apply rel_step_write.
  - apply rel_step_readall; [done|]. cbn [l0_op] in Hl0. by apply Nat.ltb_lt.
  - by apply rel_step_len.
Qed.

Lemma rel_run cfg d qs ops : wrapping cfg = false -> wf_decl d -> NoDup (da_id <$> wd_archs d) ->
  forall st sst n, Rel d st sst -> forallb (l0_op d) ops = true ->
  spec_run cfg d qs sst n ops (run_from cfg d qs (Some st) ops) = None.
Proof.
  intros Hwr Hwf Hnd. induction ops as [|o ops IH]; intros st sst n HR Hall; [done|].
  cbn [forallb] in Hall. apply andb_true_iff in Hall as [Ho Hall].
  destruct (rel_step cfg d qs st sst o Hwr Hwf Hnd HR Ho) as (st' & obs & sst' & Hst & Hne & Hsp & HR').
  cbn [run_from]. rewrite Hst. cbn [spec_run]. unfold lNeqb. rewrite bool_decide_eq_false_2 by done.
  rewrite Hsp. by apply IH.
Qed.

(** The model refines the specification oracle on the core language: for every declaration with distinct
    8-bit archetype ids, every capacity list the library accepts and EVERY sequence of creations in any
    archetype, destructions through an archetype with any issued handle (stale ones, other archetypes'
    ones and out-of-range references included) and probes at world and archetype level with any issued
    handle, without wrapping_version: the oracle that decides C01, C02, C03, C08, C12 and C14 on
    implementation traces accepts the whole run of the model. *)
Theorem core_language_refines_the_oracle cfg d qs caps w ops : wrapping cfg = false -> wf_decl d ->
  NoDup (da_id <$> wd_archs d) -> length caps = length (wd_archs d) -> new_world (wd_archs d) caps = Ok w tt ->
  forallb (l0_op d) ops = true ->
  spec_check cfg d qs (ONew caps :: ops) (run cfg d qs (ONew caps :: ops)) = None.
Proof.
  intros Hwr Hwf Hnd Hlen Hnw Hall.
  destruct (rel_init cfg d qs caps w Hwf Hlen Hnw) as (st & sst & Hst & Hsp & HR).
  unfold spec_check, run. cbn [run_from]. rewrite Hst. cbn [spec_run]. unfold lNeqb. rewrite bool_decide_eq_false_2 by done.
  rewrite Hsp. by apply rel_run.
Qed.
