(** ecs_iter_destroy! left by a panic (closure panic, component Drop panic, generation or version
    overflow inside destroy): the exact rows that survive.  Complements LoopFacts.iterd_arch_spec,
    which covers the normal return. *)
From Coq Require Import NArith Lia Bool.
From stdpp Require Import base list numbers option sets.
From Gecs Require Import Prim ExtrBits ExtrVersion ExtrStorage ExtrQuery Storage Query World Borrow Run
                         BitsFacts VersionFacts StorageInv StorageResolve StorageHist StorageOps RunFacts WorldInv LoopFacts.
Local Open Scope nat_scope.
Set Default Proof Using "Type".

(** A panic of the component's Drop happens after the entity was removed; every other panic of the
    loop leaves the visited entity in place. *)
Definition pdestroyed (p : panic) : bool := match p with PDrop => true | _ => false end.

(** Visit [t] (of [k]) removed its entity: it was flagged, and either the loop went on after it or
    the panic came from the Drop of the removed row. *)
Definition gone (p : panic) (k : nat) (decs : list decision) (ord t : nat) : bool :=
  destroys (dec_at decs (ord + t)) && ((t + 1 <? k) || pdestroyed p).

(** What the decision of the last visit must have been for the panic [p] to come out. *)
Definition panic_cause (p : panic) (dc : decision) : Prop :=
  match p with
  | PClosure => dc = DClosurePanic
  | PDrop | PArchOverflow | PSlotOverflow => destroys dc = true
  | _ => False
  end.

Lemma iterd_arch_panic_spec cfg ad acc ver0 nz decs s0 : iter_destroy_version_in_loop = true ->
  wf_access ad acc -> SInv ad s0 ->
  forall idx1 s ord din, SInv ad s -> idx1 <= len s -> idx1 <= len s0 -> (forall j, j < idx1 -> abs_at s j = abs_at s0 j) ->
  forall p s1 recs ds ord1 stp din1, iterd_arch cfg idx1 s ver0 acc nz ord decs din = Panic p (s1, recs, ds, ord1, stp, din1) ->
  exists k, 1 <= k /\ ord1 = ord + k /\ length recs = k /\ k <= idx1 /\ SInv ad s1 /\ stp = SPanic /\
    (forall t, t < k -> exists rec, recs !! t = Some rec /\ visit_ok cfg ad acc s0 (idx1 - 1 - t) rec) /\
    (forall t, t + 1 < k -> breaks (dec_at decs (ord + t)) = false) /\
    panic_cause p (dec_at decs (ord + (k - 1))) /\
    (forall j, j < idx1 - k -> abs_at s1 j = abs_at s0 j) /\ idx1 - k <= len s1 /\
    (forall x, (exists j, idx1 - k <= j < len s1 /\ abs_at s1 j = Some x) <->
               ((exists j, idx1 <= j < len s /\ abs_at s j = Some x) \/
                (exists t, t < k /\ gone p k decs ord t = false /\ abs_at s0 (idx1 - 1 - t) = Some x))).
Proof.
  intros Hflag Hacc HS0. induction idx1 as [|idx IH]; intros s ord din HS Hle Hle0 Hrows p s1 recs ds ord1 stp din1; cbn [iterd_arch]; [done|].
  pose proof HS as (HI & Haid & _). pose proof HS0 as (HI0 & Haid0 & _).
  assert ((len s <=? length (ents s)) = true) as -> by (apply Nat.leb_le; rewrite (i_lents s HI); lia).
  rewrite (forallb_cols_len (len s) (len s) (cols s) (i_lcols s HI)) by lia.
  assert ((idx <? len s) = true) as -> by (apply Nat.ltb_lt; lia). cbn [negb orb].
  rewrite Hflag.
  destruct (call_closure_ok ad acc Hacc s idx (version s) 0%N HS ltac:(lia) (proj1 (i_ver s HI))) as (o & sX & dsv & Hcc & _).
  rewrite Hcc.
  destruct (lookup_lt_is_Some_2 (ents s) idx ltac:(rewrite (i_lents s HI); lia)) as [e He]. rewrite He.
  assert (Hsame : same_row idx s s0) by (eapply abs_at_same_row; try done; try lia; apply Hrows; lia).
  assert (Hvr : visit_record s o = visit_record s0 o) by (unfold visit_record; congruence).
  assert (Hvis : visit_ok cfg ad acc s0 idx (visit_record s o)).
  { exists s, o, sX, dsv. split_and!; try done.
    rewrite He. cbn [default from_option id]. eapply Forall_impl; [exact (call_closure_directs acc s idx 0%N o sX dsv Hcc)|].
    intros dh ->. by apply direct_accepted_at_issue. }
  assert (Hidx : forall t, S idx - 1 - S t = idx - 1 - t) by (intros; lia).
  (* the loop goes on after this visit, on a storage [s'] whose rows below idx are still the original ones *)
  assert (Hcont : forall s' din' (kept : bool), SInv ad s' -> idx <= len s' -> (forall j, j < idx -> abs_at s' j = abs_at s j) ->
    (forall x, (exists j, idx <= j < len s' /\ abs_at s' j = Some x) <->
               ((exists j, S idx <= j < len s /\ abs_at s j = Some x) \/ (kept = true /\ abs_at s0 idx = Some x))) ->
    destroys (dec_at decs ord) = negb kept -> breaks (dec_at decs ord) = false ->
    match iterd_arch cfg idx s' ver0 acc nz (S ord) decs din' with
    | Ok (s2, recs0, ds2, ord2, st, din2) _ => Ok (s2, visit_record s o :: recs0, dsv ++ ds2, ord2, st, din2) tt
    | Panic p (s2, recs0, ds2, ord2, st, din2) => Panic p (s2, visit_record s o :: recs0, dsv ++ ds2, ord2, st, din2)
    | UB => UB
    end = Panic p (s1, recs, ds, ord1, stp, din1) ->
    exists k, 1 <= k /\ ord1 = ord + k /\ length recs = k /\ k <= S idx /\ SInv ad s1 /\ stp = SPanic /\
      (forall t, t < k -> exists rec, recs !! t = Some rec /\ visit_ok cfg ad acc s0 (S idx - 1 - t) rec) /\
      (forall t, t + 1 < k -> breaks (dec_at decs (ord + t)) = false) /\
      panic_cause p (dec_at decs (ord + (k - 1))) /\
      (forall j, j < S idx - k -> abs_at s1 j = abs_at s0 j) /\ S idx - k <= len s1 /\
      (forall x, (exists j, S idx - k <= j < len s1 /\ abs_at s1 j = Some x) <->
                 ((exists j, S idx <= j < len s /\ abs_at s j = Some x) \/
                  (exists t, t < k /\ gone p k decs ord t = false /\ abs_at s0 (S idx - 1 - t) = Some x)))).
  { intros s' din' kept HS' Hle' Hrows' Hsurv Hdes Hbr Hres.
    destruct (iterd_arch cfg idx s' ver0 acc nz (S ord) decs din') as [[[[[[s2 recs0] ds2] ord2] st] din2] []|p' [[[[[s2 recs0] ds2] ord2] st] din2]|] eqn:Hit; [done| |done].
    injection Hres as <- <- <- <- <- <- <-.
    destruct (IH s' (S ord) din' HS' Hle' ltac:(lia) ltac:(intros j Hj; rewrite Hrows' by lia; apply Hrows; lia) _ _ _ _ _ _ _ Hit)
      as (k & Hk1 & -> & Hlen & Hk & HS2 & Hst & Hvisits & Hnb & Hcause & Hun & Hlen2 & Hsv).
    assert (Hgone : forall t, gone p' (S k) decs ord (S t) = gone p' k decs (S ord) t).
    { intros t. unfold gone. replace (ord + S t) with (S ord + t) by lia.
      assert ((S t + 1 <? S k) = (t + 1 <? k)) as -> by (destruct (Nat.ltb_spec (S t + 1) (S k)), (Nat.ltb_spec (t + 1) k); try done; lia). done. }
    assert (Hgone0 : gone p' (S k) decs ord 0 = negb kept).
    { unfold gone. rewrite Nat.add_0_r, Hdes. assert ((0 + 1 <? S k) = true) as -> by (apply Nat.ltb_lt; lia). cbn. by rewrite andb_true_r. }
    exists (S k). split_and!; [lia|lia|cbn; lia|lia|done|done| | | | | |].
    - intros [|t] Ht; [exists (visit_record s o); split; [done|]; by replace (S idx - 1 - 0) with idx by lia|].
      destruct (Hvisits t ltac:(lia)) as (rec & Hr & Hv). exists rec. split; [done|]. by rewrite Hidx.
    - intros [|t] Ht; [by rewrite Nat.add_0_r|]. replace (ord + S t) with (S ord + t) by lia. apply Hnb. lia.
    - replace (ord + (S k - 1)) with (S ord + (k - 1)) by lia. done.
    - intros j Hj. apply Hun. lia.
    - lia.
    - intros x. replace (S idx - S k) with (idx - k) by lia. rewrite Hsv. rewrite Hsurv. split.
      + intros [[H|[Hk' Hx]]|(t & Ht & Hd & Hx)].
        * by left.
        * right. exists 0. split; [lia|]. rewrite Hgone0, Hk'. split; [done|]. by replace (S idx - 1 - 0) with idx by lia.
        * right. exists (S t). split; [lia|]. rewrite Hgone. split; [done|]. by rewrite Hidx.
      + intros [H|([|t] & Ht & Hd & Hx)].
        * left. by left.
        * left. right. rewrite Hgone0 in Hd. replace (S idx - 1 - 0) with idx in Hx by lia. split; [by destruct kept|done].
        * right. exists t. split; [lia|]. rewrite Hgone in Hd. split; [done|]. by rewrite Hidx in Hx. }
  (* the loop is left by a panic at this visit, on storage [s'] *)
  assert (Hstop : forall s' (kept : bool), SInv ad s' -> idx <= len s' -> (forall j, j < idx -> abs_at s' j = abs_at s j) ->
    (forall x, (exists j, idx <= j < len s' /\ abs_at s' j = Some x) <->
               ((exists j, S idx <= j < len s /\ abs_at s j = Some x) \/ (kept = true /\ abs_at s0 idx = Some x))) ->
    destroys (dec_at decs ord) && pdestroyed p = negb kept -> panic_cause p (dec_at decs ord) ->
    exists k, 1 <= k /\ S ord = ord + k /\ length [visit_record s o] = k /\ k <= S idx /\ SInv ad s' /\ SPanic = SPanic /\
      (forall t, t < k -> exists rec, [visit_record s o] !! t = Some rec /\ visit_ok cfg ad acc s0 (S idx - 1 - t) rec) /\
      (forall t, t + 1 < k -> breaks (dec_at decs (ord + t)) = false) /\
      panic_cause p (dec_at decs (ord + (k - 1))) /\
      (forall j, j < S idx - k -> abs_at s' j = abs_at s0 j) /\ S idx - k <= len s' /\
      (forall x, (exists j, S idx - k <= j < len s' /\ abs_at s' j = Some x) <->
                 ((exists j, S idx <= j < len s /\ abs_at s j = Some x) \/
                  (exists t, t < k /\ gone p k decs ord t = false /\ abs_at s0 (S idx - 1 - t) = Some x)))).
  { intros s' kept HS' Hle' Hrows' Hsurv Hdes Hcause. exists 1.
    assert (Hg : gone p 1 decs ord 0 = negb kept) by (unfold gone; rewrite Nat.add_0_r; cbn; done).
    split_and!; try done; try lia.
    - intros t Ht. assert (t = 0) as -> by lia. exists (visit_record s o). split; [done|]. by replace (S idx - 1 - 0) with idx by lia.
    - cbn. by rewrite Nat.add_0_r.
    - intros j Hj. rewrite Hrows' by lia. apply Hrows. lia.
    - intros x. replace (S idx - 1) with idx by lia. rewrite Hsurv. split.
      + intros [H|[Hk' Hx]]; [by left|]. right. exists 0. split; [lia|]. rewrite Hg, Hk'. split; [done|]. by rewrite Nat.sub_0_r.
      + intros [H|(t & Ht & Hd & Hx)]; [by left|]. assert (t = 0) as -> by lia. right.
        rewrite Hg in Hd. rewrite Nat.sub_0_r in Hx. split; [by destruct kept|done]. }
  (* rows when nothing is removed at this visit *)
  assert (Hkeep : forall x, (exists j, idx <= j < len s /\ abs_at s j = Some x) <->
               ((exists j, S idx <= j < len s /\ abs_at s j = Some x) \/ (true = true /\ abs_at s0 idx = Some x))).
  { intros x. rewrite <- (Hrows idx) by lia. split.
    - intros (j & Hj & Ha). destruct (decide (j = idx)) as [->|]; [by right|left; exists j; split; [lia|done]].
    - intros [(j & Hj & Ha)|[_ Ha]]; [exists j; split; [lia|done]|exists idx; split; [lia|done]]. }
  (* rows after removing this position *)
  assert (Hdrop : forall va vs', let s' := destroyed_state cfg s (eslot e) idx e (last_ent s e) va vs' in
     len s' = len s - 1 /\ (forall j, j < idx -> abs_at s' j = abs_at s j) /\
     forall x, (exists j, idx <= j < len s' /\ abs_at s' j = Some x) <->
               ((exists j, S idx <= j < len s /\ abs_at s j = Some x) \/ (false = true /\ abs_at s0 idx = Some x))).
  { intros va vs' s'. split_and!; [done| |].
    - intros j Hj. unfold s'. rewrite (destroyed_abs cfg s (eslot e) idx e va vs' j HI He) by lia. by rewrite decide_False by lia.
    - intros x. assert (Hl : len s' = len s - 1) by done. rewrite Hl. unfold s'. rewrite (destroyed_rows_shift cfg s idx e va vs' x HI He).
      split; [by left|]. by intros [?|[? _]]. }
  unfold dec_at in *.
  pose proof (destroy_SInv cfg KEnt ad s e HS (hpair32_key32 e (ents_hpair32 s idx e HI He))) as HdS.
  rewrite (destroy_live cfg s idx e HI He) in *.
  destruct (nth_decision decs ord) eqn:Hdec.
  - apply (Hcont s din true); try done. lia.
  - done.
  - destruct (arch_next (wrapping cfg) (version s)) as [va|].
    2: { intros [= <- <- <- <- <- <- <-]. destruct (Hstop s true HS ltac:(lia) ltac:(done) Hkeep) as (k & Hk); [done|done|]. exists k. exact Hk. }
    destruct (slot_next (wrapping cfg) (snd e)) as [vs'|].
    2: { intros [= <- <- <- <- <- <- <-]. destruct (Hstop s true HS ltac:(lia) ltac:(done) Hkeep) as (k & Hk); [done|done|]. exists k. exact Hk. }
    cbv beta iota in HdS |- *.
    destruct (drop_row nz din) as [fired din']. destruct (Hdrop va vs') as (Hl & Hr & Hs). destruct fired.
    + intros [= <- <- <- <- <- <- <-].
      destruct (Hstop _ false HdS ltac:(rewrite Hl; lia) Hr Hs) as (k & Hk); [done|done|]. exists k. exact Hk.
    + apply (Hcont _ din' false); try done. rewrite Hl. lia.
  - destruct (arch_next (wrapping cfg) (version s)) as [va|].
    2: { intros [= <- <- <- <- <- <- <-]. destruct (Hstop s true HS ltac:(lia) ltac:(done) Hkeep) as (k & Hk); [done|done|]. exists k. exact Hk. }
    destruct (slot_next (wrapping cfg) (snd e)) as [vs'|].
    2: { intros [= <- <- <- <- <- <- <-]. destruct (Hstop s true HS ltac:(lia) ltac:(done) Hkeep) as (k & Hk); [done|done|]. exists k. exact Hk. }
    cbv beta iota in HdS |- *.
    destruct (drop_row nz din) as [fired din']. destruct (Hdrop va vs') as (Hl & Hr & Hs). destruct fired; [|done].
    intros [= <- <- <- <- <- <- <-].
    destruct (Hstop _ false HdS ltac:(rewrite Hl; lia) Hr Hs) as (k & Hk); [done|done|]. exists k. exact Hk.
  - intros [= <- <- <- <- <- <- <-].
    destruct (Hstop s true HS ltac:(lia) ltac:(done) Hkeep) as (k & Hk); [done|done|]. exists k. exact Hk.
Qed.

(** The whole reverse loop over one archetype when it is left by a panic: k >= 1 visits of the distinct
    positions len-1, len-2, .., each seeing the original row; no earlier visit asked to stop; the
    panic has one of the four documented causes; and the rows present afterwards are exactly the
    original rows except those visited, flagged, and actually removed (every flagged visit before the
    last one, and the last one exactly when the panic came from the removed row's Drop). *)
Theorem iterd_arch_panic_whole cfg ad acc nz decs s ord din p s1 recs ds ord1 stp din1 :
  iter_destroy_version_in_loop = true -> wf_access ad acc -> SInv ad s ->
  iterd_arch cfg (len s) s (version s) acc nz ord decs din = Panic p (s1, recs, ds, ord1, stp, din1) ->
  exists k, 1 <= k /\ ord1 = ord + k /\ length recs = k /\ k <= len s /\ SInv ad s1 /\ stp = SPanic /\
    (forall t, t < k -> exists rec, recs !! t = Some rec /\ visit_ok cfg ad acc s (len s - 1 - t) rec) /\
    (forall t, t + 1 < k -> breaks (dec_at decs (ord + t)) = false) /\
    panic_cause p (dec_at decs (ord + (k - 1))) /\
    (forall x, (exists j, j < len s1 /\ abs_at s1 j = Some x) <->
               (exists i, i < len s /\ abs_at s i = Some x /\
                          ~ (len s - 1 - i < k /\ gone p k decs ord (len s - 1 - i) = true))).
Proof.
  intros Hflag Hacc HS Hit.
  destruct (iterd_arch_panic_spec cfg ad acc (version s) nz decs s Hflag Hacc HS (len s) s ord din HS (le_n _) (le_n _) ltac:(done) _ _ _ _ _ _ _ Hit)
    as (k & Hk1 & Ho & Hlen & Hk & HS1 & Hst & Hvis & Hnb & Hcause & Hun & Hl1 & Hsv).
  exists k. split_and!; try done. intros x. split.
  - intros (j & Hj & Ha). destruct (decide (j < len s - k)) as [Hlt|Hge].
    + exists j. rewrite <- (Hun j Hlt). split_and!; [lia|done|]. intros [? _]. lia.
    + destruct (proj1 (Hsv x)) as [(j' & Hj' & _)|(t & Ht & Hd & Hx)]; [exists j; split; [lia|done]|lia|].
      exists (len s - 1 - t). split_and!; [lia|done|]. intros [_ Hd']. replace (len s - 1 - (len s - 1 - t)) with t in Hd' by lia. congruence.
  - intros (i & Hi & Ha & Hn). destruct (decide (len s - 1 - i < k)) as [Hv|Hnv].
    + destruct (proj2 (Hsv x)) as (j & Hj & Hj').
      { right. exists (len s - 1 - i). split_and!; [done| |by replace (len s - 1 - (len s - 1 - i)) with i by lia].
        destruct (gone _ _ _ _ _) eqn:E; [|done]. exfalso. apply Hn. done. }
      exists j. split; [lia|done].
    + exists i. split; [lia|]. rewrite Hun by lia. done.
Qed.

(** A panic in one archetype ends the whole ecs_iter_destroy! query: the remaining archetypes are
    returned untouched. *)
Lemma iterd_world_panic cfg d a ar s wr acc pr ord decs din p s1 recs ds ord1 stp din1 :
  iterd_arch cfg (len s) s (version s) acc (nz_cols d a) ord decs din = Panic p (s1, recs, ds, ord1, stp, din1) ->
  iterd_world cfg d (a :: ar) (s :: wr) (Some acc :: pr) ord decs din = Panic p (s1 :: wr, recs, ds, din1).
Proof. intros H. cbn [iterd_world]. by rewrite H. Qed.
