(** Facts about the bit-level definitions translated from entity.rs / index.rs / slot.rs
    (gen/ExtrBits.v).  Every lemma is about the *extracted text*: changing a shift width, a mask
    or a constant in the Rust source changes ExtrBits.v and these proofs are re-checked. *)
From Coq Require Import NArith Lia Bool ZArith ZifyN ZifyBool ZifyNat.
From Gecs Require Import Prim ExtrBits.
Open Scope N_scope.
Ltac Zify.zify_post_hook ::= Z.div_mod_to_equations.
Arguments N.add : simpl never. Arguments N.mul : simpl never. Arguments N.sub : simpl never.
Arguments N.pow : simpl never. Arguments N.modulo : simpl never. Arguments N.shiftl : simpl never.
Arguments N.shiftr : simpl never. Arguments N.lor : simpl never. Arguments N.land : simpl never.
Arguments N.lxor : simpl never.

(** ** Constants *)
Lemma id_bits : ARCHETYPE_ID_BITS = 8. Proof. reflexivity. Qed.
Lemma max_cap : MAX_DATA_CAPACITY = 2^24. Proof. reflexivity. Qed.
Lemma max_idx : MAX_DATA_INDEX = 2^24 - 1. Proof. reflexivity. Qed.
Lemma free_bit : FREE_BIT = 2^31. Proof. reflexivity. Qed.
Lemma free_end : FREE_LIST_END = 2^32 - 1. Proof. reflexivity. Qed.
Lemma max_cap_val : MAX_DATA_CAPACITY = 16777216. Proof. reflexivity. Qed.

(** ** Generic bit lemmas *)
Lemma lor_disjoint_add a b : N.land a b = 0 -> N.lor a b = a + b.
Proof. intros H. rewrite <- N.lxor_lor by exact H. symmetry. apply N.add_nocarry_lxor. exact H. Qed.

Lemma land_lt_pow2_mul a b n : b < 2^n -> N.land (a * 2^n) b = 0.
Proof.
  intros Hb. apply N.bits_inj_0. intros m. rewrite N.land_spec.
  destruct (N.lt_ge_cases m n) as [Hm|Hm].
  - rewrite N.mul_pow2_bits_low by exact Hm. reflexivity.
  - assert (N.testbit b m = false) as ->; [|apply Bool.andb_false_r].
    destruct (N.eq_dec b 0) as [->|Hb0]; [apply N.bits_0|].
    apply N.bits_above_log2. apply N.log2_lt_pow2; [lia|].
    eapply N.lt_le_trans; [exact Hb|]. apply N.pow_le_mono_r; lia.
Qed.

(** ** Entity keys: [slot_index (u24) | archetype_id (u8)] *)
Lemma pack_key_arith slot id : slot < 2^24 -> id < 2^8 -> pack_key slot id = slot * 2^8 + id.
Proof.
  intros Hs Hi. unfold pack_key, shl. rewrite id_bits.
  rewrite N.shiftl_mul_pow2.
  rewrite N.mod_small by (change (2^8) with 256; change (2^32) with 4294967296; change (2^24) with 16777216 in Hs; lia).
  apply lor_disjoint_add. apply land_lt_pow2_mul. exact Hi.
Qed.

Lemma key_index_pack slot id : slot < 2^24 -> id < 2^8 -> key_index (pack_key slot id) = slot.
Proof.
  intros Hs Hi. rewrite pack_key_arith by assumption. unfold key_index, shr. rewrite id_bits.
  rewrite N.shiftr_div_pow2. change (2^8) with 256 in *. lia.
Qed.

Lemma key_arch_id_pack slot id : slot < 2^24 -> id < 2^8 -> key_arch_id (pack_key slot id) = id.
Proof.
  intros Hs Hi. rewrite pack_key_arith by assumption. unfold key_arch_id.
  change (2^8) with 256 in *. rewrite N.add_comm, N.mod_add by lia. apply N.mod_small. lia.
Qed.

Lemma pack_key_lt slot id : slot < 2^24 -> id < 2^8 -> pack_key slot id < 2^32.
Proof.
  intros Hs Hi. rewrite pack_key_arith by assumption.
  change (2^8) with 256 in *. change (2^24) with 16777216 in *. change (2^32) with 4294967296. lia.
Qed.

Lemma pack_key_inj s1 i1 s2 i2 :
  s1 < 2^24 -> i1 < 2^8 -> s2 < 2^24 -> i2 < 2^8 -> pack_key s1 i1 = pack_key s2 i2 -> s1 = s2 /\ i1 = i2.
Proof.
  intros H1 H2 H3 H4 E. split.
  - rewrite <- (key_index_pack s1 i1), <- (key_index_pack s2 i2) by assumption. now rewrite E.
  - rewrite <- (key_arch_id_pack s1 i1), <- (key_arch_id_pack s2 i2) by assumption. now rewrite E.
Qed.

(** Any 32-bit key decomposes: unpacking then packing gives the key back (no bit is lost). *)
Lemma key_index_lt key : key < 2^32 -> key_index key < 2^24.
Proof.
  intros H. unfold key_index, shr. rewrite id_bits, N.shiftr_div_pow2.
  change (2^8) with 256. change (2^24) with 16777216. change (2^32) with 4294967296 in H. lia.
Qed.

Lemma key_arch_id_lt key : key_arch_id key < 2^8.
Proof. unfold key_arch_id. change (2^8) with 256. lia. Qed.

Lemma pack_unpack key : key < 2^32 -> pack_key (key_index key) (key_arch_id key) = key.
Proof.
  intros H. rewrite pack_key_arith by (apply key_index_lt; assumption) || apply key_arch_id_lt.
  unfold key_index, key_arch_id, shr. rewrite id_bits, N.shiftr_div_pow2. change (2^8) with 256. lia.
Qed.

(** Direct keys use the same layout. *)
Lemma pack_dkey_eq d id : pack_dkey d id = pack_key d id. Proof. reflexivity. Qed.
Lemma dkey_index_eq k : dkey_index k = key_index k. Proof. reflexivity. Qed.
Lemma dkey_arch_id_eq k : dkey_arch_id k = key_arch_id k. Proof. reflexivity. Qed.

(** ** from_raw / conversions *)
Lemma raw_ok_spec v : raw_ok v = true <-> v <> 0.
Proof. unfold raw_ok, nonzero_new. destruct (N.eqb_spec v 0); split; congruence. Qed.

Lemma conv_ok_spec key id : conv_ok key id = true <-> key_arch_id key = id.
Proof. unfold conv_ok. apply N.eqb_eq. Qed.

(** ** The word fed to the hasher: (key << 32) | version over u64 *)
Lemma hash_word_arith key ver : key < 2^32 -> ver < 2^32 -> hash_word key ver = key * 2^32 + ver.
Proof.
  intros Hk Hv. unfold hash_word, shl. rewrite N.shiftl_mul_pow2.
  rewrite N.mod_small by (change (2^32) with 4294967296 in *; change (2^64) with 18446744073709551616; lia).
  apply lor_disjoint_add. apply land_lt_pow2_mul. exact Hv.
Qed.

Lemma hash_word_inj k1 v1 k2 v2 :
  k1 < 2^32 -> v1 < 2^32 -> k2 < 2^32 -> v2 < 2^32 -> hash_word k1 v1 = hash_word k2 v2 -> k1 = k2 /\ v1 = v2.
Proof.
  intros H1 H2 H3 H4. rewrite !hash_word_arith by assumption.
  change (2^32) with 4294967296 in *. lia.
Qed.

Lemma dhash_word_eq k v : dhash_word k v = hash_word k v. Proof. reflexivity. Qed.

(** ** TrimmedIndex *)
Lemma trimmed_ok_spec i : trimmed_ok_u32 i = true <-> i < 2^24.
Proof. unfold trimmed_ok_u32. rewrite max_cap. apply N.ltb_lt. Qed.
Lemma trimmed_ok_usize_spec i : trimmed_ok_usize i = true <-> i < 2^24.
Proof. unfold trimmed_ok_usize. rewrite max_cap. apply N.ltb_lt. Qed.

(** ** Slot indices: bit 31 marks "free", FREE_LIST_END is not a valid index *)
Lemma new_free_arith i : i < 2^24 -> si_new_free i = i + 2^31.
Proof.
  intros Hi. unfold si_new_free. rewrite free_bit. apply lor_disjoint_add.
  rewrite N.land_comm. change (2^31) with (1 * 2^31). apply land_lt_pow2_mul.
  eapply N.lt_trans; [exact Hi|reflexivity].
Qed.

Lemma new_free_not_end i : i < 2^24 -> si_new_free i <> FREE_LIST_END.
Proof.
  intros Hi. rewrite new_free_arith, free_end by exact Hi.
  change (2^24) with 16777216 in Hi. change (2^31) with 2147483648. change (2^32) with 4294967296. lia.
Qed.

Lemma is_free_end_spec x : si_is_free_end x = true <-> x = FREE_LIST_END.
Proof. unfold si_is_free_end. apply N.eqb_eq. Qed.

Lemma land_free_bit_low i : i < 2^31 -> N.land FREE_BIT i = 0.
Proof. intros Hi. rewrite free_bit. change (2^31) with (1 * 2^31). apply land_lt_pow2_mul. exact Hi. Qed.

Lemma is_free_data i : i < 2^24 -> si_is_free (si_new_data i) = false.
Proof.
  intros Hi. unfold si_is_free, si_new_data, neqb.
  rewrite land_free_bit_low; [reflexivity|]. eapply N.lt_trans; [exact Hi|reflexivity].
Qed.

Lemma land_pow2_testbit x n : N.land (2^n) x = if N.testbit x n then 2^n else 0.
Proof.
  apply N.bits_inj. intros m. rewrite N.land_spec, N.pow2_bits_eqb.
  destruct (N.eqb_spec n m) as [->|Hne]; destruct (N.testbit x m) eqn:Hx; cbn [andb].
  - now rewrite N.pow2_bits_true.
  - now rewrite N.bits_0.
  - destruct (N.testbit x n); [now rewrite N.pow2_bits_false by exact Hne | now rewrite N.bits_0].
  - destruct (N.testbit x n); [now rewrite N.pow2_bits_false by exact Hne | now rewrite N.bits_0].
Qed.

Lemma is_free_testbit x : si_is_free x = N.testbit x 31.
Proof.
  unfold si_is_free, neqb. rewrite free_bit, land_pow2_testbit.
  destruct (N.testbit x 31); reflexivity.
Qed.

Lemma is_free_new_free i : i < 2^24 -> si_is_free (si_new_free i) = true.
Proof.
  intros Hi. rewrite is_free_testbit, new_free_arith by exact Hi. apply N.testbit_true.
  change (2^24) with 16777216 in Hi. change (2^31) with 2147483648. lia.
Qed.

Lemma is_free_end : si_is_free FREE_LIST_END = true.
Proof. reflexivity. Qed.

Lemma index_free_mod x : si_index_free x = x mod 2^31.
Proof.
  unfold si_index_free. change (bnot 32 FREE_BIT) with (N.ones 31). apply N.land_ones.
Qed.

Lemma index_free_new_free i : i < 2^24 -> si_index_free (si_new_free i) = i.
Proof.
  intros Hi. rewrite index_free_mod, new_free_arith by exact Hi.
  change (2^24) with 16777216 in Hi. change (2^31) with 2147483648. lia.
Qed.

Lemma index_data_new_data i : si_index_data (si_new_data i) = i.
Proof. reflexivity. Qed.

Lemma new_data_not_end i : i < 2^24 -> si_new_data i <> FREE_LIST_END.
Proof. intros Hi. unfold si_new_data. rewrite free_end. change (2^24) with 16777216 in Hi. change (2^32) with 4294967296. lia. Qed.

Lemma is_free_end_new_free i : i < 2^24 -> si_is_free_end (si_new_free i) = false.
Proof. intros Hi. apply Bool.not_true_iff_false. rewrite is_free_end_spec. now apply new_free_not_end. Qed.

Lemma is_free_end_new_data i : i < 2^24 -> si_is_free_end (si_new_data i) = false.
Proof. intros Hi. apply Bool.not_true_iff_false. rewrite is_free_end_spec. now apply new_data_not_end. Qed.

(** The test of slot.rs (`verify_free_list_end_is_invalid_data_index`), for the extracted text. *)
Lemma free_end_is_invalid_index : trimmed_ok_u32 (N.land (bnot 32 FREE_BIT) FREE_LIST_END) = false.
Proof. reflexivity. Qed.

(** new_free leaves room for the free bit: `const { assert!(MAX_DATA_INDEX < FREE_BIT) }` *)
Lemma max_index_below_free_bit : MAX_DATA_INDEX < FREE_BIT.
Proof. reflexivity. Qed.
