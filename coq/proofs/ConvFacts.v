(** Handle conversions (C14): lossless, type-faithful, consistent with Eq/Hash. *)
From Coq Require Import NArith Lia Bool.
From stdpp Require Import base list numbers option.
From Gecs Require Import Prim ExtrBits Storage Query World BitsFacts.
Local Open Scope N_scope.

Definition key32 (h : handle) : Prop := fst h < 2^32 /\ snd h < 2^32.

Lemma from_raw_raw h : snd h <> 0 -> from_raw (raw_of h) = Some h.
Proof. intros Hv. unfold from_raw, raw_of. apply raw_ok_spec in Hv. now rewrite Hv. Qed.

Lemma from_raw_rejects_exactly_zero r : from_raw r = None <-> snd r = 0.
Proof.
  unfold from_raw. destruct (raw_ok (snd r)) eqn:E.
  - apply raw_ok_spec in E. split; [discriminate|contradiction].
  - split; [|reflexivity]. intros _. destruct (N.eq_dec (snd r) 0) as [H|H]; [exact H|].
    apply raw_ok_spec in H. congruence.
Qed.

Lemma from_raw_some r h : from_raw r = Some h -> h = r.
Proof. unfold from_raw. destruct (raw_ok (snd r)); congruence. Qed.

Lemma try_from_into_any id h :
  try_from_any id (into_any h) = if decide (handle_archetype_id h = id) then Some h else None.
Proof.
  unfold try_from_any, into_any, handle_archetype_id, conv_ok.
  destruct (N.eqb_spec (key_arch_id (fst h)) id); case_decide; congruence.
Qed.

Lemma try_from_any_some id h t : try_from_any id h = Some t -> t = h /\ handle_archetype_id h = id.
Proof.
  unfold try_from_any, handle_archetype_id, conv_ok.
  destruct (N.eqb_spec (key_arch_id (fst h)) id) as [E|E]; [intros [= <-]; split; [reflexivity|exact E]|discriminate].
Qed.

Lemma try_from_dany_some id h t : try_from_dany id h = Some t -> t = h /\ dkey_arch_id (fst h) = id.
Proof.
  unfold try_from_dany, dconv_ok.
  destruct (N.eqb_spec (dkey_arch_id (fst h)) id) as [E|E]; [intros [= <-]; split; [reflexivity|exact E]|discriminate].
Qed.

(** A handle packed for archetype [id] reports [id], converts to exactly that archetype, and no other. *)
Lemma packed_handle_id slot id v : slot < 2^24 -> id < 2^8 ->
  handle_archetype_id (pack_key slot id, v) = id.
Proof. intros. unfold handle_archetype_id. simpl. now apply key_arch_id_pack. Qed.

Lemma packed_handle_try_from slot id id' v : slot < 2^24 -> id < 2^8 ->
  try_from_any id' (pack_key slot id, v) = if decide (id = id') then Some (pack_key slot id, v) else None.
Proof.
  intros Hs Hi. pose proof (try_from_into_any id' (pack_key slot id, v)) as H. unfold into_any in H.
  rewrite H, packed_handle_id by assumption. reflexivity.
Qed.

(** find_arch: the Select* enums pick the first archetype declaring the id, and fail iff none does. *)
Lemma find_arch_some archs id a : find_arch archs id = Some a ->
  exists ad, archs !! a = Some ad /\ da_id ad = id /\ forall b bd, (b < a)%nat -> archs !! b = Some bd -> da_id bd <> id.
Proof.
  revert a. induction archs as [|x r IH]; intros a H; [discriminate|].
  cbn [find_arch] in H. destruct (N.eqb_spec (da_id x) id) as [E|E].
  - inversion H; subst. exists x. split; [reflexivity|]. split; [reflexivity|]. intros b bd Hb. lia.
  - destruct (find_arch r id) as [a'|] eqn:F; [|discriminate]. cbn in H. inversion H; subst.
    destruct (IH a' eq_refl) as (ad & Hl & Hid & Hmin). exists ad. split; [exact Hl|]. split; [exact Hid|].
    intros b bd Hb Hl'. destruct b as [|b]; cbn in Hl'.
    + inversion Hl'; subst. exact E.
    + eapply Hmin; [|exact Hl']. lia.
Qed.

Lemma find_arch_none archs id : find_arch archs id = None <-> forall ad, ad ∈ archs -> da_id ad <> id.
Proof.
  induction archs as [|x r IH]; cbn [find_arch].
  - split; [intros _ ad H; inversion H|reflexivity].
  - destruct (N.eqb_spec (da_id x) id) as [E|E].
    + split; [discriminate|]. intros H. exfalso. apply (H x); [left|exact E].
    + destruct (find_arch r id) eqn:F; cbn.
      * split; [discriminate|]. intros H. exfalso.
        assert (Hf : Some n = None); [|discriminate].
        apply IH. intros ad Hin. apply H. now right.
      * split; [|reflexivity]. intros _ ad Hin. apply elem_of_cons in Hin as [->|Hin]; [exact E|].
        now apply (proj1 IH eq_refl).
Qed.

(** With pairwise distinct ids (C15) the selected archetype is *the* archetype with that id. *)
Lemma find_arch_unique archs id a ad : NoDup (da_id <$> archs) -> archs !! a = Some ad -> da_id ad = id ->
  find_arch archs id = Some a.
Proof.
  revert a. induction archs as [|x r IH]; intros a Hnd Hl Hid; [discriminate|].
  cbn [find_arch]. rewrite fmap_cons in Hnd. apply list.NoDup_cons in Hnd as [Hx Hnd].
  destruct a as [|a]; cbn in Hl.
  - inversion Hl; subst. now rewrite N.eqb_refl.
  - destruct (N.eqb_spec (da_id x) id) as [E|E].
    + exfalso. apply Hx. rewrite E, <- Hid. apply elem_of_list_fmap. exists ad. split; [reflexivity|].
      eapply elem_of_list_lookup_2. exact Hl.
    + rewrite (IH a Hnd Hl Hid). reflexivity.
Qed.

(** Eq/Hash: the hashed word determines the handle, and is a function of it. *)
Lemma handle_hash_inj h1 h2 : key32 h1 -> key32 h2 -> handle_hash_word h1 = handle_hash_word h2 -> h1 = h2.
Proof.
  intros [A1 B1] [A2 B2] E. unfold handle_hash_word in E.
  destruct (hash_word_inj _ _ _ _ A1 B1 A2 B2 E) as [Ek Ev].
  destruct h1, h2; simpl in *; congruence.
Qed.
