(** The query loops of generate/query.rs as modelled in World.v: what one closure call sees, that
    it touches only the visited row, and the closed form of a whole ecs_iter!/ecs_iter_borrow! pass. *)
From Coq Require Import NArith Lia Bool.
From stdpp Require Import base list numbers option sets.
From Gecs Require Import Prim ExtrBits ExtrVersion ExtrStorage ExtrQuery Storage Query World Borrow Run
                         BitsFacts VersionFacts StorageInv StorageResolve StorageHist StorageOps RunFacts WorldInv.
Local Open Scope nat_scope.
Set Default Proof Using "Type".

(* ---------------------------------------------------------------- rows *)

Definition cell (s : storage) (col i : nat) : option val := cols s !! col ≫= (fun c : list val => c !! i).

(** Two storages present the same entity with the same component values at dense position [i]. *)
Definition same_row (i : nat) (s s' : storage) : Prop :=
  ents s !! i = ents s' !! i /\ aid s = aid s' /\ forall col, cell s col i = cell s' col i.

Lemma same_row_refl i s : same_row i s s.
Proof. by split_and!. Qed.
Lemma same_row_sym i s s' : same_row i s s' -> same_row i s' s.
Proof. intros (? & ? & H). split_and!; [done|done|]. intros col. by rewrite H. Qed.
Lemma same_row_trans i s1 s2 s3 : same_row i s1 s2 -> same_row i s2 s3 -> same_row i s1 s3.
Proof. intros (A1 & A2 & A3) (B1 & B2 & B3). split_and!; [congruence|congruence|]. intros col. by rewrite A3, B3. Qed.

Lemma cell_some s col i v : cell s col i = Some v <-> exists c : list val, cols s !! col = Some c /\ c !! i = Some v.
Proof.
  unfold cell. destruct (cols s !! col) as [c|]; cbn.
  - split; [intros H; by exists c|]. by intros (c' & [= <-] & H).
  - split; [done|]. by intros (c' & ? & _).
Qed.

Lemma write_col_cell s col i v s1 : write_col s col i v = Some s1 ->
  forall col' j, cell s1 col' j = if decide (col' = col /\ j = i) then Some v else cell s col' j.
Proof.
  intros Hw col' j. unfold write_col in Hw. destruct (cols s !! col) as [c|] eqn:Hc; [|done].
  destruct (Nat.ltb_spec i (length c)) as [Hi|]; [|done]. injection Hw as <-. unfold cell. cbn [cols].
  assert (Hcl : col < length (cols s)) by (by eapply lookup_lt_Some).
  destruct (decide (col' = col)) as [->|Hne].
  - rewrite list_lookup_insert by done. cbn. destruct (decide (j = i)) as [->|Hji].
    + rewrite list_lookup_insert by done. by rewrite decide_True.
    + rewrite list_lookup_insert_ne by done. rewrite decide_False by (intros [_ ?]; done). by rewrite Hc.
  - rewrite list_lookup_insert_ne by done. rewrite decide_False by (intros [? _]; done). done.
Qed.

(* ---------------------------------------------------------------- one closure call *)

(** A closure call touches nothing but the row it visits. *)
Lemma call_closure_frame acc : forall s i ver delta o s1 ds, call_closure s i ver delta acc = Some (o, s1, ds) ->
  ents s1 = ents s /\ aid s1 = aid s /\ forall col j, j <> i -> cell s1 col j = cell s col j.
Proof.
  induction acc as [|a acc IH]; intros s i ver delta o s1 ds; cbn [call_closure].
  - intros [= <- <- <-]. done.
  - destruct a as [col m zst| |].
    + destruct (cols s !! col) as [c|] eqn:Hc; [|done]. unfold val in *. destruct (c !! i) as [v|] eqn:Hv; [|done].
      destruct (m && negb zst && negb (delta =? 0)%N).
      * destruct (write_col s col i (v + delta)%N) as [sw|] eqn:Hw; [|done].
        destruct (call_closure sw i ver delta acc) as [[[o' s2] ds']|] eqn:Hcc; [|done]. intros [= <- <- <-].
        destruct (IH _ _ _ _ _ _ _ Hcc) as (E1 & E2 & E3).
        destruct (write_col_spec s col i _ sw Hw) as (_ & _ & He & _ & _ & _ & _ & _ & Ha & _).
        split_and!; [congruence|congruence|]. intros col' j Hj. rewrite E3 by done.
        rewrite (write_col_cell s col i _ sw Hw). rewrite decide_False by (intros [_ ?]; done). done.
      * destruct (call_closure s i ver delta acc) as [[[o' s2] ds']|] eqn:Hcc; [|done]. intros [= <- <- <-].
        by eapply IH.
    + destruct (ents s !! i); [|done].
      destruct (call_closure s i ver delta acc) as [[[o' s2] ds']|] eqn:Hcc; [|done]. intros [= <- <- <-]. by eapply IH.
    + destruct (call_closure s i ver delta acc) as [[[o' s2] ds']|] eqn:Hcc; [|done]. intros [= <- <- <-]. by eapply IH.
Qed.

(** What a closure call observes and hands out depends only on the visited row: two storages that
    agree on row [i] give the same observations, the same direct handles, and agree on row [i] afterwards. *)
Lemma call_closure_local acc : forall s s' i ver delta o s1 ds, same_row i s s' ->
  call_closure s i ver delta acc = Some (o, s1, ds) ->
  forall o' s1' ds', call_closure s' i ver delta acc = Some (o', s1', ds') -> o' = o /\ ds' = ds /\ same_row i s1 s1'.
Proof.
  induction acc as [|a acc IH]; intros s s' i ver delta o s1 ds HR; cbn [call_closure].
  - intros [= <- <- <-] o' s1' ds' [= <- <- <-]. done.
  - pose proof HR as (He & Ha & Hc). destruct a as [col m zst| |].
    + destruct (cols s !! col) as [c|] eqn:Hcs; [|done]. unfold val in *. destruct (c !! i) as [v|] eqn:Hv; [|done].
      assert (Hcell : cell s col i = Some v) by (apply cell_some; eauto).
      rewrite Hc in Hcell. apply cell_some in Hcell as (c' & Hcs' & Hv'). unfold val in *. rewrite Hcs', Hv'.
      destruct (m && negb zst && negb (delta =? 0)%N).
      * destruct (write_col s col i (v + delta)%N) as [sw|] eqn:Hw; [|done].
        destruct (call_closure sw i ver delta acc) as [[[o0 s2] ds0]|] eqn:Hcc; [|done]. intros [= <- <- <-] o' s1' ds'.
        destruct (write_col s' col i (v + delta)%N) as [sw'|] eqn:Hw'; [|done].
        destruct (call_closure sw' i ver delta acc) as [[[o0' s2'] ds0']|] eqn:Hcc'; [|done]. intros [= <- <- <-].
        assert (HRw : same_row i sw sw').
        { destruct (write_col_spec s col i _ sw Hw) as (_ & _ & E1 & _ & _ & _ & _ & _ & A1 & _).
          destruct (write_col_spec s' col i _ sw' Hw') as (_ & _ & E1' & _ & _ & _ & _ & _ & A1' & _).
          split_and!; [congruence|congruence|]. intros col'.
          rewrite (write_col_cell s col i _ sw Hw), (write_col_cell s' col i _ sw' Hw'). by rewrite Hc. }
        destruct (IH _ _ _ _ _ _ _ _ HRw Hcc _ _ _ Hcc') as (-> & -> & HR'). done.
      * destruct (call_closure s i ver delta acc) as [[[o0 s2] ds0]|] eqn:Hcc; [|done]. intros [= <- <- <-] o' s1' ds'.
        destruct (call_closure s' i ver delta acc) as [[[o0' s2'] ds0']|] eqn:Hcc'; [|done]. intros [= <- <- <-].
        destruct (IH _ _ _ _ _ _ _ _ HR Hcc _ _ _ Hcc') as (-> & -> & HR'). done.
    + rewrite <- He. destruct (ents s !! i) as [e|]; [|done].
      destruct (call_closure s i ver delta acc) as [[[o0 s2] ds0]|] eqn:Hcc; [|done]. intros [= <- <- <-] o' s1' ds'.
      destruct (call_closure s' i ver delta acc) as [[[o0' s2'] ds0']|] eqn:Hcc'; [|done]. intros [= <- <- <-].
      destruct (IH _ _ _ _ _ _ _ _ HR Hcc _ _ _ Hcc') as (-> & -> & HR'). done.
    + rewrite <- Ha.
      destruct (call_closure s i ver delta acc) as [[[o0 s2] ds0]|] eqn:Hcc; [|done]. intros [= <- <- <-] o' s1' ds'.
      destruct (call_closure s' i ver delta acc) as [[[o0' s2'] ds0']|] eqn:Hcc'; [|done]. intros [= <- <- <-].
      destruct (IH _ _ _ _ _ _ _ _ HR Hcc _ _ _ Hcc') as (-> & -> & HR'). done.
Qed.

(* ---------------------------------------------------------------- ecs_iter! / ecs_iter_borrow! over one archetype *)

Definition stop_of (break_at panic_at : option nat) (o : nat) : stop :=
  if decide (panic_at = Some o) then SPanic else if decide (break_at = Some o) then SBreak else SNone.

Lemma frame_same_row acc s i ver delta o s1 ds j : call_closure s i ver delta acc = Some (o, s1, ds) -> j <> i -> same_row j s1 s.
Proof.
  intros H Hj. destruct (call_closure_frame acc _ _ _ _ _ _ _ H) as (E1 & E2 & E3).
  split_and!; [by rewrite E1|done|]. intros col. by apply E3.
Qed.

(** The loop over one archetype, started at dense position [i] on a storage that still shows the
    original rows from [i] on: it calls the closure on positions i, i+1, .. in order, each call seeing
    exactly what it would see on the original storage [s0] (the entity's own handle and values), until
    the range ends (k = n - i visits) or the closure breaks or panics (that visit included). *)
Lemma iter_arch_spec ad acc ver delta break_at panic_at n s0 : wf_access ad acc -> in_ver ver -> SInv ad s0 -> len s0 = n ->
  forall fuel s i ord, SInv ad s -> len s = n -> i <= n -> n - i < fuel ->
   (forall j, i <= j < n -> same_row j s s0) ->
   exists s1 recs ds k stp,
     iter_arch fuel s i n ver delta acc ord break_at panic_at = Some (s1, recs, ds, ord + k, stp) /\
     length recs = k /\ k <= n - i /\ SInv ad s1 /\ len s1 = n /\
     (forall m, m < k -> exists o s' ds', call_closure s0 (i + m) ver delta acc = Some (o, s', ds') /\ recs !! m = Some (visit_record s0 o)) /\
     match stp with
     | SNone => k = n - i /\ (forall m, m < k -> stop_of break_at panic_at (ord + m) = SNone)
     | _ => 1 <= k /\ stop_of break_at panic_at (ord + (k - 1)) = stp /\ (forall m, m + 1 < k -> stop_of break_at panic_at (ord + m) = SNone)
     end.
Proof.
  intros Hacc Hver HS0 Hn0. induction fuel as [|fuel IH]; intros s i ord HS Hn Hi Hfuel Hrows; [lia|].
  cbn [iter_arch]. destruct (Nat.ltb_spec i n) as [Hlt|Hge]; cbn [negb].
  2: { exists s, [], [], 0, SNone. rewrite Nat.add_0_r. split_and!; try done; try lia; intros m Hm; lia. }
  pose proof HS as (HI & Haid & _). pose proof HS0 as (HI0 & Haid0 & _).
  assert ((len s <=? length (ents s)) = true) as -> by (apply Nat.leb_le; rewrite (i_lents s HI); lia).
  rewrite (forallb_cols_len (len s) (len s) (cols s) (i_lcols s HI)) by lia. cbn [negb orb].
  destruct (call_closure_ok ad acc Hacc s i ver delta HS ltac:(lia) Hver) as (o & s1 & ds & Hcc & HS1 & Hl1 & _).
  destruct (call_closure_ok ad acc Hacc s0 i ver delta HS0 ltac:(lia) Hver) as (o0 & s0' & ds0 & Hcc0 & _).
  destruct (call_closure_local acc s s0 i ver delta o s1 ds (Hrows i ltac:(lia)) Hcc _ _ _ Hcc0) as (-> & -> & _).
  rewrite Hcc. assert (Hvr : visit_record s o = visit_record s0 o) by (unfold visit_record; congruence).
  assert (Hfirst : exists o1 s' ds', call_closure s0 (i + 0) ver delta acc = Some (o1, s', ds') /\ [visit_record s o] !! 0 = Some (visit_record s0 o1)).
  { rewrite Nat.add_0_r. exists o, s0', ds. by rewrite Hvr. }
  destruct (decide (panic_at = Some ord)) as [Hp|Hp].
  { exists s1, [visit_record s o], ds, 1, SPanic. replace (ord + 1) with (S ord) by lia.
    split_and!; try done; try lia.
    - intros m Hm. assert (m = 0) as -> by lia. exact Hfirst.
    - cbn. rewrite Nat.add_0_r. unfold stop_of. by rewrite decide_True. }
  destruct (decide (break_at = Some ord)) as [Hb|Hb].
  { exists s1, [visit_record s o], ds, 1, SBreak. replace (ord + 1) with (S ord) by lia.
    split_and!; try done; try lia.
    - intros m Hm. assert (m = 0) as -> by lia. exact Hfirst.
    - cbn. rewrite Nat.add_0_r. unfold stop_of. rewrite decide_False by done. by rewrite decide_True. }
  assert (Hnone : stop_of break_at panic_at ord = SNone) by (unfold stop_of; rewrite !decide_False by done; done).
  destruct (IH s1 (S i) (S ord) HS1 ltac:(lia) ltac:(lia) ltac:(lia)) as (s2 & recs & ds2 & k & stp & -> & Hlen & Hk & HS2 & Hl2 & Hrecs & Hstp).
  { intros j Hj. eapply same_row_trans; [|apply Hrows; lia]. eapply frame_same_row; [exact Hcc|lia]. }
  exists s2, (visit_record s o :: recs), (ds ++ ds2), (S k), stp. replace (ord + S k) with (S ord + k) by lia.
  split_and!; try done; try (cbn; lia).
  - intros [|m] Hm; [exact Hfirst|]. destruct (Hrecs m ltac:(lia)) as (o1 & s' & ds' & H1 & H2).
    exists o1, s', ds'. replace (i + S m) with (S i + m) by lia. done.
  - destruct stp.
    + destruct Hstp as [-> Hall]. split; [lia|]. intros [|m] Hm; [by rewrite Nat.add_0_r|].
      replace (ord + S m) with (S ord + m) by lia. apply Hall. lia.
    + destruct Hstp as (Hk1 & Hs & Hall). split_and!; [lia| |].
      * replace (ord + (S k - 1)) with (S ord + (k - 1)) by lia. done.
      * intros [|m] Hm; [by rewrite Nat.add_0_r|]. replace (ord + S m) with (S ord + m) by lia. apply Hall. lia.
    + destruct Hstp as (Hk1 & Hs & Hall). split_and!; [lia| |].
      * replace (ord + (S k - 1)) with (S ord + (k - 1)) by lia. done.
      * intros [|m] Hm; [by rewrite Nat.add_0_r|]. replace (ord + S m) with (S ord + m) by lia. apply Hall. lia.
Qed.

(* ---------------------------------------------------------------- the whole query *)

(** The record of visiting position [m] of storage [s] alone. *)
Definition visit_of (s : storage) (acc : list access) (delta : N) (m : nat) : list N :=
  match call_closure s m (version s) delta acc with Some (o, _, _) => visit_record s o | None => [] end.

(** One complete pass over an archetype: one record per dense position, in order. *)
Definition arch_records (s : storage) (acc : list access) (delta : N) : list (list N) :=
  visit_of s acc delta <$> seq 0 (len s).

(** One complete query over a world: the matched archetypes in declaration order. *)
Fixpoint world_records (w : world) (plan : list (option (list access))) (delta : N) : list (list N) :=
  match w, plan with
  | s :: wr, Some acc :: pr => arch_records s acc delta ++ world_records wr pr delta
  | _ :: wr, None :: pr => world_records wr pr delta
  | _, _ => []
  end.

Fixpoint matched_len (w : world) (plan : list (option (list access))) : nat :=
  match w, plan with
  | s :: wr, Some _ :: pr => len s + matched_len wr pr
  | _ :: wr, None :: pr => matched_len wr pr
  | _, _ => 0
  end.

Lemma world_records_length w plan delta : length (world_records w plan delta) = matched_len w plan.
Proof.
  revert plan. induction w as [|s w IH]; intros [|[acc|] pr]; cbn; try done.
  rewrite app_length. unfold arch_records. by rewrite fmap_length, seq_length, IH.
Qed.

(** The stopping rule shared by both levels: calls are numbered ord, ord+1, ..; the first [k] calls
    were made, and the loop stopped because the range ended ([SNone], no call asked to stop) or
    because the last call made asked to (break or panic), no earlier one having done so. *)
Definition stopped (break_at panic_at : option nat) (ord k total : nat) (stp : stop) : Prop :=
  match stp with
  | SNone => k = total /\ (forall m, m < k -> stop_of break_at panic_at (ord + m) = SNone)
  | _ => 1 <= k /\ k <= total /\ stop_of break_at panic_at (ord + (k - 1)) = stp /\
         (forall m, m + 1 < k -> stop_of break_at panic_at (ord + m) = SNone)
  end.

Lemma iter_arch_full ad acc delta break_at panic_at s ord : wf_access ad acc -> SInv ad s ->
  exists s1 recs ds k stp,
    iter_arch (S (len s)) s 0 (len s) (version s) delta acc ord break_at panic_at = Some (s1, recs, ds, ord + k, stp) /\
    recs = take k (arch_records s acc delta) /\ SInv ad s1 /\ len s1 = len s /\
    stopped break_at panic_at ord k (len s) stp.
Proof.
  intros Hacc HS. pose proof HS as (HI & _).
  destruct (iter_arch_spec ad acc (version s) delta break_at panic_at (len s) s Hacc (proj1 (i_ver s HI)) HS eq_refl
              (S (len s)) s 0 ord HS eq_refl ltac:(lia) ltac:(lia) ltac:(intros; apply same_row_refl))
    as (s1 & recs & ds & k & stp & Hit & Hlen & Hk & HS1 & Hl1 & Hrecs & Hstp).
  exists s1, recs, ds, k, stp. split_and!; try done.
  - apply list_eq. intros m. destruct (decide (m < k)) as [Hm|Hm].
    + destruct (Hrecs m Hm) as (o & s' & ds' & Hcc & ->). cbn [Nat.add] in Hcc.
      rewrite lookup_take by done. unfold arch_records. rewrite list_lookup_fmap, lookup_seq_lt by lia. cbn.
      unfold visit_of. by rewrite Hcc.
    + rewrite lookup_take_ge by lia. apply lookup_ge_None. lia.
  - unfold stopped. destruct stp; [destruct Hstp as [-> ?]; split; [lia|done]| |]; destruct Hstp as (? & ? & ?); split_and!; try done; lia.
Qed.

(** ecs_iter!/ecs_iter_borrow! over a whole world: the closure is called on a prefix of the complete
    visiting sequence (every live entity of every matched archetype once, in archetype then dense
    order, each call seeing the entity's own row), and the prefix ends exactly where the closure first
    breaks or panics, whichever archetype that happens in. *)
Theorem iter_world_spec delta break_at panic_at archs w : Forall2 SInv archs w ->
  forall plan ord, wf_plan archs plan ->
  exists w' recs ds k stp, iter_world w plan delta ord break_at panic_at = Some (w', recs, ds, stp) /\
    recs = take k (world_records w plan delta) /\ Forall2 SInv archs w' /\
    Forall2 (fun s s' => len s' = len s) w w' /\
    stopped break_at panic_at ord k (matched_len w plan) stp.
Proof.
  induction 1 as [|ad s archs w HS HW IH]; intros plan ord Hp.
  - exists [], [], [], 0, SNone. destruct plan; cbn; split_and!; try done; try constructor; intros; lia.
  - inversion Hp as [|? oa ? pr Hoa Hpr]; subst. destruct oa as [acc|]; cbn [iter_world world_records matched_len].
    + destruct (iter_arch_full ad acc delta break_at panic_at s ord Hoa HS) as (s1 & recs & ds & k & stp & -> & -> & HS1 & Hl1 & Hst).
      assert (Hal : length (arch_records s acc delta) = len s) by (unfold arch_records; by rewrite fmap_length, seq_length).
      destruct stp.
      * destruct Hst as [-> Hall].
        destruct (IH pr (ord + len s) Hpr) as (w2 & recs2 & ds2 & k2 & stp2 & -> & -> & HW2 & Hlens & Hst2).
        exists (s1 :: w2), (take (len s) (arch_records s acc delta) ++ take k2 (world_records w pr delta)), (ds ++ ds2), (len s + k2), stp2.
        split_and!; [done| |by constructor|by constructor|].
        -- rewrite take_ge by lia. by rewrite take_add_app by done.
        -- unfold stopped in *. destruct stp2.
           ++ destruct Hst2 as [-> Hall2]. split; [done|]. intros m Hm. destruct (decide (m < len s)); [by apply Hall|].
              replace (ord + m) with (ord + len s + (m - len s)) by lia. apply Hall2. lia.
           ++ destruct Hst2 as (A & B & C & D). split_and!; [lia|lia| |].
              ** replace (ord + (len s + k2 - 1)) with (ord + len s + (k2 - 1)) by lia. done.
              ** intros m Hm. destruct (decide (m < len s)); [by apply Hall|].
                 replace (ord + m) with (ord + len s + (m - len s)) by lia. apply D. lia.
           ++ destruct Hst2 as (A & B & C & D). split_and!; [lia|lia| |].
              ** replace (ord + (len s + k2 - 1)) with (ord + len s + (k2 - 1)) by lia. done.
              ** intros m Hm. destruct (decide (m < len s)); [by apply Hall|].
                 replace (ord + m) with (ord + len s + (m - len s)) by lia. apply D. lia.
      * destruct Hst as (A & B & C & D).
        exists (s1 :: w), (take k (arch_records s acc delta)), ds, k, SBreak. split_and!; [done| |by constructor| |].
        -- rewrite take_app_le by lia. done.
        -- constructor; [done|]. clear. induction w; by constructor.
        -- cbn. split_and!; try done; lia.
      * destruct Hst as (A & B & C & D).
        exists (s1 :: w), (take k (arch_records s acc delta)), ds, k, SPanic. split_and!; [done| |by constructor| |].
        -- rewrite take_app_le by lia. done.
        -- constructor; [done|]. clear. induction w; by constructor.
        -- cbn. split_and!; try done; lia.
    + destruct (IH pr ord Hpr) as (w2 & recs2 & ds2 & k2 & stp2 & -> & -> & HW2 & Hlens & Hst2).
      exists (s :: w2), (take k2 (world_records w pr delta)), ds2, k2, stp2. split_and!; [done|done|by constructor|by constructor|done].
Qed.

(** A pass whose closure never breaks or panics makes exactly one call per live entity of the matched
    archetypes: the number of calls is the sum of their len(). *)
Corollary iter_world_complete delta archs w plan ord : Forall2 SInv archs w -> wf_plan archs plan ->
  exists w' ds, iter_world w plan delta ord None None = Some (w', world_records w plan delta, ds, SNone) /\
    length (world_records w plan delta) = matched_len w plan.
Proof.
  intros HW Hp. destruct (iter_world_spec delta None None archs w HW plan ord Hp) as (w' & recs & ds & k & stp & Hit & -> & _ & _ & Hst).
  assert (stp = SNone) as ->.
  { destruct stp; [done| |]; destruct Hst as (_ & _ & Hs & _); unfold stop_of in Hs; by rewrite !decide_False in Hs by done. }
  destruct Hst as [-> _]. exists w', ds. rewrite take_ge in Hit by (by rewrite world_records_length). split; [done|apply world_records_length].
Qed.

(* ---------------------------------------------------------------- ecs_iter_destroy! over one archetype *)

Lemma abs_at_cell s i e r : Inv s -> i < len s -> abs_at s i = Some (e, r) ->
  ents s !! i = Some e /\ forall col, cell s col i = r !! col.
Proof.
  intros HI Hi Ha. destruct (abs_at_some s i HI Hi) as (e' & r' & Ha' & He & Hl). rewrite Ha in Ha'. injection Ha' as <- <-.
  split; [done|]. intros col. unfold abs_at in Ha. rewrite He in Ha. destruct (row_at (cols s) i) as [r0|] eqn:Hr; [|done].
  injection Ha as <-. unfold cell. destruct (cols s !! col) as [c|] eqn:Hc; cbn.
  - by apply (row_at_lookup _ _ _ Hr).
  - symmetry. apply lookup_ge_None. rewrite Hl. by apply lookup_ge_None.
Qed.

Lemma abs_at_same_row ad s s' i : SInv ad s -> SInv ad s' -> i < len s -> i < len s' -> abs_at s i = abs_at s' i -> same_row i s s'.
Proof.
  intros (HI & Ha & _) (HI' & Ha' & _) Hi Hi' Heq.
  destruct (abs_at_some s i HI Hi) as (e & r & Habs & _). pose proof Habs as Habs'. rewrite Heq in Habs'.
  destruct (abs_at_cell s i e r HI Hi Habs) as [He Hc]. destruct (abs_at_cell s' i e r HI' Hi' Habs') as [He' Hc'].
  split_and!; [congruence|congruence|]. intros col. by rewrite Hc, Hc'.
Qed.

Lemma destroy_live cfg s idx e : Inv s -> ents s !! idx = Some e ->
  destroy cfg KEnt s e =
    match arch_next (wrapping cfg) (version s), slot_next (wrapping cfg) (snd e) with
    | None, _ => Panic PArchOverflow s
    | Some _, None => Panic PSlotOverflow s
    | Some va, Some vs' => Ok (destroyed_state cfg s (eslot e) idx e (last_ent s e) va vs') (Some (row_of s idx))
    end.
Proof.
  intros HI He. unfold destroy. cbn [resolve_key]. rewrite (resolve_entity_complete cfg s HI idx e He).
  rewrite (force_destroy_spec cfg s (eslot e) idx e HI He eq_refl).
  destruct (arch_next _ _); [|done]. by destruct (slot_next _ _).
Qed.

(** After swap-removing position [idx], the rows from [idx] on are exactly the former rows after [idx]. *)
Lemma destroyed_rows_shift cfg s idx e va vs' x : Inv s -> ents s !! idx = Some e ->
  (exists j, idx <= j < len s - 1 /\ abs_at (destroyed_state cfg s (eslot e) idx e (last_ent s e) va vs') j = Some x) <->
  (exists j, S idx <= j < len s /\ abs_at s j = Some x).
Proof.
  intros HI He. split.
  - intros (j & Hj & Ha). rewrite (destroyed_abs cfg s (eslot e) idx e va vs' j HI He) in Ha by lia.
    case_decide; [exists (len s - 1); split; [lia|done]|exists j; split; [lia|done]].
  - intros (j & Hj & Ha). destruct (decide (j = len s - 1)) as [->|Hne].
    + exists idx. split; [lia|]. rewrite (destroyed_abs cfg s (eslot e) idx e va vs' idx HI He) by lia. by rewrite decide_True.
    + exists j. split; [lia|]. rewrite (destroyed_abs cfg s (eslot e) idx e va vs' j HI He) by lia. rewrite decide_False by lia. done.
Qed.

Definition destroys (dc : decision) : bool := match dc with DContinueDestroy | DBreakDestroy => true | _ => false end.
Definition breaks (dc : decision) : bool := match dc with DBreak | DBreakDestroy => true | _ => false end.

(** With the version read inside the loop, the only direct handle a call hands out is the current
    direct handle of the visited position. *)
Lemma call_closure_directs acc : forall s i delta o s1 ds, call_closure s i (version s) delta acc = Some (o, s1, ds) ->
  Forall (fun dh => dh = direct_of s i) ds.
Proof.
  assert (G : forall ver a i delta s o s1 ds, call_closure s i ver delta acc = Some (o, s1, ds) -> Forall (fun dh => dh = (pack_dkey (N.of_nat i) a, ver)) ds \/ a <> aid s).
  { intros ver a i delta. induction acc as [|x acc IH]; intros s o s1 ds; cbn [call_closure].
    - intros [= <- <- <-]. by left.
    - destruct (decide (a = aid s)) as [->|]; [|by right]. destruct x as [col m zst| |].
      + destruct (cols s !! col) as [c|]; [|done]. unfold val in *. destruct (c !! i) as [v|]; [|done].
        destruct (m && negb zst && negb (delta =? 0)%N).
        * destruct (write_col s col i (v + delta)%N) as [sw|] eqn:Hw; [|done].
          destruct (call_closure sw i ver delta acc) as [[[o' s2] ds']|] eqn:Hcc; [|done]. intros [= <- <- <-].
          destruct (write_col_spec s col i _ sw Hw) as (_ & _ & _ & _ & _ & _ & _ & _ & Ha & _).
          destruct (IH _ _ _ _ Hcc) as [?|Hne]; [by left|]. by rewrite Ha in Hne.
        * destruct (call_closure s i ver delta acc) as [[[o' s2] ds']|] eqn:Hcc; [|done]. intros [= <- <- <-].
          destruct (IH _ _ _ _ Hcc) as [?|Hne]; [by left|done].
      + destruct (ents s !! i); [|done].
        destruct (call_closure s i ver delta acc) as [[[o' s2] ds']|] eqn:Hcc; [|done]. intros [= <- <- <-].
        destruct (IH _ _ _ _ Hcc) as [?|Hne]; [by left|done].
      + destruct (call_closure s i ver delta acc) as [[[o' s2] ds']|] eqn:Hcc; [|done]. intros [= <- <- <-].
        destruct (IH _ _ _ _ Hcc) as [?|Hne]; [left; by constructor|done]. }
  intros s i delta o s1 ds H. destruct (G (version s) (aid s) i delta s o s1 ds H) as [?|?]; done.
Qed.

Definition dec_at (decs : list decision) (o : nat) : decision := nth_decision decs o.

(** One visit of the reverse loop: the storage [st] at that moment shows the original row at the
    visited position; the closure sees it; the direct handle handed out is the current one. *)
Definition visit_ok (cfg : config) (ad : darch) (acc : list access) (s0 : storage) (p : nat) (rec : list N) : Prop :=
  exists st o s' ds, SInv ad st /\ p < len st /\ same_row p st s0 /\
    call_closure st p (version st) 0%N acc = Some (o, s', ds) /\ rec = visit_record s0 o /\
    Forall (fun dh => resolve_direct cfg st dh = ROk (Some (eslot (default (0%N, 0%N) (ents st !! p)), p))) ds.

(** The reverse loop of ecs_iter_destroy!, when it returns normally.  Started at [idx1] on a storage
    whose rows below [idx1] are the original ones: it visits positions idx1-1, idx1-2, .. once each
    (k visits), stops exactly at the first Break/BreakDestroy, leaves the unvisited rows untouched, and
    the rows it leaves from the stopping position on are exactly the rows that were already there
    beyond [idx1] plus the visited rows whose decision was not a destroy. *)
Lemma iterd_arch_spec cfg ad acc ver0 nz decs s0 : iter_destroy_version_in_loop = true ->
  wf_access ad acc -> SInv ad s0 ->
  forall idx1 s ord din, SInv ad s -> idx1 <= len s -> idx1 <= len s0 -> (forall j, j < idx1 -> abs_at s j = abs_at s0 j) ->
  forall s1 recs ds ord1 stp din1, iterd_arch cfg idx1 s ver0 acc nz ord decs din = Ok (s1, recs, ds, ord1, stp, din1) tt ->
  exists k, ord1 = ord + k /\ length recs = k /\ k <= idx1 /\ SInv ad s1 /\
    (forall t, t < k -> exists rec, recs !! t = Some rec /\ visit_ok cfg ad acc s0 (idx1 - 1 - t) rec) /\
    match stp with
    | SNone => k = idx1 /\ (forall t, t < k -> breaks (dec_at decs (ord + t)) = false)
    | SBreak => 1 <= k /\ breaks (dec_at decs (ord + (k - 1))) = true /\ (forall t, t + 1 < k -> breaks (dec_at decs (ord + t)) = false)
    | SPanic => False
    end /\
    (forall j, j < idx1 - k -> abs_at s1 j = abs_at s0 j) /\ idx1 - k <= len s1 /\
    (forall x, (exists j, idx1 - k <= j < len s1 /\ abs_at s1 j = Some x) <->
               ((exists j, idx1 <= j < len s /\ abs_at s j = Some x) \/
                (exists t, t < k /\ destroys (dec_at decs (ord + t)) = false /\ abs_at s0 (idx1 - 1 - t) = Some x))).
Proof.
  intros Hflag Hacc HS0. induction idx1 as [|idx IH]; intros s ord din HS Hle Hle0 Hrows s1 recs ds ord1 stp din1; cbn [iterd_arch].
  { intros [= <- <- <- <- <- <-]. exists 0. rewrite Nat.add_0_r. split_and!; try done; try lia.
    - intros x. split; [intros (j & Hj & Ha); left; exists j; split; [lia|done]|].
      intros [(j & Hj & Ha)|(t & Ht & _)]; [exists j; split; [lia|done]|lia]. }
  pose proof HS as (HI & Haid & _). pose proof HS0 as (HI0 & Haid0 & _).
  assert ((len s <=? length (ents s)) = true) as -> by (apply Nat.leb_le; rewrite (i_lents s HI); lia).
  rewrite (forallb_cols_len (len s) (len s) (cols s) (i_lcols s HI)) by lia.
  assert ((idx <? len s) = true) as -> by (apply Nat.ltb_lt; lia). cbn [negb orb].
  rewrite Hflag.
  destruct (call_closure_ok ad acc Hacc s idx (version s) 0%N HS ltac:(lia) (proj1 (i_ver s HI))) as (o & sX & dsv & Hcc & _).
  rewrite Hcc.
  destruct (lookup_lt_is_Some_2 (ents s) idx ltac:(rewrite (i_lents s HI); lia)) as [e He]. rewrite He.
  assert (Hsame : same_row idx s s0) by (eapply abs_at_same_row; try done; try lia; apply Hrows; lia).
  assert (Hvr : visit_record s o = visit_record s0 o) by (unfold visit_record; congruence).
  assert (Hvis : visit_ok cfg ad acc s0 idx (visit_record s o)).
  { exists s, o, sX, dsv. split_and!; try done.
    rewrite He. cbn [default from_option id]. eapply Forall_impl; [exact (call_closure_directs acc s idx 0%N o sX dsv Hcc)|].
    intros dh ->. by apply direct_accepted_at_issue. }
  assert (Hidx : forall t, S idx - 1 - S t = idx - 1 - t) by (intros; lia).
  (* the continuation after this visit, on a storage [s'] whose rows below idx are still the original ones *)
  assert (Hcont : forall s' din' (kept : bool), SInv ad s' -> idx <= len s' -> (forall j, j < idx -> abs_at s' j = abs_at s j) ->
    (forall x, (exists j, idx <= j < len s' /\ abs_at s' j = Some x) <->
               ((exists j, S idx <= j < len s /\ abs_at s j = Some x) \/ (kept = true /\ abs_at s0 idx = Some x))) ->
    destroys (dec_at decs ord) = negb kept -> breaks (dec_at decs ord) = false ->
    match iterd_arch cfg idx s' ver0 acc nz (S ord) decs din' with
    | Ok (s2, recs0, ds2, ord2, st, din2) _ => Ok (s2, visit_record s o :: recs0, dsv ++ ds2, ord2, st, din2) tt
    | Panic p (s2, recs0, ds2, ord2, st, din2) => Panic p (s2, visit_record s o :: recs0, dsv ++ ds2, ord2, st, din2)
    | UB => UB
    end = Ok (s1, recs, ds, ord1, stp, din1) tt ->
    exists k, ord1 = ord + k /\ length recs = k /\ k <= S idx /\ SInv ad s1 /\
      (forall t, t < k -> exists rec, recs !! t = Some rec /\ visit_ok cfg ad acc s0 (S idx - 1 - t) rec) /\
      match stp with
      | SNone => k = S idx /\ (forall t, t < k -> breaks (dec_at decs (ord + t)) = false)
      | SBreak => 1 <= k /\ breaks (dec_at decs (ord + (k - 1))) = true /\ (forall t, t + 1 < k -> breaks (dec_at decs (ord + t)) = false)
      | SPanic => False
      end /\
      (forall j, j < S idx - k -> abs_at s1 j = abs_at s0 j) /\ S idx - k <= len s1 /\
      (forall x, (exists j, S idx - k <= j < len s1 /\ abs_at s1 j = Some x) <->
                 ((exists j, S idx <= j < len s /\ abs_at s j = Some x) \/
                  (exists t, t < k /\ destroys (dec_at decs (ord + t)) = false /\ abs_at s0 (S idx - 1 - t) = Some x)))).
  { intros s' din' kept HS' Hle' Hrows' Hsurv Hdes Hbr Hres.
    destruct (iterd_arch cfg idx s' ver0 acc nz (S ord) decs din') as [[[[[[s2 recs0] ds2] ord2] st] din2] []|p [[[[[s2 recs0] ds2] ord2] st] din2]|] eqn:Hit; [|done|done].
    injection Hres as <- <- <- <- <- <-.
    destruct (IH s' (S ord) din' HS' Hle' ltac:(lia) ltac:(intros j Hj; rewrite Hrows' by lia; apply Hrows; lia) _ _ _ _ _ _ Hit)
      as (k & -> & Hlen & Hk & HS2 & Hvisits & Hstp & Hun & Hlen2 & Hsv).
    exists (S k). split_and!; [lia|cbn; lia|lia|done| | | | |].
    - intros [|t] Ht; [exists (visit_record s o); split; [done|]; by replace (S idx - 1 - 0) with idx by lia|].
      destruct (Hvisits t ltac:(lia)) as (rec & Hr & Hv). exists rec. split; [done|]. by rewrite Hidx.
    - destruct st; [| |done].
      + destruct Hstp as [-> Hall]. split; [done|]. intros [|t] Ht; [by rewrite Nat.add_0_r|].
        replace (ord + S t) with (S ord + t) by lia. apply Hall. lia.
      + destruct Hstp as (Hk1 & Hb & Hall). split_and!; [lia| |].
        * replace (ord + (S k - 1)) with (S ord + (k - 1)) by lia. done.
        * intros [|t] Ht; [by rewrite Nat.add_0_r|]. replace (ord + S t) with (S ord + t) by lia. apply Hall. lia.
    - intros j Hj. apply Hun. lia.
    - lia.
    - intros x. replace (S idx - S k) with (idx - k) by lia. rewrite Hsv. rewrite Hsurv. split.
      + intros [[H|[Hk' Hx]]|(t & Ht & Hd & Hx)].
        * by left.
        * right. exists 0. split; [lia|]. rewrite Nat.add_0_r, Hdes, Hk'. split; [done|]. by replace (S idx - 1 - 0) with idx by lia.
        * right. exists (S t). split; [lia|]. replace (ord + S t) with (S ord + t) by lia. split; [done|]. by rewrite Hidx.
      + intros [H|([|t] & Ht & Hd & Hx)].
        * left. by left.
        * left. right. rewrite Nat.add_0_r, Hdes in Hd. replace (S idx - 1 - 0) with idx in Hx by lia. split; [by destruct kept|done].
        * right. exists t. split; [lia|]. replace (ord + S t) with (S ord + t) in Hd by lia. split; [done|]. by rewrite Hidx in Hx. }
  (* the result of stopping at this visit, on storage [s'] *)
  assert (Hstop : forall s' (kept : bool), SInv ad s' -> idx <= len s' -> (forall j, j < idx -> abs_at s' j = abs_at s j) ->
    (forall x, (exists j, idx <= j < len s' /\ abs_at s' j = Some x) <->
               ((exists j, S idx <= j < len s /\ abs_at s j = Some x) \/ (kept = true /\ abs_at s0 idx = Some x))) ->
    destroys (dec_at decs ord) = negb kept -> breaks (dec_at decs ord) = true ->
    exists k, S ord = ord + k /\ length [visit_record s o] = k /\ k <= S idx /\ SInv ad s' /\
      (forall t, t < k -> exists rec, [visit_record s o] !! t = Some rec /\ visit_ok cfg ad acc s0 (S idx - 1 - t) rec) /\
      (1 <= k /\ breaks (dec_at decs (ord + (k - 1))) = true /\ (forall t, t + 1 < k -> breaks (dec_at decs (ord + t)) = false)) /\
      (forall j, j < S idx - k -> abs_at s' j = abs_at s0 j) /\ S idx - k <= len s' /\
      (forall x, (exists j, S idx - k <= j < len s' /\ abs_at s' j = Some x) <->
                 ((exists j, S idx <= j < len s /\ abs_at s j = Some x) \/
                  (exists t, t < k /\ destroys (dec_at decs (ord + t)) = false /\ abs_at s0 (S idx - 1 - t) = Some x)))).
  { intros s' kept HS' Hle' Hrows' Hsurv Hdes Hbr. exists 1. split_and!; try done; try lia.
    - intros t Ht. assert (t = 0) as -> by lia. exists (visit_record s o). split; [done|]. by replace (S idx - 1 - 0) with idx by lia.
    - cbn. by rewrite Nat.add_0_r.
    - intros j Hj. rewrite Hrows' by lia. apply Hrows. lia.
    - intros x. replace (S idx - 1) with idx by lia. rewrite Hsurv. split.
      + intros [H|[Hk' Hx]]; [by left|]. right. exists 0. split; [lia|]. rewrite Nat.add_0_r, Hdes, Hk'. split; [done|]. by rewrite Nat.sub_0_r.
      + intros [H|(t & Ht & Hd & Hx)]; [by left|]. assert (t = 0) as -> by lia. right.
        rewrite Nat.add_0_r, Hdes in Hd. rewrite Nat.sub_0_r in Hx. split; [by destruct kept|done]. }
  (* rows when nothing is removed at this visit *)
  assert (Hkeep : forall x, (exists j, idx <= j < len s /\ abs_at s j = Some x) <->
               ((exists j, S idx <= j < len s /\ abs_at s j = Some x) \/ (true = true /\ abs_at s0 idx = Some x))).
  { intros x. rewrite <- (Hrows idx) by lia. split.
    - intros (j & Hj & Ha). destruct (decide (j = idx)) as [->|]; [by right|left; exists j; split; [lia|done]].
    - intros [(j & Hj & Ha)|[_ Ha]]; [exists j; split; [lia|done]|exists idx; split; [lia|done]]. }
  (* rows after removing this position *)
  assert (Hdrop : forall va vs', let s' := destroyed_state cfg s (eslot e) idx e (last_ent s e) va vs' in
     len s' = len s - 1 /\ (forall j, j < idx -> abs_at s' j = abs_at s j) /\
     forall x, (exists j, idx <= j < len s' /\ abs_at s' j = Some x) <->
               ((exists j, S idx <= j < len s /\ abs_at s j = Some x) \/ (false = true /\ abs_at s0 idx = Some x))).
  { intros va vs' s'. split_and!; [done| |].
    - intros j Hj. unfold s'. rewrite (destroyed_abs cfg s (eslot e) idx e va vs' j HI He) by lia. by rewrite decide_False by lia.
    - intros x. assert (Hl : len s' = len s - 1) by done. rewrite Hl. unfold s'. rewrite (destroyed_rows_shift cfg s idx e va vs' x HI He).
      split; [by left|]. by intros [?|[? _]]. }
  unfold dec_at in *.
  pose proof (destroy_SInv cfg KEnt ad s e HS (hpair32_key32 e (ents_hpair32 s idx e HI He))) as HdS.
  rewrite (destroy_live cfg s idx e HI He) in *.
  destruct (nth_decision decs ord) eqn:Hdec.
  - apply (Hcont s din true); try done. lia.
  - intros [= <- <- <- <- <- <-].
    destruct (Hstop s true HS ltac:(lia) ltac:(done) Hkeep eq_refl eq_refl) as (k & Hk). exists k. exact Hk.
  - destruct (arch_next (wrapping cfg) (version s)) as [va|]; [|done].
    destruct (slot_next (wrapping cfg) (snd e)) as [vs'|]; [|done]. cbv beta iota in HdS |- *.
    destruct (drop_row nz din) as [fired din']. destruct fired; [done|].
    destruct (Hdrop va vs') as (Hl & Hr & Hs).
    apply (Hcont _ din' false); try done. rewrite Hl. lia.
  - destruct (arch_next (wrapping cfg) (version s)) as [va|]; [|done].
    destruct (slot_next (wrapping cfg) (snd e)) as [vs'|]; [|done]. cbv beta iota in HdS |- *.
    destruct (drop_row nz din) as [fired din']. destruct fired; [done|].
    destruct (Hdrop va vs') as (Hl & Hr & Hs).
    intros [= <- <- <- <- <- <-].
    destruct (Hstop _ false HdS ltac:(rewrite Hl; lia) Hr Hs eq_refl eq_refl) as (k & Hk). exists k. exact Hk.
  - done.
Qed.

(** The whole reverse loop over one archetype, as the macro runs it (from len-1 down, version read in
    the loop).  When it returns normally: every visit was of a distinct position len-1, len-2, ..,
    each seeing the original row and receiving a direct handle that is accepted and designates it;
    the loop stopped exactly at the first Break/BreakDestroy; and the rows (handle with its values) of
    the final storage are exactly the original rows that were not both visited and flagged. *)
Theorem iterd_arch_whole cfg ad acc nz decs s ord din s1 recs ds ord1 stp din1 :
  iter_destroy_version_in_loop = true -> wf_access ad acc -> SInv ad s ->
  iterd_arch cfg (len s) s (version s) acc nz ord decs din = Ok (s1, recs, ds, ord1, stp, din1) tt ->
  exists k, ord1 = ord + k /\ length recs = k /\ k <= len s /\ SInv ad s1 /\
    (forall t, t < k -> exists rec, recs !! t = Some rec /\ visit_ok cfg ad acc s (len s - 1 - t) rec) /\
    match stp with
    | SNone => k = len s /\ (forall t, t < k -> breaks (dec_at decs (ord + t)) = false)
    | SBreak => 1 <= k /\ breaks (dec_at decs (ord + (k - 1))) = true /\ (forall t, t + 1 < k -> breaks (dec_at decs (ord + t)) = false)
    | SPanic => False
    end /\
    (forall x, (exists j, j < len s1 /\ abs_at s1 j = Some x) <->
               (exists i, i < len s /\ abs_at s i = Some x /\
                          ~ (len s - 1 - i < k /\ destroys (dec_at decs (ord + (len s - 1 - i))) = true))).
Proof.
  intros Hflag Hacc HS Hit.
  destruct (iterd_arch_spec cfg ad acc (version s) nz decs s Hflag Hacc HS (len s) s ord din HS (le_n _) (le_n _) ltac:(done) _ _ _ _ _ _ Hit)
    as (k & Ho & Hlen & Hk & HS1 & Hvis & Hstp & Hun & Hl1 & Hsv).
  exists k. split_and!; try done. intros x. split.
  - intros (j & Hj & Ha). destruct (decide (j < len s - k)) as [Hlt|Hge].
    + exists j. rewrite <- (Hun j Hlt). split_and!; [lia|done|]. intros [? _]. lia.
    + destruct (proj1 (Hsv x)) as [(j' & Hj' & _)|(t & Ht & Hd & Hx)]; [exists j; split; [lia|done]|lia|].
      exists (len s - 1 - t). split_and!; [lia|done|]. intros [_ Hd']. replace (len s - 1 - (len s - 1 - t)) with t in Hd' by lia. congruence.
  - intros (i & Hi & Ha & Hn). destruct (decide (len s - 1 - i < k)) as [Hv|Hnv].
    + destruct (proj2 (Hsv x)) as (j & Hj & Hj').
      { right. exists (len s - 1 - i). split_and!; [done| |by replace (len s - 1 - (len s - 1 - i)) with i by lia].
        destruct (destroys _) eqn:E; [|done]. exfalso. apply Hn. done. }
      exists j. split; [lia|done].
    + exists i. split; [lia|]. rewrite Hun by lia. done.
Qed.

(** Break/BreakDestroy in one archetype ends the whole ecs_iter_destroy! query: the remaining
    archetypes are returned untouched. *)
Lemma iterd_world_break cfg d a ar s wr acc pr ord decs din s1 recs ds ord1 din1 :
  iterd_arch cfg (len s) s (version s) acc (nz_cols d a) ord decs din = Ok (s1, recs, ds, ord1, SBreak, din1) tt ->
  iterd_world cfg d (a :: ar) (s :: wr) (Some acc :: pr) ord decs din = Ok (s1 :: wr, recs, ds, din1) tt.
Proof. intros H. cbn [iterd_world]. by rewrite H. Qed.

Lemma iterd_world_next cfg d a ar s wr acc pr ord decs din s1 recs ds ord1 din1 :
  iterd_arch cfg (len s) s (version s) acc (nz_cols d a) ord decs din = Ok (s1, recs, ds, ord1, SNone, din1) tt ->
  iterd_world cfg d (a :: ar) (s :: wr) (Some acc :: pr) ord decs din =
    match iterd_world cfg d ar wr pr ord1 decs din1 with
    | Ok (w2, recs2, ds2, din2) _ => Ok (s1 :: w2, recs ++ recs2, ds ++ ds2, din2) tt
    | Panic p (w2, recs2, ds2, din2) => Panic p (s1 :: w2, recs ++ recs2, ds ++ ds2, din2)
    | UB => UB
    end.
Proof. intros H. cbn [iterd_world]. by rewrite H. Qed.

(** An archetype the query does not match is skipped untouched. *)
Lemma iterd_world_unmatched cfg d a ar s wr pr ord decs din :
  iterd_world cfg d (a :: ar) (s :: wr) (None :: pr) ord decs din =
    match iterd_world cfg d ar wr pr ord decs din with
    | Ok (w2, recs2, ds2, din2) _ => Ok (s :: w2, recs2, ds2, din2) tt
    | Panic p (w2, recs2, ds2, din2) => Panic p (s :: w2, recs2, ds2, din2)
    | UB => UB
    end.
Proof. done. Qed.
