(** Run-level corollaries of the world invariant about component cells (C04). *)
From Coq Require Import NArith.
From stdpp Require Import base list.
From Gecs Require Import Prim ExtrStorage Storage StorageInv StorageResolve StorageOps RunFacts Query World Borrow Run WorldInv.
Local Open Scope nat_scope.

Lemma run_cells : forall cfg d qs ops, wf_case d ops = true ->
  exists sts, run_states cfg d qs rs0 ops = Some sts /\ length sts = length ops /\
    Forall (fun st => forall w s, Some w ∈ worlds st -> s ∈ w ->
              Forall (fun c => length c = len s) (cols s) /\ drop_cells s = Some (cols s) /\ clone_storage s = Some s) sts.
Proof.
  intros cfg d qs ops Hwf. destruct (wf_case_never_ub cfg d qs ops Hwf) as (sts & Hrun & Hinv & Hlen).
  exists sts. split_and!; [done|done|]. eapply Forall_impl; [exact Hinv|]. intros st (Hw & _) w s Hin Hs.
  rewrite Forall_forall in Hw. specialize (Hw _ Hin). cbn in Hw.
  destruct (elem_of_list_lookup_1 _ _ Hs) as [i Hi].
  destruct (Forall2_lookup_r _ _ _ _ _ Hw Hi) as (ad & _ & (HI & _)).
  split_and!; [by apply cells_count|by apply drop_cells_spec|by apply clone_storage_spec].
Qed.
