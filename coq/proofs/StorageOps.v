(** Operation-level facts about one storage, assembled from StorageInv/StorageResolve/StorageHist:
    what destroy, clone, the hooks and component writes do to an invariant state, which values
    every position holds afterwards, and how the archetype version moves. *)
From Coq Require Import NArith Lia Bool.
From stdpp Require Import base list numbers option sets.
From Gecs Require Import Prim ExtrBits ExtrVersion ExtrStorage Storage BitsFacts VersionFacts StorageInv StorageResolve StorageHist.
Local Open Scope nat_scope.
Set Default Proof Using "Type".

(* ---------------------------------------------------------------- destroy, as the caller sees it *)

Lemma resolve_key_cases cfg k s h : Inv s -> key32 h ->
  match resolve_key cfg k s h with
  | ROk (Some (si, d)) => exists e, ents s !! d = Some e /\ eslot e = si /\ d < len s /\
        match k with
        | KEnt => hslot h = hslot e /\ snd h = snd e
        | KDir => snd h = version s /\ d = N.to_nat (hdense h)
        end
  | ROk None => True
  | RPanic p => p = PDebug /\ debug cfg = true
  | RUB => False
  end.
Proof.
  intros HI Hk. destruct k; cbn [resolve_key].
  - pose proof (resolve_entity_cases cfg s HI h Hk) as Hc.
    destruct (resolve_entity cfg s h) as [[[si d]|]|p|]; try done.
    + destruct Hc as (e & He & Hes & Hsl & Hv & _). exists e. split_and!; try done.
      by destruct (fwd' s d e HI He) as (_ & _ & _ & ? & _).
    + by destruct Hc as (? & ? & _).
  - pose proof (resolve_direct_cases cfg s HI h Hk) as Hc.
    destruct (resolve_direct cfg s h) as [[[si d]|]|p|]; try done.
    + destruct Hc as (Hv & Hd & Hdl & e & He & Hes). exists e. done.
    + by destruct Hc as (? & ? & _).
Qed.

Inductive destroy_result (cfg : config) (k : kind) (s : storage) (h : handle) : res storage (option (list val)) -> Prop :=
  | dr_absent : destroy_result cfg k s h (Ok s None)
  | dr_panic p : p = PDebug \/ p = PArchOverflow \/ p = PSlotOverflow -> destroy_result cfg k s h (Panic p s)
  | dr_removed d e va vs' :
      ents s !! d = Some e ->
      match k with KEnt => hslot h = hslot e /\ snd h = snd e | KDir => snd h = version s /\ d = N.to_nat (hdense h) end ->
      arch_next (wrapping cfg) (version s) = Some va -> slot_next (wrapping cfg) (snd e) = Some vs' ->
      Inv (destroyed_state cfg s (eslot e) d e (last_ent s e) va vs') ->
      destroy_result cfg k s h (Ok (destroyed_state cfg s (eslot e) d e (last_ent s e) va vs') (Some (row_of s d))).

(** Destroy never yields UB; a panic (debug assertion on a foreign key, or a generation overflow)
    leaves the storage exactly as it was; a removal yields an invariant state. *)
Lemma destroy_cases cfg k s h : Inv s -> key32 h -> destroy_result cfg k s h (destroy cfg k s h).
Proof.
  intros HI Hk. unfold destroy. pose proof (resolve_key_cases cfg k s h HI Hk) as Hc.
  destruct (resolve_key cfg k s h) as [[[si d]|]|p|]; try done.
  - destruct Hc as (e & He & Hes & Hdl & Hkind).
    rewrite (force_destroy_spec cfg s si d e HI He Hes).
    destruct (arch_next (wrapping cfg) (version s)) as [va|] eqn:Hva; [|cbn [rbind]; apply dr_panic; auto].
    destruct (slot_next (wrapping cfg) (snd e)) as [vs'|] eqn:Hvs; [|cbn [rbind]; apply dr_panic; auto].
    cbn [rbind]. subst si. eapply dr_removed; try done.
    destruct (fwd' s d e HI He) as (Hs & _).
    apply destroyed_inv; try done.
    + rewrite arch_next_eq in Hva. eapply slot_next_in; [apply (i_ver s HI)|done].
    + eapply slot_next_in; [|done]. exact (proj2 (i_ver s HI) _ _ Hs).
  - apply dr_absent.
  - destruct Hc as (-> & _). apply dr_panic. auto.
Qed.

(* ---------------------------------------------------------------- values (C02) *)

Lemma row_at_lookup cs d row : row_at cs d = Some row -> forall j c, cs !! j = Some c -> c !! d = row !! j.
Proof.
  revert row. induction cs as [|c0 cs IH]; intros row Hr j c Hj; [done|].
  cbn [row_at] in Hr. destruct (c0 !! d) as [v|] eqn:Hv; [|done]. destruct (row_at cs d) as [r|] eqn:Hr'; [|done].
  injection Hr as <-. destruct j as [|j]; cbn in *; [by injection Hj as <-|]. by eapply IH.
Qed.

Lemma row_at_some cs d n : Forall (fun c => length c = n) cs -> d < n -> exists row, row_at cs d = Some row /\ length row = length cs.
Proof.
  intros Hcs Hd. induction Hcs as [|c cs Hc Hcs IH]; [exists []; split; reflexivity|].
  destruct IH as (r & Hr & Hl). destruct (lookup_lt_is_Some_2 c d ltac:(lia)) as [v Hv].
  exists (v :: r). cbn [row_at]. rewrite Hv, Hr. split; [done|simpl; by rewrite Hl].
Qed.

(** After create: every old position keeps its row; the new position holds exactly the given values. *)
Lemma snoc_cols_row cs vs n i : Forall (fun c => length c = n) cs -> length vs = length cs -> i <= n ->
  row_at (snoc_cols cs vs) i = if decide (i = n) then Some vs else row_at cs i.
Proof.
  intros Hcs. revert vs. induction Hcs as [|c cs Hc Hcs IH]; intros vs Hl Hi.
  - destruct vs; [|simpl in Hl; lia]. cbn. by case_decide.
  - destruct vs as [|v vs]; [simpl in Hl; lia|]. simpl in Hl. unfold snoc_cols. cbn [zip_with row_at].
    fold (snoc_cols cs vs). rewrite (IH vs) by lia.
    destruct (decide (i = n)) as [->|Hne].
    + rewrite lookup_app_r by lia. rewrite Hc, Nat.sub_diag. done.
    + rewrite lookup_app_l by lia. done.
Qed.

(** After destroy (swap-remove at [d]): position [d] holds the former last row, the others are unchanged. *)
Lemma swapped_cols_row cs d n i : Forall (fun c => length c = n) cs -> d < n -> i < n - 1 ->
  row_at (swapped_cols d n cs) i = if decide (i = d) then row_at cs (n - 1) else row_at cs i.
Proof.
  intros Hcs Hd Hi. induction Hcs as [|c cs Hc Hcs IH]; [cbn; by case_decide|].
  destruct (lookup_lt_is_Some_2 c (n - 1) ltac:(lia)) as [y Hy].
  assert (E : swapped_cols d n (c :: cs) = swapped d y c :: swapped_cols d n cs).
  { unfold swapped_cols. cbn [fmap list_fmap]. by rewrite Hy. }
  rewrite E. cbn [row_at]. rewrite IH. rewrite swapped_lookup by lia. rewrite Hy. by case_decide.
Qed.

(** A component write changes exactly one cell. *)
Lemma write_col_spec s col d v s' : write_col s col d v = Some s' ->
  (forall c, cols s !! col = Some c -> cols s' !! col = Some (<[d := v]> c)) /\
  (forall j, j <> col -> cols s' !! j = cols s !! j) /\
  ents s' = ents s /\ slots s' = slots s /\ len s' = len s /\ cap s' = cap s /\ version s' = version s /\
  head s' = head s /\ aid s' = aid s /\ created s' = created s /\ destroyed s' = destroyed s /\
  al_slots s' = al_slots s /\ al_ents s' = al_ents s /\ al_cols s' = al_cols s.
Proof.
  unfold write_col. destruct (cols s !! col) as [c|] eqn:Hc; [|done].
  destruct (d <? length c); [|done]. intros [= <-]. cbn.
  assert (col < length (cols s)) by (by eapply lookup_lt_Some).
  split_and!; try done.
  - intros c' [= <-]. by rewrite list_lookup_insert.
  - intros j Hj. by rewrite list_lookup_insert_ne.
Qed.

Lemma write_col_inv s col d v s' : Inv s -> write_col s col d v = Some s' -> Inv s'.
Proof.
  intros HI Hw. pose proof Hw as Hw'. apply write_col_spec in Hw' as (Hc1 & Hc2 & He & Hs & Hl & Hcp & Hv & Hh & Ha & _ & _ & A1 & A2 & A3).
  destruct HI as [I1 I2 (B1 & B2 & B3) I4 I5 I6 I7 I8 I9 I10 I11].
  constructor; rewrite ?He, ?Hs, ?Hl, ?Hcp, ?Hv, ?Hh, ?Ha, ?A1, ?A2, ?A3; try done.
  unfold write_col in Hw. destruct (cols s !! col) as [c|] eqn:Hc; [|done].
  destruct (d <? length c); [|done]. injection Hw as <-. cbn.
  apply Forall_insert; [done|]. rewrite insert_length. by eapply (Forall_lookup_1 _ _ _ _ I6 Hc).
Qed.

Lemma write_col_some s col d v : Inv s -> col < length (cols s) -> d < len s -> exists s', write_col s col d v = Some s'.
Proof.
  intros HI Hc Hd. destruct (lookup_lt_is_Some_2 _ _ Hc) as [c Hcc]. unfold write_col. rewrite Hcc.
  pose proof (Forall_lookup_1 _ _ _ _ (i_lcols s HI) Hcc) as Hl. simpl in Hl.
  assert ((d <? length c) = true) as -> by (apply Nat.ltb_lt; lia). eauto.
Qed.

(* ---------------------------------------------------------------- clone (C13) *)

Lemma clone_storage_spec s : Inv s -> clone_storage s = Some s.
Proof.
  intros HI. destruct (i_alloc s HI) as (A1 & A2 & A3). pose proof (i_lslots s HI) as Hls.
  pose proof (i_lents s HI) as Hle. pose proof (i_lcols s HI) as Hlc. pose proof (i_le s HI) as Hlen.
  unfold clone_storage. change clone_slots_bound with CBCapacity. change clone_dense_bound with CBLen.
  cbn [clone_bound_of].
  assert ((cap s <=? length (slots s)) = true) as -> by (apply Nat.leb_le; lia).
  assert ((cap s <=? cap s) = true) as -> by (apply Nat.leb_le; lia).
  assert ((len s <=? length (ents s)) = true) as -> by (apply Nat.leb_le; lia).
  rewrite (forallb_cols_len (len s) (len s) (cols s)) by (try done; lia).
  assert ((len s <=? len s) = true) as -> by (apply Nat.leb_le; lia).
  assert ((len s <=? cap s) = true) as -> by (apply Nat.leb_le; lia).
  cbn [negb orb]. f_equal.
  assert (Ecols : take (len s) <$> cols s = cols s).
  { apply list_eq. intros i. rewrite list_lookup_fmap. destruct (cols s !! i) as [c|] eqn:Hc; [|done]. simpl.
    pose proof (Forall_lookup_1 _ _ _ _ Hlc Hc) as Hl. simpl in Hl. by rewrite take_ge by lia. }
  rewrite Ecols, !take_ge by lia. destruct s; cbn in *. by subst.
Qed.

(* ---------------------------------------------------------------- hooks, events *)

Lemma preset_versions_inv s sv av s' : Inv s -> in_ver sv -> in_ver av -> preset_versions s sv av = Ok s' tt ->
  Inv s' /\ len s' = 0 /\ cap s' = cap s /\ ents s' = ents s /\ version s' = av.
Proof.
  intros HI Hsv Hav. unfold preset_versions.
  destruct (len s =? 0) eqn:Hl0; [|done]. apply Nat.eqb_eq in Hl0.
  destruct (N.eqb sv 0); [done|]. destruct (N.eqb av 0); [done|]. cbn [negb orb].
  destruct (cap s <=? length (slots s)); [|done]. cbn [negb]. intros [= <-]. cbn.
  destruct HI as [I1 I2 (B1 & B2 & B3) I4 I5 I6 I7 I8 I9 (fl & Hch & Hnd & Hfl) (I11 & I12)].
  split_and!; try done. constructor; cbn; try done.
  - by rewrite fmap_length.
  - intros i e Hi. exfalso. apply lookup_lt_Some in Hi. lia.
  - intros k x i Hk Hx. rewrite list_lookup_fmap in Hk. destruct (slots s !! k) as [y|] eqn:Hy; [|done].
    injection Hk as <-. simpl in Hx. destruct (I9 _ _ _ Hy Hx) as (e & He & _). apply lookup_lt_Some in He. lia.
  - exists fl. split_and!; [|done|done]. by apply chain_fmap_ver.
  - split; [done|]. intros k x Hk. rewrite list_lookup_fmap in Hk. destruct (slots s !! k); [|done]. by injection Hk as <-.
Qed.

Lemma clear_events_inv s : Inv s -> Inv (clear_events s).
Proof. intros [I1 I2 I3 I4 I5 I6 I7 I8 I9 I10 I11]. by constructor. Qed.

(* ---------------------------------------------------------------- versions (C09) *)

(** The archetype version is untouched by create and strictly increases at every removal
    (without wrapping_version; with it, it changes at every removal that does not wrap). *)
Lemma created_version cfg s h x vs : version (created_state cfg s h x vs) = version s.
Proof. done. Qed.

Lemma destroyed_version cfg s si d e le va vs' : version (destroyed_state cfg s si d e le va vs') = va.
Proof. done. Qed.

Lemma arch_next_checked_lt v va : arch_next false v = Some va -> (v < va)%N.
Proof. rewrite arch_next_eq. intros H. apply slot_next_checked in H as [-> _]. lia. Qed.

Lemma arch_next_ne w v va : in_ver v -> arch_next w v = Some va -> va <> v.
Proof.
  intros Hv. rewrite arch_next_eq. destruct w.
  - rewrite slot_next_wrapping by done. intros [= <-]. unfold in_ver, VERSION_START in *.
    destruct (N.eqb_spec v (2^32 - 1)); change (2^32)%N with 4294967296%N in *; lia.
  - intros H. apply slot_next_checked in H as [-> _]. lia.
Qed.

(* ---------------------------------------------------------------- the abstraction: position -> (handle, row) *)

Definition abs_at (s : storage) (i : nat) : option (handle * list val) :=
  match ents s !! i, row_at (cols s) i with Some e, Some r => Some (e, r) | _, _ => None end.

Lemma abs_at_some s i : Inv s -> i < len s -> exists e r, abs_at s i = Some (e, r) /\ ents s !! i = Some e /\ length r = length (cols s).
Proof.
  intros HI Hi. destruct (lookup_lt_is_Some_2 (ents s) i ltac:(rewrite (i_lents s HI); done)) as [e He].
  destruct (row_at_some (cols s) i (len s) (i_lcols s HI) Hi) as (r & Hr & Hl).
  exists e, r. unfold abs_at. by rewrite He, Hr.
Qed.

(** create appends one entity with exactly the given values; every other position is untouched. *)
Lemma created_abs cfg s h x vs i : Inv s -> length vs = length (cols s) -> i <= len s ->
  abs_at (created_state cfg s h x vs) i = if decide (i = len s) then Some (created_handle s h x, vs) else abs_at s i.
Proof.
  intros HI Hvs Hi. unfold abs_at, created_state. cbn [ents cols].
  rewrite (snoc_cols_row (cols s) vs (len s) i) by (try done; apply (i_lcols s HI)).
  case_decide as Hd.
  - subst. rewrite lookup_app_r by (rewrite (i_lents s HI); lia). by rewrite (i_lents s HI), Nat.sub_diag.
  - rewrite lookup_app_l by (rewrite (i_lents s HI); lia). done.
Qed.

(** destroy swap-removes position [d]: the former last entity (with its own row) now sits at [d],
    every other surviving position is untouched, and exactly one position disappears. *)
Lemma destroyed_abs cfg s si d e va vs' i : Inv s -> ents s !! d = Some e -> i < len s - 1 ->
  abs_at (destroyed_state cfg s si d e (last_ent s e) va vs') i = if decide (i = d) then abs_at s (len s - 1) else abs_at s i.
Proof.
  intros HI Hd Hi. assert (Hdl : d < len s) by (rewrite <- (i_lents s HI); by eapply lookup_lt_Some).
  destruct (lookup_lt_is_Some_2 (ents s) (len s - 1) ltac:(rewrite (i_lents s HI); lia)) as [le Hlast].
  unfold abs_at, destroyed_state, last_ent. cbn [ents cols]. rewrite Hlast. cbn [default from_option id].
  rewrite swapped_lookup by (rewrite (i_lents s HI); lia).
  rewrite (swapped_cols_row (cols s) d (len s) i (i_lcols s HI)) by lia.
  case_decide; done.
Qed.

Lemma row_at_insert (cs : list (list val)) col c d v i : cs !! col = Some c -> d < length c ->
  row_at (<[col := <[d := v]> c]> cs) i =
    match row_at cs i with Some r => Some (if decide (i = d) then <[col := v]> r else r) | None => None end.
Proof.
  revert col. induction cs as [|c0 cs IH]; intros col Hc Hd; [done|].
  destruct col as [|col]; simpl in Hc.
  - injection Hc as ->. simpl. destruct (decide (i = d)) as [->|Hne].
    + rewrite list_lookup_insert by done. destruct (lookup_lt_is_Some_2 c d Hd) as [old ->].
      by destruct (row_at cs d).
    + rewrite list_lookup_insert_ne by done. destruct (c !! i); [|done]. by destruct (row_at cs i).
  - simpl. rewrite (IH col Hc Hd). destruct (c0 !! i); [|done]. destruct (row_at cs i) as [r|]; [|done].
    by destruct (decide (i = d)).
Qed.

Lemma write_col_abs s col d v s' i : write_col s col d v = Some s' ->
  abs_at s' i = match abs_at s i with
                | Some (e, r) => Some (e, if decide (i = d) then <[col := v]> r else r)
                | None => None
                end.
Proof.
  intros Hw. unfold abs_at. unfold write_col in Hw.
  destruct (cols s !! col) as [c|] eqn:Hc; [|done]. destruct (d <? length c) eqn:Hdl; [|done].
  apply Nat.ltb_lt in Hdl. injection Hw as <-. cbn [ents cols].
  destruct (ents s !! i) as [e|]; [|done]. rewrite (row_at_insert (cols s) col c d v i Hc Hdl).
  by destruct (row_at (cols s) i).
Qed.

(* ---------------------------------------------------------------- reading everything (C06) *)

Lemma all_rows_placeholder : True.
Proof. done. Qed.

(* ---------------------------------------------------------------- direct handles (C09) *)

Definition direct_of (s : storage) (d : nat) : handle := (pack_dkey (N.of_nat d) (aid s), version s).

Lemma hdense_direct_of s d : Inv s -> d < len s -> hdense (direct_of s d) = N.of_nat d /\ key32 (direct_of s d).
Proof.
  intros HI Hd. pose proof (i_le s HI) as Hle.
  assert (H24 : (N.of_nat d < 2^24)%N) by (eapply cap_lt_pow24; [done|lia]).
  unfold hdense, direct_of, key32. cbn [fst]. rewrite dkey_index_eq, pack_dkey_eq. split.
  - apply key_index_pack; [done|apply (i_aid s HI)].
  - apply pack_key_lt; [done|apply (i_aid s HI)].
Qed.

(** to_direct on an accepted entity key yields the direct handle of its position, and that handle is
    accepted at once, designating the same position. *)
Lemma to_direct_ent_spec cfg s h si d : Inv s -> resolve_entity cfg s h = ROk (Some (si, d)) ->
  to_direct cfg KEnt s h = ROk (Some (direct_of s d)).
Proof. intros HI Hr. unfold to_direct. by rewrite Hr. Qed.

Lemma direct_accepted_at_issue cfg s d e : Inv s -> ents s !! d = Some e ->
  resolve_direct cfg s (direct_of s d) = ROk (Some (eslot e, d)).
Proof.
  intros HI He. assert (Hd : d < len s) by (rewrite <- (i_lents s HI); by eapply lookup_lt_Some).
  destruct (hdense_direct_of s d HI Hd) as (Hh & Hk).
  eapply resolve_direct_complete; try done.
Qed.

(** A direct handle is rejected, without UB or panic, as soon as the archetype version differs from its own. *)
Lemma direct_rejected_other_version cfg s h : Inv s -> key32 h -> snd h <> version s -> resolve_direct cfg s h = ROk None.
Proof.
  intros HI Hk Hv. pose proof (resolve_direct_cases cfg s HI h Hk) as Hc.
  destruct (resolve_direct cfg s h) as [[[si d]|]|p|]; try done.
  - by destruct Hc as (? & _).
  - by destruct Hc as (_ & _ & ? & _).
Qed.

(** to_direct on a direct key validates it (since the fix recorded as F2). *)
Lemma to_direct_dir_spec cfg s h : to_direct_of_direct_validates = true ->
  to_direct cfg KDir s h = match resolve_direct cfg s h with
                           | ROk (Some _) => ROk (Some h) | ROk None => ROk None | RPanic p => RPanic p | RUB => RUB end.
Proof. intros H. unfold to_direct. by rewrite H. Qed.

(** A create keeps every position below the old len, and the version: accepted direct handles stay
    accepted and keep designating the same entity. *)
Lemma created_keeps_directs cfg s h x vs hd si d : Inv s -> Inv (created_state cfg s h x vs) -> key32 hd ->
  resolve_direct cfg s hd = ROk (Some (si, d)) ->
  resolve_direct cfg (created_state cfg s h x vs) hd = ROk (Some (si, d)) /\
  ents (created_state cfg s h x vs) !! d = ents s !! d.
Proof.
  intros HI HI' Hk Hr. pose proof (resolve_direct_cases cfg s HI hd Hk) as Hc. rewrite Hr in Hc.
  destruct Hc as (Hv & Hd & Hdl & e & He & Hes).
  assert (He' : ents (created_state cfg s h x vs) !! d = Some e).
  { unfold created_state. cbn [ents]. by apply lookup_app_l_Some. }
  split; [|by rewrite He'].
  rewrite <- Hes. eapply resolve_direct_complete; try done. rewrite Hd. lia.
Qed.

(** Any removal changes the archetype version (strictly increases it without wrapping_version), so
    every direct handle issued before it is rejected afterwards. *)
Lemma destroyed_rejects_directs cfg s si d e va vs' hd : Inv s -> Inv (destroyed_state cfg s si d e (last_ent s e) va vs') ->
  key32 hd -> snd hd = version s -> arch_next (wrapping cfg) (version s) = Some va ->
  resolve_direct cfg (destroyed_state cfg s si d e (last_ent s e) va vs') hd = ROk None.
Proof.
  intros HI HI' Hk Hv Hva. apply direct_rejected_other_version; [done|done|].
  cbn [version destroyed_state]. rewrite Hv. intros E. symmetry in E. revert E.
  eapply arch_next_ne; [apply (i_ver s HI)|done].
Qed.
