(** C09 for whole histories: the archetype version never decreases along a history (without
    wraparound) and strictly increases with every removal; hence a direct handle that was accepted
    before some entity left the archetype is rejected ever after. *)
From Coq Require Import NArith Lia Bool.
From stdpp Require Import base list numbers option sets.
From Gecs Require Import Prim ExtrBits ExtrVersion ExtrStorage ExtrQuery Storage Query World Borrow Run
                         BitsFacts VersionFacts StorageInv StorageResolve StorageHist StorageOps RunFacts WorldInv LoopFacts HistRun.
Local Open Scope nat_scope.
Set Default Proof Using "Type".

(** One transition: the version does not decrease; if an entity left the dense array it increased. *)
Lemma estep_version ac wr cfg s s' : wrapping cfg = false -> Inv s -> estep ac wr cfg s s' ->
  (version s <= version s')%N /\ ((exists e, e ∈ ents s /\ e ∉ ents s') -> (version s < version s')%N).
Proof.
  intros Hw HI Hstep. destruct Hstep as [s vs s' h Hvs Hp|s vs s' h Hvs Hp|s k h s' row Hk Hd|s s' HI' (Ea & Ec & Ee & Es & _ & _ & Hv)].
  - destruct (push_spec cfg s vs HI Hvs) as [Ho _]. rewrite Hp in Ho.
    inversion Ho as [h0 x Hlt Hh Hx|n h0 x Hfull Hn Hnc Hneq Hh Hx|]; try clear Hneq; subst.
    + split; [rewrite created_version; lia|]. intros (e & He & Hne). exfalso. apply Hne. unfold created_state. cbn [ents]. set_solver.
    + split; [rewrite created_version; cbn; lia|]. intros (e & He & Hne). exfalso. apply Hne. unfold created_state, grown. cbn [ents]. set_solver.
  - pose proof (push_within_spec cfg s vs HI Hvs) as Hs. case_decide as Hlt; [|by rewrite Hp in Hs].
    destruct Hs as (h0 & x & Hpw & _). rewrite Hp in Hpw. injection Hpw as -> _.
    split; [rewrite created_version; lia|]. intros (e & He & Hne). exfalso. apply Hne. unfold created_state. cbn [ents]. set_solver.
  - pose proof (destroy_cases cfg k s h HI Hk) as Hc. rewrite Hd in Hc.
    inversion Hc as [| |d e0 va vs' He Hkind Hva Hvs HI']; subst. rewrite destroyed_version.
    rewrite Hw in Hva. apply arch_next_checked_lt in Hva. split; [lia|intros _; done].
  - split; [done|]. intros (e & He & Hn). rewrite Ee in Hn. done.
Qed.

Theorem esteps_version ac wr cfg s s' : wrapping cfg = false -> Inv s -> esteps ac wr cfg s s' ->
  (version s <= version s')%N /\ ((exists e, e ∈ ents s /\ e ∉ ents s') -> (version s < version s')%N).
Proof.
  intros Hw HI Hs. induction Hs as [s|s s1 s' H1 Hs IH]; [split; [lia|intros (e & ? & ?); done]|].
  destruct (estep_version ac wr cfg s s1 Hw HI H1) as [Hle1 Hlt1].
  assert (HI1 : Inv s1).
  { destruct H1 as [s vs s1 h Hvs Hp|s vs s1 h Hvs Hp|s k h s1 row Hk Hd|s s1 HI1 _]; [| | |done].
    - destruct (push_spec cfg s vs HI Hvs) as [_ Hi]. by rewrite Hp in Hi.
    - pose proof (push_within_spec cfg s vs HI Hvs) as Hsp. case_decide; [|by rewrite Hp in Hsp].
      destruct Hsp as (h0 & x & Hpw & HI' & _). rewrite Hp in Hpw. by injection Hpw as -> _.
    - pose proof (destroy_cases cfg k s h HI Hk) as Hc. rewrite Hd in Hc. by inversion Hc. }
  destruct (IH HI1) as [Hle2 Hlt2]. split; [lia|].
  intros (e & He & Hn). destruct (decide (e ∈ ents s1)) as [Hin|Hout].
  - specialize (Hlt2 (ex_intro _ e (conj Hin Hn))). lia.
  - specialize (Hlt1 (ex_intro _ e (conj He Hout))). lia.
Qed.

(** A direct handle accepted before an entity left the archetype is rejected afterwards, whatever else happened. *)
Theorem direct_dies_with_any_removal ac wr cfg s s' dh si d : wrapping cfg = false -> Inv s -> esteps ac wr cfg s s' -> Inv s' ->
  key32 dh -> resolve_direct cfg s dh = ROk (Some (si, d)) -> (exists e, e ∈ ents s /\ e ∉ ents s') ->
  resolve_direct cfg s' dh = ROk None.
Proof.
  intros Hw HI Hs HI' Hk Hr Hrem.
  destruct (esteps_version ac wr cfg s s' Hw HI Hs) as [_ Hlt]. specialize (Hlt Hrem).
  pose proof (resolve_key_cases cfg KDir s dh HI Hk) as Hc. cbn [resolve_key] in Hc. rewrite Hr in Hc.
  destruct Hc as (e & _ & _ & _ & Hv & _).
  apply direct_rejected_other_version; [done|done|]. rewrite Hv. lia.
Qed.

(** The run language: between two points of a history between which some entity left archetype [a] of
    world [i] (by any path), every direct handle accepted at the first point is rejected at the second. *)
Theorem run_direct_dies cfg d qs ops1 ops2 st1 st2 i a w1 w2 s1 s2 dh si dd :
  hist_case cfg d qs (ops1 ++ ops2) = true ->
  run_to cfg d qs rs0 ops1 = Some st1 -> run_to cfg d qs st1 ops2 = Some st2 ->
  worlds st1 !! i = Some (Some w1) -> worlds st2 !! i = Some (Some w2) -> w1 !! a = Some s1 -> w2 !! a = Some s2 ->
  key32 dh -> resolve_direct cfg s1 dh = ROk (Some (si, dd)) -> (exists e, e ∈ ents s1 /\ e ∉ ents s2) ->
  resolve_direct cfg s2 dh = ROk None.
Proof.
  intros Hc R1 R2 W1 W2 S1 S2 Hk Hr Hrem.
  destruct (run_two_points cfg d qs ops1 ops2 st1 st2 i a w1 w2 s1 s2 Hc R1 R2 W1 W2 S1 S2) as (Hw & Hr1 & Hs).
  destruct (sreach_hist2 true true cfg s1 Hw Hr1) as (HI1 & iss1 & dead1 & H1).
  destruct (esteps_hist2 true true cfg s1 s2 iss1 dead1 Hw HI1 H1 Hs) as (HI2 & _).
  by eapply (direct_dies_with_any_removal true true cfg s1 s2 dh si dd).
Qed.

(* ---------------------------------------------------------------- capacity (C12) *)

Lemma estep_capacity ac wr cfg s s' : Inv s -> estep ac wr cfg s s' -> cap s <= cap s' /\ Inv s'.
Proof.
  intros HI Hstep. destruct Hstep as [s vs s' h Hvs Hp|s vs s' h Hvs Hp|s k h s' row Hk Hd|s s' HI' (Ea & Ec & _)].
  - destruct (push_spec cfg s vs HI Hvs) as [Ho Hi]. rewrite Hp in Ho, Hi. split; [|done].
    inversion Ho as [h0 x Hlt Hh Hx|n h0 x Hfull Hn Hnc Hneq Hh Hx|]; try clear Hneq; subst; cbn; lia.
  - pose proof (push_within_spec cfg s vs HI Hvs) as Hs. case_decide as Hlt; [|by rewrite Hp in Hs].
    destruct Hs as (h0 & x & Hpw & HI' & Hc & _). rewrite Hp in Hpw. injection Hpw as -> _. split; [lia|done].
  - pose proof (destroy_cases cfg k s h HI Hk) as Hc. rewrite Hd in Hc.
    inversion Hc as [| |d e0 va vs' He Hkind Hva Hvs HI']; subst. split; [cbn; lia|done].
  - split; [lia|done].
Qed.

(** capacity() never decreases along any history, and len() is the number of stored handles throughout. *)
Theorem esteps_capacity ac wr cfg s s' : Inv s -> esteps ac wr cfg s s' ->
  cap s <= cap s' /\ Inv s' /\ len s' = length (ents s') /\ len s' <= cap s'.
Proof.
  intros HI Hs. induction Hs as [s|s s1 s' H1 Hs IH].
  - split_and!; [lia|done|by rewrite (i_lents s HI)|apply (i_le s HI)].
  - destruct (estep_capacity ac wr cfg s s1 HI H1) as [Hc HI1]. destruct (IH HI1) as (Hc' & ? & ? & ?). split_and!; try done. lia.
Qed.

Theorem run_capacity_monotone cfg d qs ops1 ops2 st1 st2 i a w1 w2 s1 s2 :
  hist_case cfg d qs (ops1 ++ ops2) = true ->
  run_to cfg d qs rs0 ops1 = Some st1 -> run_to cfg d qs st1 ops2 = Some st2 ->
  worlds st1 !! i = Some (Some w1) -> worlds st2 !! i = Some (Some w2) -> w1 !! a = Some s1 -> w2 !! a = Some s2 ->
  cap s1 <= cap s2 /\ len s2 = length (ents s2) /\ len s2 <= cap s2.
Proof.
  intros Hc R1 R2 W1 W2 S1 S2.
  destruct (run_two_points cfg d qs ops1 ops2 st1 st2 i a w1 w2 s1 s2 Hc R1 R2 W1 W2 S1 S2) as (Hw & Hr1 & Hs).
  destruct (sreach_hist2 true true cfg s1 Hw Hr1) as (HI1 & _).
  destruct (esteps_capacity true true cfg s1 s2 HI1 Hs) as (? & _ & ? & ?). done.
Qed.
