(** The specification oracle (spec/Spec.v) against the model: for the conversion operation, whose
    oracle needs no knowledge of the world's state, the oracle accepts the model's own observation for
    EVERY raw pair and EVERY declaration - i.e. the model satisfies the declarative reading of C14 the
    oracle enforces on the implementation, and the oracle can never raise that alarm on code that
    behaves like the model. *)
From Coq Require Import NArith Lia Bool.
From stdpp Require Import base list numbers option.
From Gecs Require Import Prim ExtrBits ExtrVersion ExtrStorage Storage Query World Borrow Run BitsFacts ConvFacts Spec.
Local Open Scope nat_scope.

Lemma conv_arch_laws_model_ent archs key ver tail :
  conv_arch_laws archs key ver (key_arch_id key)
    (concat ((fun a => match try_from_any (da_id a) (key, ver) with
                       | Some t => [1%N; fst (raw_of (into_any t)); snd (raw_of (into_any t)); da_id a]
                       | None => [0%N] end) <$> archs) ++ tail) = Some tail.
Proof.
  induction archs as [|a ar IH]; [done|]. cbn [fmap list_fmap concat conv_arch_laws].
  unfold try_from_any, conv_ok. cbn [fst snd]. rewrite (N.eqb_sym (da_id a)).
  destruct (N.eqb_spec (key_arch_id key) (da_id a)) as [E|E].
  - cbn [raw_of into_any fst snd app]. rewrite !N.eqb_refl. cbn [andb]. exact IH.
  - cbn [app]. exact IH.
Qed.

Lemma conv_arch_laws_model_dir archs key ver tail :
  conv_arch_laws archs key ver (dkey_arch_id key)
    (concat ((fun a => match try_from_dany (da_id a) (key, ver) with
                       | Some t => [1%N; fst t; snd t; da_id a]
                       | None => [0%N] end) <$> archs) ++ tail) = Some tail.
Proof.
  induction archs as [|a ar IH]; [done|]. cbn [fmap list_fmap concat conv_arch_laws].
  unfold try_from_dany, dconv_ok. cbn [fst snd]. rewrite (N.eqb_sym (da_id a)).
  destruct (N.eqb_spec (dkey_arch_id key) (da_id a)) as [E|E].
  - cbn [fst snd app]. rewrite !N.eqb_refl. cbn [andb]. exact IH.
  - cbn [app]. exact IH.
Qed.

(** The oracle's search for the first archetype with an id is the model's [find_arch]. *)
Lemma conv_find_spec archs aid i :
  conv_find archs aid i = match find_arch archs aid with
                          | Some a => Some ((i + N.of_nat a)%N, aid)
                          | None => None
                          end.
Proof.
  revert i. induction archs as [|x ar IH]; intros i; [done|]. cbn [conv_find find_arch].
  destruct (N.eqb_spec (da_id x) aid) as [E|E].
  - rewrite E. f_equal. f_equal. lia.
  - rewrite IH. destruct (find_arch ar aid) as [a|]; cbn; [|done]. f_equal. f_equal. lia.
Qed.

Theorem conv_oracle_accepts_the_model_ent cfg d qs sst key ver :
  spec_step cfg d qs sst (OConv KEnt (RRaw key ver)) (conv_obs (wd_archs d) KEnt (key, ver)) = inr sst.
Proof.
  unfold conv_obs, from_raw, raw_ok, nonzero_new. cbn [snd].
  destruct (N.eqb_spec ver 0) as [Hz|Hnz].
  { cbn [spec_step]. subst ver. done. }
  cbn [raw_of fst snd handle_archetype_id app]. cbn [spec_step].
  destruct (N.eqb_spec ver 0) as [|_]; [done|]. rewrite !N.eqb_refl. cbn [andb negb].
  unfold handle_archetype_id. cbn [fst].
  rewrite conv_arch_laws_model_ent.
  rewrite conv_find_spec. unfold select_entity. cbn [fst].
  destruct (find_arch (wd_archs d) (key_arch_id key)) as [a|] eqn:Hf.
  - destruct (find_arch_some _ _ _ Hf) as (ad & Had & Hda & _). cbn [mbind option_bind]. rewrite Had.
    cbn [app]. rewrite N.add_0_l, Hda, !N.eqb_refl. done.
  - cbn [mbind option_bind app]. done.
Qed.

Theorem conv_oracle_accepts_the_model_dir cfg d qs sst key ver :
  spec_step cfg d qs sst (OConv KDir (RRaw key ver)) (conv_obs (wd_archs d) KDir (key, ver)) = inr sst.
Proof.
  unfold conv_obs. cbn [fst snd app]. cbn [spec_step]. rewrite !N.eqb_refl. cbn [andb negb].
  rewrite conv_arch_laws_model_dir.
  rewrite conv_find_spec. unfold select_direct. cbn [fst].
  destruct (find_arch (wd_archs d) (dkey_arch_id key)) as [a|] eqn:Hf.
  - cbn [app]. rewrite N.add_0_l, !N.eqb_refl. done.
  - cbn [app]. done.
Qed.

(** The same for the operation of the run language: whatever the state, the observation the model prints
    for a conversion of a raw pair is accepted by the oracle, which does not change its own state. *)
Theorem conv_step_accepted cfg d qs st sst key ver :
  match step cfg d qs st (OConv KEnt (RRaw key ver)) with
  | Some (st', obs) => st' = st /\ spec_step cfg d qs sst (OConv KEnt (RRaw key ver)) obs = inr sst
  | None => False
  end.
Proof. cbn [step get_href ret]. split; [done|]. apply conv_oracle_accepts_the_model_ent. Qed.

(* ---------------------------------------------------------------- world bookkeeping operations *)

Lemma new_world_panics archs caps p w : new_world archs caps = Panic p w ->
  p = PCapExceed /\ existsb (fun c => N.ltb MAX_DATA_CAPACITY (N.of_nat c)) caps = true.
Proof.
  revert caps. induction archs as [|a ar IH]; intros [|c cr]; cbn [new_world]; try done.
  unfold with_capacity, with_capacity_panics.
  destruct (N.ltb_spec MAX_DATA_CAPACITY (N.of_nat c)) as [Hgt|Hle].
  - intros [= <- <-]. split; [done|]. cbn [existsb]. destruct (N.ltb_spec MAX_DATA_CAPACITY (N.of_nat c)); [done|lia].
  - destruct (new_world ar cr) as [w' []|p' w'|] eqn:Hn; [done| |done].
    intros [= <- <-]. destruct (IH cr Hn) as [-> He]. split; [done|]. cbn [existsb]. by rewrite He, orb_true_r.
Qed.

(** Creating, switching to and dropping worlds, and arming faults: whatever the state, the oracle accepts
    what the model prints (it has no grounds to raise an alarm on these operations unless the
    implementation deviates from the model). *)
Theorem bookkeeping_steps_accepted cfg d qs st sst o :
  match o with ONew _ | OSwitch _ | ODrop _ | OFault _ _ => True | _ => False end ->
  match step cfg d qs st o with
  | Some (_, obs) => exists sst', spec_step cfg d qs sst o obs = inr sst'
  | None => True
  end.
Proof.
  destruct o as [caps| |i|i| | | | | | | | | | | | | | | | | f n| |]; try done; intros _; cbn [step].
  - destruct (new_world (wd_archs d) caps) as [w []|p w|] eqn:Hn; [| |done]; cbn [ret].
    + eexists. cbn [spec_step]. done.
    + destruct (new_world_panics _ _ _ _ Hn) as [-> He]. eexists. cbn [spec_step pcode]. by rewrite He.
  - destruct (mjoin (worlds st !! i)); cbn [ret]; eexists; cbn [spec_step]; done.
  - destruct (mjoin (worlds st !! i)); cbn [ret]; [|eexists; cbn [spec_step]; done].
    destruct (drop_world d (wd_archs d) w (drop_in st)) as [[[[lt lz] fired] din]|]; [|done]. cbn [ret].
    destruct fired; eexists; cbn [spec_step pcode]; done.
  - cbn [ret]. eexists. cbn [spec_step]. done.
Qed.

(* ---------------------------------------------------------------- lookups: the oracle's path checks *)
From Gecs Require Import StorageInv StorageResolve StorageOps RunFacts WorldInv LoopFacts ObsFacts.

(** The archetype id a direct handle of this storage carries. *)
Lemma direct_of_id s d : Inv s -> d < len s -> dkey_arch_id (fst (direct_of s d)) = aid s.
Proof.
  intros HI Hd. pose proof (i_le s HI) as Hle.
  assert (H24 : (N.of_nat d < 2^24)%N) by (eapply cap_lt_pow24; [done|lia]).
  unfold direct_of. cbn [fst]. rewrite dkey_arch_id_eq, pack_dkey_eq. apply key_arch_id_pack; [done|apply (i_aid s HI)].
Qed.

(** The oracle's verdict functions (what it runs on every probe observation of the implementation) accept
    the model's closed-form observations whenever its belief about the entity is the truth: for a stored
    handle the belief "must be accepted, designates e, has these values"; for an unstored one "must be
    rejected".  World level, dynamically typed key: *)
Lemma oracle_accepts_stored_world prop s d e row : Inv s -> d < len s ->
  exists os, take_outcomes (probe_shape LWorld false 0) (acc_world false s d e row) = Some os /\
    check_paths prop LWorld false 0 os (Some true) (Some e) (Some row) (aid s) = None /\ paths_consistent os = true.
Proof.
  intros HI Hd. pose proof (direct_of_id s d HI Hd) as Hid.
  unfold acc_world, acc_direct, acc_find, o_handle, probe_shape. destruct e as [ek ev]. cbn [fst snd app].
  eexists. split; [reflexivity|]. cbn [check_paths check_acc_payload Nat.eqb andb orb negb take].
  unfold heqb. rewrite !Hid, !N.eqb_refl. cbn [fst snd andb negb]. rewrite ?N.eqb_refl. cbn [andb negb]. done.
Qed.

Lemma oracle_accepts_unstored_world prop h vals a :
  exists os, take_outcomes (probe_shape LWorld false 0) (rej_world false) = Some os /\
    check_paths prop LWorld false 0 os (Some false) h vals a = None /\ paths_consistent os = true.
Proof. eexists. split; [reflexivity|]. done. Qed.

Lemma take_outcomes_acc n sr payload rest : length payload = n ->
  take_outcomes (n :: sr) (1%N :: payload ++ rest) = (fun os => OAcc payload :: os) <$> take_outcomes sr rest.
Proof.
  intros Hn. cbn [take_outcomes take_outcome].
  assert ((n <=? length (payload ++ rest)) = true) as -> by (apply Nat.leb_le; rewrite app_length; lia).
  rewrite take_app_alt, drop_app_alt by done. done.
Qed.

(** Archetype level (contains, resolve, to_direct, view, borrow), where the views also show the row: *)
Lemma oracle_accepts_stored_arch prop b s d e row : Inv s -> d < len s ->
  exists os, take_outcomes (probe_shape (LArch b) false (length row)) (acc_arch s d e row) = Some os /\
    check_paths prop (LArch b) false 0 os (Some true) (Some e) (Some row) (aid s) = None /\ paths_consistent os = true.
Proof.
  intros HI Hd. pose proof (direct_of_id s d HI Hd) as Hid. destruct e as [ek ev].
  set (view := N.of_nat d :: ek :: ev :: row).
  assert (Hform : acc_arch s d (ek, ev) row =
    1%N :: [] ++ (1%N :: [N.of_nat d] ++ (1%N :: [fst (direct_of s d); snd (direct_of s d)] ++ (1%N :: view ++ (1%N :: view ++ []))))).
  { unfold acc_arch, acc_direct, acc_view, o_handle, view. cbn [fst snd app]. by rewrite app_nil_r. }
  rewrite Hform. unfold probe_shape.
  rewrite (take_outcomes_acc 0) by done. rewrite (take_outcomes_acc 1) by done. rewrite (take_outcomes_acc 2) by done.
  rewrite (take_outcomes_acc (3 + length row)) by reflexivity.
  rewrite (take_outcomes_acc (3 + length row)) by reflexivity.
  cbn [take_outcomes fmap option_fmap option_map].
  eexists. split; [reflexivity|]. unfold view. cbn [check_paths check_acc_payload Nat.eqb andb orb negb].
  unfold heqb, lNeqb. rewrite !Hid, ?N.eqb_refl. cbn [fst snd andb negb]. rewrite ?N.eqb_refl. cbn [andb negb].
  rewrite !bool_decide_eq_true_2 by done. cbn [negb]. done.
Qed.

Lemma oracle_accepts_unstored_arch prop b n h vals a :
  exists os, take_outcomes (probe_shape (LArch b) false n) rej_arch = Some os /\
    check_paths prop (LArch b) false 0 os (Some false) h vals a = None /\ paths_consistent os = true.
Proof. eexists. split; [reflexivity|]. done. Qed.

(** The oracle's belief about handle [e] in archetype state [x] is the truth about storage [s]. *)
Definition belief_true (s : storage) (x : sarch) (e : handle) : Prop :=
  sa_synced x = true /\
  match list_find (fun y => y = e) (ents s) with
  | Some (dd, _) => exists se, find_sent e (sa_live x) = Some se /\ abs_at s dd = Some (e, se_vals se)
  | None => find_sent e (sa_live x) = None
  end.

(** One whole oracle step: a world-level probe with a dynamically typed issued handle.  In any reachable
    state of the model, if the oracle's belief about that handle is the truth, the oracle accepts what the
    model prints and keeps its state: it raises no alarm on behaviour that is the model's. *)
Theorem probe_world_oracle_accepts cfg d qs st sst w sw i e a0 a s x : RInv d st ->
  cur_world st = Some w -> issued st !! i = Some e -> snd e <> 0%N -> key32 e ->
  find_arch (wd_archs d) (key_arch_id (fst e)) = Some a -> w !! a = Some s -> eslot e < cap s ->
  cur_sworld sst = Some sw -> s_issued sst !! i = Some (e, a0) -> sw !! a = Some x -> belief_true s x e ->
  exists obs, step cfg d qs st (OProbe LWorld KEnt TAny (RIssued i)) = Some (st, obs) /\
              spec_step cfg d qs sst (OProbe LWorld KEnt TAny (RIssued i)) obs = inr sst.
Proof.
  intros HR Hcur Hiss Hv Hk Hfa Hs Hc Hsw Hsi Hx [Hsync Hbel].
  pose proof (step_probe_any_world cfg d qs st w (RIssued i) e a s HR Hcur ltac:(exact Hiss) Hv Hk Hfa Hs Hc) as Hstep.
  eexists. split; [exact Hstep|].
  destruct HR as (HW & _ & _).
  assert (HWI : WInv d w).
  { unfold cur_world in Hcur. destruct (worlds st !! cur st) as [ow|] eqn:Hl; [|done]. cbn in Hcur. subst ow.
    rewrite list.Forall_forall in HW. apply (HW (Some w)). by eapply elem_of_list_lookup_2. }
  destruct (find_arch_some _ _ _ Hfa) as (ad & Had & Hid & _).
  destruct (Forall2_lookup_l _ _ _ _ _ HWI Had) as (s' & Hs' & (HI & Haid & _)).
  assert (Some s' = Some s) as [= ->] by (etrans; [symmetry; exact Hs'|exact Hs]).
  cbn [spec_step]. rewrite Hsw, Hsi. cbn [fmap option_fmap option_map fst].
  unfold expect_key. cbn [fst snd]. destruct (N.eqb_spec (snd e) 0) as [|_]; [done|]. rewrite Hfa, Hx.
  rewrite Hsync. unfold aid_of. rewrite Had, <- Haid.
  destruct (list_find (fun y => y = e) (ents s)) as [[dd y]|] eqn:Hlf.
  - destruct Hbel as (se & Hse & Habs). rewrite Hse, Habs. cbn [fmap option_fmap option_map snd default from_option id].
    apply list_find_Some in Hlf as (Hdd & _ & _).
    assert (Hd : dd < len s) by (rewrite <- (i_lents s HI); by eapply lookup_lt_Some).
    set (prop := if 0 <? count_h e (default [] (s_wissued sst !! s_cur sst)) then 1%N else 3%N).
    destruct (oracle_accepts_stored_world prop s dd e (se_vals se) HI Hd) as (os & Hos & Hck & Hpc).
    assert (take_outcomes (probe_shape LWorld false (ncols_of d a)) (acc_world false s dd e (se_vals se)) = Some os) as -> by exact Hos.
    rewrite bool_decide_eq_true_2 by by eexists. rewrite Hck, Hpc. done.
  - rewrite Hbel. cbn [fmap option_fmap option_map].
    set (prop := if 0 <? count_h e (default [] (s_wissued sst !! s_cur sst)) then 1%N else 3%N).
    destruct (oracle_accepts_unstored_world prop (Some e) None (aid s)) as (os & Hos & Hck & Hpc).
    assert (take_outcomes (probe_shape LWorld false (ncols_of d a)) (rej_world false) = Some os) as -> by exact Hos.
    rewrite bool_decide_eq_false_2 by (intros [? ?]; done). rewrite Hck, Hpc. done.
Qed.

(** The same at the level of one archetype (ArchetypeCanResolve: contains, resolve, to_direct, view, borrow),
    including the case of a handle carrying another archetype's id, which every path must report absent. *)
Theorem probe_arch_oracle_accepts cfg d qs st sst w sw i e a0 b bd s x : RInv d st ->
  cur_world st = Some w -> issued st !! i = Some e -> snd e <> 0%N -> key32 e ->
  wd_archs d !! b = Some bd -> w !! b = Some s -> (da_id bd = key_arch_id (fst e) -> eslot e < cap s) ->
  cur_sworld sst = Some sw -> s_issued sst !! i = Some (e, a0) -> sw !! b = Some x ->
  (da_id bd = key_arch_id (fst e) -> belief_true s x e) ->
  exists obs, step cfg d qs st (OProbe (LArch b) KEnt TAny (RIssued i)) = Some (st, obs) /\
              spec_step cfg d qs sst (OProbe (LArch b) KEnt TAny (RIssued i)) obs = inr sst.
Proof.
  intros HR Hcur Hiss Hv Hk Had Hs Hc Hsw Hsi Hx Hbel0.
  pose proof (step_probe_any_arch cfg d qs st w (RIssued i) e b bd s HR Hcur ltac:(exact Hiss) Hv Hk Had Hs Hc) as Hstep.
  eexists. split; [exact Hstep|].
  destruct HR as (HW & _ & _).
  assert (HWI : WInv d w).
  { unfold cur_world in Hcur. destruct (worlds st !! cur st) as [ow|] eqn:Hl; [|done]. cbn in Hcur. subst ow.
    rewrite list.Forall_forall in HW. apply (HW (Some w)). by eapply elem_of_list_lookup_2. }
  destruct (Forall2_lookup_l _ _ _ _ _ HWI Had) as (s' & Hs' & (HI & Haid & Hncols)).
  assert (Some s' = Some s) as [= ->] by (etrans; [symmetry; exact Hs'|exact Hs]).
  cbn [spec_step]. rewrite Hsw, Hsi. cbn [fmap option_fmap option_map fst].
  unfold expect_key. cbn [fst snd]. destruct (N.eqb_spec (snd e) 0) as [|_]; [done|]. rewrite Had.
  destruct (decide (da_id bd = key_arch_id (fst e))) as [Hid|Hid].
  - rewrite Hid, N.eqb_refl. rewrite Hx. destruct (Hbel0 Hid) as [Hsync Hbel]. rewrite Hsync.
    unfold aid_of, ncols_of. rewrite Had, <- Haid.
    destruct (list_find (fun y => y = e) (ents s)) as [[dd y]|] eqn:Hlf.
    + destruct Hbel as (se & Hse & Habs). rewrite Hse, Habs. cbn [fmap option_fmap option_map snd default from_option id].
      apply list_find_Some in Hlf as (Hdd & _ & _).
      assert (Hd : dd < len s) by (rewrite <- (i_lents s HI); by eapply lookup_lt_Some).
      destruct (abs_at_some s dd HI Hd) as (e' & r' & Ha' & _ & Hlr). rewrite Habs in Ha'. injection Ha' as <- <-.
      set (prop := if 0 <? count_h e (default [] (s_wissued sst !! s_cur sst)) then 1%N else 3%N).
      destruct (oracle_accepts_stored_arch prop b s dd e (se_vals se) HI Hd) as (os & Hos & Hck & Hpc).
      rewrite <- Hncols, <- Hlr. rewrite Hos.
      rewrite bool_decide_eq_true_2 by by eexists. rewrite Hck, Hpc. done.
    + rewrite Hbel. cbn [fmap option_fmap option_map].
      set (prop := if 0 <? count_h e (default [] (s_wissued sst !! s_cur sst)) then 1%N else 3%N).
      destruct (oracle_accepts_unstored_arch prop b (length (da_comps bd)) (Some e) None (aid s)) as (os & Hos & Hck & Hpc).
      rewrite Hos. rewrite bool_decide_eq_false_2 by (intros [? ?]; done). rewrite Hck, Hpc. done.
  - destruct (N.eqb_spec (da_id bd) (key_arch_id (fst e))) as [E|_]; [done|]. done.
Qed.
