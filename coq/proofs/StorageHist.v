(** Ghost issue history of one storage: every handle ever issued for it is bounded by the current
    generation of its slot, strictly once the slot has been released.  This is what makes a stale
    handle stay rejected forever (C01) and a created handle fresh (C08), as long as no generation
    wraps (automatic without wrapping_version: the overflow panics instead). *)
From Coq Require Import NArith Lia Bool.
From stdpp Require Import base list numbers option sets.
From Gecs Require Import Prim ExtrBits ExtrVersion ExtrStorage Storage BitsFacts VersionFacts StorageInv StorageResolve.
Local Open Scope nat_scope.
Set Default Proof Using "Type".

Definition slot_live (x : slot) : bool := negb (sidx_is_free (s_idx x)).

Record Hist (s : storage) (iss : list handle) : Prop := {
  h_shape : forall e, e ∈ iss -> fst e = pack_key (N.of_nat (eslot e)) (aid s) /\ eslot e < cap s;
  h_le : forall e x, e ∈ iss -> slots s !! eslot e = Some x ->
           if slot_live x then (snd e <= s_ver x)%N else (snd e < s_ver x)%N;
  h_stored : forall i e, ents s !! i = Some e -> e ∈ iss;
}.

Lemma hist_empty s : Inv s -> len s = 0 -> Hist s [].
Proof.
  intros HI Hl. constructor; [set_solver|set_solver|].
  intros i e Hi. exfalso. apply lookup_lt_Some in Hi. rewrite (i_lents s HI) in Hi. lia.
Qed.

(** C01 core: an issued handle is accepted iff it is the handle stored in the dense array. *)
Lemma issued_accepted_iff_stored cfg s iss e : Inv s -> Hist s iss -> e ∈ iss -> key32 e ->
  (exists si d, resolve_entity cfg s e = ROk (Some (si, d))) <-> (exists d, ents s !! d = Some e).
Proof.
  intros HI HH He Hk. split.
  - intros (si & d & Hr). exists d.
    destruct (h_shape s iss HH e He) as (Hf & _).
    eapply resolve_entity_exact; [done|done| |done].
    rewrite Hf. apply key_arch_id_pack; [|apply (i_aid s HI)].
    destruct (h_shape s iss HH e He) as (_ & Hc). by eapply cap_lt_pow24.
  - intros (d & Hd). eexists _, _. by apply resolve_entity_complete.
Qed.

(** A handle whose slot has moved on is rejected (without UB, without panic). *)
Lemma stale_rejected cfg s e x : Inv s -> key32 e -> eslot e < cap s -> slots s !! eslot e = Some x ->
  (snd e < s_ver x)%N -> resolve_entity cfg s e = ROk None.
Proof.
  intros HI Hk Hc Hx Hlt. pose proof (resolve_entity_cases cfg s HI e Hk) as Hcases.
  destruct (resolve_entity cfg s e) as [[[si d]|]|p|] eqn:Hr; try done.
  - destruct Hcases as (e' & He' & Hes & Hsl & Hv & _).
    destruct (fwd' s d e' HI He') as (Hs' & _). assert (eslot e' = eslot e) by (unfold eslot; by rewrite Hsl).
    rewrite H, Hx in Hs'. injection Hs' as Hq. rewrite Hq in Hlt. simpl in Hlt. lia.
  - destruct Hcases as (_ & _ & Hoob & _). unfold eslot in Hc. lia.
Qed.

(** C08 core: the handle a create returns was never issued before. *)
Lemma created_fresh s iss h x : Inv s -> Hist s iss -> head s = Free h -> slots s !! h = Some x ->
  sidx_is_free (s_idx x) = true -> h < cap s -> created_handle s h x ∉ iss.
Proof.
  intros HI HH Hh Hx Hxf Hc Hin.
  assert (Hes : eslot (created_handle s h x) = h).
  { unfold eslot, created_handle. rewrite hslot_pack; [lia|by eapply cap_lt_pow24|apply (i_aid s HI)]. }
  pose proof (h_le s iss HH _ x Hin) as Hle. rewrite Hes in Hle. specialize (Hle Hx).
  unfold slot_live in Hle. rewrite Hxf in Hle. simpl in Hle. lia.
Qed.

Lemma hist_created cfg s iss vs h x : Inv s -> Hist s iss -> len s < cap s -> head s = Free h -> slots s !! h = Some x ->
  sidx_is_free (s_idx x) = true -> Hist (created_state cfg s h x vs) (iss ++ [created_handle s h x]).
Proof.
  intros HI HH Hlt Hh Hx Hxf.
  assert (Hhlt : h < length (slots s)) by (by eapply lookup_lt_Some).
  assert (Hhc : h < cap s) by (by rewrite <- (i_lslots s HI)).
  assert (Hes : eslot (created_handle s h x) = h).
  { unfold eslot, created_handle. rewrite hslot_pack; [lia|by eapply cap_lt_pow24|apply (i_aid s HI)]. }
  destruct HH as [Hb1 Hb2 Hb3].
  constructor; unfold created_state; cbn [aid cap slots ents].
  - intros e He. apply elem_of_app in He as [He|He]; [by apply Hb1|].
    apply elem_of_list_singleton in He as ->. rewrite Hes. done.
  - intros e y He Hy. destruct (decide (eslot e = h)) as [Heq|Hne].
    + rewrite Heq, list_lookup_insert in Hy by done. injection Hy as <-. unfold slot_live. simpl.
      apply elem_of_app in He as [He|He].
      * pose proof (Hb2 e x He) as H2. rewrite Heq in H2. specialize (H2 Hx).
        unfold slot_live in H2. rewrite Hxf in H2. simpl in H2. lia.
      * apply elem_of_list_singleton in He as ->. unfold created_handle. simpl. lia.
    + rewrite list_lookup_insert_ne in Hy by done.
      apply elem_of_app in He as [He|He]; [by apply Hb2|].
      apply elem_of_list_singleton in He as ->. by rewrite Hes in Hne.
  - intros i e Hi. apply lookup_app_Some in Hi as [Hi|[_ Hi]].
    + apply elem_of_app. left. by eapply Hb3.
    + apply list_lookup_singleton_Some in Hi as [_ <-]. apply elem_of_app. right. by apply elem_of_list_singleton.
Qed.

Lemma hist_grown s iss n : Inv s -> Hist s iss -> cap s <= n -> Hist (grown s n) iss.
Proof.
  intros HI [Hb1 Hb2 Hb3] Hn. constructor; unfold grown; cbn [aid cap slots ents].
  - intros e He. destruct (Hb1 e He). split; [done|lia].
  - intros e y He Hy. destruct (Hb1 e He) as (_ & Hc).
    rewrite lookup_app_l in Hy by (rewrite (i_lslots s HI); done). by apply Hb2.
  - done.
Qed.

(** After a destroy the removed handle is stored nowhere, and the history still bounds every issued handle. *)
Lemma hist_destroyed cfg s iss si d e va vs' : Inv s -> Hist s iss -> ents s !! d = Some e -> eslot e = si ->
  (snd e < vs')%N -> in_ver va -> in_ver vs' ->
  Hist (destroyed_state cfg s si d e (last_ent s e) va vs') iss /\
  (forall i, ents (destroyed_state cfg s si d e (last_ent s e) va vs') !! i <> Some e).
Proof.
  intros HI HH Hd Hsi Hlt Hva Hvs.
  pose proof (destroyed_inv cfg s si d e va vs' HI Hd Hsi Hva Hvs) as HI'.
  destruct (fwd' s d e HI Hd) as (Htsl & Hfe & Hsic & Hdlt & Hhe). rewrite Hsi in *.
  destruct (lookup_lt_is_Some_2 (ents s) (len s - 1) ltac:(rewrite (i_lents s HI); lia)) as [le Hlast].
  unfold last_ent in *. rewrite Hlast in *. cbn [default from_option id] in *.
  destruct (fwd' s (len s - 1) le HI Hlast) as (Hlsl & Hfle & Hlc' & _ & Hhl).
  pose proof (i_lslots s HI) as Hls. pose proof (i_lents s HI) as Hle.
  destruct HH as [Hb1 Hb2 Hb3].
  assert (Hhead_free : sidx_is_free (head s) = true).
  { destruct (i_free s HI) as (fl & Hch & _). by eapply chain_head_free. }
  split.
  - constructor; unfold destroyed_state; cbn [aid cap slots ents].
    + done.
    + intros e0 y He0 Hy. destruct (decide (eslot e0 = si)) as [Heq|Hne].
      * rewrite Heq, list_lookup_insert in Hy by (rewrite insert_length; lia).
        injection Hy as <-. unfold slot_live. cbn [s_idx s_ver]. rewrite Hhead_free. cbn [negb].
        pose proof (Hb2 e0 (Slot (Data d) (snd e)) He0) as H2. rewrite Heq in H2. specialize (H2 Htsl).
        unfold slot_live in H2. simpl in H2. lia.
      * rewrite list_lookup_insert_ne in Hy by done.
        destruct (decide (eslot e0 = eslot le)) as [Heq2|Hne2].
        -- rewrite Heq2, list_lookup_insert in Hy by lia. injection Hy as <-. unfold slot_live; simpl.
           pose proof (Hb2 e0 (Slot (Data (len s - 1)) (snd le)) He0) as H2. rewrite Heq2 in H2. specialize (H2 Hlsl). done.
        -- rewrite list_lookup_insert_ne in Hy by done. by apply Hb2.
    + intros i e0 Hi.
      assert (Hilt : i < len s - 1).
      { apply lookup_lt_Some in Hi. rewrite swapped_length in Hi. lia. }
      rewrite swapped_lookup in Hi by lia. case_decide; [injection Hi as <-|]; by eapply Hb3.
  - intros i Hi. destruct (fwd' _ i e HI' Hi) as (Hx & _). unfold destroyed_state in Hx. cbn [slots] in Hx.
    rewrite Hsi, list_lookup_insert in Hx by (rewrite insert_length; lia).
    injection Hx as Hq _. rewrite Hq in Hhead_free. done.
Qed.

(** Operations that do not touch slots or dense handles keep the history. *)
Lemma hist_same_bookkeeping s s' iss : Hist s iss -> aid s' = aid s -> cap s' = cap s -> slots s' = slots s -> ents s' = ents s ->
  Hist s' iss.
Proof. intros [H1 H2 H3] Ea Ec Es Ee. constructor; rewrite ?Ea, ?Ec, ?Es, ?Ee; done. Qed.
