(** C02 for whole histories: along any sequence of transitions that do not write component values
    (creations with or without growth, destructions and the relocations they cause, queries whose
    closures do not write, ecs_iter_destroy!, clears, clones of other worlds), every entity that is still
    stored keeps exactly its component values. *)
From Coq Require Import NArith Lia Bool.
From stdpp Require Import base list numbers option sets.
From Gecs Require Import Prim ExtrBits ExtrVersion ExtrStorage ExtrQuery Storage Query World Borrow Run
                         BitsFacts VersionFacts StorageInv StorageResolve StorageHist StorageOps RunFacts WorldInv LoopFacts HistRun.
Local Open Scope nat_scope.
Set Default Proof Using "Type".

(** Entity [e] is stored with component values [r]. *)
Definition row_in (s : storage) (e : handle) (r : list val) : Prop := exists i, abs_at s i = Some (e, r).

Lemma row_in_ents s e r : row_in s e r -> e ∈ ents s.
Proof.
  intros (i & Ha). unfold abs_at in Ha. destruct (ents s !! i) as [e'|] eqn:He; [|done]. destruct (row_at _ _); [|done].
  injection Ha as -> _. by eapply elem_of_list_lookup_2.
Qed.

Lemma abs_at_lt s i x : Inv s -> abs_at s i = Some x -> i < len s.
Proof.
  intros HI Ha. unfold abs_at in Ha. destruct (ents s !! i) eqn:He; [|done]. apply lookup_lt_Some in He. by rewrite (i_lents s HI) in He.
Qed.

Lemma created_rows cfg s h x vs e r : Inv s -> length vs = length (cols s) -> row_in s e r -> row_in (created_state cfg s h x vs) e r.
Proof.
  intros HI Hvs (i & Ha). exists i. pose proof (abs_at_lt s i _ HI Ha) as Hi.
  rewrite (created_abs cfg s h x vs i HI Hvs) by lia. by rewrite decide_False by lia.
Qed.

(** One transition that may not write. *)
Lemma estep_rows ac cfg s s' e r : Inv s -> estep ac false cfg s s' -> row_in s e r -> e ∈ ents s' -> row_in s' e r.
Proof.
  intros HI Hstep Hrow Hin. destruct Hstep as [s vs s' h Hvs Hp|s vs s' h Hvs Hp|s k h s' row Hk Hd|s s' HI' (Ea & Ec & Ee & Es & _ & Hc & _)].
  - destruct (push_spec cfg s vs HI Hvs) as [Ho _]. rewrite Hp in Ho.
    inversion Ho as [h0 x Hlt Hh Hx|n h0 x Hfull Hn Hnc Hneq Hh Hx|]; try clear Hneq; subst.
    + by apply created_rows.
    + apply created_rows; [by apply grown_inv|done|]. destruct Hrow as (i & Ha). exists i. exact Ha.
  - pose proof (push_within_spec cfg s vs HI Hvs) as Hs. case_decide as Hlt; [|by rewrite Hp in Hs].
    destruct Hs as (h0 & x & Hpw & _). rewrite Hp in Hpw. injection Hpw as -> _. by apply created_rows.
  - pose proof (destroy_cases cfg k s h HI Hk) as Hc. rewrite Hd in Hc.
    inversion Hc as [| |d e0 va vs' He Hkind Hva Hvs HI']; subst.
    destruct Hrow as (i & Ha). pose proof (abs_at_lt s i _ HI Ha) as Hi.
    assert (Hei : ents s !! i = Some e).
    { unfold abs_at in Ha. destruct (ents s !! i); [|done]. destruct (row_at _ _); [|done]. by injection Ha as -> _. }
    assert (Hdl : d < len s) by (rewrite <- (i_lents s HI); by eapply lookup_lt_Some).
    assert (Hid : i <> d).
    { intros ->. rewrite He in Hei. injection Hei as ->.
      apply elem_of_list_lookup in Hin as (j & Hj).
      assert (Hjl : j < len s - 1).
      { apply lookup_lt_Some in Hj. rewrite (i_lents _ HI') in Hj. unfold destroyed_state in Hj. cbn [len] in Hj. lia. }
      pose proof (destroyed_abs cfg s (eslot e) d e va vs' j HI He Hjl) as Hab.
      destruct (abs_at_some _ j HI' ltac:(unfold destroyed_state; cbn [len]; lia)) as (e1 & r1 & Ha1 & He1 & _).
      rewrite Hj in He1. injection He1 as <-. rewrite Ha1 in Hab.
      assert (Hex : exists k, k <> d /\ ents s !! k = Some e).
      { case_decide as Hjd.
        - exists (len s - 1). split; [lia|]. unfold abs_at in Hab. destruct (ents s !! (len s - 1)); [|done]. destruct (row_at _ _); [|done]. by injection Hab as <- _.
        - exists j. split; [done|]. unfold abs_at in Hab. destruct (ents s !! j); [|done]. destruct (row_at _ _); [|done]. by injection Hab as <- _. }
      destruct Hex as (k0 & Hkd & Hk0). apply Hkd. eapply (NoDup_lookup _ _ _ _ (ents_NoDup s HI)); done. }
    destruct (decide (i = len s - 1)) as [->|Hnl].
    + exists d. rewrite (destroyed_abs cfg s (eslot e0) d e0 va vs' d HI He) by lia. by rewrite decide_True.
    + exists i. rewrite (destroyed_abs cfg s (eslot e0) d e0 va vs' i HI He) by lia. by rewrite decide_False.
  - destruct Hc as [?|Hc]; [done|]. destruct Hrow as (i & Ha). exists i. unfold abs_at in *. by rewrite Ee, Hc.
Qed.

(** Any number of such transitions, for an entity that is stored at the end. *)
Theorem esteps_rows ac cfg s s' iss dead e r : wrapping cfg = false -> Inv s -> Hist2 s iss dead -> esteps ac false cfg s s' ->
  row_in s e r -> e ∈ ents s' -> row_in s' e r.
Proof.
  intros Hw HI H2 Hs. revert iss dead HI H2. induction Hs as [s|s s1 s' H1 Hs IH]; intros iss dead HI H2 Hrow Hin; [done|].
  destruct (estep_hist2 ac false cfg s s1 iss dead Hw HI H2 H1) as (HI1 & iss1 & dead1 & H21 & Sub1 & _).
  assert (Hin1 : e ∈ ents s1).
  { destruct (decide (e ∈ ents s1)) as [?|Hn]; [done|]. exfalso.
    pose proof (row_in_ents s e r Hrow) as He. apply elem_of_list_lookup in He as (j & Hj).
    pose proof (h_stored s iss (h2_hist _ _ _ H2) j e Hj) as Hiss.
    destruct (h2_alive _ _ _ H21 e (Sub1 e Hiss)) as [Hd|?]; [|done].
    destruct (esteps_hist2 ac false cfg s1 s' iss1 dead1 Hw HI1 H21 Hs) as (_ & iss2 & dead2 & H22 & _ & Sub2).
    by apply (h2_dead_gone _ _ _ H22 e (Sub2 e Hd)). }
  exact (IH iss1 dead1 HI1 H21 (estep_rows ac cfg s s1 e r HI H1 Hrow Hin1) Hin).
Qed.

Definition not_writing (o : op) : bool :=
  match o with
  | OWrite _ _ _ _ _ _ _ => false
  | OFind _ _ _ _ _ delta | OIter _ _ _ _ delta => N.eqb delta 0
  | _ => true
  end.

(** C02 for whole histories of the run language: between two points with no writing operation in
    between, every entity still stored in an archetype of a persisting world has exactly the component
    values it had. *)
Theorem run_rows_preserved cfg d qs ops1 ops2 st1 st2 i a w1 w2 s1 s2 e r :
  hist_case cfg d qs (ops1 ++ ops2) = true -> forallb not_writing ops2 = true ->
  run_to cfg d qs rs0 ops1 = Some st1 -> run_to cfg d qs st1 ops2 = Some st2 ->
  worlds st1 !! i = Some (Some w1) -> worlds st2 !! i = Some (Some w2) -> w1 !! a = Some s1 -> w2 !! a = Some s2 ->
  row_in s1 e r -> e ∈ ents s2 -> row_in s2 e r.
Proof.
  unfold hist_case. intros Hc Hnw R1 R2 W1 W2 S1 S2 Hrow Hin.
  apply andb_true_iff in Hc as [Hc Hok]. apply andb_true_iff in Hc as [Hw Hd]. apply negb_true_iff in Hw. apply wf_declb_true in Hd.
  destruct (ok_run_split cfg d qs ops1 ops2 rs0 st1 Hok R1) as [Hok1 Hok2].
  destruct (run_to_rhist cfg d qs ops1 Hd rs0 st1 (rs0_rhist cfg d) Hok1 R1) as [HH1 _].
  assert (Hfl : Forall (flags_ok true false) ops2).
  { rewrite forallb_forall in Hnw. apply Forall_forall. intros o Ho. specialize (Hnw o ltac:(by apply elem_of_list_In)).
    destruct o; cbn in *; auto; try done. all: right; by apply N.eqb_eq. }
  destruct (run_to_rhist_gen true false cfg d qs ops2 Hd Hfl st1 st2 HH1 Hok2 R2) as [HH2 P12].
  assert (Hr1 : sreach true true cfg s1). { destruct HH1 as [_ HS]. eapply Forall_lookup_1; [exact (HS i w1 W1)|exact S1]. }
  destruct (sreach_hist2 true true cfg s1 Hw Hr1) as (HI1 & iss1 & dead1 & H1).
  assert (Hs : esteps true false cfg s1 s2) by (eapply (Forall2_lookup_lr _ _ _ _ _ _ (P12 i w1 w2 W1 W2)); done).
  by eapply esteps_rows.
Qed.
