(** Forged handles join the core language: destroys, probes and to_direct conversions, at world and archetype level, with ANY raw (key, generation) pair of 32-bit
    words - never issued, stale, naming another or no archetype, generation zero, slot beyond the capacity -
    (C03 as the specification oracle reads it). *)
From Coq Require Import NArith Lia Bool.
From stdpp Require Import base list numbers option sets.
From Gecs Require Import Prim ExtrBits ExtrVersion ExtrStorage ExtrQuery Storage Query World Borrow Run
                         BitsFacts VersionFacts ConvFacts StorageInv StorageResolve StorageHist StorageOps RunFacts WorldInv LoopFacts
                         ObsFacts Spec OracleFacts OracleSim.
Local Open Scope nat_scope.

Definition l1_op (d : wdecl) (o : op) : bool :=
  l0_op d o || match o with
                | OProbe LWorld KEnt TAny (RRaw key ver) => (key <? 2^32)%N && (ver <? 2^32)%N
                | OProbe (LArch b) KEnt TAny (RRaw key ver) => (b <? length (wd_archs d)) && (key <? 2^32)%N && (ver <? 2^32)%N
                | ODestroy LWorld KEnt TAny (RRaw key ver) => (key <? 2^32)%N && (ver <? 2^32)%N
                | ODestroy (LArch b) KEnt TAny (RRaw key ver) => (b <? length (wd_archs d)) && (key <? 2^32)%N && (ver <? 2^32)%N
                | OToDirect LWorld KEnt TAny (RRaw key ver) => (key <? 2^32)%N && (ver <? 2^32)%N
                | OToDirect (LArch b) KEnt TAny (RRaw key ver) => (b <? length (wd_archs d)) && (key <? 2^32)%N && (ver <? 2^32)%N
                | OConv KEnt (RRaw key ver) => true
                | ODump a => true
                | _ => false
                end.

(** A key that is not stored: every world-level path reports absence, or (debug assertions, slot index beyond
    the capacity) every path panics with the documented assertion. *)
Lemma probe_world_not_stored cfg s h : Inv s -> key32 h -> key_arch_id (fst h) = aid s -> h ∉ ents s ->
  probe_storage_world cfg false KEnt s h = ROk (rej_world false) \/
  probe_storage_world cfg false KEnt s h = ROk (concat (replicate 4 [2%N; pcode PDebug])).
Proof.
  intros HI Hk Hid Hn. pose proof (resolve_entity_cases cfg s HI h Hk) as Hc.
  unfold probe_storage_world, o_contains, o_to_direct, o_view, probe_find, to_direct, resolve_for. cbn [resolve_key].
  destruct (resolve_entity cfg s h) as [[[si dd]|]|p|] eqn:Hr; [| | |done].
  - exfalso. apply Hn. apply elem_of_list_lookup. exists dd. by eapply resolve_entity_exact.
  - left. done.
  - right. destruct Hc as (-> & _). done.
Qed.

Lemma rel_step_probe_raw cfg d qs st sst key ver : NoDup (da_id <$> wd_archs d) -> Rel d st sst ->
  (key < 2^32)%N -> (ver < 2^32)%N ->
  exists obs, step cfg d qs st (OProbe LWorld KEnt TAny (RRaw key ver)) = Some (st, obs) /\ obs <> [254%N] /\
              spec_step cfg d qs sst (OProbe LWorld KEnt TAny (RRaw key ver)) obs = inr sst.
Proof.
  intros Hnd HR Hkey Hver. destruct (rel_cur d st sst HR) as (w & sw & Hw & Hsw & Hcw & Hcsw & HWI & Harch).
  set (h := (key, ver)). assert (Hk : key32 h) by done.
  cbn [step]. rewrite Hcw. cbn [get_href]. unfold make_key. cbn [snd].
  cbn [spec_step]. rewrite Hcsw. cbn [fmap option_fmap option_map]. unfold expect_key. cbn [fst snd].
  destruct (N.eqb_spec ver 0) as [->|Hv0].
  { exists [5%N]. split_and!; [by unfold raw_ok, nonzero_new|done|]. unfold lNeqb. by rewrite bool_decide_eq_true_2. }
  assert (raw_ok ver = true) as -> by (unfold raw_ok, nonzero_new; destruct (N.eqb_spec ver 0); done).
  cbn [negb dispatch_world fst snd].
  destruct (find_arch (wd_archs d) (key_arch_id key)) as [a|] eqn:Hfa.
  2: { change world_dispatch_unknown_panics with true. cbn [npaths_world].
       exists (concat (replicate 4 [2%N; pcode PInvalidType])). split_and!; [done|done|]. done. }
  destruct (find_arch_some _ _ _ Hfa) as (ad & Had & Hid & _).
  destruct (Harch a ad Had) as (s & x & Hs & Hx & HA & (HI & Haid & Hcols)).
  rewrite Had, Hs, Hx. rewrite (a_sync _ _ _ HA).
  set (prop := if 0 <? count_h (key, ver) (default [] (s_wissued sst !! s_cur sst)) then 1%N else 3%N).
  unfold aid_of. rewrite Had, <- Haid. change (key, ver) with h.
  destruct (decide (h ∈ ents s)) as [Hin|Hnin].
  - apply elem_of_list_lookup in Hin as [dd Hdd].
    assert (Hd : dd < len s) by (rewrite <- (i_lents s HI); by eapply lookup_lt_Some).
    destruct (abs_at_some s dd HI Hd) as (e' & row & Ha & He' & _). rewrite Hdd in He'. injection He' as <-.
    rewrite (probe_world_stored cfg s HI false dd h row Hdd Ha).
    pose proof (a_b1 _ _ _ HA h row ltac:(by exists dd)) as Hfind. rewrite Hfind.
    destruct (oracle_accepts_stored_world prop s dd h row HI Hd) as (os & Hos & Hck & Hpc).
    exists (acc_world false s dd h row). split_and!; [done|unfold acc_world; cbn [app]; discriminate|].
    assert (take_outcomes (probe_shape LWorld false (ncols_of d a)) (acc_world false s dd h row) = Some os) as -> by exact Hos.
    rewrite bool_decide_eq_true_2 by by eexists. cbn [fmap option_fmap option_map se_vals]. rewrite Hck, Hpc. done.
  - pose proof (a_b2 _ _ _ HA h Hnin) as Hfind. rewrite Hfind.
    rewrite bool_decide_eq_false_2 by (intros [? ?]; done). cbn [fmap option_fmap option_map].
    destruct (probe_world_not_stored cfg s h HI Hk ltac:(cbn; congruence) Hnin) as [Hp|Hp]; rewrite Hp.
    + exists (rej_world false). split_and!; [done|done|]. done.
    + exists (concat (replicate 4 [2%N; pcode PDebug])). split_and!; [done|done|]. done.
Qed.

Lemma probe_arch_not_stored cfg s h : Inv s -> key32 h -> key_arch_id (fst h) = aid s -> h ∉ ents s ->
  probe_storage_arch cfg KEnt s h = ROk rej_arch \/
  probe_storage_arch cfg KEnt s h = ROk (concat (replicate 5 [2%N; pcode PDebug])).
Proof.
  intros HI Hk Hid Hn. pose proof (resolve_entity_cases cfg s HI h Hk) as Hc.
  unfold probe_storage_arch, o_contains, o_resolve, o_to_direct, o_view, to_direct, resolve_for. cbn [resolve_key].
  destruct (resolve_entity cfg s h) as [[[si dd]|]|p|] eqn:Hr; [| | |done].
  - exfalso. apply Hn. apply elem_of_list_lookup. exists dd. by eapply resolve_entity_exact.
  - left. done.
  - right. destruct Hc as (-> & _). done.
Qed.

Lemma rel_step_probe_raw_arch cfg d qs st sst b key ver : NoDup (da_id <$> wd_archs d) -> Rel d st sst ->
  b < length (wd_archs d) -> (key < 2^32)%N -> (ver < 2^32)%N ->
  exists obs, step cfg d qs st (OProbe (LArch b) KEnt TAny (RRaw key ver)) = Some (st, obs) /\ obs <> [254%N] /\
              spec_step cfg d qs sst (OProbe (LArch b) KEnt TAny (RRaw key ver)) obs = inr sst.
Proof.
  intros Hnd HR Hb Hkey Hver. destruct (rel_cur d st sst HR) as (w & sw & Hw & Hsw & Hcw & Hcsw & HWI & Harch).
  set (h := (key, ver)). assert (Hk : key32 h) by done.
  destruct (lookup_lt_is_Some_2 _ _ Hb) as [bd Hbd].
  destruct (Harch b bd Hbd) as (s & x & Hs & Hx & HA & (HI & Haid & Hcols)).
  cbn [step]. rewrite Hcw. cbn [get_href]. unfold make_key. cbn [snd].
  cbn [spec_step]. rewrite Hcsw. cbn [fmap option_fmap option_map]. unfold expect_key. cbn [fst snd].
  destruct (N.eqb_spec ver 0) as [->|Hv0].
  { exists [5%N]. split_and!; [by unfold raw_ok, nonzero_new|done|]. unfold lNeqb. by rewrite bool_decide_eq_true_2. }
  assert (raw_ok ver = true) as -> by (unfold raw_ok, nonzero_new; destruct (N.eqb_spec ver 0); done).
  cbn [negb dispatch_arch fst snd]. rewrite Hbd. change arch_dispatch_checks_id with true. cbn [id_ok]. unfold conv_ok. cbn [fst].
  destruct (N.eqb_spec (key_arch_id key) (da_id bd)) as [Hid|Hid].
  2: { destruct (N.eqb_spec (da_id bd) (key_arch_id key)) as [E|_]; [by rewrite E in Hid|].
       exists (replicate 5 0%N). split_and!; [done|done|]. done. }
  assert ((da_id bd =? key_arch_id key)%N = true) as -> by (apply N.eqb_eq; congruence).
  cbn [fmap option_fmap option_map]. rewrite Hbd, Hs, Hx. rewrite (a_sync _ _ _ HA).
  set (prop := if 0 <? count_h (key, ver) (default [] (s_wissued sst !! s_cur sst)) then 1%N else 3%N).
  unfold aid_of, ncols_of. rewrite Hbd. rewrite <- Haid. change (key, ver) with h.
  destruct (decide (h ∈ ents s)) as [Hin|Hnin].
  - apply elem_of_list_lookup in Hin as [dd Hdd].
    assert (Hd : dd < len s) by (rewrite <- (i_lents s HI); by eapply lookup_lt_Some).
    destruct (abs_at_some s dd HI Hd) as (e' & row & Ha & He' & Hlr). rewrite Hdd in He'. injection He' as <-.
    rewrite (probe_arch_stored cfg s HI dd h row Hdd Ha).
    pose proof (a_b1 _ _ _ HA h row ltac:(by exists dd)) as Hfind. rewrite Hfind.
    destruct (oracle_accepts_stored_arch prop b s dd h row HI Hd) as (os & Hos & Hck & Hpc).
    exists (acc_arch s dd h row). split_and!; [done|unfold acc_arch; cbn [app]; discriminate|].
    rewrite <- Hcols, <- Hlr. rewrite Hos.
    rewrite bool_decide_eq_true_2 by by eexists. cbn [fmap option_fmap option_map se_vals]. rewrite Hck, Hpc. done.
  - pose proof (a_b2 _ _ _ HA h Hnin) as Hfind. rewrite Hfind.
    rewrite bool_decide_eq_false_2 by (intros [? ?]; done). cbn [fmap option_fmap option_map].
    destruct (probe_arch_not_stored cfg s h HI Hk ltac:(cbn; congruence) Hnin) as [Hp|Hp]; rewrite Hp.
    + exists rej_arch. split_and!; [done|done|]. done.
    + exists (concat (replicate 5 [2%N; pcode PDebug])). split_and!; [done|done|]. done.
Qed.

Lemma rel_step_destroy_raw cfg d qs st sst key ver : wrapping cfg = false -> wf_decl d -> NoDup (da_id <$> wd_archs d) -> Rel d st sst ->
  (key < 2^32)%N -> (ver < 2^32)%N ->
  exists st' obs sst', step cfg d qs st (ODestroy LWorld KEnt TAny (RRaw key ver)) = Some (st', obs) /\ obs <> [254%N] /\
    spec_step cfg d qs sst (ODestroy LWorld KEnt TAny (RRaw key ver)) obs = inr sst' /\ Rel d st' sst'.
Proof.
  intros Hwr Hwf Hnd HR Hkey Hver. destruct (rel_cur d st sst HR) as (w & sw & Hw & Hsw & Hcw & Hcsw & HWI & Harch).
  destruct (r_cur _ _ _ HR) as [Hc0 Hsc0]. destruct (r_iss _ _ _ HR) as [Hfi Hwi].
  pose proof (step_inv cfg d qs st (ODestroy LWorld KEnt TAny (RRaw key ver)) Hwf ltac:(done) (r_inv _ _ _ HR)) as Hinv.
  set (e := (key, ver)). assert (Hk : key32 e) by done.
  destruct (N.eq_dec ver 0) as [->|Hv].
  { exists st, [5%N], sst. split_and!; [|done| |done].
    - cbn [step]. rewrite Hcw. cbn [get_href]. unfold make_key. cbn [snd]. by unfold raw_ok, nonzero_new.
    - cbn [spec_step]. rewrite Hcsw. cbn [fmap option_fmap option_map]. unfold expect_key. cbn [fst snd N.eqb]. unfold lNeqb. by rewrite bool_decide_eq_true_2. }
  assert (Hraw : raw_ok ver = true) by (unfold raw_ok, nonzero_new; destruct (N.eqb_spec ver 0); done).
  destruct (find_arch (wd_archs d) (key_arch_id key)) as [a|] eqn:Hfa.
  2: { exists st, [2%N; pcode PInvalidType], sst. split_and!; [|done| |done].
       - cbn [step]. rewrite Hcw. cbn [get_href]. unfold make_key. cbn [snd]. rewrite Hraw. cbn [negb dispatch_world fst]. rewrite Hfa.
         change world_dispatch_unknown_panics with true. done.
       - cbn [spec_step]. rewrite Hcsw. cbn [fmap option_fmap option_map]. unfold expect_key. cbn [fst snd].
         destruct (N.eqb_spec ver 0) as [|_]; [done|]. rewrite Hfa. done. }
  destruct (find_arch_some _ _ _ Hfa) as (ad & Had & Hid & _).
  destruct (Harch a ad Had) as (s & x & Hs & Hx & HA & HS).
  (* the model's step, unfolded *)
  assert (Hunf : step cfg d qs st (ODestroy LWorld KEnt TAny (RRaw key ver)) =
      match destroy cfg KEnt s e with
      | Ok s1 (Some row) => let '(st2, obs) := after_drop d ad (set_world st (upd w a s1)) [1%N] in ret st2 obs
      | Ok s1 None => ret st [0%N]
      | Panic p s1 => ret (set_world st (upd w a s1)) [2%N; pcode p]
      | UB => None
      end).
  { cbn [step]. rewrite Hcw. cbn [get_href]. unfold make_key. cbn [snd]. rewrite Hraw. cbn [negb dispatch_world fst]. rewrite Hfa, Had, Hs. done. }
  rewrite Hunf in Hinv |- *.
  destruct HS as (HI & Haid & Hcols).
  destruct (decide (e ∈ ents s)) as [Hstored|Hnot].
  2: { (* not stored: absence, or the documented debug assertion *)
       pose proof (resolve_entity_cases cfg s HI e Hk) as Hcase.
       assert (Hd2 : destroy cfg KEnt s e = Ok s None \/ destroy cfg KEnt s e = Panic PDebug s).
       { unfold destroy. cbn [resolve_key]. destruct (resolve_entity cfg s e) as [[[si dd]|]|p|] eqn:Hr; [| | |done].
         - exfalso. apply Hnot. apply elem_of_list_lookup. exists dd. eapply resolve_entity_exact; [done|done|cbn; congruence|done].
         - by left.
         - right. by destruct Hcase as (-> & _). }
       pose proof (a_b2 _ _ _ HA e Hnot) as Hfind.
       destruct Hd2 as [Hd2|Hd2]; rewrite Hd2 in Hinv |- *; cbn [ret] in Hinv |- *.
       - exists st, [0%N], sst. split_and!; [done|done| |done].
         cbn [spec_step]. rewrite Hcsw. cbn [fmap option_fmap option_map]. unfold expect_key. cbn [fst snd].
         destruct (N.eqb_spec ver 0) as [|_]; [done|]. rewrite Hfa, Hx. rewrite (a_sync _ _ _ HA). fold e. rewrite Hfind. done.
       - assert (Hupd : upd w a s = w) by (unfold upd; by apply list_insert_id).
         exists (set_world st (upd w a s)), [2%N; pcode PDebug], sst. split_and!; [done|done| |].
         + cbn [spec_step]. rewrite Hcsw. cbn [fmap option_fmap option_map]. unfold expect_key. cbn [fst snd].
           destruct (N.eqb_spec ver 0) as [|_]; [done|]. rewrite Hfa, Hx. rewrite (a_sync _ _ _ HA). fold e. rewrite Hfind. done.
         + destruct HR as [R1 R2 R3 R4 R5 R6 R7]. constructor; try done.
           exists w, sw. split_and!; [cbn; by rewrite Hw, Hc0, Hupd|done|].
           intros a2 ad2 Had2. destruct (Harch a2 ad2 Had2) as (s2 & x2 & ? & ? & ? & _). by exists s2, x2. }
  (* stored: the forged pair is bit-identical to a live handle of archetype a *)
  assert (Hc : eslot e < cap s).
  { apply elem_of_list_lookup in Hstored as [dd Hdd]. by destruct (fwd' s dd e HI Hdd) as (_ & _ & Hc & _). }
  assert (Hide : da_id ad = key_arch_id (fst e)) by done.
  pose proof (destroy_summary cfg s (iss_of (aid s) (issued st)) e Hwr HI (a_hist _ _ _ HA) Hk ltac:(cbn; congruence) Hc) as Hds.
  (* the oracle's prefix *)
  assert (Hpre : forall obs, spec_step cfg d qs sst (ODestroy LWorld KEnt TAny (RRaw key ver)) obs =
    match obs with
    | 1%N :: vals => match find_sent e (sa_live x) with
                     | None => inl ((if 0 <? count_h e (default [] (s_wissued sst !! s_cur sst)) then 1%N else 3%N), 1%N)
                     | Some e0 => inr (set_sarch sst sw a (sarch_remove x e))
                     end
    | _ => spec_step cfg d qs sst (ODestroy LWorld KEnt TAny (RRaw key ver)) obs
    end).
  { intros obs. destruct obs as [|o1 vals]; [done|]. destruct (N.eq_dec o1 1) as [->|Hne]; [|by destruct o1 as [|[| |]]].
    cbn [spec_step]. rewrite Hcsw. cbn [fmap option_fmap option_map]. unfold expect_key. cbn [fst snd].
    destruct (N.eqb_spec ver 0) as [|_]; [done|]. rewrite Hfa. rewrite Hx. fold e.
    destruct (find_sent e (sa_live x)); done. }
  destruct (destroy cfg KEnt s e) as [s' [row|]|p s'|] eqn:Hdes; [| | |done].
  - (* removed *)
    destruct Hds as (Hrow & HH' & Hcap' & Hlen' & Hpos & Hrows).
    unfold after_drop in Hinv |- *. cbn [drop_in set_world] in Hinv |- *. rewrite (r_drop _ _ _ HR) in Hinv |- *.
    cbn [drop_row N.eqb ret] in Hinv |- *.
    set (st' := set_drop_in (set_world st (upd w a s')) 0%N) in *.
    assert (HS' : SInv ad s').
    { assert (HWI' : WInv d (upd w a s')) by (eapply (RInv_cur d st'); [done|unfold cur_world; cbn; by rewrite Hw, Hc0]).
      destruct (Forall2_lookup_l _ _ _ _ _ HWI' Had) as (s2 & Hs2 & HS2).
      assert (Hup : upd w a s' !! a = Some s') by (unfold upd; apply list_lookup_insert; by eapply lookup_lt_Some).
      by assert (Some s2 = Some s') as [= ->] by (etrans; [symmetry; exact Hs2|exact Hup]). }
    destruct HS' as (HI' & Haid' & Hcols').
    pose proof (a_b1 _ _ _ HA e row Hrow) as Hfind.
    exists st', [1%N], (set_sarch sst sw a (sarch_remove x e)). split_and!; [done|done| |].
    + by rewrite Hpre, Hfind.
    + constructor; try done.
      * exists (upd w a s'), (<[a := sarch_remove x e]> sw). split_and!; [cbn; by rewrite Hw, Hc0|cbn; by rewrite Hsw, Hsc0|].
        intros a2 ad2 Had2. destruct (decide (a2 = a)) as [->|Hne].
        -- rewrite Had in Had2. injection Had2 as <-. exists s', (sarch_remove x e). unfold upd.
           split_and!; [apply list_lookup_insert; by eapply lookup_lt_Some|apply list_lookup_insert; by eapply lookup_lt_Some|].
           constructor.
           ++ apply (a_sync _ _ _ HA).
           ++ intros e' r Hr. apply Hrows in Hr as [Hr Hne']. cbn [sarch_remove sa_live]. rewrite find_sent_remove, decide_False by done.
              by apply (a_b1 _ _ _ HA).
           ++ intros e' He'. cbn [sarch_remove sa_live]. rewrite find_sent_remove. case_decide as Hee; [done|].
              apply (a_b2 _ _ _ HA). intros Hin. destruct (ents_has_row s e' HI Hin) as [r Hr]. apply He'.
              eapply has_row_ents, Hrows. done.
           ++ cbn [sarch_remove sa_live]. rewrite handles_remove. apply NoDup_filter, (a_nodup _ _ _ HA).
           ++ cbn [sarch_remove sa_live]. rewrite <- (fmap_length se_h). fold (handles_of (remove_sent e (sa_live x))).
              rewrite handles_remove, length_remove_nodup; [|apply (a_nodup _ _ _ HA)|].
              ** unfold handles_of. rewrite fmap_length, (a_len _ _ _ HA). lia.
              ** destruct (decide (e ∈ handles_of (sa_live x))) as [|Hn]; [done|]. apply find_sent_none in Hn. congruence.
           ++ cbn [st' set_drop_in set_world issued]. assert (aid s' = aid s) as -> by congruence. done.
           ++ cbn [sarch_remove sa_cap sa_cap_exact]. intros Hex. rewrite (a_cap _ _ _ HA Hex). congruence.
           ++ cbn [sarch_remove sa_cap]. pose proof (a_cap_le _ _ _ HA). lia.
        -- destruct (Harch a2 ad2 Had2) as (s2 & x2 & Hs2 & Hx2 & HA2 & _).
           exists s2, x2. unfold upd.
           split_and!; [etrans; [apply list_lookup_insert_ne; congruence|exact Hs2]|etrans; [apply list_lookup_insert_ne; congruence|exact Hx2]|done].
      * apply (r_ids _ _ _ HR).
      * apply (r_arch _ _ _ HR).
  - (* absent *)
    destruct Hds as (-> & Hnin). cbn [ret] in Hinv |- *.
    exists st, [0%N], sst. split_and!; [done|done| |done].
    exfalso. done.
  - (* generation / version overflow *)
    destruct Hds as (-> & Hp). cbn [ret] in Hinv |- *.
    set (st' := set_world st (upd w a s)) in *.
    exists st', [2%N; pcode p], sst. split_and!; [done|by destruct Hp as [-> | ->]| |].
    + cbn [spec_step]. rewrite Hcsw. cbn [fmap option_fmap option_map]. unfold expect_key. cbn [fst snd].
      destruct (N.eqb_spec ver 0) as [|_]; [done|]. rewrite Hfa. rewrite Hx.
      rewrite (a_sync _ _ _ HA), Hwr. destruct Hp as [-> | ->]; cbn [pcode N.eqb orb]; done.
    + assert (Hupd : upd w a s = w) by (unfold upd; by apply list_insert_id).
      constructor; try done.
      * exists w, sw. split_and!; [cbn; by rewrite Hw, Hc0, Hupd|done|].
        intros a2 ad2 Had2. destruct (Harch a2 ad2 Had2) as (s2 & x2 & ? & ? & ? & _). by exists s2, x2.
      * apply (r_ids _ _ _ HR).
      * apply (r_drop _ _ _ HR).
      * apply (r_arch _ _ _ HR).
Qed.



Lemma rel_step_destroy_raw_arch cfg d qs st sst a key ver : wrapping cfg = false -> wf_decl d -> NoDup (da_id <$> wd_archs d) -> Rel d st sst ->
  a < length (wd_archs d) -> (key < 2^32)%N -> (ver < 2^32)%N ->
  exists st' obs sst', step cfg d qs st (ODestroy (LArch a) KEnt TAny (RRaw key ver)) = Some (st', obs) /\ obs <> [254%N] /\
    spec_step cfg d qs sst (ODestroy (LArch a) KEnt TAny (RRaw key ver)) obs = inr sst' /\ Rel d st' sst'.
Proof.
  intros Hwr Hwf Hnd HR Hlt Hkey Hver. destruct (rel_cur d st sst HR) as (w & sw & Hw & Hsw & Hcw & Hcsw & HWI & Harch).
  destruct (r_cur _ _ _ HR) as [Hc0 Hsc0]. destruct (r_iss _ _ _ HR) as [Hfi Hwi].
  pose proof (step_inv cfg d qs st (ODestroy (LArch a) KEnt TAny (RRaw key ver)) Hwf ltac:(done) (r_inv _ _ _ HR)) as Hinv.
  set (e := (key, ver)). assert (Hk : key32 e) by done.
  destruct (N.eq_dec ver 0) as [->|Hv].
  { exists st, [5%N], sst. split_and!; [|done| |done].
    - cbn [step]. rewrite Hcw. cbn [get_href]. unfold make_key. cbn [snd]. by unfold raw_ok, nonzero_new.
    - cbn [spec_step]. rewrite Hcsw. cbn [fmap option_fmap option_map]. unfold expect_key. cbn [fst snd N.eqb]. unfold lNeqb. by rewrite bool_decide_eq_true_2. }
  assert (Hraw : raw_ok ver = true) by (unfold raw_ok, nonzero_new; destruct (N.eqb_spec ver 0); done).
  destruct (lookup_lt_is_Some_2 _ _ Hlt) as [ad Had].
  destruct (Harch a ad Had) as (s & x & Hs & Hx & HA & HS).
  destruct (decide (da_id ad = key_arch_id key)) as [Hide0|Hide0].
  2: { (* the pair carries another archetype's id: absent *)
       exists st, [0%N], sst. split_and!; [|done| |done].
       - cbn [step]. rewrite Hcw. cbn [get_href]. unfold make_key. cbn [snd]. rewrite Hraw. cbn [negb dispatch_arch fst]. rewrite Had.
         change arch_dispatch_checks_id with true. cbn [id_ok]. unfold conv_ok. cbn [fst].
         destruct (N.eqb_spec (key_arch_id key) (da_id ad)) as [E|_]; [by rewrite E in Hide0|]. done.
       - cbn [spec_step]. rewrite Hcsw. cbn [fmap option_fmap option_map]. unfold expect_key. cbn [fst snd].
         destruct (N.eqb_spec ver 0) as [|_]; [done|]. rewrite Had.
         destruct (N.eqb_spec (da_id ad) (key_arch_id key)) as [|_]; [done|]. done. }
  assert (Hunf : step cfg d qs st (ODestroy (LArch a) KEnt TAny (RRaw key ver)) =
      match destroy cfg KEnt s e with
      | Ok s1 (Some row) => let '(st2, obs) := after_drop d ad (set_world st (upd w a s1)) (1%N :: row) in ret st2 obs
      | Ok s1 None => ret st [0%N]
      | Panic p s1 => ret (set_world st (upd w a s1)) [2%N; pcode p]
      | UB => None
      end).
  { cbn [step]. rewrite Hcw. cbn [get_href]. unfold make_key. cbn [snd]. rewrite Hraw. cbn [negb dispatch_arch fst]. rewrite Had.
    change arch_dispatch_checks_id with true. cbn [id_ok]. unfold conv_ok. cbn [fst].
    assert ((key_arch_id key =? da_id ad)%N = true) as -> by (apply N.eqb_eq; congruence).
    cbn [fmap option_fmap option_map]. rewrite Had, Hs. done. }
  rewrite Hunf in Hinv |- *.
  assert (Hora : (da_id ad =? key_arch_id key)%N = true) by (by apply N.eqb_eq).
  destruct HS as (HI & Haid & Hcols).
  destruct (decide (e ∈ ents s)) as [Hstored|Hnot].
  2: { pose proof (resolve_entity_cases cfg s HI e Hk) as Hcase.
       assert (Hd2 : destroy cfg KEnt s e = Ok s None \/ destroy cfg KEnt s e = Panic PDebug s).
       { unfold destroy. cbn [resolve_key]. destruct (resolve_entity cfg s e) as [[[si dd]|]|p|] eqn:Hr; [| | |done].
         - exfalso. apply Hnot. apply elem_of_list_lookup. exists dd. eapply resolve_entity_exact; [done|done|cbn; congruence|done].
         - by left.
         - right. by destruct Hcase as (-> & _). }
       pose proof (a_b2 _ _ _ HA e Hnot) as Hfind.
       destruct Hd2 as [Hd2|Hd2]; rewrite Hd2 in Hinv |- *; cbn [ret] in Hinv |- *.
       - exists st, [0%N], sst. split_and!; [done|done| |done].
         cbn [spec_step]. rewrite Hcsw. cbn [fmap option_fmap option_map]. unfold expect_key. cbn [fst snd].
         destruct (N.eqb_spec ver 0) as [|_]; [done|]. rewrite Had, Hora, Hx. rewrite (a_sync _ _ _ HA). fold e. rewrite Hfind. done.
       - assert (Hupd : upd w a s = w) by (unfold upd; by apply list_insert_id).
         exists (set_world st (upd w a s)), [2%N; pcode PDebug], sst. split_and!; [done|done| |].
         + cbn [spec_step]. rewrite Hcsw. cbn [fmap option_fmap option_map]. unfold expect_key. cbn [fst snd].
           destruct (N.eqb_spec ver 0) as [|_]; [done|]. rewrite Had, Hora, Hx. rewrite (a_sync _ _ _ HA). fold e. rewrite Hfind. done.
         + destruct HR as [R1 R2 R3 R4 R5 R6 R7]. constructor; try done.
           exists w, sw. split_and!; [cbn; by rewrite Hw, Hc0, Hupd|done|].
           intros a2 ad2 Had2. destruct (Harch a2 ad2 Had2) as (s2 & x2 & ? & ? & ? & _). by exists s2, x2. }
  assert (Hc : eslot e < cap s).
  { apply elem_of_list_lookup in Hstored as [dd Hdd]. by destruct (fwd' s dd e HI Hdd) as (_ & _ & Hc & _). }
  pose proof (destroy_summary cfg s (iss_of (aid s) (issued st)) e Hwr HI (a_hist _ _ _ HA) Hk ltac:(cbn; congruence) Hc) as Hds.
  (* the oracle's prefix *)
  assert (Hpre : forall obs, spec_step cfg d qs sst (ODestroy (LArch a) KEnt TAny (RRaw key ver)) obs =
    match obs with
    | 1%N :: vals => match find_sent e (sa_live x) with
                     | None => inl ((if 0 <? count_h e (default [] (s_wissued sst !! s_cur sst)) then 1%N else 3%N), 1%N)
                     | Some e0 => if negb (lNeqb vals (se_vals e0)) then inl (2%N, 30%N) else inr (set_sarch sst sw a (sarch_remove x e))
                     end
    | _ => spec_step cfg d qs sst (ODestroy (LArch a) KEnt TAny (RRaw key ver)) obs
    end).
  { intros obs. destruct obs as [|o1 vals]; [done|]. destruct (N.eq_dec o1 1) as [->|Hne]; [|by destruct o1 as [|[| |]]].
    cbn [spec_step]. rewrite Hcsw. cbn [fmap option_fmap option_map]. unfold expect_key. cbn [fst snd].
    destruct (N.eqb_spec ver 0) as [|_]; [done|]. rewrite Had, Hora, Hx. fold e.
    destruct (find_sent e (sa_live x)); done. }
  destruct (destroy cfg KEnt s e) as [s' [row|]|p s'|] eqn:Hdes; [| | |done].
  - (* removed *)
    destruct Hds as (Hrow & HH' & Hcap' & Hlen' & Hpos & Hrows).
    unfold after_drop in Hinv |- *. cbn [drop_in set_world] in Hinv |- *. rewrite (r_drop _ _ _ HR) in Hinv |- *.
    cbn [drop_row N.eqb ret] in Hinv |- *.
    set (st' := set_drop_in (set_world st (upd w a s')) 0%N) in *.
    assert (HS' : SInv ad s').
    { assert (HWI' : WInv d (upd w a s')) by (eapply (RInv_cur d st'); [done|unfold cur_world; cbn; by rewrite Hw, Hc0]).
      destruct (Forall2_lookup_l _ _ _ _ _ HWI' Had) as (s2 & Hs2 & HS2).
      assert (Hup : upd w a s' !! a = Some s') by (unfold upd; apply list_lookup_insert; by eapply lookup_lt_Some).
      by assert (Some s2 = Some s') as [= ->] by (etrans; [symmetry; exact Hs2|exact Hup]). }
    destruct HS' as (HI' & Haid' & Hcols').
    pose proof (a_b1 _ _ _ HA e row Hrow) as Hfind.
    exists st', (1%N :: row), (set_sarch sst sw a (sarch_remove x e)). split_and!; [done|done| |].
    + rewrite Hpre, Hfind. cbn [se_vals]. unfold lNeqb. by rewrite bool_decide_eq_true_2.
    + constructor; try done.
      * exists (upd w a s'), (<[a := sarch_remove x e]> sw). split_and!; [cbn; by rewrite Hw, Hc0|cbn; by rewrite Hsw, Hsc0|].
        intros a2 ad2 Had2. destruct (decide (a2 = a)) as [->|Hne].
        -- rewrite Had in Had2. injection Had2 as <-. exists s', (sarch_remove x e). unfold upd.
           split_and!; [apply list_lookup_insert; by eapply lookup_lt_Some|apply list_lookup_insert; by eapply lookup_lt_Some|].
           constructor.
           ++ apply (a_sync _ _ _ HA).
           ++ intros e' r Hr. apply Hrows in Hr as [Hr Hne']. cbn [sarch_remove sa_live]. rewrite find_sent_remove, decide_False by done.
              by apply (a_b1 _ _ _ HA).
           ++ intros e' He'. cbn [sarch_remove sa_live]. rewrite find_sent_remove. case_decide as Hee; [done|].
              apply (a_b2 _ _ _ HA). intros Hin. destruct (ents_has_row s e' HI Hin) as [r Hr]. apply He'.
              eapply has_row_ents, Hrows. done.
           ++ cbn [sarch_remove sa_live]. rewrite handles_remove. apply NoDup_filter, (a_nodup _ _ _ HA).
           ++ cbn [sarch_remove sa_live]. rewrite <- (fmap_length se_h). fold (handles_of (remove_sent e (sa_live x))).
              rewrite handles_remove, length_remove_nodup; [|apply (a_nodup _ _ _ HA)|].
              ** unfold handles_of. rewrite fmap_length, (a_len _ _ _ HA). lia.
              ** destruct (decide (e ∈ handles_of (sa_live x))) as [|Hn]; [done|]. apply find_sent_none in Hn. congruence.
           ++ cbn [st' set_drop_in set_world issued]. assert (aid s' = aid s) as -> by congruence. done.
           ++ cbn [sarch_remove sa_cap sa_cap_exact]. intros Hex. rewrite (a_cap _ _ _ HA Hex). congruence.
           ++ cbn [sarch_remove sa_cap]. pose proof (a_cap_le _ _ _ HA). lia.
        -- destruct (Harch a2 ad2 Had2) as (s2 & x2 & Hs2 & Hx2 & HA2 & _).
           exists s2, x2. unfold upd.
           split_and!; [etrans; [apply list_lookup_insert_ne; congruence|exact Hs2]|etrans; [apply list_lookup_insert_ne; congruence|exact Hx2]|done].
      * apply (r_ids _ _ _ HR).
      * apply (r_arch _ _ _ HR).
  - (* absent *)
    destruct Hds as (-> & Hnin). cbn [ret] in Hinv |- *.
    exists st, [0%N], sst. split_and!; [done|done| |done].
    exfalso. done.
  - (* generation / version overflow *)
    destruct Hds as (-> & Hp). cbn [ret] in Hinv |- *.
    set (st' := set_world st (upd w a s)) in *.
    exists st', [2%N; pcode p], sst. split_and!; [done|by destruct Hp as [-> | ->]| |].
    + cbn [spec_step]. rewrite Hcsw. cbn [fmap option_fmap option_map]. unfold expect_key. cbn [fst snd].
      destruct (N.eqb_spec ver 0) as [|_]; [done|]. rewrite Had, Hora, Hx.
      rewrite (a_sync _ _ _ HA), Hwr. destruct Hp as [-> | ->]; cbn [pcode N.eqb orb]; done.
    + assert (Hupd : upd w a s = w) by (unfold upd; by apply list_insert_id).
      constructor; try done.
      * exists w, sw. split_and!; [cbn; by rewrite Hw, Hc0, Hupd|done|].
        intros a2 ad2 Had2. destruct (Harch a2 ad2 Had2) as (s2 & x2 & ? & ? & ? & _). by exists s2, x2.
      * apply (r_ids _ _ _ HR).
      * apply (r_drop _ _ _ HR).
      * apply (r_arch _ _ _ HR).
Qed.


(** to_direct with any raw pair, once the archetype that decides is known. *)
Lemma todirect_raw_core cfg d qs st sst l key ver a ad s x sw :
  wf_decl d -> Rel d st sst -> (key < 2^32)%N -> (ver < 2^32)%N ->
  sw !! a = Some x -> ARel s x (issued st) -> SInv ad s ->
  da_id ad = key_arch_id key ->
  step cfg d qs st (OToDirect l KEnt TAny (RRaw key ver)) =
     match to_direct cfg KEnt s (key, ver) with
     | ROk (Some dh) => ret (add_directs st [dh]) (1%N :: o_handle dh)
     | ROk None => ret st [0%N]
     | RPanic p => ret st [2%N; pcode p]
     | RUB => None
     end ->
  (forall se dk dv, find_sent (key, ver) (sa_live x) = Some se ->
     spec_step cfg d qs sst (OToDirect l KEnt TAny (RRaw key ver)) [1%N; dk; dv] =
       if negb (N.eqb (dkey_arch_id dk) (da_id ad)) then inl (14%N, 15%N)
       else inr (add_direct sst (dk, dv) (mk_dinfo sst sw a (Some (key, ver))))) ->
  (find_sent (key, ver) (sa_live x) = None ->
     spec_step cfg d qs sst (OToDirect l KEnt TAny (RRaw key ver)) [0%N] = inr sst /\
     spec_step cfg d qs sst (OToDirect l KEnt TAny (RRaw key ver)) [2%N; 5%N] = inr sst) ->
  exists st' obs sst', step cfg d qs st (OToDirect l KEnt TAny (RRaw key ver)) = Some (st', obs) /\ obs <> [254%N] /\
    spec_step cfg d qs sst (OToDirect l KEnt TAny (RRaw key ver)) obs = inr sst' /\ Rel d st' sst'.
Proof.
  intros Hwf HR Hkey Hver Hx HA (HI & Haid & Hcols) Hid Hstep H1 H2. assert (Hk : key32 (key, ver)) by done.
  set (e := (key, ver)) in *.
  pose proof (step_inv cfg d qs st (OToDirect l KEnt TAny (RRaw key ver)) Hwf ltac:(done) (r_inv _ _ _ HR)) as Hinv.
  rewrite Hstep in Hinv |- *.
  destruct (decide (e ∈ ents s)) as [Hin|Hnin].
  - apply elem_of_list_lookup in Hin as [dd Hdd].
    assert (Hd : dd < len s) by (rewrite <- (i_lents s HI); by eapply lookup_lt_Some).
    rewrite (to_direct_stored cfg s HI dd e Hdd) in Hinv |- *. cbn [ret] in Hinv.
    destruct (abs_at_some s dd HI Hd) as (e' & row & Ha & He' & _). rewrite Hdd in He'. injection He' as <-.
    pose proof (a_b1 _ _ _ HA e row ltac:(by exists dd)) as Hfind.
    pose proof (direct_of_id s dd HI Hd) as Hdid. destruct (direct_of s dd) as [dk dv]. cbn [fst] in Hdid.
    exists (add_directs st [(dk, dv)]), (1%N :: o_handle (dk, dv)), (add_direct sst (dk, dv) (mk_dinfo sst sw a (Some e))).
    split_and!; [done|done| |by apply rel_add_directs].
    unfold o_handle. cbn [fst snd]. rewrite (H1 _ _ _ Hfind).
    rewrite Hdid, Haid, N.eqb_refl. done.
  - pose proof (a_b2 _ _ _ HA e Hnin) as Hfind. destruct (H2 Hfind) as [H20 H25].
    pose proof (resolve_entity_cases cfg s HI e Hk) as Hcase.
    assert (Htd : to_direct cfg KEnt s e = ROk None \/ to_direct cfg KEnt s e = RPanic PDebug).
    { unfold to_direct. destruct (resolve_entity cfg s e) as [[[si dd]|]|p|] eqn:Hr; [| | |done].
      - exfalso. apply Hnin. apply elem_of_list_lookup. exists dd. eapply resolve_entity_exact; [done|done|cbn; congruence|done].
      - by left.
      - right. by destruct Hcase as (-> & _). }
    destruct Htd as [Htd|Htd]; rewrite Htd in Hinv |- *.
    + exists st, [0%N], sst. by split_and!.
    + exists st, [2%N; pcode PDebug], sst. by split_and!.
Qed.

Lemma rel_step_todirect_raw cfg d qs st sst l key ver : wf_decl d -> NoDup (da_id <$> wd_archs d) -> Rel d st sst ->
  match l with LWorld => True | LArch b => b < length (wd_archs d) end -> (key < 2^32)%N -> (ver < 2^32)%N ->
  exists st' obs sst', step cfg d qs st (OToDirect l KEnt TAny (RRaw key ver)) = Some (st', obs) /\ obs <> [254%N] /\
    spec_step cfg d qs sst (OToDirect l KEnt TAny (RRaw key ver)) obs = inr sst' /\ Rel d st' sst'.
Proof.
  intros Hwf Hnd HR Hl Hkey Hver. destruct (rel_cur d st sst HR) as (w & sw & Hw & Hsw & Hcw & Hcsw & HWI & Harch).
  assert (Hk : key32 (key, ver)) by done.
  destruct (N.eq_dec ver 0) as [->|Hv].
  { exists st, [5%N], sst. split_and!; [|done| |done].
    - cbn [step]. rewrite Hcw. cbn [get_href]. unfold make_key. cbn [snd]. by unfold raw_ok, nonzero_new.
    - cbn [spec_step]. rewrite Hcsw. cbn [fmap option_fmap option_map]. unfold expect_key. cbn [fst snd N.eqb]. unfold lNeqb. by rewrite bool_decide_eq_true_2. }
  assert (Hraw : raw_ok ver = true) by (unfold raw_ok, nonzero_new; destruct (N.eqb_spec ver 0); done).
  destruct l as [|b].
  - destruct (find_arch (wd_archs d) (key_arch_id key)) as [a|] eqn:Hfa.
    2: { exists st, [2%N; pcode PInvalidType], sst. split_and!; [|done| |done].
         - cbn [step]. rewrite Hcw. cbn [get_href]. unfold make_key. cbn [snd]. rewrite Hraw. cbn [negb dispatch_world fst]. rewrite Hfa.
           change world_dispatch_unknown_panics with true. done.
         - cbn [spec_step]. rewrite Hcsw. cbn [fmap option_fmap option_map]. unfold expect_key. cbn [fst snd].
           destruct (N.eqb_spec ver 0) as [|_]; [done|]. rewrite Hfa. done. }
    destruct (find_arch_some _ _ _ Hfa) as (ad & Had & Hid & _).
    destruct (Harch a ad Had) as (s & x & Hs & Hx & HA & HS).
    apply (todirect_raw_core cfg d qs st sst LWorld key ver a ad s x sw); try done.
    + cbn [step]. rewrite Hcw. cbn [get_href]. unfold make_key. cbn [snd]. rewrite Hraw. cbn [negb dispatch_world fst]. by rewrite Hfa, Had, Hs.
    + intros se dk dv Hf. cbn [spec_step]. rewrite Hcsw. cbn [fmap option_fmap option_map]. unfold expect_key. cbn [fst snd].
      destruct (N.eqb_spec ver 0) as [|_]; [done|]. rewrite Hfa, Hx. rewrite (a_sync _ _ _ HA), Hf.
      unfold aid_of. rewrite Had. cbn. done.
    + intros Hf. split; cbn [spec_step]; rewrite Hcsw; cbn [fmap option_fmap option_map]; unfold expect_key; cbn [fst snd];
        (destruct (N.eqb_spec ver 0) as [|_]; [done|]); rewrite Hfa, Hx; rewrite (a_sync _ _ _ HA), Hf; done.
  - destruct (lookup_lt_is_Some_2 _ _ Hl) as [bd Hbd].
    destruct (Harch b bd Hbd) as (s & x & Hs & Hx & HA & HS).
    destruct (decide (da_id bd = key_arch_id key)) as [Hid|Hid].
    2: { exists st, [0%N], sst. split_and!; [|done| |done].
         - cbn [step]. rewrite Hcw. cbn [get_href]. unfold make_key. cbn [snd]. rewrite Hraw. cbn [negb dispatch_arch fst]. rewrite Hbd.
           change arch_dispatch_checks_id with true. cbn [id_ok]. unfold conv_ok. cbn [fst].
           destruct (N.eqb_spec (key_arch_id key) (da_id bd)) as [E|_]; [by rewrite E in Hid|]. done.
         - cbn [spec_step]. rewrite Hcsw. cbn [fmap option_fmap option_map]. unfold expect_key. cbn [fst snd].
           destruct (N.eqb_spec ver 0) as [|_]; [done|]. rewrite Hbd.
           destruct (N.eqb_spec (da_id bd) (key_arch_id key)) as [|_]; [done|]. done. }
    assert (Hora : (da_id bd =? key_arch_id key)%N = true) by (by apply N.eqb_eq).
    apply (todirect_raw_core cfg d qs st sst (LArch b) key ver b bd s x sw); try done.
    + cbn [step]. rewrite Hcw. cbn [get_href]. unfold make_key. cbn [snd]. rewrite Hraw. cbn [negb dispatch_arch fst]. rewrite Hbd.
      change arch_dispatch_checks_id with true. cbn [id_ok]. unfold conv_ok. cbn [fst].
      assert ((key_arch_id key =? da_id bd)%N = true) as -> by (apply N.eqb_eq; congruence).
      cbn [fmap option_fmap option_map]. by rewrite Hbd, Hs.
    + intros se dk dv Hf. cbn [spec_step]. rewrite Hcsw. cbn [fmap option_fmap option_map]. unfold expect_key. cbn [fst snd].
      destruct (N.eqb_spec ver 0) as [|_]; [done|]. rewrite Hbd, Hora, Hx. rewrite (a_sync _ _ _ HA), Hf.
      unfold aid_of. rewrite Hbd. cbn. done.
    + intros Hf. split; cbn [spec_step]; rewrite Hcsw; cbn [fmap option_fmap option_map]; unfold expect_key; cbn [fst snd];
        (destruct (N.eqb_spec ver 0) as [|_]; [done|]); rewrite Hbd, Hora, Hx; rewrite (a_sync _ _ _ HA), Hf; done.
Qed.

Lemma rel_step1 cfg d qs st sst o : wrapping cfg = false -> wf_decl d -> NoDup (da_id <$> wd_archs d) -> Rel d st sst ->
  l1_op d o = true ->
  exists st' obs sst', step cfg d qs st o = Some (st', obs) /\ obs <> [254%N] /\
    spec_step cfg d qs sst o obs = inr sst' /\ Rel d st' sst'.
Proof.
  intros Hwr Hwf Hnd HR Hl1. destruct (l0_op d o) eqn:Hl0; [by apply rel_step|].
  unfold l1_op in Hl1. rewrite Hl0 in Hl1. cbn [orb] in Hl1.
  destruct o as [| | | | | |l k t r|l k t r|l k t r| | | | | | |da| | | | | |k0 r0|]; try done.
  - destruct k; [|by destruct l]. destruct t; try (by destruct l). destruct r as [|?|key ver]; try (by destruct l).
    destruct l as [|b].
    + apply andb_true_iff in Hl1 as [H1 H2]. apply N.ltb_lt in H1, H2. by apply rel_step_destroy_raw.
    + apply andb_true_iff in Hl1 as [H0 H2]. apply andb_true_iff in H0 as [H0 H1]. apply N.ltb_lt in H1, H2. apply Nat.ltb_lt in H0.
      by apply rel_step_destroy_raw_arch.
  - destruct k; [|by destruct l]. destruct t; try (by destruct l). destruct r as [|?|key ver]; try (by destruct l).
    destruct l as [|b].
    + apply andb_true_iff in Hl1 as [H1 H2]. apply N.ltb_lt in H1, H2.
      destruct (rel_step_probe_raw cfg d qs st sst key ver Hnd HR H1 H2) as (obs & Hst & Hne & Hsp).
      exists st, obs, sst. done.
    + apply andb_true_iff in Hl1 as [H0 H2]. apply andb_true_iff in H0 as [H0 H1]. apply N.ltb_lt in H1, H2. apply Nat.ltb_lt in H0.
      destruct (rel_step_probe_raw_arch cfg d qs st sst b key ver Hnd HR H0 H1 H2) as (obs & Hst & Hne & Hsp).
      exists st, obs, sst. done.
  - destruct k; [|by destruct l]. destruct t; try (by destruct l). destruct r as [|?|key ver]; try (by destruct l).
    destruct l as [|b].
    + apply andb_true_iff in Hl1 as [H1 H2]. apply N.ltb_lt in H1, H2. by apply rel_step_todirect_raw.
    + apply andb_true_iff in Hl1 as [H0 H2]. apply andb_true_iff in H0 as [H0 H1]. apply N.ltb_lt in H1, H2. apply Nat.ltb_lt in H0.
      by apply rel_step_todirect_raw.
  - (* the raw dump of a storage (the hook the harness reads): the oracle does not read it *)
    destruct (rel_cur d st sst HR) as (w & sw & Hw & Hsw & Hcw & Hcsw & HWI & Harch).
    assert (Hsp : forall obs, spec_step cfg d qs sst (ODump da) obs = inr sst) by (intros obs; cbn [spec_step]; by rewrite Hcsw).
    cbn [step]. rewrite Hcw.
    destruct (w !! da) as [s|] eqn:Hs; [|exists st, [8%N], sst; by split_and!].
    assert (HI : Inv s).
    { destruct (lookup_lt_is_Some_2 (wd_archs d) da) as [ad Had].
      - rewrite (Forall2_length _ _ _ HWI). by eapply lookup_lt_Some.
      - destruct (Harch da ad Had) as (s2 & x & Hs2 & _ & _ & (HI & _)). congruence. }
    rewrite (i_lslots s HI), (i_lents s HI), !Nat.leb_refl. cbn [negb orb ret].
    eexists st, _, sst. split_and!; [done|done|apply Hsp|done].
  - (* the handle conversions: no state *)
    destruct k0; [|done]. destruct r0 as [|?|key ver]; try done.
    pose proof (conv_step_accepted cfg d qs st sst key ver) as Hc.
    destruct (step cfg d qs st (OConv KEnt (RRaw key ver))) as [[st' obs]|] eqn:Hst; [|done]. destruct Hc as [-> Hsp].
    exists st, obs, sst. split_and!; [done| |done|done].
    cbn [step get_href ret] in Hst. injection Hst as <-. unfold conv_obs. by destruct (from_raw (key, ver)).
Qed.

Lemma rel_run1 cfg d qs ops : wrapping cfg = false -> wf_decl d -> NoDup (da_id <$> wd_archs d) ->
  forall st sst n, Rel d st sst -> forallb (l1_op d) ops = true ->
  spec_run cfg d qs sst n ops (run_from cfg d qs (Some st) ops) = None.
Proof.
  intros Hwr Hwf Hnd. induction ops as [|o ops IH]; intros st sst n HR Hall; [done|].
  cbn [forallb] in Hall. apply andb_true_iff in Hall as [Ho Hall].
  destruct (rel_step1 cfg d qs st sst o Hwr Hwf Hnd HR Ho) as (st' & obs & sst' & Hst & Hne & Hsp & HR').
  cbn [run_from]. rewrite Hst. cbn [spec_run]. unfold lNeqb. rewrite bool_decide_eq_false_2 by done.
  rewrite Hsp. by apply IH.
Qed.

(** The core language with forged handles: every history refines the oracle. *)
Theorem core_language_with_forged_handles_refines_the_oracle cfg d qs caps w ops : wrapping cfg = false -> wf_decl d ->
  NoDup (da_id <$> wd_archs d) -> length caps = length (wd_archs d) -> new_world (wd_archs d) caps = Ok w tt ->
  forallb (l1_op d) ops = true ->
  spec_check cfg d qs (ONew caps :: ops) (run cfg d qs (ONew caps :: ops)) = None.
Proof.
  intros Hwr Hwf Hnd Hlen Hnw Hall.
  destruct (rel_init cfg d qs caps w Hwf Hlen Hnw) as (st & sst & Hst & Hsp & HR).
  unfold spec_check, run. cbn [run_from]. rewrite Hst. cbn [spec_run]. unfold lNeqb. rewrite bool_decide_eq_false_2 by done.
  rewrite Hsp. by apply rel_run1.
Qed.
