(** The world- and run-level invariant: every storage of every live world satisfies the representation
    invariant for its declared archetype, and the handle tables hold 32-bit pairs.  Preservation by
    the structural operations of [Run.step], for every configuration, declaration and operation. *)
From Coq Require Import NArith Lia Bool.
From stdpp Require Import base list numbers option sets.
From Gecs Require Import Prim ExtrBits ExtrVersion ExtrStorage ExtrQuery Storage Query World Borrow Run
                         BitsFacts VersionFacts StorageInv StorageResolve StorageHist StorageOps RunFacts.
Local Open Scope nat_scope.
Set Default Proof Using "Type".

Definition wf_decl (d : wdecl) : Prop := Forall (fun a => (da_id a < 2^8)%N) (wd_archs d).

(** A storage that belongs to archetype declaration [ad]. *)
Definition SInv (ad : darch) (s : storage) : Prop :=
  Inv s /\ aid s = da_id ad /\ length (cols s) = length (da_comps ad).

Definition WInv (d : wdecl) (w : world) : Prop := Forall2 SInv (wd_archs d) w.

Definition hpair32 (h : handle) : Prop := (fst h < 2^32)%N /\ (snd h < 2^32)%N.

Definition RInv (d : wdecl) (st : rstate) : Prop :=
  Forall (fun ow => match ow with Some w => WInv d w | None => True end) (worlds st) /\
  Forall hpair32 (issued st) /\ Forall hpair32 (directs st).

Lemma hpair32_key32 h : hpair32 h -> key32 h.
Proof. by intros [? _]. Qed.

(* ---------------------------------------------------------------- construction *)

Lemma new_world_ok archs caps : Forall (fun a => (da_id a < 2^8)%N) archs ->
  match new_world archs caps with
  | Ok w _ => Forall2 SInv (take (length caps) archs) w \/ (length archs <= length caps /\ Forall2 SInv archs w)
  | Panic p _ => p = PCapExceed
  | UB => False
  end.
Proof.
  intros Hwf. revert caps. induction Hwf as [|a ar Ha Hwf IH]; intros caps.
  - cbn. left. destruct caps; cbn; constructor.
  - destruct caps as [|c cr]; cbn [new_world]; [left; constructor|].
    unfold with_capacity. destruct (with_capacity_panics (N.of_nat c)) eqn:Hp; [done|].
    specialize (IH cr). destruct (new_world ar cr) as [w []|p w|]; [|done|done].
    assert (HS : SInv a (St (da_id a) VERSION_START 0 c (populate_head 0 c) c c c (populate 0 c) [] (replicate (length (da_comps a)) []) [] [])).
    { split_and!; [|done|cbn [cols]; by rewrite replicate_length].
      apply (with_capacity_inv (da_id a) (length (da_comps a)) c); [done|]. unfold with_capacity. by rewrite Hp. }
    destruct IH as [IH|[Hl IH]].
    + left. cbn. by constructor.
    + right. split; [cbn; lia|by constructor].
Qed.

Lemma new_world_inv d caps w : wf_decl d -> length caps = length (wd_archs d) -> new_world (wd_archs d) caps = Ok w tt -> WInv d w.
Proof.
  intros Hwf Hl H. pose proof (new_world_ok (wd_archs d) caps Hwf) as Hn. rewrite H in Hn.
  destruct Hn as [Hn|[_ Hn]]; [|done]. by rewrite Hl, firstn_all in Hn.
Qed.

(* ---------------------------------------------------------------- updating one storage *)

Lemma WInv_lookup d w a ad s : WInv d w -> wd_archs d !! a = Some ad -> w !! a = Some s -> SInv ad s.
Proof. intros HW Ha Hs. by eapply (Forall2_lookup_lr _ _ _ _ _ _ HW). Qed.

Lemma WInv_upd d w a ad s' : WInv d w -> wd_archs d !! a = Some ad -> SInv ad s' -> WInv d (upd w a s').
Proof.
  intros HW Ha HS. unfold upd, WInv. rewrite <- (list_insert_id (wd_archs d) a ad Ha).
  by apply Forall2_insert.
Qed.

Lemma WInv_length d w : WInv d w -> length w = length (wd_archs d).
Proof. intros HW. symmetry. by eapply Forall2_length. Qed.

(* ---------------------------------------------------------------- create *)

Lemma row_values_length d ad v : length (row_values d ad v) = length (da_comps ad).
Proof. unfold row_values, arch_comps. by rewrite imap_length, fmap_length. Qed.

Lemma created_handle_pair32 s h x : Inv s -> slots s !! h = Some x -> hpair32 (created_handle s h x).
Proof.
  intros HI Hx. assert (h < cap s) by (rewrite <- (i_lslots s HI); by eapply lookup_lt_Some).
  split; cbn.
  - apply pack_key_lt; [by eapply cap_lt_pow24|apply (i_aid s HI)].
  - destruct (proj2 (i_ver s HI) _ _ Hx) as [_ ?]. done.
Qed.

Lemma grown_SInv ad s n : SInv ad s -> len s = cap s -> cap s < n -> (N.of_nat n <= MAX_DATA_CAPACITY)%N -> SInv ad (grown s n).
Proof. intros (HI & Ha & Hc) ? ? ?. split_and!; [by apply grown_inv|done|done]. Qed.

Lemma push_SInv cfg ad s vs : SInv ad s -> length vs = length (da_comps ad) ->
  match push cfg s vs with
  | Ok s' h => SInv ad s' /\ hpair32 h
  | Panic p s' => s' = s /\ p = PCapOverflow
  | UB => False
  end.
Proof.
  intros (HI & Ha & Hc) Hvs. rewrite <- Hc in Hvs. destruct (push_spec cfg s vs HI Hvs) as [Ho Hi].
  destruct Ho as [h x Hlt Hh Hx|n h x Hfull Hn Hnc Hneq Hh Hx|Hfull Hcap].
  - split; [split_and!; [done|done|]|by apply created_handle_pair32].
    unfold created_state. cbn [cols]. destruct (snoc_cols_length (cols s) vs (len s) (i_lcols s HI) Hvs) as [_ ->]. done.
  - assert (HIg : Inv (grown s n)) by (by apply grown_inv).
    split; [split_and!; [done|done|]|by apply created_handle_pair32].
    unfold created_state, grown. cbn [cols]. destruct (snoc_cols_length (cols s) vs (len s) (i_lcols s HI) Hvs) as [_ ->]. done.
  - done.
Qed.

Lemma push_within_SInv cfg ad s vs : SInv ad s -> length vs = length (da_comps ad) ->
  match push_within cfg s vs with
  | Ok s' (Some h) => SInv ad s' /\ hpair32 h
  | Ok s' None => s' = s
  | Panic _ _ => False
  | UB => False
  end.
Proof.
  intros (HI & Ha & Hc) Hvs. rewrite <- Hc in Hvs. pose proof (push_within_spec cfg s vs HI Hvs) as H.
  case_decide.
  - destruct H as (h & x & -> & HI' & Hcap & Hh & Hx). split; [split_and!; [done|done|]|by apply created_handle_pair32].
    unfold created_state. cbn [cols]. destruct (snoc_cols_length (cols s) vs (len s) (i_lcols s HI) Hvs) as [_ ->]. done.
  - by rewrite H.
Qed.

(* ---------------------------------------------------------------- destroy, hooks, events, writes *)

Lemma destroy_SInv cfg k ad s h : SInv ad s -> key32 h ->
  match destroy cfg k s h with
  | Ok s' _ => SInv ad s'
  | Panic _ s' => s' = s
  | UB => False
  end.
Proof.
  intros (HI & Ha & Hc) Hk. destruct (destroy_cases cfg k s h HI Hk) as [|p Hp|d e va vs' He Hkind Hva Hvs HI']; [done|done|].
  split_and!; [done|done|]. unfold destroyed_state. cbn [cols].
  assert (Hdl : d < len s) by (rewrite <- (i_lents s HI); by eapply lookup_lt_Some).
  destruct (swapped_cols_length d (len s) (cols s) ltac:(lia) (i_lcols s HI)) as [_ ->]. done.
Qed.

Lemma preset_SInv ad s sv av : SInv ad s -> (sv < 2^32)%N -> (av < 2^32)%N ->
  match preset_versions s sv av with
  | Ok s' _ => SInv ad s'
  | Panic _ _ => True
  | UB => False
  end.
Proof.
  intros (HI & Ha & Hc) Hsv Hav.
  assert (E : (cap s <=? length (slots s)) = true) by (apply Nat.leb_le; rewrite (i_lslots s HI); lia).
  destruct (preset_versions s sv av) as [s' []|p s'|] eqn:Hp; [|done|].
  - assert (Hnz : in_ver sv /\ in_ver av).
    { unfold preset_versions in Hp. destruct (N.eqb_spec sv 0), (N.eqb_spec av 0); rewrite ?orb_true_r in Hp; try done.
      unfold in_ver. lia. }
    destruct Hnz as [Hsv' Hav'].
    destruct (preset_versions_inv s sv av s' HI Hsv' Hav' Hp) as (HI' & _).
    unfold preset_versions in Hp. rewrite E in Hp.
    destruct (negb (len s =? 0) || N.eqb sv 0 || N.eqb av 0); [done|]. cbn [negb] in Hp. injection Hp as <-. done.
  - unfold preset_versions in Hp. rewrite E in Hp.
    destruct (negb (len s =? 0) || N.eqb sv 0 || N.eqb av 0); done.
Qed.

Lemma clear_events_SInv ad s : SInv ad s -> SInv ad (clear_events s).
Proof. intros (HI & Ha & Hc). split_and!; [by apply clear_events_inv|done|done]. Qed.

Lemma write_col_SInv ad s col i v s' : SInv ad s -> write_col s col i v = Some s' -> SInv ad s'.
Proof.
  intros (HI & Ha & Hc) Hw. destruct (write_col_spec s col i v s' Hw) as (_ & _ & _ & _ & _ & _ & _ & _ & Ha' & _).
  split_and!; [by eapply write_col_inv|congruence|].
  unfold write_col in Hw. repeat (case_match; try done). injection Hw as <-. cbn [cols]. by rewrite insert_length.
Qed.

(* ---------------------------------------------------------------- clone and drop of a world *)

Lemma clone_world_ok d archs w cin : Forall2 SInv archs w ->
  match clone_world d archs w cin with
  | Some (inr (w', _)) => w' = w
  | Some (inl _) => True
  | None => False
  end.
Proof.
  intros HW. revert cin. induction HW as [|ad s ar wr (HI & _) HW IH]; intros cin; [done|].
  cbn [clone_world]. rewrite (clone_storage_spec s HI).
  destruct (clone_cells (nzmask_of d ad) (len s) cin) as [lk|cin1]; [done|].
  specialize (IH cin1). destruct (clone_world d ar wr cin1) as [[lk|[w' cin2]]|]; [done| |done]. by subst.
Qed.

Lemma drop_world_ok d archs w din : Forall2 SInv archs w -> is_Some (drop_world d archs w din).
Proof.
  intros HW. revert din. induction HW as [|ad s ar wr (HI & _) HW IH]; intros din; [by eexists|].
  cbn [drop_world]. rewrite (drop_cells_spec s HI).
  destruct (drop_storage_cols (nzmask_of d ad) (N.of_nat (len s)) din) as [[[lt lz] fired] din1].
  destruct (IH din1) as [[[[lt2 lz2] fired2] din2] ->]. by eexists.
Qed.

(* ---------------------------------------------------------------- Run.step preserves the invariant *)

Definition wf_href (r : href) : Prop := match r with RRaw key ver => (key < 2^32)%N /\ (ver < 2^32)%N | _ => True end.

Definition wf_ty (d : wdecl) (t : ty) : Prop := match t with TMut a => a < length (wd_archs d) | _ => True end.

Definition wf_op (d : wdecl) (o : op) : Prop :=
  match o with
  | ONew caps => length caps = length (wd_archs d)
  | ODestroy _ _ _ r | OProbe _ _ _ r | OToDirect _ _ _ r => wf_href r
  | OWrite _ _ _ _ r _ _ => wf_href r
  | OFind _ _ _ t r _ => wf_href r /\ wf_ty d t
  | OPreset _ sv av => (sv < 2^32)%N /\ (av < 2^32)%N
  | _ => True
  end.

Lemma RInv_cur d st w : RInv d st -> cur_world st = Some w -> WInv d w.
Proof.
  intros (HW & _) Hc. unfold cur_world in Hc. destruct (worlds st !! cur st) as [[w'|]|] eqn:E; try done.
  cbn in Hc. injection Hc as ->. by apply (Forall_lookup_1 _ _ _ _ HW E).
Qed.

Lemma RInv_set_world d st w : RInv d st -> WInv d w -> RInv d (set_world st w).
Proof.
  intros (HW & HI & HD) Hw. split_and!; [|done|done]. unfold set_world. cbn [worlds].
  destruct (decide (cur st < length (worlds st))) as [Hlt|Hge].
  - apply Forall_insert; done.
  - rewrite list_insert_ge by lia. done.
Qed.

Lemma RInv_add_issued d st h : RInv d st -> hpair32 h -> RInv d (add_issued st h).
Proof. intros (HW & HI & HD) Hh. split_and!; [done| |done]. cbn. apply Forall_app. split; [done|by constructor]. Qed.

Lemma RInv_add_directs d st ds : RInv d st -> Forall hpair32 ds -> RInv d (add_directs st ds).
Proof. intros (HW & HI & HD) Hh. split_and!; [done|done|]. cbn. by apply Forall_app. Qed.

Lemma RInv_set_drop_in d st n : RInv d st -> RInv d (set_drop_in st n).
Proof. by intros (HW & HI & HD). Qed.

Lemma get_href_pair32 d st k r h : RInv d st -> wf_href r -> get_href st k r = Some h -> hpair32 h.
Proof.
  intros (HW & HI & HD) Hr Hg. destruct r as [i|i|key ver], k; cbn in Hg; try done.
  - by apply (Forall_lookup_1 _ _ _ _ HI Hg).
  - by apply (Forall_lookup_1 _ _ _ _ HD Hg).
  - injection Hg as <-. done.
Qed.

Lemma step_create_inv cfg d qs st a v (within : bool) : wf_decl d -> RInv d st ->
  match step cfg d qs st (if within then OCreateW a v else OCreate a v) with
  | Some (st', _) => RInv d st'
  | None => False
  end.
Proof.
  intros Hwf HR. destruct within; unfold step; cbv beta iota.
  all: destruct (cur_world st) as [w|] eqn:Hcw; [|done].
  all: pose proof (RInv_cur d st w HR Hcw) as HW.
  all: destruct (wd_archs d !! a) as [ad|] eqn:Ha; [|done]; destruct (w !! a) as [s|] eqn:Hs; [|done].
  all: pose proof (WInv_lookup d w a ad s HW Ha Hs) as HS.
  - pose proof (push_within_SInv cfg ad s (row_values d ad v) HS (row_values_length d ad v)) as Hp.
    destruct (push_within cfg s (row_values d ad v)) as [s' [h|]|p s'|]; [| |done|done].
    + destruct Hp as [HS' Hh]. apply RInv_add_issued; [|done]. apply RInv_set_world; [done|]. by eapply WInv_upd.
    + subst s'. unfold after_drop. destruct (drop_row _ _) as [fired din].
      apply RInv_set_drop_in. apply RInv_set_world; [done|]. by eapply WInv_upd.
  - pose proof (push_SInv cfg ad s (row_values d ad v) HS (row_values_length d ad v)) as Hp.
    destruct (push cfg s (row_values d ad v)) as [s' h|p s'|]; [| |done].
    + destruct Hp as [HS' Hh]. apply RInv_add_issued; [|done]. apply RInv_set_world; [done|]. by eapply WInv_upd.
    + destruct Hp as [-> _]. unfold after_drop. destruct (drop_row _ _) as [fired din].
      apply RInv_set_drop_in. apply RInv_set_world; [done|]. by eapply WInv_upd.
Qed.

Ltac step_start Hcw HW HR := unfold step; cbv beta iota;
  match goal with |- context [cur_world ?st] => destruct (cur_world st) as [w|] eqn:Hcw; [|done];
                                               pose proof (RInv_cur _ st w HR Hcw) as HW end.

Lemma step_new_inv cfg d qs st caps : wf_decl d -> length caps = length (wd_archs d) -> RInv d st ->
  match step cfg d qs st (ONew caps) with Some (st', _) => RInv d st' | None => False end.
Proof.
  intros Hwf Hl HR. unfold step; cbv beta iota.
  pose proof (new_world_ok (wd_archs d) caps Hwf) as Hn.
  destruct (new_world (wd_archs d) caps) as [w []|p w|] eqn:Hnw; [|done|done].
  destruct HR as (HW & HI & HD). split_and!; [|done|done]. cbn [worlds].
  apply Forall_app. split; [done|]. constructor; [|done]. by eapply new_world_inv.
Qed.

Lemma step_switch_inv cfg d qs st i : RInv d st ->
  match step cfg d qs st (OSwitch i) with Some (st', _) => RInv d st' | None => False end.
Proof. intros HR. unfold step; cbv beta iota. destruct (mjoin (worlds st !! i)); done. Qed.

Lemma step_drop_inv cfg d qs st i : RInv d st ->
  match step cfg d qs st (ODrop i) with Some (st', _) => RInv d st' | None => False end.
Proof.
  intros HR. unfold step; cbv beta iota.
  destruct (worlds st !! i) as [[w|]|] eqn:E; cbn [mjoin option_join mbind option_bind]; try done.
  assert (HW : WInv d w) by (destruct HR as (HW & _); by apply (Forall_lookup_1 _ _ _ _ HW E)).
  destruct (drop_world_ok d (wd_archs d) w (drop_in st) HW) as [[[[lt lz] fired] din] ->].
  destruct HR as (HWs & HI & HD). split_and!; [|done|done]. cbn [worlds]. apply Forall_insert; done.
Qed.

Lemma step_clone_inv cfg d qs st : RInv d st ->
  match step cfg d qs st OClone with Some (st', _) => RInv d st' | None => False end.
Proof.
  intros HR. step_start Hcw HW HR.
  pose proof (clone_world_ok d (wd_archs d) w (clone_in st) HW) as Hc.
  destruct (clone_world d (wd_archs d) w (clone_in st)) as [[[lt lz]|[w' cin]]|]; [| |done].
  - destruct HR as (HWs & HI & HD). done.
  - subst w'. destruct HR as (HWs & HI & HD). split_and!; [|done|done]. cbn [worlds].
    apply Forall_app. split; [done|]. by constructor.
Qed.

Lemma step_simple_inv cfg d qs st o : RInv d st ->
  match o with OReg | OFault _ _ | OConv _ _ | OLen _ | OBorrow _ => True | _ => False end ->
  match step cfg d qs st o with Some (st', _) => RInv d st' | None => False end.
Proof.
  intros HR Ho. destruct o; try (exfalso; exact Ho); unfold step; cbv beta iota.
  - destruct (cur_world st); [|done]. by destruct (_ !! a).
  - done.
  - destruct f; destruct HR as (? & ? & ?); done.
  - by destruct (get_href st k r).
  - by destruct (cur_world st).
Qed.

Lemma step_preset_inv cfg d qs st a sv av : (sv < 2^32)%N -> (av < 2^32)%N -> RInv d st ->
  match step cfg d qs st (OPreset a sv av) with Some (st', _) => RInv d st' | None => False end.
Proof.
  intros Hsv Hav HR. step_start Hcw HW HR. destruct (w !! a) as [s|] eqn:Hs; [|done].
  destruct (lookup_lt_is_Some_2 (wd_archs d) a ltac:(rewrite <- (WInv_length d w HW); by eapply lookup_lt_Some)) as [ad Ha].
  pose proof (preset_SInv ad s sv av (WInv_lookup d w a ad s HW Ha Hs) Hsv Hav) as Hp.
  destruct (preset_versions s sv av) as [s' []|p s'|]; [|done|done].
  apply RInv_set_world; [done|]. by eapply WInv_upd.
Qed.

Lemma WInv_fmap_clear d w : WInv d w -> WInv d (clear_events <$> w).
Proof. intros HW. unfold WInv in *. apply Forall2_fmap_r. eapply Forall2_impl; [exact HW|]. intros ad s. apply clear_events_SInv. Qed.

Lemma step_clearev_inv cfg d qs st l : RInv d st ->
  match step cfg d qs st (OClearEv l) with Some (st', _) => RInv d st' | None => False end.
Proof.
  intros HR. step_start Hcw HW HR. destruct (events cfg); cbn [negb]; [|done]. destruct l as [|a].
  - apply RInv_set_world; [done|]. by apply WInv_fmap_clear.
  - destruct (w !! a) as [s|] eqn:Hs; [|done].
    destruct (lookup_lt_is_Some_2 (wd_archs d) a ltac:(rewrite <- (WInv_length d w HW); by eapply lookup_lt_Some)) as [ad Ha].
    apply RInv_set_world; [done|]. eapply WInv_upd; [done|done|]. apply clear_events_SInv. by eapply WInv_lookup.
Qed.

Lemma step_readall_inv cfg d qs st p a : RInv d st ->
  match step cfg d qs st (OReadAll p a) with Some (st', _) => st' = st | None => False end.
Proof.
  intros HR. step_start Hcw HW HR. destruct (w !! a) as [s|] eqn:Hs; [|done].
  destruct (lookup_lt_is_Some_2 (wd_archs d) a ltac:(rewrite <- (WInv_length d w HW); by eapply lookup_lt_Some)) as [ad Ha].
  destruct (WInv_lookup d w a ad s HW Ha Hs) as (HI & _).
  destruct (all_rows_spec s HI) as (rows & -> & _). done.
Qed.

Lemma step_dump_inv cfg d qs st a : RInv d st ->
  match step cfg d qs st (ODump a) with Some (st', _) => st' = st | None => False end.
Proof.
  intros HR. step_start Hcw HW HR. destruct (w !! a) as [s|] eqn:Hs; [|done].
  destruct (lookup_lt_is_Some_2 (wd_archs d) a ltac:(rewrite <- (WInv_length d w HW); by eapply lookup_lt_Some)) as [ad Ha].
  destruct (WInv_lookup d w a ad s HW Ha Hs) as (HI & _).
  assert ((cap s <=? length (slots s)) = true) as -> by (apply Nat.leb_le; rewrite (i_lslots s HI); lia).
  assert ((len s <=? length (ents s)) = true) as -> by (apply Nat.leb_le; rewrite (i_lents s HI); lia).
  done.
Qed.

Lemma step_events_inv cfg d qs st l : RInv d st ->
  match step cfg d qs st (OEvents l) with Some (st', _) => st' = st | None => False end.
Proof.
  intros HR. step_start Hcw HW HR. destruct (events cfg); cbn [negb]; [|done]. destruct l as [|a]; [done|]. by destruct (w !! a).
Qed.

(* ---------------------------------------------------------------- keyed operations *)

Lemma make_key_handle cfg d k t h0 : match make_key cfg d k t h0 with KTyped _ h | KAny h => h = h0 | KStop _ => True end.
Proof.
  unfold make_key. destruct (match k with KEnt => _ | KDir => _ end); [done|].
  destruct t as [|a|a|a]; try done.
  - destruct (wd_archs d !! a); [|done]. by destruct (id_ok _ _ _).
  - destruct (wd_archs d !! a); [|done]. by destruct (debug cfg && _).
Qed.

Lemma dispatch_world_cases d k ky : match dispatch_world d k ky with
  | ROk (a, h) => ky = KTyped a h \/ ky = KAny h
  | RPanic p => p = PInvalidType
  | RUB => match ky with KStop _ => True | _ => False end end.
Proof.
  destruct ky as [h|a h|o]; cbn [dispatch_world]; [|by left|done].
  destruct (find_arch _ _); [by right|]. done.
Qed.

Lemma dispatch_arch_cases d k b ky h : dispatch_arch d k b ky = Some h -> ky = KTyped b h \/ ky = KAny h.
Proof.
  destruct ky as [h'|a h'|o]; cbn [dispatch_arch]; [| |done].
  - destruct (wd_archs d !! b); [|done]. destruct arch_dispatch_checks_id; [destruct (id_ok _ _ _)|]; intros [= ->]; by right.
  - destruct (Nat.eqb_spec a b) as [->|]; [|done]. intros [= ->]. by left.
Qed.

Lemma resolve_for_cases cfg k s h : Inv s -> key32 h ->
  match resolve_for cfg k s h with
  | ROk (Some d) => d < len s
  | ROk None => True
  | RPanic p => p = PDebug /\ debug cfg = true
  | RUB => False
  end.
Proof.
  intros HI Hk. pose proof (resolve_key_cases cfg k s h HI Hk) as Hc. unfold resolve_for.
  destruct (resolve_key cfg k s h) as [[[si dd]|]|p|]; try done.
  destruct Hc as (e & He & _ & Hd & _).
  assert ((N.of_nat (len s) <=? MAX_DATA_CAPACITY)%N = true) as ->.
  { apply N.leb_le. pose proof (i_cap s HI). pose proof (i_le s HI). lia. }
  assert ((dd <=? len s) = true) as -> by (apply Nat.leb_le; lia). done.
Qed.

Lemma read_entity_some s i : Inv s -> i < len s -> exists e r, read_entity s i = Some (i, e, r) /\ abs_at s i = Some (e, r).
Proof.
  intros HI Hi. destruct (abs_at_some s i HI Hi) as (e & r & Ha & He & Hr). exists e, r. split; [|done].
  unfold read_entity.
  assert ((len s <=? length (ents s)) = true) as -> by (apply Nat.leb_le; rewrite (i_lents s HI); lia).
  rewrite (forallb_cols_len (len s) (len s) (cols s) (i_lcols s HI)) by lia.
  assert ((i <? len s) = true) as -> by (by apply Nat.ltb_lt). cbn [negb orb].
  unfold abs_at in Ha. destruct (ents s !! i); [|done]. destruct (row_at (cols s) i); [|done]. by injection Ha as -> ->.
Qed.

Lemma to_direct_cases cfg k s h : Inv s -> hpair32 h ->
  match to_direct cfg k s h with
  | ROk (Some dh) => hpair32 dh
  | ROk None => True
  | RPanic p => p = PDebug /\ debug cfg = true
  | RUB => False
  end.
Proof.
  intros HI Hh. pose proof (resolve_key_cases cfg k s h HI (hpair32_key32 h Hh)) as Hc.
  destruct k; cbn [resolve_key to_direct] in *.
  - destruct (resolve_entity cfg s h) as [[[si dd]|]|p|]; try done.
    destruct Hc as (e & He & _ & Hd & _). destruct (hdense_direct_of s dd HI Hd) as [_ Hk].
    split; [exact Hk|]. cbn [snd]. apply (i_ver s HI).
  - destruct to_direct_of_direct_validates; [|done].
    destruct (resolve_direct cfg s h) as [[[si dd]|]|p|]; done.
Qed.

Lemma rmap_not_ub {A} (r : rres A) f : r <> RUB -> match rmap r f with ROk _ => True | _ => False end.
Proof. by destruct r. Qed.

Lemma rapp_ok a b : (exists x, a = ROk x) -> (exists y, b = ROk y) -> exists z, rapp a b = ROk z.
Proof. intros [x ->] [y ->]. by eexists. Qed.

Lemma o_contains_ok cfg k s h : Inv s -> key32 h -> exists x, o_contains cfg k s h = ROk x.
Proof.
  intros HI Hk. pose proof (resolve_for_cases cfg k s h HI Hk) as Hc. unfold o_contains.
  destruct (resolve_for cfg k s h) as [o|p|]; cbn [rmap]; [by eexists|by eexists|done].
Qed.
Lemma o_resolve_ok cfg k s h : Inv s -> key32 h -> exists x, o_resolve cfg k s h = ROk x.
Proof.
  intros HI Hk. pose proof (resolve_for_cases cfg k s h HI Hk) as Hc. unfold o_resolve.
  destruct (resolve_for cfg k s h) as [o|p|]; cbn [rmap]; [by eexists|by eexists|done].
Qed.
Lemma o_to_direct_ok cfg k s h : Inv s -> hpair32 h -> exists x, o_to_direct cfg k s h = ROk x.
Proof.
  intros HI Hk. pose proof (to_direct_cases cfg k s h HI Hk) as Hc. unfold o_to_direct.
  destruct (to_direct cfg k s h) as [o|p|]; cbn [rmap]; [by eexists|by eexists|done].
Qed.
Lemma o_view_ok cfg k s h : Inv s -> key32 h -> exists x, o_view cfg k s h = ROk x.
Proof.
  intros HI Hk. pose proof (resolve_for_cases cfg k s h HI Hk) as Hc. unfold o_view.
  destruct (resolve_for cfg k s h) as [[dd|]|p|]; [|by eexists|by eexists|done].
  destruct (read_entity_some s dd HI Hc) as (e & r & -> & _). by eexists.
Qed.
Lemma probe_find_ok cfg k s h : Inv s -> key32 h -> exists x, probe_find cfg k s h = ROk x.
Proof.
  intros HI Hk. pose proof (resolve_for_cases cfg k s h HI Hk) as Hc. unfold probe_find.
  destruct (resolve_for cfg k s h) as [[dd|]|p|]; [|by eexists|by eexists|done].
  destruct (read_entity_some s dd HI Hc) as (e & r & -> & _). by eexists.
Qed.

(** No lookup path reaches undefined behaviour on an invariant storage, whatever the 32-bit key. *)
Lemma probe_world_ok cfg typed k s h : Inv s -> hpair32 h -> exists x, probe_storage_world cfg typed k s h = ROk x.
Proof.
  intros HI Hh. pose proof (hpair32_key32 h Hh) as Hk. unfold probe_storage_world.
  apply rapp_ok; [by apply o_contains_ok|]. apply rapp_ok; [by apply o_to_direct_ok|].
  apply rapp_ok; [destruct typed; [apply rapp_ok; by apply o_view_ok|by eexists]|].
  apply rapp_ok; by apply probe_find_ok.
Qed.
Lemma probe_arch_ok cfg k s h : Inv s -> hpair32 h -> exists x, probe_storage_arch cfg k s h = ROk x.
Proof.
  intros HI Hh. pose proof (hpair32_key32 h Hh) as Hk. unfold probe_storage_arch.
  apply rapp_ok; [by apply o_contains_ok|]. apply rapp_ok; [by apply o_resolve_ok|]. apply rapp_ok; [by apply o_to_direct_ok|].
  apply rapp_ok; by apply o_view_ok.
Qed.

Lemma after_drop_inv d ad st o st' o' : RInv d st -> after_drop d ad st o = (st', o') -> RInv d st'.
Proof. unfold after_drop. destruct (drop_row _ _) as [fired din]. intros HR [= <- _]. by apply RInv_set_drop_in. Qed.

Definition keyed_op (o : op) : option (lvl * kind * ty * href) :=
  match o with ODestroy l k t r | OProbe l k t r | OToDirect l k t r => Some (l, k, t, r) | _ => None end.

Lemma step_keyed_inv cfg d qs st o l k t r : keyed_op o = Some (l, k, t, r) -> wf_href r -> RInv d st ->
  match step cfg d qs st o with Some (st', _) => RInv d st' | None => False end.
Proof.
  intros Ho Hr HR.
  assert (Hstep : step cfg d qs st o = step cfg d qs st o) by done.
  destruct o; try done; injection Ho as -> -> -> ->.
  all: step_start Hcw HW HR.
  all: destruct (get_href st k r) as [h0|] eqn:Hg; [|done].
  all: pose proof (get_href_pair32 d st k r h0 HR Hr Hg) as Hh0.
  all: pose proof (make_key_handle cfg d k t h0) as Hmk.
  all: destruct (make_key cfg d k t h0) as [kh|ka kh|obs] eqn:Hky; [| |done].
  all: subst kh.
  all: match goal with |- context [if ?c then _ else _] => destruct c; [done|] end.
  all: match goal with |- match match ?tg with _ => _ end with _ => _ end =>
         assert (Htg : match tg with ROk (Some (a, h)) => h = h0 | RUB => False | _ => True end) end.
  1,3,5,7,9,11: destruct l as [|b];
       [match goal with |- context [dispatch_world _ _ ?ky] => pose proof (dispatch_world_cases d k ky) as Hd;
          destruct (dispatch_world d k ky) as [[a h]|p|]; [destruct Hd as [[= _ ->]|[= ->]]; done|done|done] end
       |match goal with |- context [dispatch_arch _ _ _ ?ky] => pose proof (dispatch_arch_cases d k b ky) as Hd;
          destruct (dispatch_arch d k b ky) as [h|]; [cbn [fmap option_fmap option_map]; destruct (Hd h eq_refl) as [[= _ ->]|[= ->]]; done|done] end].
  all: match goal with |- match match ?tg with _ => _ end with _ => _ end => destruct tg as [[[a h]|]|p|]; [subst h|done|done|done] end.
  all: destruct (wd_archs d !! a) as [ad|] eqn:Ha; [|done]; destruct (w !! a) as [s|] eqn:Hs; [|done].
  all: pose proof (WInv_lookup d w a ad s HW Ha Hs) as HS; pose proof HS as (HI & _).
  (* destroy *)
  1,2: pose proof (destroy_SInv cfg k ad s h0 HS (hpair32_key32 h0 Hh0)) as Hds;
       destruct (destroy cfg k s h0) as [s' [row|]|p s'|]; [|done| |done];
       [match goal with |- context [after_drop _ _ ?st1 ?full] => destruct (after_drop d ad st1 full) as [st2 obs] eqn:Had;
          eapply after_drop_inv; [|exact Had]; apply RInv_set_world; [done|by eapply WInv_upd] end
       |subst s'; apply RInv_set_world; [done|by eapply WInv_upd]].
  (* probe *)
  1,2: match goal with |- context [probe_storage_world _ ?ty _ _ _] =>
         destruct l; [destruct (probe_world_ok cfg ty k s h0 HI Hh0) as [x ->]|destruct (probe_arch_ok cfg k s h0 HI Hh0) as [x ->]]; done end.
  (* to_direct *)
  1,2: pose proof (to_direct_cases cfg k s h0 HI Hh0) as Htd;
       destruct (to_direct cfg k s h0) as [[dh|]|p|]; [|done|done|done];
       apply RInv_add_directs; [done|by constructor].
Qed.

(* ---------------------------------------------------------------- query loops *)

Definition wf_access (ad : darch) (acc : list access) : Prop :=
  Forall (fun a => match a with ACol col _ _ => col < length (da_comps ad) | _ => True end) acc.

Lemma index_of_lt c l i : index_of c l = Some i -> i < length l.
Proof.
  revert i. induction l as [|x l IH]; intros i; cbn [index_of]; [done|].
  destruct (Nat.eqb x c); [intros [= <-]; cbn; lia|].
  destruct (index_of c l) as [j|]; [|done]. cbn. intros [= <-]. specialize (IH j eq_refl). lia.
Qed.

Lemma accesses_wf d ad ps acc : accesses d ad ps = Some acc -> wf_access ad acc.
Proof.
  revert acc. induction ps as [|p ps IH]; intros acc; cbn [accesses]; [intros [= <-]; constructor|].
  destruct (access_of d ad p) as [x|] eqn:Hx; [|done]. destruct (accesses d ad ps) as [xs|]; [|done].
  intros [= <-]. constructor; [|by apply IH].
  unfold access_of in Hx. destruct (p_type p); try (by injection Hx as <-); [|done].
  destruct (index_of c (arch_comps ad)) as [i|] eqn:Hi; [|done]. injection Hx as <-.
  apply index_of_lt in Hi. unfold arch_comps in Hi. by rewrite fmap_length in Hi.
Qed.

Definition wf_plan (archs : list darch) (plan : list (option (list access))) : Prop :=
  Forall2 (fun ad oa => match oa with Some acc => wf_access ad acc | None => True end) archs plan.

Lemma query_plan_wf d ps plan : query_plan d ps = Some plan -> wf_plan (wd_archs d) plan.
Proof.
  unfold query_plan. destruct (generate_query (wd_archs d) ps) as [e|r]; [done|].
  generalize (wd_archs d). intros archs. revert r plan.
  induction archs as [|a ar IH]; intros r plan.
  - destruct r; [|done]. intros [= <-]. constructor.
  - destruct r as [|[b|] rr]; [done| |].
    + destruct (accesses d a b) as [x|] eqn:Hx; [|done].
      match goal with |- context [match ?g with Some xs => _ | None => _ end] => destruct g as [xs|] eqn:Hg; [|done] end.
      intros [= <-]. constructor; [by eapply accesses_wf|]. by eapply IH.
    + match goal with |- context [_ <$> ?g] => destruct g as [xs|] eqn:Hg; [|done] end.
      cbn. intros [= <-]. constructor; [done|]. by eapply IH.
Qed.

(** One closure call: succeeds on every live position, keeps the storage's shape, and hands out
    32-bit direct handles. *)
Lemma call_closure_ok ad acc : wf_access ad acc -> forall s i ver delta, SInv ad s -> i < len s -> in_ver ver ->
  exists o s1 ds, call_closure s i ver delta acc = Some (o, s1, ds) /\ SInv ad s1 /\
    len s1 = len s /\ version s1 = version s /\ ents s1 = ents s /\ slots s1 = slots s /\ head s1 = head s /\
    cap s1 = cap s /\ created s1 = created s /\ destroyed s1 = destroyed s /\ Forall hpair32 ds.
Proof.
  induction 1 as [|a acc Ha Hacc IH]; intros s i ver delta HS Hi Hver.
  - exists [], s, []. by split_and!.
  - pose proof HS as (HI & Haid & Hlc). destruct a as [col m zst| |]; cbn [call_closure].
    + assert (Hcl : col < length (cols s)) by lia.
      destruct (lookup_lt_is_Some_2 _ _ Hcl) as [c Hc]. rewrite Hc.
      pose proof (Forall_lookup_1 _ _ _ _ (i_lcols s HI) Hc) as Hlen. cbn beta in Hlen.
      destruct (lookup_lt_is_Some_2 c i ltac:(lia)) as [v Hv]. unfold val in *. rewrite Hv.
      destruct (m && negb zst && negb (delta =? 0)%N).
      * destruct (write_col_some s col i (v + delta)%N HI Hcl Hi) as [s1 Hw]. rewrite Hw.
        pose proof (write_col_SInv ad s col i _ s1 HS Hw) as HS1.
        destruct (write_col_spec s col i _ s1 Hw) as (_ & _ & He & Hs & Hl & Hcp & Hvv & Hh & _ & Hcr & Hde & _).
        destruct (IH s1 i ver delta HS1 ltac:(lia) Hver) as (o & s2 & ds & -> & HS2 & E1 & E2 & E3 & E4 & E5 & E6 & E7 & E8 & Hds).
        exists (v :: o), s2, ds. split_and!; try done; congruence.
      * destruct (IH s i ver delta HS Hi Hver) as (o & s2 & ds & -> & HS2 & E1 & E2 & E3 & E4 & E5 & E6 & E7 & E8 & Hds).
        exists (v :: o), s2, ds. by split_and!.
    + destruct (lookup_lt_is_Some_2 (ents s) i ltac:(rewrite (i_lents s HI); lia)) as [e He]. rewrite He.
      destruct (IH s i ver delta HS Hi Hver) as (o & s2 & ds & -> & HS2 & E1 & E2 & E3 & E4 & E5 & E6 & E7 & E8 & Hds).
      exists (o_handle e ++ o), s2, ds. by split_and!.
    + destruct (IH s i ver delta HS Hi Hver) as (o & s2 & ds & -> & HS2 & E1 & E2 & E3 & E4 & E5 & E6 & E7 & E8 & Hds).
      eexists _, s2, _. split_and!; try done. constructor; [|done].
      destruct (hdense_direct_of s i HI Hi) as [_ Hk]. split; [exact Hk|exact (proj2 Hver)].
Qed.

Lemma iter_arch_ok ad acc ver delta break_at panic_at n : wf_access ad acc -> in_ver ver ->
  forall fuel s i ord, SInv ad s -> len s = n ->
  exists s1 recs ds ord1 stp, iter_arch fuel s i n ver delta acc ord break_at panic_at = Some (s1, recs, ds, ord1, stp) /\
    SInv ad s1 /\ len s1 = n /\ Forall hpair32 ds.
Proof.
  intros Hacc Hver. induction fuel as [|fuel IH]; intros s i ord HS Hn; cbn [iter_arch].
  - exists s, [], [], ord, SNone. by split_and!.
  - destruct (Nat.ltb_spec i n) as [Hi|Hi]; cbn [negb].
    2: { exists s, [], [], ord, SNone. by split_and!. }
    pose proof HS as (HI & _).
    assert ((len s <=? length (ents s)) = true) as -> by (apply Nat.leb_le; rewrite (i_lents s HI); lia).
    rewrite (forallb_cols_len (len s) (len s) (cols s) (i_lcols s HI)) by lia. cbn [negb orb].
    destruct (call_closure_ok ad acc Hacc s i ver delta HS ltac:(lia) Hver) as (o & s1 & ds & -> & HS1 & E1 & _ & _ & _ & _ & _ & _ & _ & Hds).
    destruct (decide (panic_at = Some ord)); [eexists _, _, _, _, _; split_and!; [done|done|lia|done]|].
    destruct (decide (break_at = Some ord)); [eexists _, _, _, _, _; split_and!; [done|done|lia|done]|].
    destruct (IH s1 (S i) (S ord) HS1 ltac:(lia)) as (s2 & recs & ds2 & ord2 & stp & -> & HS2 & Hl2 & Hds2).
    eexists _, _, _, _, _. split_and!; [done|done|done|]. by apply Forall_app.
Qed.

Lemma iter_world_ok delta break_at panic_at archs w : Forall2 SInv archs w ->
  forall plan ord, wf_plan archs plan ->
  exists w' recs ds stp, iter_world w plan delta ord break_at panic_at = Some (w', recs, ds, stp) /\
    Forall2 SInv archs w' /\ Forall hpair32 ds.
Proof.
  induction 1 as [|ad s archs w HS HW IH]; intros plan ord Hp.
  - exists [], [], [], SNone. destruct plan; by split_and!.
  - inversion Hp as [|? oa ? pr Hoa Hpr]; subst. destruct oa as [acc|]; cbn [iter_world].
    + pose proof HS as (HI & _).
      destruct (iter_arch_ok ad acc (version s) delta break_at panic_at (len s) Hoa (proj1 (i_ver s HI)) (S (len s)) s 0 ord HS eq_refl)
        as (s1 & recs & ds & ord1 & stp & -> & HS1 & _ & Hds).
      destruct stp.
      * destruct (IH pr ord1 Hpr) as (w2 & recs2 & ds2 & st2 & -> & HW2 & Hds2).
        eexists _, _, _, _. split_and!; [done|by constructor|by apply Forall_app].
      * eexists _, _, _, _. split_and!; [done|by constructor|done].
      * eexists _, _, _, _. split_and!; [done|by constructor|done].
    + destruct (IH pr ord Hpr) as (w2 & recs2 & ds2 & st2 & -> & HW2 & Hds2).
      eexists _, _, _, _. split_and!; [done|by constructor|done].
Qed.

Lemma destroy_len cfg k ad s h : SInv ad s -> key32 h ->
  match destroy cfg k s h with
  | Ok s' (Some _) => len s' = len s - 1 /\ 0 < len s
  | Ok s' None => s' = s
  | _ => True
  end.
Proof.
  intros (HI & _) Hk. destruct (destroy_cases cfg k s h HI Hk) as [|p Hp|dd e va vs' He Hkind Hva Hvs HI']; [done|done|].
  unfold destroyed_state. cbn [len]. split; [done|]. rewrite <- (i_lents s HI). apply lookup_lt_Some in He. lia.
Qed.

Lemma ents_hpair32 s i e : Inv s -> ents s !! i = Some e -> hpair32 e.
Proof.
  intros HI He. destruct (fwd' s i e HI He) as (Hx & Hk & Hc & _ & _).
  split.
  - rewrite Hk. apply pack_key_lt; [by eapply cap_lt_pow24|apply (i_aid s HI)].
  - destruct (i_ver s HI) as [_ Hv]. specialize (Hv _ _ Hx). cbn [s_ver] in Hv. apply Hv.
Qed.

Lemma iterd_arch_ok cfg ad acc ver0 nz decs : wf_access ad acc -> in_ver ver0 ->
  forall idx1 s ord din, SInv ad s -> idx1 <= len s ->
  match iterd_arch cfg idx1 s ver0 acc nz ord decs din with
  | Ok (s1, recs, ds, ord1, stp, din1) _ | Panic _ (s1, recs, ds, ord1, stp, din1) => SInv ad s1 /\ Forall hpair32 ds
  | UB => False
  end.
Proof.
  intros Hacc Hver0. induction idx1 as [|idx IH]; intros s ord din HS Hle; cbn [iterd_arch]; [done|].
  pose proof HS as (HI & _).
  assert ((len s <=? length (ents s)) = true) as -> by (apply Nat.leb_le; rewrite (i_lents s HI); lia).
  rewrite (forallb_cols_len (len s) (len s) (cols s) (i_lcols s HI)) by lia.
  assert ((idx <? len s) = true) as -> by (apply Nat.ltb_lt; lia). cbn [negb orb].
  set (ver := if iter_destroy_version_in_loop then version s else ver0).
  assert (Hver : in_ver ver) by (unfold ver; destruct iter_destroy_version_in_loop; [apply (i_ver s HI)|done]).
  destruct (call_closure_ok ad acc Hacc s idx ver 0%N HS ltac:(lia) Hver) as (o & s1 & ds & -> & _ & _ & _ & _ & _ & _ & _ & _ & _ & Hds).
  destruct (lookup_lt_is_Some_2 (ents s) idx ltac:(rewrite (i_lents s HI); lia)) as [e He]. rewrite He.
  pose proof (ents_hpair32 s idx e HI He) as Hep.
  pose proof (destroy_SInv cfg KEnt ad s e HS (hpair32_key32 e Hep)) as Hd1.
  pose proof (destroy_len cfg KEnt ad s e HS (hpair32_key32 e Hep)) as Hd2.
  assert (Hcont : forall s1 din1, SInv ad s1 -> idx <= len s1 ->
    match match iterd_arch cfg idx s1 ver0 acc nz (S ord) decs din1 with
          | Ok (s2, recs, ds2, ord2, st, din2) _ => Ok (s2, visit_record s o :: recs, ds ++ ds2, ord2, st, din2) tt
          | Panic p (s2, recs, ds2, ord2, st, din2) => Panic p (s2, visit_record s o :: recs, ds ++ ds2, ord2, st, din2)
          | UB => UB end with
    | Ok (s1, recs, ds, ord1, stp, din1) _ | Panic _ (s1, recs, ds, ord1, stp, din1) => SInv ad s1 /\ Forall hpair32 ds
    | UB => False end).
  { intros s1' din1 HS1 Hl1. specialize (IH s1' (S ord) din1 HS1 Hl1).
    destruct (iterd_arch cfg idx s1' ver0 acc nz (S ord) decs din1) as [[[[[[s2 recs] ds2] ord2] st] din2] []|p [[[[[s2 recs] ds2] ord2] st] din2]|]; [| |done].
    - destruct IH as [? ?]. split; [done|by apply Forall_app].
    - destruct IH as [? ?]. split; [done|by apply Forall_app]. }
  destruct (nth_decision decs ord).
  - apply Hcont; [done|lia].
  - done.
  - destruct (destroy cfg KEnt s e) as [s' [row|]|p s'|]; [| | |done].
    + destruct (drop_row nz din) as [fired din1]. destruct fired; [done|]. apply Hcont; [done|lia].
    + destruct (drop_row nz din) as [fired din1]. destruct fired; [done|]. subst s'. apply Hcont; [done|lia].
    + subst s'. done.
  - destruct (destroy cfg KEnt s e) as [s' [row|]|p s'|]; [| | |done].
    + destruct (drop_row nz din) as [fired din1]. by destruct fired.
    + destruct (drop_row nz din) as [fired din1]. by destruct fired.
    + subst s'. done.
  - done.
Qed.

Lemma iterd_world_ok cfg d decs archs w : Forall2 SInv archs w ->
  forall plan ord din, wf_plan archs plan ->
  match iterd_world cfg d archs w plan ord decs din with
  | Ok (w', recs, ds, din1) _ | Panic _ (w', recs, ds, din1) => Forall2 SInv archs w' /\ Forall hpair32 ds
  | UB => False
  end.
Proof.
  induction 1 as [|ad s archs w HS HW IH]; intros plan ord din Hp.
  - cbn. split; [constructor|done].
  - inversion Hp as [|? oa ? pr Hoa Hpr]; subst. destruct oa as [acc|]; cbn [iterd_world].
    + pose proof HS as (HI & _).
      pose proof (iterd_arch_ok cfg ad acc (version s) (nz_cols d ad) decs Hoa (proj1 (i_ver s HI)) (len s) s ord din HS (le_n _)) as Ha.
      destruct (iterd_arch cfg (len s) s (version s) acc (nz_cols d ad) ord decs din)
        as [[[[[[s1 recs] ds] ord1] stp] din1] []|p [[[[[s1 recs] ds] ord1] stp] din1]|]; [| |done].
      * destruct Ha as [HS1 Hds]. destruct stp; [|split; [by constructor|done]|split; [by constructor|done]].
        specialize (IH pr ord1 din1 Hpr).
        destruct (iterd_world cfg d archs w pr ord1 decs din1) as [[[[w2 recs2] ds2] din2] []|p [[[w2 recs2] ds2] din2]|]; [| |done].
        -- destruct IH. split; [by constructor|by apply Forall_app].
        -- destruct IH. split; [by constructor|by apply Forall_app].
      * destruct Ha as [HS1 Hds]. split; [by constructor|done].
    + specialize (IH pr ord din Hpr).
      destruct (iterd_world cfg d archs w pr ord decs din) as [[[[w2 recs2] ds2] din2] []|p [[[w2 recs2] ds2] din2]|]; [| |done].
      * destruct IH. split; [by constructor|done].
      * destruct IH. split; [by constructor|done].
Qed.

Lemma wf_plan_lookup archs plan a ad acc : wf_plan archs plan -> archs !! a = Some ad -> plan !! a = Some (Some acc) -> wf_access ad acc.
Proof. intros Hp Ha Hpl. by apply (Forall2_lookup_lr _ _ _ _ _ _ Hp Ha Hpl). Qed.

Lemma find_arch_lt archs id a : find_arch archs id = Some a -> a < length archs.
Proof.
  revert a. induction archs as [|x l IH]; intros a; cbn [find_arch]; [done|].
  destruct (N.eqb (da_id x) id); [intros [= <-]; cbn; lia|].
  destruct (find_arch l id) as [j|]; [|done]. cbn. intros [= <-]. specialize (IH j eq_refl). lia.
Qed.

Definition key_in (d : wdecl) (h0 : handle) (ky : key) : Prop :=
  match ky with KTyped a h => h = h0 /\ a < length (wd_archs d) | KAny h => h = h0 | KStop _ => False end.

Lemma find_query_ok cfg d w plan k ky delta h0 : WInv d w -> wf_plan (wd_archs d) plan -> hpair32 h0 ->
  key_in d h0 ky ->
  match find_query cfg d w plan k ky delta with
  | Ok w' (_, ds) => WInv d w' /\ Forall hpair32 ds
  | Panic _ w' => w' = w
  | UB => False
  end.
Proof.
  intros HW Hp Hh0 Hky. unfold find_query.
  assert (Hd : match dispatch_world d k ky with ROk (a, h) => h = h0 /\ a < length (wd_archs d) | RPanic _ => True | RUB => False end).
  { destruct ky as [h|a h|o]; cbn [dispatch_world key_in] in *; [|done|done].
    destruct (find_arch _ _) as [a|] eqn:Hf; [|done]. split; [done|by eapply find_arch_lt]. }
  destruct (dispatch_world d k ky) as [[a h]|p|]; [|done|done]. destruct Hd as [-> Ha].
  destruct (lookup_lt_is_Some_2 _ _ Ha) as [ad Had].
  destruct (lookup_lt_is_Some_2 plan a ltac:(rewrite <- (Forall2_length _ _ _ Hp); done)) as [oa Hoa].
  destruct (lookup_lt_is_Some_2 w a ltac:(rewrite (WInv_length d w HW); done)) as [s Hs].
  rewrite Hoa. unfold world in *. rewrite Hs. destruct oa as [acc|]; [|done].
  pose proof (WInv_lookup d w a ad s HW Had Hs) as HS. pose proof HS as (HI & _).
  pose proof (resolve_for_cases cfg k s h0 HI (hpair32_key32 _ Hh0)) as Hr.
  destruct (resolve_for cfg k s h0) as [[i|]|p|]; [|done|done|done].
  assert ((len s <=? length (ents s)) = true) as -> by (apply Nat.leb_le; rewrite (i_lents s HI); lia).
  rewrite (forallb_cols_len (len s) (len s) (cols s) (i_lcols s HI)) by lia.
  assert ((i <? len s) = true) as -> by (by apply Nat.ltb_lt). cbn [negb orb].
  destruct (call_closure_ok ad acc (wf_plan_lookup _ _ _ _ _ Hp Had Hoa) s i (version s) delta HS Hr (proj1 (i_ver s HI)))
    as (o & s1 & ds & -> & HS1 & _ & _ & _ & _ & _ & _ & _ & _ & Hds).
  split; [by eapply WInv_upd|done].
Qed.

Lemma step_write_inv cfg d qs st p b k t r c v : wf_href r -> RInv d st ->
  match step cfg d qs st (OWrite p b k t r c v) with Some (st', _) => RInv d st' | None => False end.
Proof.
  intros Hr HR. step_start Hcw HW HR.
  destruct (get_href st k r) as [h0|] eqn:Hg; [|done].
  pose proof (get_href_pair32 d st k r h0 HR Hr Hg) as Hh0.
  pose proof (make_key_handle cfg d k t h0) as Hmk.
  destruct (make_key cfg d k t h0) as [kh|ka kh|obs] eqn:Hky; [| |done]; subst kh.
  all: cbv beta iota.
  2: destruct (ka =? b); [|done].
  all: destruct (wd_archs d !! b) as [bd|] eqn:Hb; [|done].
  all: destruct (index_of c (arch_comps bd)) as [colb|] eqn:Hcolb; [|done].
  all: assert (Hfin : forall a ad s col i, wd_archs d !! a = Some ad -> w !! a = Some s -> index_of c (arch_comps ad) = Some col -> i < len s ->
         match (if negb (len s <=? length (ents s)) || negb (forallb (fun x => len s <=? length x) (cols s)) || negb (i <? len s) then None
                else if is_zst d c then ret st [1%N]
                else match write_col s col i v with Some s' => ret (set_world st (upd w a s')) [1%N] | None => None end)
         with Some (st', _) => RInv d st' | None => False end).
  1,3: (intros a ad s col i Ha Hs Hcol Hi; pose proof (WInv_lookup d w a ad s HW Ha Hs) as HS; pose proof HS as (HI & _ & Hlc);
       assert ((len s <=? length (ents s)) = true) as -> by (apply Nat.leb_le; rewrite (i_lents s HI); lia);
       rewrite (forallb_cols_len (len s) (len s) (cols s) (i_lcols s HI)) by lia;
       assert ((i <? len s) = true) as -> by (by apply Nat.ltb_lt); cbn [negb orb];
       destruct (is_zst d c); [done|];
       apply index_of_lt in Hcol; unfold arch_comps in Hcol; rewrite fmap_length in Hcol;
       destruct (write_col_some s col i v HI ltac:(lia) Hi) as [s' Hw]; rewrite Hw;
       apply RInv_set_world; [done|]; eapply WInv_upd; [done|done|by eapply write_col_SInv]).
  all: destruct p.
  (* WFind / WFindB: world-level dispatch *)
  all: try (match goal with |- context [if ?g then ret _ [6%N] else _] => destruct g; [done|] end;
       match goal with |- context [dispatch_world _ _ ?ky] => pose proof (dispatch_world_cases d k ky) as Hd;
          destruct (dispatch_world d k ky) as [[a h]|pp|]; [|done|done] end;
       assert (h = h0) as -> by (destruct Hd as [[= _ ->]|[= ->]]; done);
       destruct (wd_archs d !! a) as [ad|] eqn:Ha; [|done]; destruct (w !! a) as [s|] eqn:Hs; [|done];
       destruct (index_of c (arch_comps ad)) as [col|] eqn:Hcol; [|done];
       pose proof (WInv_lookup d w a ad s HW Ha Hs) as (HI & _);
       pose proof (resolve_for_cases cfg k s h0 HI (hpair32_key32 _ Hh0)) as Hrf;
       destruct (resolve_for cfg k s h0) as [[i|]|pp|]; [|done|done|done];
       by eapply Hfin).
  (* archetype-level paths *)
  all: match goal with |- context [dispatch_arch _ _ _ ?ky] => pose proof (dispatch_arch_cases d k b ky) as Hd;
          destruct (dispatch_arch d k b ky) as [h|]; [|done] end.
  all: assert (h = h0) as -> by (destruct (Hd _ eq_refl) as [[= _ ->]|[= ->]]; done).
  all: destruct (w !! b) as [s|] eqn:Hs; [|done].
  all: pose proof (WInv_lookup d w b bd s HW Hb Hs) as (HI & _).
  all: pose proof (resolve_for_cases cfg k s h0 HI (hpair32_key32 _ Hh0)) as Hrf.
  all: destruct (resolve_for cfg k s h0) as [[i|]|pp|]; [|done|done|done].
  all: specialize (Hfin b bd s colb i Hb Hs Hcolb Hrf).
  all: assert (E1 : (len s <=? length (ents s)) = true) by (apply Nat.leb_le; rewrite (i_lents s HI); lia).
  all: assert (E2 : (i <? len s) = true) by (by apply Nat.ltb_lt).
  all: rewrite E1, (forallb_cols_len (len s) (len s) (cols s) (i_lcols s HI)), E2 in * by lia; cbn [negb orb] in *; exact Hfin.
Qed.

Lemma make_key_in cfg d k t h0 : wf_ty d t -> match make_key cfg d k t h0 with KStop _ => True | ky => key_in d h0 ky end.
Proof.
  intros Ht. unfold make_key. destruct (match k with KEnt => _ | KDir => _ end); [done|].
  destruct t as [|a|a|a]; [done| | |done].
  - destruct (wd_archs d !! a) eqn:Ha; [|done]. destruct (id_ok _ _ _); [|done]. split; [done|by eapply lookup_lt_Some].
  - destruct (wd_archs d !! a) eqn:Ha; [|done]. destruct (debug cfg && _); [done|]. split; [done|by eapply lookup_lt_Some].
Qed.

Lemma step_find_inv cfg d qs st q borrow k t r delta : wf_href r -> wf_ty d t -> RInv d st ->
  match step cfg d qs st (OFind q borrow k t r delta) with Some (st', _) => RInv d st' | None => False end.
Proof.
  intros Hr Ht HR. step_start Hcw HW HR.
  destruct (get_href st k r) as [h0|] eqn:Hg; [|done].
  pose proof (get_href_pair32 d st k r h0 HR Hr Hg) as Hh0.
  pose proof (make_key_in cfg d k t h0 Ht) as Hmk.
  destruct (make_key cfg d k t h0) as [kh|ka kh|obs] eqn:Hky; [| |done].
  all: cbv beta iota.
  2: destruct (negb (q <? 2)); [done|].
  all: destruct (qs !! q ≫= query_plan d) as [plan|] eqn:Hq; [|done].
  all: assert (Hp : wf_plan (wd_archs d) plan) by (destruct (qs !! q) as [ps|]; [|done]; by eapply query_plan_wf).
  all: match goal with |- context [find_query _ _ _ _ _ ?ky _] =>
         pose proof (find_query_ok cfg d w plan k ky delta h0 HW Hp Hh0 Hmk) as Hf;
         destruct (find_query cfg d w plan k ky delta) as [w' [obs ds]|p w'|]; [| |done] end.
  all: try (destruct Hf as [HW' Hds]; apply RInv_add_directs; [|done]; by apply RInv_set_world).
  all: subst w'; by apply RInv_set_world.
Qed.

Lemma step_iter_inv cfg d qs st q borrow break_at panic_at delta : RInv d st ->
  match step cfg d qs st (OIter q borrow break_at panic_at delta) with Some (st', _) => RInv d st' | None => False end.
Proof.
  intros HR. step_start Hcw HW HR.
  destruct (qs !! q ≫= query_plan d) as [plan|] eqn:Hq; [|done].
  assert (Hp : wf_plan (wd_archs d) plan) by (destruct (qs !! q) as [ps|]; [|done]; by eapply query_plan_wf).
  destruct (iter_world_ok delta break_at panic_at (wd_archs d) w HW plan 0 Hp) as (w' & recs & ds & stp & -> & HW' & Hds).
  apply RInv_add_directs; [|done]. by apply RInv_set_world.
Qed.

Lemma step_iterd_inv cfg d qs st q decs : RInv d st ->
  match step cfg d qs st (OIterD q decs) with Some (st', _) => RInv d st' | None => False end.
Proof.
  intros HR. step_start Hcw HW HR.
  destruct (qs !! q ≫= query_plan d) as [plan|] eqn:Hq; [|done].
  assert (Hp : wf_plan (wd_archs d) plan) by (destruct (qs !! q) as [ps|]; [|done]; by eapply query_plan_wf).
  pose proof (iterd_world_ok cfg d decs (wd_archs d) w HW plan 0 (drop_in st) Hp) as Hi.
  destruct (iterd_world cfg d (wd_archs d) w plan 0 decs (drop_in st)) as [[[[w' recs] ds] din] []|p [[[w' recs] ds] din]|]; [| |done].
  all: destruct Hi as [HW' Hds]; apply RInv_set_drop_in; apply RInv_add_directs; [|done]; by apply RInv_set_world.
Qed.

(** Every operation of the run language, in every configuration, keeps the run invariant and never
    reaches undefined behaviour. *)
Theorem step_inv cfg d qs st o : wf_decl d -> wf_op d o -> RInv d st ->
  match step cfg d qs st o with Some (st', _) => RInv d st' | None => False end.
Proof.
  intros Hwf Ho HR. destruct o.
  - by apply step_new_inv.
  - by apply step_clone_inv.
  - by apply step_switch_inv.
  - by apply step_drop_inv.
  - by apply (step_create_inv cfg d qs st a v false).
  - by apply (step_create_inv cfg d qs st a v true).
  - by eapply step_keyed_inv.
  - by eapply step_keyed_inv.
  - by eapply step_keyed_inv.
  - by apply step_write_inv.
  - destruct Ho. by apply step_find_inv.
  - pose proof (step_readall_inv cfg d qs st p a HR) as H. destruct (step _ _ _ _ _) as [[st' o]|]; [by subst|done].
  - by apply step_iter_inv.
  - by apply step_iterd_inv.
  - by apply step_simple_inv.
  - pose proof (step_dump_inv cfg d qs st a HR) as H. destruct (step _ _ _ _ _) as [[st' o]|]; [by subst|done].
  - destruct Ho. by apply step_preset_inv.
  - pose proof (step_events_inv cfg d qs st l HR) as H. destruct (step _ _ _ _ _) as [[st' o]|]; [by subst|done].
  - by apply step_clearev_inv.
  - by apply step_simple_inv.
  - by apply step_simple_inv.
  - by apply step_simple_inv.
  - by apply step_simple_inv.
Qed.

Lemma rs0_inv d : RInv d rs0.
Proof. split_and!; constructor. Qed.

(** States reachable by a well-formed history. *)
Inductive reach (cfg : config) (d : wdecl) (qs : list (list qparam)) : rstate -> Prop :=
  | reach0 : reach cfg d qs rs0
  | reachS st o st' obs : reach cfg d qs st -> wf_op d o -> step cfg d qs st o = Some (st', obs) -> reach cfg d qs st'.

Theorem reach_inv cfg d qs st : wf_decl d -> reach cfg d qs st -> RInv d st.
Proof.
  intros Hwf. induction 1 as [|st o st' obs Hr IH Ho Hs]; [apply rs0_inv|].
  pose proof (step_inv cfg d qs st o Hwf Ho IH) as H. by rewrite Hs in H.
Qed.

(** No well-formed history ever reaches undefined behaviour: every observation of the run is a
    step observation, never the UB marker path of [run_from]. *)
Fixpoint run_states (cfg : config) (d : wdecl) (qs : list (list qparam)) (st : rstate) (ops : list op) : option (list rstate) :=
  match ops with
  | [] => Some []
  | o :: rest => match step cfg d qs st o with
                 | Some (st', _) => (fun l => st' :: l) <$> run_states cfg d qs st' rest
                 | None => None
                 end
  end.

Theorem run_never_ub cfg d qs ops : wf_decl d -> Forall (wf_op d) ops -> forall st, RInv d st ->
  exists sts, run_states cfg d qs st ops = Some sts /\ Forall (RInv d) sts /\ length sts = length ops.
Proof.
  intros Hwf. induction 1 as [|o ops Ho Hops IH]; intros st HR; cbn [run_states].
  - exists []. by split_and!.
  - pose proof (step_inv cfg d qs st o Hwf Ho HR) as Hs.
    destruct (step cfg d qs st o) as [[st' obs]|]; [|done].
    destruct (IH st' Hs) as (sts & -> & Hf & Hl). exists (st' :: sts). cbn. split_and!; [done|by constructor|by rewrite Hl].
Qed.


(* ---------------------------------------------------------------- the boolean side conditions *)

Lemma wf_declb_true d : wf_declb d = true -> wf_decl d.
Proof. unfold wf_declb, wf_decl. rewrite forallb_forall, Forall_forall. intros H a Ha. apply N.ltb_lt. apply H. by apply elem_of_list_In. Qed.

Lemma wf_hrefb_true r : wf_hrefb r = true -> wf_href r.
Proof. destruct r; cbn; try done. rewrite andb_true_iff, !N.ltb_lt. done. Qed.

Lemma wf_opb_true d o : wf_opb d o = true -> wf_op d o.
Proof.
  destruct o; cbn [wf_opb wf_op]; try done; try apply wf_hrefb_true.
  - by intros ?%Nat.eqb_eq.
  - rewrite andb_true_iff. intros [H1 H2]. split; [by apply wf_hrefb_true|]. destruct t; cbn in *; try done. by apply Nat.ltb_lt.
  - rewrite andb_true_iff, !N.ltb_lt. done.
Qed.

(** The form the check uses: a history that passes the boolean test never reaches undefined
    behaviour in the model and keeps every storage of every world invariant, in every configuration. *)
Theorem wf_case_never_ub cfg d qs ops : wf_case d ops = true ->
  exists sts, run_states cfg d qs rs0 ops = Some sts /\ Forall (RInv d) sts /\ length sts = length ops.
Proof.
  unfold wf_case. rewrite andb_true_iff. intros [Hd Ho].
  apply run_never_ub; [by apply wf_declb_true| |apply rs0_inv].
  rewrite forallb_forall in Ho. apply Forall_forall. intros o Hin. apply wf_opb_true, Ho. by apply elem_of_list_In.
Qed.

(** World::clone at run level: when it returns, the new world is, storage by storage, the state of the
    cloned world, and every existing world is untouched; every later step acts on one world only
    ([set_world] replaces the current world), so the two evolve independently. *)
Lemma step_clone_spec cfg d qs st st' obs : RInv d st -> step cfg d qs st OClone = Some (st', obs) ->
  match cur_world st with
  | None => st' = st
  | Some w =>
      (obs = [2%N; pcode PClone] /\ worlds st' = worlds st) \/
      (obs = [1%N; N.of_nat (length (worlds st))] /\ worlds st' = worlds st ++ [Some w] /\ cur st' = cur st)
  end.
Proof.
  intros HR. unfold step; cbv beta iota. destruct (cur_world st) as [w|] eqn:Hcw; [|by intros [= <- _]].
  pose proof (RInv_cur d st w HR Hcw) as HW.
  pose proof (clone_world_ok d (wd_archs d) w (clone_in st) HW) as Hc.
  destruct (clone_world d (wd_archs d) w (clone_in st)) as [[[lt lz]|[w' cin]]|]; [| |done].
  - intros [= <- <-]. by left.
  - subst w'. intros [= <- <-]. right. done.
Qed.
