(** Facts about the macro-logic model: id assignment (C15), cfg erasure (C16), query binding (C05). *)
From Coq Require Import NArith Lia Bool.
From stdpp Require Import base list numbers option sets.
From Gecs Require Import Prim ExtrMacro Query MacroData.
Local Open Scope nat_scope.
Set Default Proof Using "Type".

(* ================================================================ C15: the discriminant rule *)

(** The enum-discriminant rule over the items that survive cfg evaluation:
    explicit value, otherwise previous + 1, otherwise 0. *)
Fixpoint rule_ids (xs : list (option N)) (last : option N) : list N :=
  match xs with
  | [] => []
  | x :: r =>
      let i := match x with Some i => i | None => match last with Some l => (l + 1)%N | None => 0%N end end in
      i :: rule_ids r (Some i)
  end.

Lemma attr_succ_spec l : attr_succ l = if (l + 1 <? 256)%N then Some (l + 1)%N else None.
Proof. reflexivity. Qed.

Lemma attr_first_spec : attr_first = 0%N.
Proof. reflexivity. Qed.

Lemma advance_ok explicit name ids last i ids' :
  advance_attribute_id explicit name ids last = inr (i, ids') ->
  i = match explicit with Some i => i | None => match last with Some l => (l + 1)%N | None => 0%N end end /\
  ids' = ids ++ [(i, name)] /\ i ∉ (fst <$> ids) /\
  (explicit = None -> (i < 256)%N).
Proof.
  unfold advance_attribute_id. intros H.
  assert (Hn : exists n, (match explicit with
                          | Some i => inr i
                          | None => match last with
                                    | Some l => match attr_succ l with Some n => inr n | None => inl (EExceeds name) end
                                    | None => inr attr_first end end) = (inr n : data_err + N) /\
               n = match explicit with Some i => i | None => match last with Some l => (l + 1)%N | None => 0%N end end /\
               (explicit = None -> (n < 256)%N)).
  { destruct explicit as [e|]; [exists e; split_and!; [done|done|discriminate]|].
    destruct last as [l|].
    - rewrite attr_succ_spec in *. destruct (N.ltb_spec (l + 1) 256).
      + exists (l + 1)%N. done.
      + done.
    - exists 0%N. split_and!; [done|done|lia]. }
  destruct Hn as (n & Hn & Hv & Hlt). rewrite Hn in H.
  destruct (list_find (fun x => fst x = n) ids) as [[? [? holder]]|] eqn:Hf; [done|].
  injection H as <- <-. split_and!; try done.
  intros Hin. apply elem_of_list_fmap in Hin as ([i' nm] & Hi & Hin). simpl in Hi. subst i'.
  apply list_find_None in Hf. rewrite Forall_forall in Hf. by apply (Hf _ Hin).
Qed.

Lemma advance_err_exceeds explicit name ids last n : advance_attribute_id explicit name ids last = inl (EExceeds n) ->
  explicit = None /\ exists l, last = Some l /\ (256 <= l + 1)%N.
Proof.
  unfold advance_attribute_id. destruct explicit as [e|].
  - destruct (list_find _ ids) as [[? [? ?]]|]; discriminate.
  - destruct last as [l|].
    + rewrite attr_succ_spec. destruct (N.ltb_spec (l + 1) 256).
      * destruct (list_find _ ids) as [[? [? ?]]|]; discriminate.
      * intros _. split; [done|]. exists l. done.
    + destruct (list_find _ ids) as [[? [? ?]]|]; discriminate.
Qed.

Lemma advance_err_assigned explicit name ids last i n h : advance_attribute_id explicit name ids last = inl (EAssigned i n h) ->
  (i, h) ∈ ids /\ i = match explicit with Some i => i | None => match last with Some l => (l + 1)%N | None => 0%N end end.
Proof.
  unfold advance_attribute_id.
  destruct explicit as [e|]; [|destruct last as [l|]; [rewrite attr_succ_spec; destruct (N.ltb_spec (l + 1) 256); [|discriminate]|]].
  all: match goal with |- context [list_find ?P ?l] => destruct (list_find P l) as [[k [i' h']]|] eqn:Hf; [|discriminate] end.
  all: intros [= <- <- <-]; apply list_find_Some in Hf as (Hl & Hp & _); simpl in Hp; subst; split; [by eapply elem_of_list_lookup_2|done].
Qed.

Definition enabled_archs (lk : nat -> option bool) (w : list parch) : list parch :=
  filter (fun a => evaluate_cfgs lk (pa_cfgs a) = Some true) w.
Definition enabled_comps (lk : nat -> option bool) (cs : list pcomp) : list pcomp :=
  filter (fun c => evaluate_cfgs lk (pc_cfgs c) = Some true) cs.

Lemma data_components_rule lk cs ids last ds : data_components lk cs ids last = inr ds ->
  dc_id <$> ds = rule_ids (pc_id <$> enabled_comps lk cs) last /\
  dc_name <$> ds = pc_name <$> enabled_comps lk cs /\
  (NoDup (fst <$> ids) -> NoDup ((fst <$> ids) ++ (dc_id <$> ds))) /\
  Forall (fun '(c, d) => pc_id c = None -> (dc_id d < 256)%N) (zip (enabled_comps lk cs) ds).
Proof.
  revert ids last ds. induction cs as [|c r IH]; intros ids last ds H; cbn [data_components] in H.
  - injection H as <-. unfold enabled_comps. cbn. rewrite app_nil_r. done.
  - unfold enabled_comps. rewrite filter_cons. fold (enabled_comps lk r).
    destruct (evaluate_cfgs lk (pc_cfgs c)) as [[|]|] eqn:He; [|by rewrite decide_False by done; apply IH|done].
    rewrite decide_True by done.
    destruct (advance_attribute_id (pc_id c) (pc_name c) ids last) as [e|[i ids']] eqn:Ha; [done|].
    destruct (data_components lk r ids' (Some i)) as [e|ds'] eqn:Hd; [done|]. injection H as <-.
    destruct (advance_ok _ _ _ _ _ _ Ha) as (Hi & Hids & Hfresh & Hlt).
    destruct (IH _ _ _ Hd) as (IH1 & IH2 & IH3 & IH4).
    cbn [fmap list_fmap rule_ids dc_id dc_name]. rewrite <- Hi. split_and!.
    + by rewrite IH1.
    + by rewrite IH2.
    + intros Hnd. subst ids'. rewrite fmap_app in IH3. cbn in IH3.
      replace ((fst <$> ids) ++ i :: (dc_id <$> ds')) with (((fst <$> ids) ++ [i]) ++ (dc_id <$> ds')) by (by rewrite <- app_assoc).
      apply IH3. apply NoDup_app. split_and!; [done| |apply NoDup_singleton].
      intros x Hx Hx'. apply elem_of_list_singleton in Hx'. by subst.
    + cbn [zip zip_with]. constructor; [done|done].
Qed.

Lemma data_archetypes_rule lk w ids last ds : data_archetypes lk w ids last = inr ds ->
  da_id <$> ds = rule_ids (pa_id <$> enabled_archs lk w) last /\
  da_name <$> ds = pa_name <$> enabled_archs lk w /\
  (NoDup (fst <$> ids) -> NoDup ((fst <$> ids) ++ (da_id <$> ds))) /\
  Forall (fun '(a, d) => (pa_id a = None -> (da_id d < 256)%N) /\
                         dc_id <$> da_comps d = rule_ids (pc_id <$> enabled_comps lk (pa_comps a)) None /\
                         dc_name <$> da_comps d = pc_name <$> enabled_comps lk (pa_comps a) /\
                         NoDup (dc_id <$> da_comps d) /\
                         Forall (fun '(c, dc) => pc_id c = None -> (dc_id dc < 256)%N) (zip (enabled_comps lk (pa_comps a)) (da_comps d)))
         (zip (enabled_archs lk w) ds).
Proof.
  revert ids last ds. induction w as [|a r IH]; intros ids last ds H; cbn [data_archetypes] in H.
  - injection H as <-. unfold enabled_archs. cbn. rewrite app_nil_r. done.
  - unfold enabled_archs. rewrite filter_cons. fold (enabled_archs lk r).
    destruct (evaluate_cfgs lk (pa_cfgs a)) as [[|]|] eqn:He; [|by rewrite decide_False by done; apply IH|done].
    rewrite decide_True by done.
    destruct (advance_attribute_id (pa_id a) (pa_name a) ids last) as [e|[i ids']] eqn:Ha; [done|].
    destruct (data_components lk (pa_comps a) [] None) as [e|cs] eqn:Hc; [done|].
    destruct (data_archetypes lk r ids' (Some i)) as [e|ds'] eqn:Hd; [done|]. injection H as <-.
    destruct (advance_ok _ _ _ _ _ _ Ha) as (Hi & Hids & Hfresh & Hlt).
    destruct (IH _ _ _ Hd) as (IH1 & IH2 & IH3 & IH4).
    destruct (data_components_rule _ _ _ _ _ Hc) as (C1 & C2 & C3 & C4).
    cbn [fmap list_fmap rule_ids da_id da_name]. rewrite <- Hi. split_and!.
    + by rewrite IH1.
    + by rewrite IH2.
    + intros Hnd. subst ids'. rewrite fmap_app in IH3. cbn in IH3.
      replace ((fst <$> ids) ++ i :: (da_id <$> ds')) with (((fst <$> ids) ++ [i]) ++ (da_id <$> ds')) by (by rewrite <- app_assoc).
      apply IH3. apply NoDup_app. split_and!; [done| |apply NoDup_singleton].
      intros x Hx Hx'. apply elem_of_list_singleton in Hx'. by subst.
    + cbn [zip zip_with]. constructor; [|done]. cbn [da_comps da_id]. split_and!; [done|done|done| |done].
      specialize (C3 (NoDup_nil_2)). by rewrite app_nil_l in C3.
Qed.

(** C15: a successful DataWorld::new assigns ids by the discriminant rule, pairwise distinct per scope. *)
Theorem data_world_new_ids w states ds : data_world_new w states = inr ds ->
  let lk := cfg_lookup (world_predicates w) states in
  da_id <$> ds = rule_ids (pa_id <$> enabled_archs lk w) None /\
  da_name <$> ds = pa_name <$> enabled_archs lk w /\
  NoDup (da_id <$> ds) /\
  Forall (fun '(a, d) => dc_id <$> da_comps d = rule_ids (pc_id <$> enabled_comps lk (pa_comps a)) None /\
                         dc_name <$> da_comps d = pc_name <$> enabled_comps lk (pa_comps a) /\
                         NoDup (dc_id <$> da_comps d)) (zip (enabled_archs lk w) ds).
Proof.
  intros H lk. destruct (data_archetypes_rule _ _ _ _ _ H) as (H1 & H2 & H3 & H4).
  split_and!; [done|done|by apply (H3 NoDup_nil_2)|].
  eapply Forall_impl; [exact H4|]. intros [a d] (_ & ? & ? & ? & _). done.
Qed.

(** Implicit ids never exceed 255 (the checked successor), explicit ones are u8 by parsing. *)
Theorem data_world_new_implicit_ids_u8 w states ds : data_world_new w states = inr ds ->
  Forall (fun '(a, d) => pa_id a = None -> (da_id d < 256)%N)
         (zip (enabled_archs (cfg_lookup (world_predicates w) states) w) ds).
Proof.
  intros H. destruct (data_archetypes_rule _ _ _ _ _ H) as (_ & _ & _ & H4).
  eapply Forall_impl; [exact H4|]. intros [a d] (? & _). done.
Qed.

(* ---------------------------------------------------------------- C15, converse: when the rule is satisfiable, DataWorld::new succeeds *)

(** The discriminant rule is satisfiable for a list of (explicit id option)s: no implicit id counts
    past 255, the ids are pairwise distinct and none is already held. *)
Definition rule_ok (xs : list (option N)) (last : option N) (held : list N) : Prop :=
  NoDup (rule_ids xs last) /\ (forall i, i ∈ rule_ids xs last -> i ∉ held) /\
  Forall (fun '(x, i) => x = None -> (i < 256)%N) (zip xs (rule_ids xs last)).

Lemma advance_complete explicit name ids last :
  let i := match explicit with Some i => i | None => match last with Some l => (l + 1)%N | None => 0%N end end in
  (explicit = None -> (i < 256)%N) -> i ∉ (fst <$> ids) ->
  advance_attribute_id explicit name ids last = inr (i, ids ++ [(i, name)]).
Proof.
  intros i Hlt Hfresh. unfold advance_attribute_id.
  assert (Hn : (match explicit with
                | Some i => inr i
                | None => match last with
                          | Some l => match attr_succ l with Some n => inr n | None => inl (EExceeds name) end
                          | None => inr attr_first end end) = (inr i : data_err + N)).
  { unfold i in *. destruct explicit as [e|]; [done|]. destruct last as [l|]; [|done].
    rewrite attr_succ_spec. specialize (Hlt eq_refl). destruct (N.ltb_spec (l + 1) 256); [done|lia]. }
  rewrite Hn. destruct (list_find (fun x => fst x = i) ids) as [[k [i' h]]|] eqn:Hf; [|done].
  exfalso. apply list_find_Some in Hf as (Hl & Hp & _). simpl in Hp. subst i'. apply Hfresh.
  apply elem_of_list_fmap. exists (i, h). split; [done|by eapply elem_of_list_lookup_2].
Qed.

Lemma rule_ok_cons x xs last held :
  rule_ok (x :: xs) last held ->
  let i := match x with Some i => i | None => match last with Some l => (l + 1)%N | None => 0%N end end in
  (x = None -> (i < 256)%N) /\ i ∉ held /\ rule_ok xs (Some i) (held ++ [i]).
Proof.
  intros (Hnd & Hh & Hlt) i. cbn [rule_ids] in *. fold i in Hnd, Hh, Hlt.
  apply NoDup_cons in Hnd as [Hni Hnd]. cbn [zip zip_with] in Hlt. apply Forall_cons in Hlt as [Hlt0 Hlt].
  split_and!; [done|apply Hh; by left|]. split_and!; [done| |done].
  intros j Hj Hin. apply elem_of_app in Hin as [Hin|Hin%elem_of_list_singleton]; [apply (Hh j); [by right|done]|by subst].
Qed.

Lemma data_components_complete lk cs ids last :
  Forall (fun c => is_Some (evaluate_cfgs lk (pc_cfgs c))) cs ->
  rule_ok (pc_id <$> enabled_comps lk cs) last (fst <$> ids) ->
  exists ds, data_components lk cs ids last = inr ds.
Proof.
  revert ids last. induction cs as [|c r IH]; intros ids last Hlk Hok; cbn [data_components]; [by eexists|].
  apply Forall_cons in Hlk as [[b Hb] Hlk]. rewrite Hb. unfold enabled_comps in Hok. rewrite filter_cons in Hok. fold (enabled_comps lk r) in Hok.
  destruct b.
  - rewrite decide_True in Hok by done. cbn [fmap list_fmap] in Hok.
    destruct (rule_ok_cons _ _ _ _ Hok) as (Hlt & Hfresh & Hrest).
    rewrite (advance_complete (pc_id c) (pc_name c) ids last Hlt Hfresh).
    set (i := match pc_id c with Some i => i | None => match last with Some l => (l + 1)%N | None => 0%N end end) in *.
    destruct (IH (ids ++ [(i, pc_name c)]) (Some i) Hlk) as [ds Hds].
    { by rewrite fmap_app. }
    rewrite Hds. by eexists.
  - rewrite decide_False in Hok by (by rewrite Hb). by apply IH.
Qed.

Lemma data_archetypes_complete lk w ids last :
  Forall (fun a => is_Some (evaluate_cfgs lk (pa_cfgs a)) /\ Forall (fun c => is_Some (evaluate_cfgs lk (pc_cfgs c))) (pa_comps a)) w ->
  rule_ok (pa_id <$> enabled_archs lk w) last (fst <$> ids) ->
  Forall (fun a => rule_ok (pc_id <$> enabled_comps lk (pa_comps a)) None []) (enabled_archs lk w) ->
  exists ds, data_archetypes lk w ids last = inr ds.
Proof.
  revert ids last. induction w as [|a r IH]; intros ids last Hlk Hok Hcs; cbn [data_archetypes]; [by eexists|].
  apply Forall_cons in Hlk as [[[b Hb] Hlkc] Hlk]. rewrite Hb.
  unfold enabled_archs in Hok, Hcs. rewrite filter_cons in Hok, Hcs. fold (enabled_archs lk r) in Hok, Hcs.
  destruct b.
  - rewrite decide_True in Hok, Hcs by done. cbn [fmap list_fmap] in Hok. apply Forall_cons in Hcs as [Hc Hcs].
    destruct (rule_ok_cons _ _ _ _ Hok) as (Hlt & Hfresh & Hrest).
    rewrite (advance_complete (pa_id a) (pa_name a) ids last Hlt Hfresh).
    destruct (data_components_complete lk (pa_comps a) [] None Hlkc Hc) as [cs ->].
    set (i := match pa_id a with Some i => i | None => match last with Some l => (l + 1)%N | None => 0%N end end) in *.
    destruct (IH (ids ++ [(i, pa_name a)]) (Some i) Hlk) as [ds Hds].
    { by rewrite fmap_app. }
    { done. }
    rewrite Hds. by eexists.
  - rewrite decide_False in Hok, Hcs by (by rewrite Hb). by apply IH.
Qed.

(** C15, both directions: DataWorld::new succeeds exactly when every cfg predicate has a state and
    the discriminant rule is satisfiable for the enabled archetypes and for the enabled components of
    each enabled archetype; otherwise the declaration does not compile. *)
Lemma zip_fmap_lt {A B} (f : A -> option N) (g : B -> N) (cs : list A) (ds : list B) :
  Forall (fun '(c, d) => f c = None -> (g d < 256)%N) (zip cs ds) -> length ds = length cs ->
  Forall (fun '(x, i) => x = None -> (i < 256)%N) (zip (f <$> cs) (g <$> ds)).
Proof.
  revert ds. induction cs as [|c cs IH]; intros [|d ds] H Hl; cbn in *; try done; try constructor.
  - by apply Forall_cons in H as [? _].
  - apply Forall_cons in H as [_ H]. apply IH; [done|lia].
Qed.

Theorem data_world_new_succeeds_iff w states :
  let lk := cfg_lookup (world_predicates w) states in
  Forall (fun a => is_Some (evaluate_cfgs lk (pa_cfgs a)) /\ Forall (fun c => is_Some (evaluate_cfgs lk (pc_cfgs c))) (pa_comps a)) w ->
  ((exists ds, data_world_new w states = inr ds) <->
   (rule_ok (pa_id <$> enabled_archs lk w) None [] /\
    Forall (fun a => rule_ok (pc_id <$> enabled_comps lk (pa_comps a)) None []) (enabled_archs lk w))).
Proof.
  intros lk Hlk. split.
  - intros [ds H]. destruct (data_archetypes_rule _ _ _ _ _ H) as (H1 & H2 & H3 & H4). fold lk in H1, H2, H4.
    assert (Hlen : length ds = length (enabled_archs lk w)) by (rewrite <- (fmap_length da_name ds), H2; by rewrite fmap_length).
    split.
    + split_and!.
      * rewrite <- H1. by apply (H3 NoDup_nil_2).
      * intros i _. apply not_elem_of_nil.
      * rewrite <- H1. apply zip_fmap_lt; [|done]. eapply Forall_impl; [exact H4|]. intros [a d] (? & _). done.
    + clear -H4 Hlen. revert ds H4 Hlen. induction (enabled_archs lk w) as [|a l IH]; intros [|d ds] H4 Hlen; cbn in *; try done; try constructor.
      * apply Forall_cons in H4 as [(_ & C1 & C2 & C3 & C4) _].
        assert (Hl : length (da_comps d) = length (enabled_comps lk (pa_comps a))) by (rewrite <- (fmap_length dc_name (da_comps d)), C2; by rewrite fmap_length).
        split_and!.
        -- by rewrite <- C1.
        -- intros i _. apply not_elem_of_nil.
        -- rewrite <- C1. by apply zip_fmap_lt.
      * apply Forall_cons in H4 as [_ H4]. eapply IH; [done|lia].
  - intros [Ha Hc]. by apply data_archetypes_complete.
Qed.

(* ================================================================ C16: cfg-disabled items behave as absent *)

(** Erasure under a lookup: drop every item one of whose predicates is false, strip the attributes of the rest. *)
Definition erase_comps (lk : nat -> option bool) (cs : list pcomp) : list pcomp :=
  (fun c => PC [] (pc_id c) (pc_name c)) <$> enabled_comps lk cs.
Definition erase_world (lk : nat -> option bool) (w : list parch) : list parch :=
  (fun a => PA [] (pa_id a) (pa_name a) (erase_comps lk (pa_comps a))) <$> enabled_archs lk w.

(** Every predicate that occurs has a truth value (the cfg chain delivered one boolean per collected predicate). *)
Definition total_on (lk : nat -> option bool) (w : list parch) : Prop :=
  Forall (fun a => is_Some (evaluate_cfgs lk (pa_cfgs a)) /\ Forall (fun c => is_Some (evaluate_cfgs lk (pc_cfgs c))) (pa_comps a)) w.

Lemma data_components_erase lk lk' cs ids last :
  Forall (fun c => is_Some (evaluate_cfgs lk (pc_cfgs c))) cs ->
  data_components lk cs ids last = data_components lk' (erase_comps lk cs) ids last.
Proof.
  revert ids last. induction cs as [|c r IH]; intros ids last Ht; [done|].
  apply Forall_cons in Ht as [[b Hb] Ht]. unfold erase_comps, enabled_comps. rewrite filter_cons.
  cbn [data_components]. rewrite Hb. destruct b.
  - rewrite decide_True by done. cbn [fmap list_fmap data_components evaluate_cfgs pc_cfgs pc_id pc_name].
    destruct (advance_attribute_id (pc_id c) (pc_name c) ids last) as [e|[i ids']]; [done|].
    fold (enabled_comps lk r). fold (erase_comps lk r). by rewrite (IH ids' (Some i) Ht).
  - rewrite decide_False by done. fold (enabled_comps lk r). fold (erase_comps lk r). by apply IH.
Qed.

Lemma data_archetypes_erase lk lk' w ids last : total_on lk w ->
  data_archetypes lk w ids last = data_archetypes lk' (erase_world lk w) ids last.
Proof.
  revert ids last. induction w as [|a r IH]; intros ids last Ht; [done|].
  apply Forall_cons in Ht as [[[b Hb] Hc] Ht]. unfold erase_world, enabled_archs. rewrite filter_cons.
  cbn [data_archetypes]. rewrite Hb. destruct b.
  - rewrite decide_True by done. cbn [fmap list_fmap data_archetypes evaluate_cfgs pa_cfgs pa_id pa_name pa_comps].
    destruct (advance_attribute_id (pa_id a) (pa_name a) ids last) as [e|[i ids']]; [done|].
    rewrite <- (data_components_erase lk lk' (pa_comps a) [] None Hc).
    destruct (data_components lk (pa_comps a) [] None); [done|].
    fold (enabled_archs lk r). fold (erase_world lk r). by rewrite (IH ids' (Some i) Ht).
  - rewrite decide_False by done. fold (enabled_archs lk r). fold (erase_world lk r). by apply IH.
Qed.

(** C16 (declarations): with truth values [states] for the collected predicates, the decorated
    declaration produces exactly the world data of its erasure (which has no cfg attribute at all). *)
Theorem data_world_new_erase w states :
  let lk := cfg_lookup (world_predicates w) states in
  total_on lk w -> data_world_new w states = data_world_new (erase_world lk w) [].
Proof. intros lk Ht. unfold data_world_new. by apply data_archetypes_erase. Qed.

(** The macro chain delivers the truth values of the collected predicates, in their order. *)
Lemma cfg_chain_gen (truth : nat -> bool) (preds : list nat) (acc : list bool) :
  fold_left (fun bools p => chain_step (true, true) (true, false) bools (truth p)) preds acc = acc ++ (truth <$> preds).
Proof.
  revert acc. induction preds as [|p r IH]; intros acc; cbn [fold_left fmap list_fmap]; [by rewrite app_nil_r|].
  rewrite IH. unfold chain_step. destruct (truth p); by rewrite <- app_assoc.
Qed.

Lemma cfg_chain_in_order (truth : nat -> bool) (preds : list nat) : cfg_chain (true, true) (true, false) truth preds = truth <$> preds.
Proof. unfold cfg_chain. by rewrite cfg_chain_gen. Qed.

Lemma NoDup_dedup_into seen l : NoDup seen -> NoDup (dedup_into seen l).
Proof.
  revert seen. induction l as [|q r IH]; intros seen Hnd; cbn [dedup_into]; [done|].
  destruct (existsb (Nat.eqb q) seen) eqn:He; [by apply IH|]. apply IH. apply NoDup_app. split_and!; [done| |apply NoDup_singleton].
  intros x Hx ->%elem_of_list_singleton. assert (existsb (Nat.eqb q) seen = true); [|congruence].
  apply existsb_exists. exists q. split; [by apply elem_of_list_In|by apply Nat.eqb_eq].
Qed.

(** With the chain's list, the lookup table gives every collected predicate its truth value. *)
Lemma cfg_lookup_chain (truth : nat -> bool) (preds : list nat) (p : nat) : p ∈ preds -> cfg_lookup preds (truth <$> preds) p = Some (truth p).
Proof.
  intros Hp. unfold cfg_lookup.
  destruct (list_find (fun x => fst x = p) (zip preds (truth <$> preds))) as [[i [q b]]|] eqn:Hf.
  - apply list_find_Some in Hf as (Hl & Hq & _). cbn in Hq. subst q. cbn.
    apply lookup_zip_with_Some in Hl as (q' & b' & [= <- <-] & Hq' & Hb'). rewrite list_lookup_fmap, Hq' in Hb'. by injection Hb' as <-.
  - exfalso. apply list_find_None in Hf. apply elem_of_list_lookup in Hp as (i & Hi).
    rewrite Forall_forall in Hf. apply (Hf (p, truth p)); [|done].
    apply elem_of_list_lookup. exists i. apply lookup_zip_with_Some. exists p, (truth p). split_and!; [done|done|]. by rewrite list_lookup_fmap, Hi.
Qed.

(** The lookup is total on the collected predicates when one boolean per predicate was delivered. *)
Lemma dedup_into_elem seen l p : p ∈ dedup_into seen l <-> p ∈ seen \/ p ∈ l.
Proof.
  revert seen. induction l as [|q r IH]; intros seen; cbn [dedup_into]; [set_solver|].
  destruct (existsb (Nat.eqb q) seen) eqn:He.
  - rewrite IH. apply existsb_exists in He as (x & Hx & Hq). apply Nat.eqb_eq in Hq. subst x.
    apply elem_of_list_In in Hx. set_solver.
  - rewrite IH. set_solver.
Qed.

Lemma cfg_lookup_total preds states p : length states = length preds -> p ∈ preds -> is_Some (cfg_lookup preds states p).
Proof.
  intros Hl Hp. unfold cfg_lookup. apply elem_of_list_lookup in Hp as (i & Hi).
  destruct (lookup_lt_is_Some_2 states i ltac:(rewrite Hl; by eapply lookup_lt_Some)) as [b Hb].
  destruct (list_find (fun x => fst x = p) (zip preds states)) as [x|] eqn:Hf; [by eexists|].
  exfalso. apply list_find_None in Hf. rewrite Forall_forall in Hf. apply (Hf (p, b)); [|done].
  apply elem_of_list_lookup. exists i. rewrite lookup_zip_with. by rewrite Hi, Hb.
Qed.

Lemma evaluate_cfgs_total lk cfgs : Forall (fun p => is_Some (lk p)) cfgs -> is_Some (evaluate_cfgs lk cfgs).
Proof.
  induction 1 as [|p r [b Hb] _ IH]; [by eexists|]. cbn [evaluate_cfgs]. rewrite Hb. destruct b; [done|by eexists].
Qed.

Theorem world_lookup_total w states : length states = length (world_predicates w) ->
  total_on (cfg_lookup (world_predicates w) states) w.
Proof.
  intros Hl. unfold total_on. apply Forall_forall. intros a Ha. split.
  - apply evaluate_cfgs_total. apply Forall_forall. intros p Hp. apply cfg_lookup_total; [done|].
    unfold world_predicates. apply dedup_into_elem. right. apply elem_of_list_In, in_concat.
    exists (pa_cfgs a ++ concat (pc_cfgs <$> pa_comps a)). split.
    + apply elem_of_list_In. apply elem_of_list_fmap. by exists a.
    + apply elem_of_list_In. set_solver.
  - apply Forall_forall. intros c Hc. apply evaluate_cfgs_total. apply Forall_forall. intros p Hp.
    apply cfg_lookup_total; [done|]. unfold world_predicates. apply dedup_into_elem. right.
    apply elem_of_list_In, in_concat. exists (pa_cfgs a ++ concat (pc_cfgs <$> pa_comps a)). split.
    + apply elem_of_list_In. apply elem_of_list_fmap. by exists a.
    + apply elem_of_list_In. apply elem_of_app. right. apply elem_of_list_In, in_concat. exists (pc_cfgs c). split.
      * apply elem_of_list_In. apply elem_of_list_fmap. by exists c.
      * by apply elem_of_list_In.
Qed.

(** C16, end to end for declarations: for every assignment of truth values to cfg predicates, the list
    the macro chain delivers makes the lookup give each predicate of the declaration its truth value,
    and DataWorld::new on the decorated declaration equals DataWorld::new on its erasure. *)
Theorem data_world_new_chain w (truth : nat -> bool) :
  let preds := world_predicates w in
  let states := cfg_chain (true, true) (true, false) truth preds in
  (forall p, p ∈ preds -> cfg_lookup preds states p = Some (truth p)) /\
  data_world_new w states = data_world_new (erase_world (cfg_lookup preds states) w) [].
Proof.
  intros preds states. unfold states. rewrite cfg_chain_in_order. split.
  - intros p Hp. by apply cfg_lookup_chain.
  - apply data_world_new_erase. apply world_lookup_total. by rewrite fmap_length.
Qed.

(* ---------------------------------------------------------------- queries: disabled parameters *)

(** A parameter whose cfg is false is emitted under `#[cfg(..)]` and stripped by rustc: what remains of
    an arm is its enabled parameters.  Binding with the disabled parameters present gives, on the enabled
    ones, exactly the binding of the query with those parameters erased; and the same archetypes match. *)
Definition no_cfg_oneof (ps : list qparam) : Prop :=
  Forall (fun p => match p_type p with POneOf _ => p_cfgs p = [] | _ => True end) ps.

Definition enabled_params (ps : list qparam) : list qparam := filter (fun p => p_enabled p = true) ps.

(** One parameter against one archetype: an error, "skip" ([None]) or the bound parameter to push. *)
Definition bind_step (a : darch) (p : qparam) : bind_err + option qparam :=
  match p_type p with
  | PEntAny | PDirAny | PEntWild | PDirWild => inr (Some p)
  | PComp c => inr (if negb (p_enabled p) || contains_component a c then Some p else None)
  | PEnt n | PDir n => inr (if negb (p_enabled p) || Nat.eqb (da_name a) n then Some p else None)
  | POneOf cs =>
      match p_cfgs p with
      | _ :: _ => inl ECfgOnOneOf
      | [] => match bind_one_of a cs with
              | inl e => inl e
              | inr (Some c) => inr (Some (QP (p_cfgs p) (p_mut p) (PComp c) (p_enabled p)))
              | inr None => inr None
              end
      end
  end.

Lemma bind_params_unfold a p r :
  bind_params a (p :: r) =
    match bind_step a p with
    | inl e => inl e
    | inr o => match bind_params a r with
               | inl e => inl e
               | inr b => inr (match o with Some q => q :: b | None => b end)
               end
    end.
Proof.
  cbn [bind_params]. unfold bind_step. destruct (p_type p); try done.
  - by destruct (p_enabled p), (contains_component a c), (bind_params a r).
  - by destruct (p_enabled p), (Nat.eqb (da_name a) a0), (bind_params a r).
  - by destruct (p_enabled p), (Nat.eqb (da_name a) a0), (bind_params a r).
  - destruct (p_cfgs p); [|done]. by destruct (bind_one_of a cs) as [e|[c|]], (bind_params a r).
Qed.

Lemma bind_step_disabled a p : p_enabled p = false -> (match p_type p with POneOf _ => False | _ => True end) ->
  bind_step a p = inr (Some p).
Proof. intros He Ht. unfold bind_step. destruct (p_type p); try done; by rewrite He. Qed.

Lemma bind_step_keeps_enabled a p q : bind_step a p = inr (Some q) -> p_enabled q = p_enabled p.
Proof.
  unfold bind_step. destruct (p_type p); try (by intros [= <-]).
  - destruct (negb (p_enabled p) || contains_component a c); [by intros [= <-]|done].
  - destruct (negb (p_enabled p) || Nat.eqb (da_name a) a0); [by intros [= <-]|done].
  - destruct (negb (p_enabled p) || Nat.eqb (da_name a) a0); [by intros [= <-]|done].
  - destruct (p_cfgs p); [|done]. destruct (bind_one_of a cs) as [e|[c|]]; try done. by intros [= <-].
Qed.

Lemma bind_params_erase a ps b : no_cfg_oneof ps -> Forall (fun p => p_cfgs p = [] -> p_enabled p = true) ps ->
  bind_params a ps = inr b ->
  (bind_params a (enabled_params ps) = inr (enabled_params b)) /\
  (length b = length ps <-> length (enabled_params b) = length (enabled_params ps)) /\
  (length b <= length ps) /\
  (length (enabled_params b) <= length (enabled_params ps)).
Proof.
  revert b. induction ps as [|p r IH]; intros b Hno Hen H.
  - injection H as <-. done.
  - apply Forall_cons in Hno as [Hp Hno]. apply Forall_cons in Hen as [Hpe Hen].
    rewrite bind_params_unfold in H.
    destruct (bind_step a p) as [e|o] eqn:Hs; [done|]. destruct (bind_params a r) as [e|br] eqn:Hr; [done|].
    injection H as <-. destruct (IH br Hno Hen eq_refl) as (IH1 & IH2 & IH3 & IH4).
    assert (Econs : forall (q : qparam) l, enabled_params (q :: l) = if decide (p_enabled q = true) then q :: enabled_params l else enabled_params l).
    { intros q l. unfold enabled_params. by rewrite filter_cons. }
    rewrite (Econs p r).
    destruct (p_enabled p) eqn:Hpen.
    + rewrite decide_True by done. rewrite bind_params_unfold, Hs, IH1.
      destruct o as [q|].
      * pose proof (bind_step_keeps_enabled a p q Hs) as Hq. rewrite Hpen in Hq.
        rewrite (Econs q br), decide_True by done.
        split_and!; [done|cbn [length]; lia|cbn [length]; lia|cbn [length]; lia].
      * split_and!; [done|cbn [length]; lia|cbn [length]; lia|cbn [length]; lia].
    + rewrite decide_False by done.
      assert (Ho : o = Some p).
      { assert (Ht : match p_type p with POneOf _ => False | _ => True end).
        { destruct (p_type p) eqn:Ht; try done. specialize (Hpe Hp). congruence. }
        rewrite (bind_step_disabled a p Hpen Ht) in Hs. by injection Hs as <-. }
      subst o. rewrite (Econs p br), decide_False by (by rewrite Hpen).
      split_and!; [done|cbn [length]; lia|cbn [length]; lia|lia].
Qed.

(* ================================================================ C05: binding = the declarative reading *)
From Gecs Require Import QuerySpec.

Lemma bind_one_of_from_spec a found args :
  bind_one_of_from a found args =
    match found, present a args with
    | Some f, c :: _ => inl (EAmbiguous (da_name a) f c)
    | Some f, [] => inr (Some f)
    | None, [] => inr None
    | None, [c] => inr (Some c)
    | None, c1 :: c2 :: _ => inl (EAmbiguous (da_name a) c1 c2)
    end.
Proof.
  revert found. induction args as [|c r IH]; intros found; cbn [bind_one_of_from]; [by destruct found|].
  unfold present. rewrite filter_cons. fold (present a r).
  destruct (contains_component a c) eqn:Hc.
  - rewrite decide_True by done. destruct found as [f|]; [done|]. rewrite IH. by destruct (present a r).
  - rewrite decide_False by done. apply IH.
Qed.

Lemma bind_one_of_spec a args :
  bind_one_of a args = match present a args with
                       | [] => inr None
                       | [c] => inr (Some c)
                       | c1 :: c2 :: _ => inl (EAmbiguous (da_name a) c1 c2)
                       end.
Proof. unfold bind_one_of. by rewrite bind_one_of_from_spec. Qed.

(** One enabled, well-formed parameter: it is bound iff the archetype satisfies it; for a OneOf the
    bound column is the unique alternative the archetype contains. *)
Lemma bind_step_sat a p : p_enabled p = true -> (match p_type p with POneOf _ => p_cfgs p = [] | _ => True end) ->
  match bind_step a p with
  | inr (Some q) => sat_param a p = true /\
      match p_type p with
      | POneOf cs => exists c, present a cs = [c] /\ q = QP (p_cfgs p) (p_mut p) (PComp c) (p_enabled p)
      | _ => q = p
      end
  | inr None => sat_param a p = false
  | inl e => exists cs c1 c2 rest, p_type p = POneOf cs /\ present a cs = c1 :: c2 :: rest /\ e = EAmbiguous (da_name a) c1 c2
  end.
Proof.
  intros He Hwf. unfold bind_step, sat_param. destruct (p_type p) as [c|n| | |n| | |cs]; rewrite ?He; cbn [negb orb]; try done.
  - by destruct (contains_component a c).
  - by destruct (Nat.eqb (da_name a) n).
  - by destruct (Nat.eqb (da_name a) n).
  - rewrite Hwf, bind_one_of_spec. destruct (present a cs) as [|c1 [|c2 rest]] eqn:Hp; cbn [length Nat.eqb].
    + done.
    + split; [done|]. by exists c1.
    + by exists cs, c1, c2, rest.
Qed.

Definition wf_query (ps : list qparam) : Prop :=
  Forall (fun p => p_enabled p = true /\ match p_type p with POneOf _ => p_cfgs p = [] | _ => True end) ps.

(** All parameters bound iff the archetype satisfies the query; an error iff some OneOf is ambiguous
    for this archetype (whether or not the other parameters exclude it). *)
Lemma bind_params_sat a ps : wf_query ps ->
  match bind_params a ps with
  | inr b => (length b = length ps <-> sat a ps = true) /\ length b <= length ps
  | inl e => exists p cs c1 c2 rest, p ∈ ps /\ p_type p = POneOf cs /\ present a cs = c1 :: c2 :: rest /\ e = EAmbiguous (da_name a) c1 c2
  end.
Proof.
  induction 1 as [|p r [He Hwf] Hr IH]; [done|]. rewrite bind_params_unfold.
  pose proof (bind_step_sat a p He Hwf) as Hs. unfold sat. cbn [forallb]. fold (sat a r).
  destruct (bind_step a p) as [e|[q|]].
  - destruct Hs as (cs & c1 & c2 & rest & ? & ? & ?). exists p, cs, c1, c2, rest. split_and!; try done. by left.
  - destruct (bind_params a r) as [e|b].
    + destruct IH as (p' & cs & c1 & c2 & rest & ? & ?). exists p', cs, c1, c2, rest. split; [by right|done].
    + destruct Hs as [Hs _]. destruct IH as [IH1 IH2]. rewrite Hs. cbn [andb length]. split; [|lia].
      rewrite <- IH1. lia.
  - destruct (bind_params a r) as [e|b].
    + destruct IH as (p' & cs & c1 & c2 & rest & ? & ?). exists p', cs, c1, c2, rest. split; [by right|done].
    + destruct IH as [IH1 IH2]. rewrite Hs. cbn [andb length]. split; [|lia]. split; [lia|done].
Qed.

(** C05: the archetypes for which the generators emit an arm are exactly those satisfying the query. *)
Theorem bind_query_sat w ps r : wf_query ps -> bind_query w ps = inr r ->
  length r = length w /\ forall i a, w !! i = Some a -> (exists b, r !! i = Some (Some b)) <-> sat a ps = true.
Proof.
  intros Hwf. revert r. induction w as [|a w' IH]; intros r H; cbn [bind_query] in H.
  - injection H as <-. split; [done|]. intros i a Hi. done.
  - pose proof (bind_params_sat a ps Hwf) as Hs. destruct (bind_params a ps) as [e|b]; [done|].
    destruct (bind_query w' ps) as [e|r'] eqn:Hr; [done|]. injection H as <-.
    destruct (IH r' eq_refl) as [IHl IHs]. split; [cbn; by rewrite IHl|].
    intros [|i] a' Hi; cbn in Hi.
    + injection Hi as <-. cbn. destruct Hs as [Hs _]. destruct (Nat.eqb_spec (length b) (length ps)) as [E|E].
      * split; [intros _; by apply Hs|intros _; by eexists].
      * split; [intros [? ?]; done|]. intros Hsat. exfalso. apply E. by apply Hs.
    + cbn. by apply IHs.
Qed.

(** A OneOf that two components of *any* archetype satisfy is a compile error, and errors arise only so. *)
Theorem bind_query_err w ps e : wf_query ps -> bind_query w ps = inl e ->
  exists a p cs c1 c2 rest, a ∈ w /\ p ∈ ps /\ p_type p = POneOf cs /\ present a cs = c1 :: c2 :: rest /\ e = EAmbiguous (da_name a) c1 c2.
Proof.
  intros Hwf. induction w as [|a w' IH]; cbn [bind_query]; [done|].
  pose proof (bind_params_sat a ps Hwf) as Hs. destruct (bind_params a ps) as [e'|b].
  - intros [= <-]. destruct Hs as (p & cs & c1 & c2 & rest & ? & ? & ? & ?). exists a, p, cs, c1, c2, rest. split_and!; try done. by left.
  - destruct (bind_query w' ps) as [e'|r'] eqn:Hr; [|done]. intros [= <-].
    destruct (IH eq_refl) as (a' & p & cs & c1 & c2 & rest & ? & ?). exists a', p, cs, c1, c2, rest. split; [by right|done].
Qed.

(** "query matched no archetypes in world" exactly when no archetype satisfies the query. *)
Theorem generate_query_nomatch w ps : wf_query ps ->
  generate_query w ps = inl GNoMatch <-> (exists r, bind_query w ps = inr r) /\ forall a, a ∈ w -> sat a ps = false.
Proof.
  intros Hwf. unfold generate_query. destruct (bind_query w ps) as [e|r] eqn:Hb.
  - split; [done|]. intros [[r Hr] _]. done.
  - destruct (bind_query_sat w ps r Hwf Hb) as [Hl Hs]. split.
    + destruct (forallb _ r) eqn:Hf; [|done]. intros _. split; [by eexists|]. intros a Ha.
      apply elem_of_list_lookup in Ha as [i Hi]. destruct (sat a ps) eqn:Hsat; [|done]. exfalso.
      apply (Hs i a Hi) in Hsat as [b Hb']. rewrite forallb_forall in Hf. specialize (Hf (Some b)).
      assert (Some b ∈ r) by (by eapply elem_of_list_lookup_2). apply elem_of_list_In in H. by apply Hf in H.
    + intros [_ Hn]. assert (forallb (fun x => match x with None => true | Some _ => false end) r = true) as ->; [|done].
      apply forallb_forall. intros [b|] Hx; [|done]. exfalso. apply elem_of_list_In, elem_of_list_lookup in Hx as [i Hi].
      destruct (lookup_lt_is_Some_2 w i ltac:(rewrite <- Hl; by eapply lookup_lt_Some)) as [a Ha].
      assert (sat a ps = true) by (apply (Hs i a Ha); by eexists).
      rewrite Hn in H; [done|by eapply elem_of_list_lookup_2].
Qed.
