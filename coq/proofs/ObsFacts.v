(** Observation-level closed forms: what the probe operation of the run language prints - the exact
    numbers the Rust harness prints for the same operation and that the correspondence check
    compares - for an entity handle, on every lookup path at once (contains, resolve, to_direct,
    view twice, find twice), in terms of the abstraction (handle, row) per dense position. *)
From Coq Require Import NArith Lia Bool.
From stdpp Require Import base list numbers option sets.
From Gecs Require Import Prim ExtrBits ExtrVersion ExtrStorage ExtrQuery Storage Query World Borrow Run
                         BitsFacts VersionFacts ConvFacts StorageInv StorageResolve StorageHist StorageOps RunFacts WorldInv LoopFacts.
Local Open Scope nat_scope.
Set Default Proof Using "Type".

(** What every path shows for an accepted entity handle [e] stored at dense position [d] with values [row]. *)
Definition acc_view (d : nat) (e : handle) (row : list val) : list N := 1%N :: N.of_nat d :: o_handle e ++ row.
Definition acc_find (s : storage) (d : nat) (e : handle) : list N := 1%N :: o_handle e ++ o_handle (direct_of s d).
Definition acc_direct (s : storage) (d : nat) : list N := 1%N :: o_handle (direct_of s d).

Definition acc_world (typed : bool) (s : storage) (d : nat) (e : handle) (row : list val) : list N :=
  [1%N] ++ acc_direct s d ++ (if typed then acc_view d e row ++ acc_view d e row else []) ++ acc_find s d e ++ acc_find s d e.
Definition rej_world (typed : bool) : list N := [0%N] ++ [0%N] ++ (if typed then [0%N] ++ [0%N] else []) ++ [0%N] ++ [0%N].

Definition acc_arch (s : storage) (d : nat) (e : handle) (row : list val) : list N :=
  [1%N] ++ [1%N; N.of_nat d] ++ acc_direct s d ++ acc_view d e row ++ acc_view d e row.
Definition rej_arch : list N := [0%N] ++ [0%N] ++ [0%N] ++ [0%N] ++ [0%N].

Section obs.
  Context (cfg : config) (s : storage) (HI : Inv s).

  Lemma resolve_for_stored d e : ents s !! d = Some e -> resolve_for cfg KEnt s e = ROk (Some d).
  Proof using HI.
    intros He. unfold resolve_for. cbn [resolve_key]. rewrite (resolve_entity_complete cfg s HI d e He).
    assert (Hd : d < len s) by (rewrite <- (i_lents s HI); by eapply lookup_lt_Some).
    assert ((N.of_nat (len s) <=? MAX_DATA_CAPACITY)%N = true) as ->.
    { apply N.leb_le. pose proof (i_cap s HI). pose proof (i_le s HI). lia. }
    assert ((d <=? len s) = true) as -> by (apply Nat.leb_le; lia). done.
  Qed.

  (** A 32-bit key carrying this archetype's id, whose slot index lies within the capacity (every
      handle this storage ever issued does), that is not stored: rejected, without a panic. *)
  Lemma resolve_entity_unstored e : key32 e -> key_arch_id (fst e) = aid s -> eslot e < cap s -> e ∉ ents s ->
    resolve_entity cfg s e = ROk None.
  Proof using HI.
    intros Hk Hid Hc Hn. pose proof (resolve_entity_cases cfg s HI e Hk) as Hcase.
    destruct (resolve_entity cfg s e) as [[[si d]|]|p|] eqn:Hr; [|done| |done].
    - exfalso. apply Hn. apply elem_of_list_lookup. exists d. by eapply resolve_entity_exact.
    - exfalso. destruct Hcase as (_ & _ & Hoob & _). unfold eslot in Hc. pose proof (hslot_lt e Hk). lia.
  Qed.

  Lemma resolve_for_unstored e : key32 e -> key_arch_id (fst e) = aid s -> eslot e < cap s -> e ∉ ents s ->
    resolve_for cfg KEnt s e = ROk None.
  Proof using HI. intros. unfold resolve_for. cbn [resolve_key]. by rewrite resolve_entity_unstored. Qed.

  Lemma read_entity_stored d e row : ents s !! d = Some e -> abs_at s d = Some (e, row) -> read_entity s d = Some (d, e, row).
  Proof using HI.
    intros He Ha. assert (Hd : d < len s) by (rewrite <- (i_lents s HI); by eapply lookup_lt_Some).
    destruct (read_entity_some s d HI Hd) as (e' & r' & Hr & Ha'). rewrite Ha in Ha'. by injection Ha' as <- <-.
  Qed.

  Lemma to_direct_stored d e : ents s !! d = Some e -> to_direct cfg KEnt s e = ROk (Some (direct_of s d)).
  Proof using HI. intros He. unfold to_direct. by rewrite (resolve_entity_complete cfg s HI d e He). Qed.

  (** Every world-level lookup path, for a stored handle: all accept, the views show the handle itself,
      its dense position and its row, the finds show the handle and the current direct handle. *)
  Theorem probe_world_stored typed d e row : ents s !! d = Some e -> abs_at s d = Some (e, row) ->
    probe_storage_world cfg typed KEnt s e = ROk (acc_world typed s d e row).
  Proof using HI.
    intros He Ha. unfold probe_storage_world, o_contains, o_to_direct, o_view, probe_find.
    rewrite (resolve_for_stored d e He), (to_direct_stored d e He), (read_entity_stored d e row He Ha).
    cbn [rmap rapp]. unfold acc_world, acc_direct, acc_view, acc_find, direct_of. by destruct typed.
  Qed.

  (** ... and for a handle of this archetype that is not stored: every path reports absence. *)
  Theorem probe_world_unstored typed e : key32 e -> key_arch_id (fst e) = aid s -> eslot e < cap s -> e ∉ ents s ->
    probe_storage_world cfg typed KEnt s e = ROk (rej_world typed).
  Proof using HI.
    intros Hk Hid Hc Hn. unfold probe_storage_world, o_contains, o_to_direct, o_view, probe_find, to_direct.
    rewrite (resolve_for_unstored e Hk Hid Hc Hn), (resolve_entity_unstored e Hk Hid Hc Hn).
    cbn [rmap rapp]. by destruct typed.
  Qed.

  Theorem probe_arch_stored d e row : ents s !! d = Some e -> abs_at s d = Some (e, row) ->
    probe_storage_arch cfg KEnt s e = ROk (acc_arch s d e row).
  Proof using HI.
    intros He Ha. unfold probe_storage_arch, o_contains, o_resolve, o_to_direct, o_view.
    rewrite (resolve_for_stored d e He), (to_direct_stored d e He), (read_entity_stored d e row He Ha).
    cbn [rmap rapp]. done.
  Qed.

  Theorem probe_arch_unstored e : key32 e -> key_arch_id (fst e) = aid s -> eslot e < cap s -> e ∉ ents s ->
    probe_storage_arch cfg KEnt s e = ROk rej_arch.
  Proof using HI.
    intros Hk Hid Hc Hn. unfold probe_storage_arch, o_contains, o_resolve, o_to_direct, o_view, to_direct.
    rewrite (resolve_for_unstored e Hk Hid Hc Hn), (resolve_entity_unstored e Hk Hid Hc Hn).
    cbn [rmap rapp]. done.
  Qed.
End obs.

(* ---------------------------------------------------------------- the run language *)

(** The probe operation of the run language with a dynamically typed entity handle at world level
    (dispatch by the packed archetype id) and at the level of its archetype: the printed observation
    is the accepted form, showing the handle itself with its own row on every path, when the handle
    is stored in the archetype its id names, and the rejected form on every path otherwise; the
    state does not change. *)
Theorem step_probe_any_world cfg d qs st w r e a s : RInv d st ->
  cur_world st = Some w -> get_href st KEnt r = Some e -> snd e <> 0%N -> key32 e ->
  find_arch (wd_archs d) (key_arch_id (fst e)) = Some a -> w !! a = Some s -> eslot e < cap s ->
  step cfg d qs st (OProbe LWorld KEnt TAny r) =
    Some (st, match list_find (fun x => x = e) (ents s) with
              | Some (dd, _) => acc_world false s dd e (default [] (snd <$> abs_at s dd))
              | None => rej_world false
              end).
Proof.
  intros (HW & _ & _) Hcur Href Hv Hk Hfa Hs Hc.
  assert (HWI : WInv d w).
  { unfold cur_world in Hcur. destruct (worlds st !! cur st) as [ow|] eqn:Hl; [|done]. cbn in Hcur. subst ow.
    rewrite Forall_forall in HW. apply (HW (Some w)). by eapply elem_of_list_lookup_2. }
  destruct (find_arch_some _ _ _ Hfa) as (ad & Had & Hid & _).
  destruct (Forall2_lookup_l _ _ _ _ _ HWI Had) as (s' & Hs' & (HI & Haid & _)). assert (Some s' = Some s) as [= ->] by (etrans; [symmetry; exact Hs'|exact Hs]).
  cbn [step]. rewrite Hcur, Href. unfold make_key.
  assert (raw_ok (snd e) = true) as ->.
  { unfold raw_ok, nonzero_new. destruct (N.eqb_spec (snd e) 0); done. }
  cbn [negb dispatch_world]. rewrite Hfa, Had, Hs.
  destruct (list_find (fun x => x = e) (ents s)) as [[dd x]|] eqn:Hlf.
  - apply list_find_Some in Hlf as (Hdd & Hx & _). subst x.
    assert (Hd : dd < len s) by (rewrite <- (i_lents s HI); by eapply lookup_lt_Some).
    destruct (abs_at_some s dd HI Hd) as (e' & row & Ha & He' & _). rewrite Hdd in He'. injection He' as <-.
    rewrite (probe_world_stored cfg s HI false dd e row Hdd Ha). rewrite Ha. done.
  - apply list_find_None in Hlf.
    rewrite (probe_world_unstored cfg s HI false e Hk ltac:(congruence) Hc); [done|].
    intros Hin. rewrite Forall_forall in Hlf. by apply (Hlf e Hin).
Qed.

(** ... and presented to one archetype [b] (ArchetypeCanResolve with a dynamically typed handle, which
    goes through the checked conversion): the accepted or rejected form on all five paths when the
    handle carries that archetype's id, and absence on every path when it carries another id. *)
Theorem step_probe_any_arch cfg d qs st w r e b bd s : RInv d st ->
  cur_world st = Some w -> get_href st KEnt r = Some e -> snd e <> 0%N -> key32 e ->
  wd_archs d !! b = Some bd -> w !! b = Some s -> (da_id bd = key_arch_id (fst e) -> eslot e < cap s) ->
  step cfg d qs st (OProbe (LArch b) KEnt TAny r) =
    Some (st, if decide (da_id bd = key_arch_id (fst e)) then
                match list_find (fun x => x = e) (ents s) with
                | Some (dd, _) => acc_arch s dd e (default [] (snd <$> abs_at s dd))
                | None => rej_arch
                end
              else rej_arch).
Proof.
  intros (HW & _ & _) Hcur Href Hv Hk Had Hs Hc.
  assert (HWI : WInv d w).
  { unfold cur_world in Hcur. destruct (worlds st !! cur st) as [ow|] eqn:Hl; [|done]. cbn in Hcur. subst ow.
    rewrite Forall_forall in HW. apply (HW (Some w)). by eapply elem_of_list_lookup_2. }
  destruct (Forall2_lookup_l _ _ _ _ _ HWI Had) as (s' & Hs' & (HI & Haid & _)).
  assert (Some s' = Some s) as [= ->] by (etrans; [symmetry; exact Hs'|exact Hs]).
  cbn [step]. rewrite Hcur, Href. unfold make_key.
  assert (raw_ok (snd e) = true) as ->.
  { unfold raw_ok, nonzero_new. destruct (N.eqb_spec (snd e) 0); done. }
  cbn [negb dispatch_arch]. rewrite Had. change arch_dispatch_checks_id with true. cbn [id_ok]. unfold conv_ok.
  destruct (decide (da_id bd = key_arch_id (fst e))) as [Hid|Hid].
  - rewrite <- Hid, N.eqb_refl. cbn [fmap option_fmap option_map]. rewrite Had, Hs.
    destruct (list_find (fun x => x = e) (ents s)) as [[dd x]|] eqn:Hlf.
    + apply list_find_Some in Hlf as (Hdd & Hx & _). subst x.
      assert (Hd : dd < len s) by (rewrite <- (i_lents s HI); by eapply lookup_lt_Some).
      destruct (abs_at_some s dd HI Hd) as (e' & row & Ha & He' & _). rewrite Hdd in He'. injection He' as <-.
      rewrite (probe_arch_stored cfg s HI dd e row Hdd Ha). rewrite Ha. done.
    + apply list_find_None in Hlf.
      rewrite (probe_arch_unstored cfg s HI e Hk ltac:(congruence) (Hc Hid)); [done|].
      intros Hin. rewrite Forall_forall in Hlf. by apply (Hlf e Hin).
  - destruct (N.eqb_spec (key_arch_id (fst e)) (da_id bd)) as [E|_]; [by rewrite E in Hid|]. done.
Qed.

(** destroy through one archetype with a dynamically typed handle carrying its id (no armed Drop fault):
    a stored handle below the generation limits is removed - the new storage is [destroyed_state], an
    invariant state in which the handle is stored nowhere - and the observation hands back exactly its
    row; a handle that is not stored yields absence and changes nothing. *)
Theorem step_destroy_any_arch cfg d qs st w r e b bd s : RInv d st ->
  cur_world st = Some w -> get_href st KEnt r = Some e -> snd e <> 0%N -> key32 e ->
  wd_archs d !! b = Some bd -> w !! b = Some s -> da_id bd = key_arch_id (fst e) -> eslot e < cap s -> drop_in st = 0%N ->
  match list_find (fun x => x = e) (ents s) with
  | Some (dd, _) => forall va vs', arch_next (wrapping cfg) (version s) = Some va -> slot_next (wrapping cfg) (snd e) = Some vs' ->
      step cfg d qs st (ODestroy (LArch b) KEnt TAny r) =
        Some (set_drop_in (set_world st (upd w b (destroyed_state cfg s (eslot e) dd e (last_ent s e) va vs'))) 0%N,
              1%N :: default [] (snd <$> abs_at s dd))
  | None => step cfg d qs st (ODestroy (LArch b) KEnt TAny r) = Some (st, [0%N])
  end.
Proof.
  intros (HW & _ & _) Hcur Href Hv Hk Had Hs Hid Hc Hdin.
  assert (HWI : WInv d w).
  { unfold cur_world in Hcur. destruct (worlds st !! cur st) as [ow|] eqn:Hl; [|done]. cbn in Hcur. subst ow.
    rewrite Forall_forall in HW. apply (HW (Some w)). by eapply elem_of_list_lookup_2. }
  destruct (Forall2_lookup_l _ _ _ _ _ HWI Had) as (s' & Hs' & (HI & Haid & _)).
  assert (Some s' = Some s) as [= ->] by (etrans; [symmetry; exact Hs'|exact Hs]).
  assert (Hpre : forall X, step cfg d qs st (ODestroy (LArch b) KEnt TAny r) = X <->
     match destroy cfg KEnt s e with
     | Ok s1 (Some row) => let '(st2, obs) := after_drop d bd (set_world st (upd w b s1)) (1%N :: row) in ret st2 obs
     | Ok s1 None => ret st [0%N]
     | Panic p s1 => ret (set_world st (upd w b s1)) [2%N; pcode p]
     | UB => None
     end = X).
  { intros X. cbn [step]. rewrite Hcur, Href. unfold make_key.
    assert (raw_ok (snd e) = true) as -> by (unfold raw_ok, nonzero_new; destruct (N.eqb_spec (snd e) 0); done).
    cbn [negb dispatch_arch]. rewrite Had. change arch_dispatch_checks_id with true. cbn [id_ok]. unfold conv_ok.
    rewrite <- Hid, N.eqb_refl. cbn [fmap option_fmap option_map]. rewrite Had, Hs. done. }
  destruct (list_find (fun x => x = e) (ents s)) as [[dd x]|] eqn:Hlf.
  - apply list_find_Some in Hlf as (Hdd & Hx & _). subst x. intros va vs' Hva Hvs.
    apply Hpre. rewrite (LoopFacts.destroy_live cfg s dd e HI Hdd), Hva, Hvs.
    assert (Hd : dd < len s) by (rewrite <- (i_lents s HI); by eapply lookup_lt_Some).
    destruct (abs_at_some s dd HI Hd) as (e' & row & Ha & He' & _). rewrite Ha. cbn [fmap option_fmap option_map snd default from_option id].
    assert (row_of s dd = row) as ->.
    { unfold abs_at in Ha. rewrite Hdd in Ha. unfold row_of. destruct (row_at (cols s) dd); by inversion Ha. }
    unfold after_drop. cbn [drop_in set_world]. rewrite Hdin. cbn [drop_row N.eqb]. done.
  - apply list_find_None in Hlf. apply Hpre.
    assert (Hn : e ∉ ents s) by (intros Hin; rewrite Forall_forall in Hlf; by apply (Hlf e Hin)).
    unfold destroy. cbn [resolve_key]. rewrite (resolve_entity_unstored cfg s HI e Hk ltac:(congruence) Hc Hn). done.
Qed.
