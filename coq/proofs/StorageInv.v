(** The representation invariant of a storage and its preservation by construction and creation.
    Statements are about the model of coq/model/Storage.v, whose force_create / grow run the effect
    lists translated from the Rust source. *)
From Coq Require Import NArith Lia Bool.
From stdpp Require Import base list numbers option sets.
From Gecs Require Import Prim ExtrBits ExtrVersion ExtrStorage Storage BitsFacts VersionFacts.
Local Open Scope nat_scope.
Set Default Proof Using "Type".

(** The free list: [chain sl h fl] threads the slot indices [fl] starting from head [h]. *)
Fixpoint chain (sl : list slot) (h : sidx) (fl : list nat) : Prop :=
  match fl with
  | [] => h = FreeEnd
  | i :: fl' => h = Free i /\ exists x, sl !! i = Some x /\ sidx_is_free (s_idx x) = true /\ chain sl (s_idx x) fl'
  end.

Definition max_cap_nat : nat := N.to_nat MAX_DATA_CAPACITY.

Record Inv (s : storage) : Prop := {
  i_aid : (aid s < 2^8)%N;
  i_cap : (N.of_nat (cap s) <= MAX_DATA_CAPACITY)%N;
  i_alloc : al_slots s = cap s /\ al_ents s = cap s /\ al_cols s = cap s;
  i_lslots : length (slots s) = cap s;
  i_lents : length (ents s) = len s;
  i_lcols : Forall (fun c => length c = len s) (cols s);
  i_le : len s <= cap s;
  i_fwd : forall i e, ents s !! i = Some e ->
            exists k, fst e = pack_key (N.of_nat k) (aid s) /\ slots s !! k = Some (Slot (Data i) (snd e));
  i_bwd : forall k x i, slots s !! k = Some x -> s_idx x = Data i ->
            exists e, ents s !! i = Some e /\ fst e = pack_key (N.of_nat k) (aid s);
  i_free : exists fl, chain (slots s) (head s) fl /\ NoDup fl /\ length fl = cap s - len s;
  i_ver : in_ver (version s) /\ forall k x, slots s !! k = Some x -> in_ver (s_ver x);
}.

(* ---------------------------------------------------------------- small arithmetic bridges *)

Lemma cap_lt_pow24 s k : Inv s -> k < cap s -> (N.of_nat k < 2^24)%N.
Proof. intros HI Hk. pose proof (i_cap s HI) as Hc. rewrite max_cap in Hc. lia. Qed.

Lemma hslot_pack k id v : (N.of_nat k < 2^24)%N -> (id < 2^8)%N -> hslot (pack_key (N.of_nat k) id, v) = N.of_nat k.
Proof. intros. unfold hslot. simpl. now apply key_index_pack. Qed.

Lemma pack_key_nat_inj k1 k2 id : (N.of_nat k1 < 2^24)%N -> (N.of_nat k2 < 2^24)%N -> (id < 2^8)%N ->
  pack_key (N.of_nat k1) id = pack_key (N.of_nat k2) id -> k1 = k2.
Proof. intros H1 H2 Hi E. destruct (pack_key_inj _ _ _ _ H1 Hi H2 Hi E) as [E' _]. lia. Qed.

(* ---------------------------------------------------------------- chains *)

Lemma chain_insert_notin sl h fl k x :
  k ∉ fl -> chain sl h fl -> chain (<[k := x]> sl) h fl.
Proof.
  revert h. induction fl as [|i fl IH]; intros h Hk Hc; simpl in *; [done|].
  destruct Hc as (-> & y & Hy & Hf & Hc). split; [done|].
  exists y. rewrite list_lookup_insert_ne by set_solver. split_and!; [done..|].
  apply IH; [set_solver|done].
Qed.

Lemma chain_free_elem sl h fl k :
  chain sl h fl -> k ∈ fl -> exists x, sl !! k = Some x /\ sidx_is_free (s_idx x) = true.
Proof.
  revert h. induction fl as [|i fl IH]; intros h Hc Hk; [set_solver|].
  simpl in Hc. destruct Hc as (-> & y & Hy & Hf & Hc).
  apply elem_of_cons in Hk as [->|Hk]; eauto.
Qed.

Lemma chain_head_free sl h fl : chain sl h fl -> sidx_is_free h = true.
Proof. destruct fl; simpl; [intros ->; done|intros (-> & _); done]. Qed.

Lemma chain_app_l sl sl' h fl : chain sl h fl -> chain (sl ++ sl') h fl.
Proof.
  revert h. induction fl as [|i fl IH]; intros h Hc; simpl in *; [done|].
  destruct Hc as (-> & y & Hy & Hf & Hc). split; [done|]. exists y. split_and!; [|done|by apply IH].
  by apply lookup_app_l_Some.
Qed.

Lemma chain_fmap_ver sl h fl (f : slot -> slot) :
  (forall x, s_idx (f x) = s_idx x) -> chain sl h fl -> chain (f <$> sl) h fl.
Proof.
  intros Hf. revert h. induction fl as [|i fl IH]; intros h Hc; simpl in *; [done|].
  destruct Hc as (-> & y & Hy & Hfr & Hc). split; [done|]. exists (f y).
  rewrite list_lookup_fmap, Hy. simpl. rewrite Hf. split_and!; [done|done|by apply IH].
Qed.

(* ---------------------------------------------------------------- populate *)

Lemma pf_end_nat n : 0 < n -> N.to_nat (pf_end_idx (N.of_nat n)) = n - 1.
Proof. intros. unfold pf_end_idx. lia. Qed.
Lemma pf_next_nat i : N.to_nat (pf_next (N.of_nat i)) = S i.
Proof. unfold pf_next. lia. Qed.

Lemma populate_length c n : length (populate c n) = n - c.
Proof. unfold populate. by rewrite fmap_length, seq_length. Qed.

Lemma populate_lookup c n i : c <= i < n ->
  populate c n !! (i - c) = Some (Slot (if decide (S i = n) then FreeEnd else Free (S i)) VERSION_START).
Proof.
  intros Hi. unfold populate. rewrite list_lookup_fmap.
  rewrite lookup_seq_lt by lia. simpl. replace (c + (i - c)) with i by lia.
  rewrite pf_end_nat by lia. rewrite pf_next_nat. f_equal. f_equal.
  repeat case_decide; try done; lia.
Qed.

Lemma chain_populate pre c n k : length pre = c -> c <= k -> k < n ->
  chain (pre ++ populate c n) (Free k) (seq k (n - k)).
Proof.
  intros Hpre Hck Hkn. remember (n - k) as m eqn:Hm. revert k Hck Hkn Hm.
  induction m as [|m IH]; intros k Hck Hkn Hm; [lia|].
  simpl. split; [done|].
  eexists. split.
  { rewrite lookup_app_r by lia. rewrite Hpre. apply populate_lookup. lia. }
  simpl. split; [by case_decide|].
  case_decide as Hd.
  - assert (m = 0) as -> by lia. done.
  - apply IH; lia.
Qed.

Lemma populate_not_data c n j x i : populate c n !! j = Some x -> s_idx x <> Data i.
Proof.
  intros Hj. assert (j < n - c) by (rewrite <- (populate_length c n); by eapply lookup_lt_Some).
  replace j with ((c + j) - c) in Hj by lia. rewrite populate_lookup in Hj by lia.
  injection Hj as <-. simpl. by case_decide.
Qed.

Lemma populate_ver c n j x : populate c n !! j = Some x -> s_ver x = VERSION_START.
Proof.
  intros Hj. assert (j < n - c) by (rewrite <- (populate_length c n); by eapply lookup_lt_Some).
  replace j with ((c + j) - c) in Hj by lia. rewrite populate_lookup in Hj by lia. by injection Hj as <-.
Qed.

(* ---------------------------------------------------------------- with_capacity *)

Lemma with_capacity_ok id ncols c : (N.of_nat c <= MAX_DATA_CAPACITY)%N ->
  with_capacity id ncols c = Ok (St id VERSION_START 0 c (populate_head 0 c) c c c (populate 0 c) [] (replicate ncols []) [] []) tt.
Proof.
  intros H. unfold with_capacity, with_capacity_panics.
  destruct (N.ltb_spec MAX_DATA_CAPACITY (N.of_nat c)); [lia|done].
Qed.

Lemma with_capacity_panics_iff id ncols c :
  (exists s, with_capacity id ncols c = Panic PCapExceed s) <-> (MAX_DATA_CAPACITY < N.of_nat c)%N.
Proof.
  unfold with_capacity, with_capacity_panics.
  destruct (N.ltb_spec MAX_DATA_CAPACITY (N.of_nat c)); split; try lia; eauto.
  intros (s & Hs). discriminate.
Qed.

Lemma with_capacity_inv id ncols c s : (id < 2^8)%N -> with_capacity id ncols c = Ok s tt -> Inv s.
Proof.
  intros Hid. unfold with_capacity, with_capacity_panics.
  destruct (N.ltb_spec MAX_DATA_CAPACITY (N.of_nat c)) as [|Hc]; [discriminate|]. intros [= <-].
  constructor; simpl; try done.
  - by rewrite populate_length, Nat.sub_0_r.
  - apply Forall_replicate. done.
  - lia.
  - intros k x i Hk Hx. exfalso. by eapply populate_not_data.
  - unfold populate_head. case_decide as Hc0.
    + subst. exists []. split_and!; [done|constructor|done].
    + exists (seq 0 (c - 0)). split_and!.
      * apply (chain_populate [] 0 c 0); [done|lia|lia].
      * apply NoDup_seq.
      * rewrite seq_length. lia.
  - split; [apply version_start_in|]. intros k x Hk. rewrite (populate_ver _ _ _ _ Hk). apply version_start_in.
Qed.

(* ---------------------------------------------------------------- growth *)

Lemma grow_capacity_spec c : (c < MAX_DATA_CAPACITY)%N ->
  grow_capacity c = N.min ((c + 1) * 2) MAX_DATA_CAPACITY /\ (c < grow_capacity c <= MAX_DATA_CAPACITY)%N.
Proof.
  intros Hc. rewrite max_cap_val in *. unfold grow_capacity, saturating_mul, saturating_add, mask. rewrite max_cap_val.
  change (2 ^ 64 - 1)%N with 18446744073709551615%N.
  rewrite (N.min_l (c + 1)) by lia. rewrite (N.min_l ((c + 1) * 2)) by lia. split; [done|]. lia.
Qed.

Lemma grow_refused_iff c : grow_refused c = true <-> (MAX_DATA_CAPACITY <= c)%N.
Proof. unfold grow_refused. apply N.leb_le. Qed.

Definition grown (s : storage) (newcap : nat) : storage :=
  St (aid s) (version s) (len s) newcap (Free (len s)) newcap newcap newcap
     (slots s ++ populate (len s) newcap) (ents s) (cols s) (created s) (destroyed s).

Lemma exec_grow_prog s newcap : Inv s -> len s = cap s -> cap s < newcap ->
  exec_gsteps newcap grow_prog s = Some (grown s newcap).
Proof.
  intros HI Hfull Hn. destruct (i_alloc s HI) as (A1 & A2 & A3). pose proof (i_lslots s HI) as Hls.
  unfold grow_prog. cbn [exec_gsteps exec_gstep al_slots al_ents al_cols len slots cap].
  assert (E1 : (newcap <=? newcap) = true) by (apply Nat.leb_le; lia).
  assert (E2 : (len s <=? length (slots s)) = true) by (apply Nat.leb_le; lia).
  assert (E3 : (len s <? newcap) = true) by (apply Nat.ltb_lt; lia).
  rewrite E1, E2, E3. cbn [negb orb].
  unfold grown, populate_head. rewrite decide_False by lia.
  rewrite take_ge by lia. done.
Qed.

Lemma grown_inv s newcap : Inv s -> len s = cap s -> cap s < newcap -> (N.of_nat newcap <= MAX_DATA_CAPACITY)%N ->
  Inv (grown s newcap).
Proof.
  intros [Haid Hcap (A1 & A2 & A3) Hls Hle Hlc Hlen Hf Hb (fl & Hch & Hnd & Hfl) (Hv & Hsv)] Hfull Hn Hnc.
  constructor; simpl; try done.
  - rewrite app_length, populate_length. lia.
  - lia.
  - intros i e Hi. destruct (Hf _ _ Hi) as (k & Hk & Hs). exists k. split; [done|]. by apply lookup_app_l_Some.
  - intros k x i Hk Hx. apply lookup_app_Some in Hk as [Hk|[Hge Hk]]; [by eapply Hb|].
    exfalso. by eapply populate_not_data.
  - exists (seq (len s) (newcap - len s)). split_and!.
    + apply chain_populate; [lia|lia|lia].
    + apply NoDup_seq.
    + by rewrite seq_length.
  - split; [done|]. intros k x Hk. apply lookup_app_Some in Hk as [Hk|[Hge Hk]]; [by eapply Hsv|].
    rewrite (populate_ver _ _ _ _ Hk). apply version_start_in.
Qed.

(** [grow] never yields UB from an invariant state; it is refused exactly at the capacity limit. *)
Lemma grow_spec cfg s : Inv s -> len s = cap s ->
  if decide (N.of_nat (cap s) < MAX_DATA_CAPACITY)%N
  then exists n, cap s < n /\ (N.of_nat n <= MAX_DATA_CAPACITY)%N /\
                 n = N.to_nat (grow_capacity (N.of_nat (cap s))) /\ grow cfg s = Ok (grown s n) true
  else grow cfg s = Ok s false.
Proof.
  intros HI Hfull. unfold grow. case_decide as Hc.
  - destruct (grow_refused (N.of_nat (cap s))) eqn:Hr; [apply grow_refused_iff in Hr; lia|].
    assert ((len s =? cap s) = true) as -> by (apply Nat.eqb_eq; done). rewrite andb_false_r.
    destruct (grow_capacity_spec _ Hc) as (_ & Hlo & Hhi).
    set (n := N.to_nat (grow_capacity (N.of_nat (cap s)))).
    exists n. assert (cap s < n) by (unfold n; lia). assert ((N.of_nat n <= MAX_DATA_CAPACITY)%N) by (unfold n; lia).
    split_and!; [done|done|done|]. by rewrite exec_grow_prog.
  - destruct (grow_refused (N.of_nat (cap s))) eqn:Hr; [done|].
    exfalso. apply Hc. apply N.lt_nge. intros Hge. apply grow_refused_iff in Hge. congruence.
Qed.

(* ---------------------------------------------------------------- create *)

Ltac ssimpl := cbn [negb rbind set_slot with_version aid version len cap head al_slots al_ents al_cols slots ents cols created destroyed
                    c_slot c_dense c_ent c_index d_si d_di d_last_slot d_result d_next_arch d_next_slot s_idx s_ver fst snd].

Definition snoc_cols (cs : list (list val)) (vs : list val) : list (list val) := zip_with (fun c v => c ++ [v]) cs vs.

Lemma write_cell_append {A} alloc (x : A) l : length l < alloc -> write_cell alloc (length l) x l = Some (l ++ [x]).
Proof.
  intros H. unfold write_cell.
  assert ((length l <? alloc) = true) as -> by (apply Nat.ltb_lt; lia).
  by rewrite Nat.eqb_refl.
Qed.

Lemma write_cols_append alloc n vs cs : n < alloc -> Forall (fun c => length c = n) cs -> length vs = length cs ->
  write_cols alloc n vs cs = Some (snoc_cols cs vs).
Proof.
  intros Hn Hcs. revert vs. induction Hcs as [|c cs Hc Hcs IH]; intros vs Hl.
  - destruct vs; [done|simpl in Hl; lia].
  - destruct vs as [|v vs]; [simpl in Hl; lia|]. simpl in Hl. cbn [write_cols].
    assert (write_cell alloc n v c = Some (c ++ [v])) as -> by (rewrite <- Hc; apply write_cell_append; lia).
    rewrite IH by lia. done.
Qed.

Definition created_handle (s : storage) (h : nat) (x : slot) : handle := (pack_key (N.of_nat h) (aid s), s_ver x).

Definition created_state (cfg : config) (s : storage) (h : nat) (x : slot) (vs : list val) : storage :=
  St (aid s) (version s) (S (len s)) (cap s) (s_idx x) (al_slots s) (al_ents s) (al_cols s)
     (<[h := Slot (Data (len s)) (s_ver x)]> (slots s))
     (ents s ++ [created_handle s h x]) (snoc_cols (cols s) vs)
     (if events cfg then created s ++ [created_handle s h x] else created s) (destroyed s).

(** Under the invariant and below capacity the free list is not empty: its head is a free slot. *)
Lemma free_head_exists s : Inv s -> len s < cap s ->
  exists h x fl, head s = Free h /\ slots s !! h = Some x /\ sidx_is_free (s_idx x) = true /\
                 chain (slots s) (s_idx x) fl /\ h ∉ fl /\ NoDup fl /\ length fl = cap s - S (len s).
Proof.
  intros HI Hlt. destruct (i_free s HI) as (fl & Hch & Hnd & Hfl).
  destruct fl as [|h fl]; [simpl in Hfl; lia|].
  simpl in Hch. destruct Hch as (Hh & x & Hx & Hxf & Hch).
  apply NoDup_cons in Hnd as [Hnh Hnd]. simpl in Hfl.
  exists h, x, fl. split_and!; try done. lia.
Qed.

Lemma force_create_spec cfg s vs h x : Inv s -> len s < cap s -> head s = Free h -> slots s !! h = Some x ->
  sidx_is_free (s_idx x) = true -> length vs = length (cols s) ->
  force_create cfg s vs = Ok (created_state cfg s h x vs) (created_handle s h x).
Proof.
  intros HI Hlt Hh Hx Hxf Hvs. destruct (i_alloc s HI) as (A1 & A2 & A3).
  pose proof (i_lslots s HI) as Hls. pose proof (i_lents s HI) as Hle. pose proof (i_lcols s HI) as Hlc.
  assert (Hhlt : h < length (slots s)) by (by eapply lookup_lt_Some).
  unfold force_create.
  assert ((len s <? cap s) = true) as -> by (apply Nat.ltb_lt; done). rewrite andb_false_r.
  unfold force_create_prog. cbn [exec_csteps].
  (* CPopFree *)
  unfold exec_cstep at 1. rewrite Hh. ssimpl.
  (* CDenseIndex *)
  unfold exec_cstep at 1.
  assert (trimmed_ok_usize (N.of_nat (len s)) = true) as ->.
  { apply trimmed_ok_usize_spec. pose proof (i_cap s HI) as Hc. rewrite max_cap in Hc. lia. }
  ssimpl.
  (* CSetHead *)
  unfold exec_cstep at 1. ssimpl. rewrite Hx, Hxf, andb_false_r. ssimpl.
  (* CAssign *)
  unfold exec_cstep at 1. ssimpl. rewrite Hx. ssimpl.
  (* CMakeEntity *)
  unfold exec_cstep at 1. ssimpl. rewrite list_lookup_insert by done. ssimpl.
  (* CIncLen *)
  unfold exec_cstep at 1. ssimpl.
  (* CWriteEnt *)
  unfold exec_cstep at 1. ssimpl.
  pose proof (write_cell_append (al_ents s) (created_handle s h x) (ents s)) as Hw.
  rewrite Hle in Hw. unfold created_handle in Hw. rewrite Hw by lia. clear Hw.
  ssimpl.
  (* CWriteCols *)
  unfold exec_cstep at 1. ssimpl.
  rewrite (write_cols_append (al_cols s) (len s) vs (cols s)) by (try done; lia). ssimpl.
  (* CEvent *)
  unfold exec_cstep at 1. ssimpl. unfold created_state, created_handle.
  destruct (events cfg); done.
Qed.

Lemma snoc_cols_length cs vs n : Forall (fun c => length c = n) cs -> length vs = length cs ->
  Forall (fun c => length c = S n) (snoc_cols cs vs) /\ length (snoc_cols cs vs) = length cs.
Proof.
  intros Hcs. revert vs. induction Hcs as [|c cs Hc Hcs IH]; intros vs Hl.
  - destruct vs; simpl in *; [split; [constructor|done]|lia].
  - destruct vs as [|v vs]; simpl in Hl; [lia|]. destruct (IH vs ltac:(lia)) as [IH1 IH2].
    unfold snoc_cols. cbn [zip_with]. split; [constructor; [rewrite app_length; simpl; lia|exact IH1]|simpl; f_equal; exact IH2].
Qed.

Lemma created_inv cfg s vs h x fl : Inv s -> len s < cap s -> head s = Free h -> slots s !! h = Some x ->
  sidx_is_free (s_idx x) = true -> chain (slots s) (s_idx x) fl -> h ∉ fl -> NoDup fl -> length fl = cap s - S (len s) ->
  length vs = length (cols s) -> Inv (created_state cfg s h x vs).
Proof.
  intros [Haid Hcap (A1 & A2 & A3) Hls Hle Hlc Hlen Hf Hb _ (Hv & Hsv)] Hlt Hh Hx Hxf Hch Hnh Hnd Hfl Hvs.
  assert (Hhlt : h < length (slots s)) by (by eapply lookup_lt_Some).
  constructor; unfold created_state; ssimpl.
  - done.
  - done.
  - done.
  - by rewrite insert_length.
  - rewrite app_length; cbn [length]; lia.
  - by apply snoc_cols_length.
  - lia.
  - intros i e Hi. apply lookup_app_Some in Hi as [Hi|[Hge Hi]].
    + destruct (Hf _ _ Hi) as (k & Hk & Hs). exists k. split; [done|].
      rewrite list_lookup_insert_ne; [done|].
      intros Heq. rewrite <- Heq, Hx in Hs. injection Hs as Hq. rewrite Hq in Hxf. done.
    + apply list_lookup_singleton_Some in Hi as [Hi <-]. exists h. split; [done|]. unfold created_handle; ssimpl.
      rewrite list_lookup_insert by done. assert (i = len s) as -> by lia. done.
  - intros k y i Hk Hy.
    destruct (decide (k = h)) as [->|Hne].
    + rewrite list_lookup_insert in Hk by done. injection Hk as <-. simpl in Hy.
      injection Hy as <-. exists (created_handle s h x). split; [|done].
      rewrite lookup_app_r by lia. rewrite Hle, Nat.sub_diag. done.
    + rewrite list_lookup_insert_ne in Hk by done.
      destruct (Hb _ _ _ Hk Hy) as (e & He & Hes). exists e. split; [|done].
      by apply lookup_app_l_Some.
  - exists fl. split_and!; [|done|lia]. by apply chain_insert_notin.
  - split; [done|]. intros k y Hk. destruct (decide (k = h)) as [->|Hne].
    + rewrite list_lookup_insert in Hk by done. injection Hk as <-. simpl. by eapply Hsv.
    + rewrite list_lookup_insert_ne in Hk by done. by eapply Hsv.
Qed.

(** create below capacity: succeeds, yields a state satisfying the invariant, capacity unchanged. *)
Lemma force_create_inv cfg s vs : Inv s -> len s < cap s -> length vs = length (cols s) ->
  exists s' h x, force_create cfg s vs = Ok s' (created_handle s h x) /\ s' = created_state cfg s h x vs /\
                 head s = Free h /\ slots s !! h = Some x /\ sidx_is_free (s_idx x) = true /\ Inv s'.
Proof.
  intros HI Hlt Hvs. destruct (free_head_exists s HI Hlt) as (h & x & fl & Hh & Hx & Hxf & Hch & Hnh & Hnd & Hfl).
  exists (created_state cfg s h x vs), h, x. split_and!; try done.
  - by apply force_create_spec.
  - by eapply created_inv.
Qed.

(** Archetype::create. Below the limit it always succeeds (growing when full); at the limit it
    panics with the storage unchanged. It never yields UB. *)
Inductive push_outcome (cfg : config) (s : storage) (vs : list val) : res storage handle -> Prop :=
  | push_ok_nogrow h x : len s < cap s -> head s = Free h -> slots s !! h = Some x ->
      push_outcome cfg s vs (Ok (created_state cfg s h x vs) (created_handle s h x))
  | push_ok_grow n h x : len s = cap s -> cap s < n -> (N.of_nat n <= MAX_DATA_CAPACITY)%N ->
      n = N.to_nat (grow_capacity (N.of_nat (cap s))) ->
      head (grown s n) = Free h -> slots (grown s n) !! h = Some x ->
      push_outcome cfg s vs (Ok (created_state cfg (grown s n) h x vs) (created_handle (grown s n) h x))
  | push_overflow : len s = cap s -> (N.of_nat (cap s) = MAX_DATA_CAPACITY)%N ->
      push_outcome cfg s vs (Panic PCapOverflow s).

Lemma push_spec cfg s vs : Inv s -> length vs = length (cols s) ->
  push_outcome cfg s vs (push cfg s vs) /\
  match push cfg s vs with Ok s' _ => Inv s' | Panic _ s' => s' = s | UB => False end.
Proof.
  intros HI Hvs. pose proof (i_le s HI) as Hle. unfold push.
  assert ((len s <=? cap s) = true) as -> by (apply Nat.leb_le; done). rewrite andb_false_r.
  unfold push_needs_grow. destruct (N.leb_spec (N.of_nat (cap s)) (N.of_nat (len s))) as [Hfull|Hroom].
  - assert (Hfull' : len s = cap s) by lia.
    assert (sidx_is_free_end (head s) = true) as ->.
    { destruct (i_free s HI) as (fl & Hch & _ & Hfl). destruct fl; [simpl in Hch; by rewrite Hch|simpl in Hfl; lia]. }
    rewrite andb_false_r.
    pose proof (grow_spec cfg s HI Hfull') as Hg. case_decide as Hc.
    + destruct Hg as (n & Hn & Hnc & Hneq & Hg). rewrite Hg. cbn [rbind].
      assert (HIg : Inv (grown s n)) by (by apply grown_inv).
      assert (Hlt : len (grown s n) < cap (grown s n)) by (simpl; lia).
      destruct (force_create_inv cfg (grown s n) vs HIg Hlt Hvs) as (s' & h & x & Hfc & -> & Hh & Hx & Hxf & HI').
      rewrite Hfc. split; [|done]. by eapply push_ok_grow.
    + rewrite Hg. cbn [rbind]. split; [|done]. apply push_overflow; [done|].
      pose proof (i_cap s HI). lia.
  - assert (Hlt : len s < cap s) by lia.
    destruct (force_create_inv cfg s vs HI Hlt Hvs) as (s' & h & x & Hfc & -> & Hh & Hx & Hxf & HI').
    rewrite Hfc. split; [|done]. by apply push_ok_nogrow.
Qed.

(** Archetype::create_within_capacity: succeeds exactly when len < capacity, never changes the
    capacity, and otherwise hands the values back with the storage unchanged. *)
Lemma push_within_spec cfg s vs : Inv s -> length vs = length (cols s) ->
  if decide (len s < cap s)
  then exists h x, push_within cfg s vs = Ok (created_state cfg s h x vs) (Some (created_handle s h x)) /\
                   Inv (created_state cfg s h x vs) /\ cap (created_state cfg s h x vs) = cap s /\
                   head s = Free h /\ slots s !! h = Some x
  else push_within cfg s vs = Ok s None.
Proof.
  intros HI Hvs. pose proof (i_le s HI) as Hle. unfold push_within.
  assert ((len s <=? cap s) = true) as -> by (apply Nat.leb_le; done). rewrite andb_false_r.
  unfold push_within_full. case_decide as Hlt.
  - destruct (N.leb_spec (N.of_nat (cap s)) (N.of_nat (len s))); [lia|].
    destruct (force_create_inv cfg s vs HI Hlt Hvs) as (s' & h & x & Hfc & -> & Hh & Hx & Hxf & HI').
    exists h, x. rewrite Hfc. cbn [rbind]. done.
  - destruct (N.leb_spec (N.of_nat (cap s)) (N.of_nat (len s))); [|lia].
    assert (sidx_is_free_end (head s) = true) as ->.
    { destruct (i_free s HI) as (fl & Hch & _ & Hfl). destruct fl; [simpl in Hch; by rewrite Hch|simpl in Hfl; lia]. }
    by rewrite andb_false_r.
Qed.

(* ---------------------------------------------------------------- derived views of the invariant *)

Definition eslot (e : handle) : nat := N.to_nat (hslot e).

Lemma fwd' s i e : Inv s -> ents s !! i = Some e ->
  slots s !! eslot e = Some (Slot (Data i) (snd e)) /\ fst e = pack_key (N.of_nat (eslot e)) (aid s) /\
  eslot e < cap s /\ i < len s /\ hslot e = N.of_nat (eslot e).
Proof.
  intros HI Hi. destruct (i_fwd s HI _ _ Hi) as (k & Hk & Hs).
  assert (Hkc : k < cap s) by (rewrite <- (i_lslots s HI); by eapply lookup_lt_Some).
  assert (Hk24 : (N.of_nat k < 2^24)%N) by (by eapply cap_lt_pow24).
  assert (Hes : eslot e = k).
  { unfold eslot, hslot. rewrite Hk. rewrite key_index_pack by (try done; apply (i_aid s HI)). lia. }
  rewrite Hes. split_and!; try done.
  - rewrite <- (i_lents s HI). by eapply lookup_lt_Some.
  - unfold hslot. rewrite Hk. apply key_index_pack; [done|apply (i_aid s HI)].
Qed.

Lemma bwd' s k x i : Inv s -> slots s !! k = Some x -> s_idx x = Data i ->
  exists e, ents s !! i = Some e /\ eslot e = k /\ snd e = s_ver x.
Proof.
  intros HI Hk Hx. destruct (i_bwd s HI _ _ _ Hk Hx) as (e & He & Hek). exists e.
  destruct (fwd' s i e HI He) as (Hs & Hf & Hc & _ & _).
  assert (Hkc : k < cap s) by (rewrite <- (i_lslots s HI); by eapply lookup_lt_Some).
  assert (eslot e = k).
  { rewrite Hf in Hek. eapply pack_key_nat_inj; [by eapply cap_lt_pow24|by eapply cap_lt_pow24|apply (i_aid s HI)|done]. }
  subst k. split_and!; [done|done|]. rewrite Hk in Hs. injection Hs as Hs. rewrite Hs. done.
Qed.

(** Stored handles are pairwise distinct, and are 32-bit pairs with a valid generation. *)
Lemma ents_inj s i j e : Inv s -> ents s !! i = Some e -> ents s !! j = Some e -> i = j.
Proof.
  intros HI Hi Hj. destruct (fwd' s i e HI Hi) as (Hs1 & _). destruct (fwd' s j e HI Hj) as (Hs2 & _).
  rewrite Hs1 in Hs2. by injection Hs2.
Qed.

Lemma ents_NoDup s : Inv s -> NoDup (ents s).
Proof. intros HI. apply NoDup_alt. intros i j e Hi Hj. by eapply ents_inj. Qed.

Lemma forallb_cols_len n m (cs : list (list val)) : Forall (fun c => length c = m) cs -> n <= m ->
  forallb (fun c => n <=? length c) cs = true.
Proof.
  intros Hcs Hn. induction Hcs as [|c cs Hc Hcs IH]; [done|]. cbn [forallb]. rewrite IH, andb_true_r.
  apply Nat.leb_le. lia.
Qed.

(* ---------------------------------------------------------------- swap_remove *)

Lemma swap_remove_spec {A} (l : list A) index n x y : length l = n -> index < n ->
  l !! index = Some x -> l !! (n - 1) = Some y ->
  swap_remove index n l = Some (x, take (n - 1) (<[index := y]> l)).
Proof.
  intros Hl Hi Hx Hy. unfold swap_remove.
  assert ((n =? length l) = true) as -> by (apply Nat.eqb_eq; done).
  assert ((index <? n) = true) as -> by (apply Nat.ltb_lt; done). cbn [negb orb].
  by rewrite Hx, Hy.
Qed.

Definition swapped {A} (index : nat) (y : A) (l : list A) : list A := take (length l - 1) (<[index := y]> l).

Lemma swapped_length {A} index (y : A) l : length (swapped index y l) = length l - 1.
Proof. unfold swapped. rewrite take_length, insert_length. lia. Qed.

Lemma swapped_lookup {A} index (y : A) l i : i < length l - 1 ->
  swapped index y l !! i = if decide (i = index) then Some y else l !! i.
Proof.
  intros Hi. unfold swapped. rewrite lookup_take by lia.
  case_decide as Hid; [subst; rewrite list_lookup_insert by lia; done|].
  by rewrite list_lookup_insert_ne.
Qed.

Lemma swap_remove_cols_spec (cs : list (list val)) index n : Forall (fun c => length c = n) cs -> index < n ->
  exists row, row_at cs index = Some row /\ length row = length cs /\
    swap_remove_cols index n cs =
      Some (row, (fun c => match c !! (n - 1) with Some y => swapped index y c | None => c end) <$> cs).
Proof.
  intros Hcs Hi. induction Hcs as [|c cs Hc Hcs IH].
  - exists []. done.
  - destruct IH as (row & Hrow & Hrl & Hsw).
    destruct (lookup_lt_is_Some_2 c index ltac:(lia)) as [x Hx].
    destruct (lookup_lt_is_Some_2 c (n - 1) ltac:(lia)) as [y Hy].
    exists (x :: row). cbn [row_at swap_remove_cols fmap list_fmap length]. rewrite Hx, Hrow.
    rewrite (swap_remove_spec c index n x y) by done. rewrite Hsw. rewrite Hy.
    split_and!; [done|by rewrite Hrl|]. unfold swapped. by rewrite Hc.
Qed.

(* ---------------------------------------------------------------- destroy *)

Definition swapped_cols (d n : nat) (cs : list (list val)) : list (list val) :=
  (fun c => match c !! (n - 1) with Some y => swapped d y c | None => c end) <$> cs.

Definition destroyed_state (cfg : config) (s : storage) (si d : nat) (e le : handle) (va vs' : N) : storage :=
  St (aid s) va (len s - 1) (cap s) (Free si) (al_slots s) (al_ents s) (al_cols s)
     (<[si := Slot (head s) vs']> (<[eslot le := Slot (Data d) (snd le)]> (slots s)))
     (swapped d le (ents s)) (swapped_cols d (len s) (cols s))
     (created s) (if events cfg then destroyed s ++ [e] else destroyed s).

Lemma destroy_debug_ok_inv s si d e : Inv s -> ents s !! d = Some e -> eslot e = si -> destroy_debug_ok s si d = true.
Proof.
  intros HI Hd Hsi. destruct (fwd' s d e HI Hd) as (Hs & Hf & Hc & Hdl & Hh). rewrite Hsi in *.
  unfold destroy_debug_ok. rewrite Hd, Hs. cbn [s_ver].
  assert ((0 <? len s) = true) as -> by (apply Nat.ltb_lt; lia).
  assert ((si <=? cap s) = true) as -> by (apply Nat.leb_le; lia).
  assert ((d <? len s) = true) as -> by (apply Nat.ltb_lt; lia).
  rewrite Hh, !N.eqb_refl. done.
Qed.

Definition last_ent (s : storage) (e : handle) : handle := default e (ents s !! (len s - 1)).
Definition row_of (s : storage) (d : nat) : list val := default [] (row_at (cols s) d).

Lemma force_destroy_spec cfg s si d e : Inv s -> ents s !! d = Some e -> eslot e = si ->
  force_destroy cfg s si d =
    match arch_next (wrapping cfg) (version s), slot_next (wrapping cfg) (snd e) with
    | None, _ => Panic PArchOverflow s
    | Some _, None => Panic PSlotOverflow s
    | Some va, Some vs' => Ok (destroyed_state cfg s si d e (last_ent s e) va vs') (row_of s d)
    end.
Proof.
  intros HI Hd Hsi. destruct (fwd' s d e HI Hd) as (Hs & Hf & Hc & Hdl & Hh). rewrite Hsi in *.
  pose proof (i_lents s HI) as Hle. pose proof (i_lslots s HI) as Hls. pose proof (i_lcols s HI) as Hlc.
  unfold force_destroy. rewrite (destroy_debug_ok_inv s si d e) by done. rewrite andb_false_r.
  assert ((len s <=? length (ents s)) = true) as -> by (apply Nat.leb_le; lia). cbn [negb].
  unfold force_destroy_prog. cbn [exec_dsteps].
  (* DNextArch *)
  unfold exec_dstep at 1. destruct (arch_next (wrapping cfg) (version s)) as [va|] eqn:Hva; [|cbn [rbind]; done]. ssimpl.
  (* DNextSlot *)
  unfold exec_dstep at 1. ssimpl. rewrite Hs. ssimpl.
  destruct (slot_next (wrapping cfg) (snd e)) as [vs'|] eqn:Hvs; [|cbn [rbind]; done]. ssimpl.
  (* the last dense entity *)
  destruct (lookup_lt_is_Some_2 (ents s) (len s - 1) ltac:(lia)) as [le Hlast].
  destruct (fwd' s (len s - 1) le HI Hlast) as (Hsl & Hfl & Hcl & _ & Hhl).
  destruct (swap_remove_cols_spec (cols s) d (len s) Hlc Hdl) as (row & Hrow & Hrl & Hswc).
  unfold last_ent, row_of. rewrite Hlast, Hrow. cbn [default from_option id].
  (* DEvent *)
  unfold exec_dstep at 1. ssimpl.
  assert (Hev : forall (k : storage * dlocals -> unit -> res (storage * dlocals) unit) l,
    rbind (if events cfg then match ents s !! d with
                              | Some e0 => Ok (St (aid s) (version s) (len s) (cap s) (head s) (al_slots s) (al_ents s) (al_cols s)
                                                 (slots s) (ents s) (cols s) (created s) (destroyed s ++ [e0]), l) tt
                              | None => UB end
           else Ok (s, l) tt) k
    = k (St (aid s) (version s) (len s) (cap s) (head s) (al_slots s) (al_ents s) (al_cols s)
            (slots s) (ents s) (cols s) (created s) (if events cfg then destroyed s ++ [e] else destroyed s), l) tt).
  { intros k l. rewrite Hd. destruct (events cfg); [done|]. by destruct s. }
  rewrite Hev. clear Hev.
  (* DReadLast *)
  unfold exec_dstep at 1. ssimpl. destruct (len s) as [|n] eqn:Hn; [lia|].
  replace (S n - 1) with n in * by lia. rewrite Hlast.
  assert (trimmed_ok_u32 (hslot le) = true) as ->.
  { apply trimmed_ok_spec. rewrite Hhl. eapply cap_lt_pow24; done. }
  ssimpl.
  (* DSwapEnts *)
  unfold exec_dstep at 1. ssimpl.
  rewrite (swap_remove_spec (ents s) d (S n) e le) by (try done; replace (S n - 1) with n by lia; done). ssimpl.
  (* DSwapCols *)
  unfold exec_dstep at 1. ssimpl. rewrite Hswc. ssimpl.
  (* DAssignLast *)
  unfold exec_dstep at 1. ssimpl. fold (eslot le). rewrite Hsl. ssimpl.
  (* DReleaseWith *)
  unfold exec_dstep at 1. ssimpl.
  assert (Hsi_lt : si < length (slots s)) by lia.
  assert (Ht1 : exists tsl, (<[eslot le := Slot (Data d) (snd le)]> (slots s)) !! si = Some tsl /\ exists j, s_idx tsl = Data j).
  { destruct (decide (si = eslot le)) as [->|Hne].
    - rewrite list_lookup_insert by lia. eauto.
    - rewrite list_lookup_insert_ne by done. rewrite Hs. eauto. }
  destruct Ht1 as (tsl & Htsl & j & Hj). rewrite Htsl. rewrite Hj. cbn [sidx_is_free]. rewrite andb_false_r.
  change release_bumps_version with false. ssimpl.
  (* DSetArch, DSetHead, DDecLen *)
  unfold exec_dstep at 1. ssimpl. unfold exec_dstep at 1. ssimpl. unfold exec_dstep at 1. ssimpl.
  unfold destroyed_state, swapped_cols, swapped. rewrite Hn, Hle. replace (S n - 1) with n by lia. done.
Qed.

Lemma swapped_cols_length d n cs : 0 < n -> Forall (fun c => length c = n) cs ->
  Forall (fun c => length c = n - 1) (swapped_cols d n cs) /\ length (swapped_cols d n cs) = length cs.
Proof.
  intros Hn Hcs. unfold swapped_cols. split; [|by rewrite fmap_length].
  apply Forall_fmap. eapply Forall_impl; [exact Hcs|]. intros c Hc. cbv beta in Hc. simpl.
  destruct (lookup_lt_is_Some_2 c (n - 1) ltac:(lia)) as [y ->]. rewrite swapped_length. lia.
Qed.

Lemma destroyed_inv cfg s si d e va vs' : Inv s -> ents s !! d = Some e -> eslot e = si ->
  in_ver va -> in_ver vs' -> Inv (destroyed_state cfg s si d e (last_ent s e) va vs').
Proof.
  intros HI Hd Hsi Hva Hvs.
  destruct (fwd' s d e HI Hd) as (Htsl & Hfe & Hsic & Hdlt & Hhe). rewrite Hsi in *.
  pose proof HI as [Haid Hcap (A1 & A2 & A3) Hls Hle Hlc Hlen Hf Hb (fl & Hch & Hnd & Hfl) (Hv & Hsv)].
  destruct (lookup_lt_is_Some_2 (ents s) (len s - 1) ltac:(lia)) as [le Hlast].
  unfold last_ent. rewrite Hlast. cbn [default from_option id].
  destruct (fwd' s (len s - 1) le HI Hlast) as (Hlsl & Hfle & Hlc' & _ & Hhl).
  assert (Hls_lt : eslot le < length (slots s)) by lia.
  assert (Hsi_lt : si < length (slots s)) by lia.
  set (slots1 := <[eslot le := Slot (Data d) (snd le)]> (slots s)).
  assert (Hl1 : length slots1 = cap s) by (unfold slots1; by rewrite insert_length).
  assert (Hsw : forall i, i < len s - 1 ->
      swapped d le (ents s) !! i = if decide (i = d) then Some le else ents s !! i).
  { intros i Hi. apply swapped_lookup. lia. }
  assert (Hswl : length (swapped d le (ents s)) = len s - 1) by (rewrite swapped_length; lia).
  assert (Hhead_free : sidx_is_free (head s) = true) by (by eapply chain_head_free).
  assert (Hsi_notin : si ∉ fl).
  { intros Hin. destruct (chain_free_elem _ _ _ _ Hch Hin) as (y & Hy & Hyf). rewrite Htsl in Hy. by injection Hy as <-. }
  assert (Hle_notin : eslot le ∉ fl).
  { intros Hin. destruct (chain_free_elem _ _ _ _ Hch Hin) as (y & Hy & Hyf). rewrite Hlsl in Hy. by injection Hy as <-. }
  constructor; unfold destroyed_state; ssimpl; fold slots1.
  - done.
  - done.
  - done.
  - by rewrite insert_length.
  - done.
  - apply swapped_cols_length; [lia|done].
  - lia.
  - (* forward pointers *)
    intros i x Hi.
    assert (Hilt : i < len s - 1) by (rewrite <- Hswl; by eapply lookup_lt_Some).
    rewrite Hsw in Hi by done. case_decide as Hid.
    + injection Hi as <-. subst i. exists (eslot le). split; [done|].
      assert (si <> eslot le).
      { intros Heq. rewrite Heq, Hlsl in Htsl. injection Htsl as Hq. lia. }
      rewrite list_lookup_insert_ne by done. unfold slots1. by rewrite list_lookup_insert.
    + destruct (fwd' s i x HI Hi) as (Hx & Hfx & Hxc & _ & _). exists (eslot x). split; [done|].
      assert (eslot x <> si).
      { intros Heq. rewrite Heq, Htsl in Hx. injection Hx as Hq _. done. }
      assert (eslot x <> eslot le).
      { intros Heq. rewrite Heq, Hlsl in Hx. injection Hx as Hq _. lia. }
      rewrite list_lookup_insert_ne by done. unfold slots1. by rewrite list_lookup_insert_ne.
  - (* backward pointers *)
    intros k x i Hk Hx.
    destruct (decide (k = si)) as [->|Hne].
    { rewrite list_lookup_insert in Hk by (rewrite ?insert_length; lia). injection Hk as <-. simpl in Hx.
      rewrite Hx in Hhead_free. done. }
    rewrite list_lookup_insert_ne in Hk by done. unfold slots1 in Hk.
    destruct (decide (k = eslot le)) as [->|Hne2].
    { rewrite list_lookup_insert in Hk by done. injection Hk as <-. simpl in Hx. injection Hx as <-.
      exists le. split; [|done].
      assert (d <> len s - 1).
      { intros ->. rewrite Hlast in Hd. injection Hd as ->. done. }
      rewrite Hsw by lia. by rewrite decide_True. }
    rewrite list_lookup_insert_ne in Hk by done.
    destruct (bwd' s k x i HI Hk Hx) as (e' & He' & Hes & _).
    assert (Hi_lt : i < len s) by (rewrite <- Hle; by eapply lookup_lt_Some).
    assert (i <> len s - 1).
    { intros ->. rewrite Hlast in He'. injection He' as <-. done. }
    assert (i <> d).
    { intros ->. rewrite Hd in He'. injection He' as <-. congruence. }
    exists e'. split; [|by destruct (fwd' s i e' HI He') as (_ & Hq & _); rewrite Hes in Hq].
    rewrite Hsw by lia. by rewrite decide_False.
  - (* free list *)
    exists (si :: fl). split_and!.
    + simpl. split; [done|]. eexists. split; [apply list_lookup_insert; rewrite ?insert_length; lia|].
      simpl. split; [done|].
      apply chain_insert_notin; [done|]. apply chain_insert_notin; done.
    + apply NoDup_cons. done.
    + simpl. lia.
  - split; [done|]. intros k x Hk.
    destruct (decide (k = si)) as [->|Hne].
    { rewrite list_lookup_insert in Hk by (rewrite ?insert_length; lia). by injection Hk as <-. }
    rewrite list_lookup_insert_ne in Hk by done. unfold slots1 in Hk.
    destruct (decide (k = eslot le)) as [->|Hne2].
    { rewrite list_lookup_insert in Hk by done. injection Hk as <-. simpl. by eapply (Hsv _ _ Hlsl). }
    rewrite list_lookup_insert_ne in Hk by done. by eapply Hsv.
Qed.
