(** Facts about the generation counters translated from version.rs (gen/ExtrVersion.v). *)
From Coq Require Import NArith Lia Bool ZArith ZifyN ZifyBool.
From Gecs Require Import Prim ExtrVersion.
Open Scope N_scope.
Arguments N.add : simpl never. Arguments N.pow : simpl never. Arguments N.modulo : simpl never.

Definition in_ver (v : N) : Prop := 1 <= v < 2^32.

Lemma version_start_in : in_ver VERSION_START.
Proof. unfold in_ver, VERSION_START. change (2^32) with 4294967296. lia. Qed.

(** Default configuration: the counter strictly increases or the operation panics; it never wraps. *)
Lemma slot_next_checked v v' : slot_next false v = Some v' -> v' = v + 1 /\ v' < 2^32.
Proof.
  unfold slot_next, checked_add. destruct (N.ltb_spec (v + 1) (2^32)); intros E; inversion E; subst. split; [reflexivity|assumption].
Qed.

Lemma slot_next_checked_some v : v + 1 < 2^32 -> slot_next false v = Some (v + 1).
Proof. intros H. unfold slot_next, checked_add. destruct (N.ltb_spec (v + 1) (2^32)); [reflexivity|lia]. Qed.

Lemma slot_next_checked_none v : 2^32 <= v + 1 -> slot_next false v = None.
Proof. intros H. unfold slot_next, checked_add. destruct (N.ltb_spec (v + 1) (2^32)); [lia|reflexivity]. Qed.

Lemma slot_next_overflow_panics : slot_next false (2^32 - 1) = None.
Proof. reflexivity. Qed.

Lemma arch_next_eq w v : arch_next w v = slot_next w v.
Proof. reflexivity. Qed.

(** wrapping_version: total, stays non-zero, wraps from 2^32-1 to VERSION_START. *)
Lemma slot_next_wrapping v : in_ver v ->
  slot_next true v = Some (if v =? 2^32 - 1 then VERSION_START else v + 1).
Proof.
  unfold in_ver. intros [H1 H2]. unfold slot_next, unwrap_or, nonzero_new, wrapping_add. f_equal.
  change (2^32) with 4294967296 in *.
  destruct (N.eqb_spec v (4294967296 - 1)) as [->|Hne]; [reflexivity|].
  assert (v + 1 < 4294967296) by lia.
  rewrite N.mod_small by assumption.
  destruct (N.eqb_spec (v + 1) 0); [lia|reflexivity].
Qed.

Lemma slot_next_in w v v' : in_ver v -> slot_next w v = Some v' -> in_ver v'.
Proof.
  intros Hv. destruct w.
  - rewrite slot_next_wrapping by exact Hv. intros E; inversion E; subst.
    unfold in_ver in *. change (2^32) with 4294967296 in *. unfold VERSION_START.
    match goal with |- context [if ?a =? ?b then _ else _] => destruct (N.eqb_spec a b) end; lia.
  - intros E. apply slot_next_checked in E as [-> H]. unfold in_ver in *. lia.
Qed.

(** The documented exception: after 2^32-1 releases of one slot the generation comes back. *)
Lemma wrap_reissues : slot_next true (2^32 - 1) = Some VERSION_START.
Proof. reflexivity. Qed.
