(** The world-level event iterator (EcsEventIterator of generate/world.rs, modelled in Run.v):
    for any number of archetypes and any logs it yields exactly the concatenation of the
    per-archetype logs, with an exact size_hint before every next(). *)
From Coq Require Import NArith Lia Bool.
From stdpp Require Import base list list_numbers numbers option.
From Gecs Require Import Prim Storage Query World Borrow Run.
Local Open Scope nat_scope.
Set Default Proof Using "Type".

Definition all_empty (ls : list (list handle)) : Prop := Forall (fun l => l = []) ls.

Lemma concat_all_empty ls : all_empty ls -> concat ls = [].
Proof. induction 1 as [|l ls -> _ IH]; [done|]. done. Qed.

(** Iterator states reached from a fresh iterator: everything before [which] is exhausted. *)
Definition ev_good (it : evit) : Prop :=
  all_empty (take (ev_which it) (ev_rest it)) /\ (ev_which it < length (ev_rest it) \/ ev_rest it = []).

Lemma ev_next_from_spec : forall rest i n which pre, length pre = i -> n = i + length rest -> all_empty pre -> i <= which ->
  all_empty (take (which - i) rest) -> (which < n \/ rest = []) ->
  match ev_next_from i n which pre rest with
  | (Some h, w', all') => exists tl, concat rest = h :: tl /\ concat all' = tl /\ length all' = n /\ all_empty (take w' all') /\ w' < n
  | (None, w', all') => concat rest = []
  end.
Proof.
  induction rest as [|l rest IH]; intros i n which pre Hlen Hn Hpre Hi Hskip Hw; cbn [ev_next_from]; [done|].
  destruct (Nat.eqb_spec which i) as [->|Hne].
  - destruct l as [|h l'].
    + destruct rest as [|l2 rest2]; [done|].
      assert (Hnl : (S i =? n) = false) by (apply Nat.eqb_neq; cbn in Hn; lia). rewrite Hnl.
      specialize (IH (S i) n (S i) (pre ++ [[]])). cbn [concat app].
      apply IH; [rewrite app_length; simpl; lia|simpl in *; lia|apply Forall_app; split; [done|by constructor]|lia| |left; cbn in *; lia].
      rewrite Nat.sub_diag. constructor.
    + exists (l' ++ concat rest). split_and!; [done| | | |].
      * rewrite concat_app, (concat_all_empty pre Hpre). done.
      * rewrite app_length. simpl in *. lia.
      * rewrite take_app_alt by done. done.
      * cbn in Hn. lia.
  - assert (Hgt : i < which) by lia.
    assert (l = []) as ->.
    { replace (which - i) with (S (which - S i)) in Hskip by lia. cbn in Hskip. by inversion Hskip. }
    specialize (IH (S i) n which (pre ++ [[]])). cbn [concat app].
    apply IH; [rewrite app_length; simpl; lia|simpl in *; lia|apply Forall_app; split; [done|by constructor]|lia| |].
    + replace (which - i) with (S (which - S i)) in Hskip by lia. cbn in Hskip. by inversion Hskip.
    + destruct Hw as [Hw|Hw]; [by left|done].
Qed.

Lemma ev_next_spec it : ev_good it ->
  match ev_next it with
  | (Some h, it') => exists tl, concat (ev_rest it) = h :: tl /\ concat (ev_rest it') = tl /\ ev_good it'
  | (None, _) => concat (ev_rest it) = []
  end.
Proof.
  intros [Hg Hw]. unfold ev_next.
  pose proof (ev_next_from_spec (ev_rest it) 0 (length (ev_rest it)) (ev_which it) [] eq_refl eq_refl ltac:(constructor) ltac:(lia)
                ltac:(by rewrite Nat.sub_0_r) Hw) as H.
  destruct (ev_next_from 0 (length (ev_rest it)) (ev_which it) [] (ev_rest it)) as [[[h|] w'] all']; [|done].
  destruct H as (tl & H1 & H2 & H3 & H4 & H5). exists tl. split_and!; [done|done|].
  split; cbn [ev_which ev_rest]; [done|left; lia].
Qed.

Lemma sum_nats_app l1 l2 : sum_nats (l1 ++ l2) = sum_nats l1 + sum_nats l2.
Proof. induction l1; cbn; [done|]. unfold sum_nats in *. cbn. lia. Qed.

Lemma sum_lengths_concat (ls : list (list handle)) : sum_nats (length <$> ls) = length (concat ls).
Proof. induction ls as [|l ls IH]; [done|]. cbn. rewrite app_length. unfold sum_nats in *. cbn. lia. Qed.

Lemma size_hint_exact_gen : forall rest which off, all_empty (take (which - off) rest) ->
  sum_nats (imap (fun i l => if which <=? off + i then length l else 0) rest) = length (concat rest).
Proof.
  induction rest as [|l rest IH]; intros which off Hskip; [done|].
  cbn [imap concat]. rewrite app_length. change (sum_nats (?x :: ?r)) with (x + sum_nats r).
  rewrite Nat.add_0_r. destruct (Nat.leb_spec which off) as [Hle|Hgt].
  - f_equal. rewrite <- (IH which (S off)).
    + f_equal. apply imap_ext. intros i x _. cbn. by replace (off + S i) with (S off + i) by lia.
    + replace (which - S off) with 0 by lia. constructor.
  - replace (which - off) with (S (which - S off)) in Hskip by lia. cbn in Hskip. inversion Hskip as [|? ? -> Hrest]; subst.
    cbn. rewrite <- (IH which (S off) Hrest). f_equal. apply imap_ext. intros i x _. cbn. by replace (off + S i) with (S off + i) by lia.
Qed.

Lemma size_hint_exact it : ev_good it -> ev_size_hint it = length (concat (ev_rest it)).
Proof.
  intros [Hg _]. unfold ev_size_hint. rewrite <- (size_hint_exact_gen (ev_rest it) (ev_which it) 0) by (by rewrite Nat.sub_0_r).
  f_equal.
Qed.

Definition hints_from (total : nat) (k : nat) : list N := [N.of_nat (total - k); N.of_nat (S (total - k))].

(** Draining: the items are the concatenation; before the k-th next() the hint is (rem, Some rem). *)
Lemma ev_drain_spec : forall fuel it, ev_good it -> length (concat (ev_rest it)) < fuel ->
  ev_drain fuel it = (concat (ev_rest it),
                      concat ((fun k => [N.of_nat (length (concat (ev_rest it)) - k); N.of_nat (S (length (concat (ev_rest it)) - k))])
                              <$> seq 0 (S (length (concat (ev_rest it)))))).
Proof.
  induction fuel as [|fuel IH]; intros it Hg Hf; [lia|]. cbn [ev_drain].
  rewrite (size_hint_exact it Hg). pose proof (ev_next_spec it Hg) as Hn.
  destruct (ev_next it) as [[h|] it'].
  - destruct Hn as (tl & Hc & Hc' & Hg'). rewrite Hc in *. cbn [length] in *.
    rewrite (IH it' Hg') by (rewrite Hc'; lia). rewrite Hc'. f_equal.
    replace (seq 0 (S (S (length tl)))) with (0 :: (S <$> seq 0 (S (length tl)))) by (by rewrite fmap_S_seq).
    rewrite fmap_cons. cbn [concat]. rewrite Nat.sub_0_r. f_equal. rewrite <- list_fmap_compose. f_equal.
  - rewrite Hn. cbn. done.
Qed.

(** C17, world level: for any logs, the iterator yields exactly the concatenation (the union over
    archetypes, each event once, in archetype order), and size_hint is exact at every position. *)
Theorem world_events_exact logs :
  let total := length (concat logs) in
  world_events_obs logs =
    N.of_nat total :: concat (o_handle <$> concat logs)
      ++ concat ((fun k => [N.of_nat (total - k); N.of_nat (S (total - k))]) <$> seq 0 (S total)).
Proof.
  intros total. unfold world_events_obs. rewrite sum_lengths_concat.
  assert (Hg : ev_good (EV 0 logs)).
  { split; cbn; [constructor|]. destruct logs; [by right|left; cbn; lia]. }
  rewrite (ev_drain_spec (S (length (concat logs))) (EV 0 logs) Hg) by (cbn; lia). done.
Qed.
