(** C17 for whole histories: with the events feature, between two points of a history with no
    clear_events in between, the created log grows by exactly the handles created in between, the
    destroyed log by exactly the handles removed in between (by any path), each once, and the live
    handles now are the live handles then plus the former minus the latter. *)
From Coq Require Import NArith Lia Bool.
From stdpp Require Import base list numbers option sets.
From Gecs Require Import Prim ExtrBits ExtrVersion ExtrStorage ExtrQuery Storage Query World Borrow Run
                         BitsFacts VersionFacts StorageInv StorageResolve StorageHist StorageOps RunFacts WorldInv LoopFacts HistRun.
Local Open Scope nat_scope.
Set Default Proof Using "Type".

(** What happened between [s0] and [s]: [C] created, [D] removed. *)
Record since (s0 s : storage) (iss0 : list handle) (C D : list handle) : Prop := {
  sn_created : created s = created s0 ++ C;
  sn_destroyed : destroyed s = destroyed s0 ++ D;
  sn_nodup_c : NoDup C;
  sn_nodup_d : NoDup D;
  sn_fresh : forall e, e ∈ C -> e ∉ iss0;
  sn_removed : forall e, e ∈ D -> e ∈ ents s0 \/ e ∈ C;
  sn_live : forall e, e ∈ ents s <-> (e ∈ ents s0 \/ e ∈ C) /\ e ∉ D;
}.

Lemma since_refl s iss : since s s iss [] [].
Proof. constructor; rewrite ?app_nil_r; try done; try constructor; set_solver. Qed.

Lemma created_state_logs cfg s h x vs : events cfg = true ->
  created (created_state cfg s h x vs) = created s ++ [created_handle s h x] /\ destroyed (created_state cfg s h x vs) = destroyed s.
Proof. intros He. destruct (created_events cfg s h x vs) as [H1 H2]. by rewrite H1, H2, He. Qed.

(** One elementary transition that may not clear the logs. *)
Lemma estep_since wr cfg s s' iss dead : events cfg = true -> wrapping cfg = false -> Inv s -> Hist2 s iss dead -> estep false wr cfg s s' ->
  exists C D, since s s' iss C D /\ (C = [] \/ D = []).
Proof.
  intros Hev Hw HI H2 Hstep. destruct Hstep as [s vs s' h Hvs Hp|s vs s' h Hvs Hp|s k h s' row Hk Hd|s s' HI' (Ea & Ec & Ee & Es & Hlogs & _)].
  - destruct (push_spec cfg s vs HI Hvs) as [Ho _]. rewrite Hp in Ho.
    inversion Ho as [h0 x Hlt Hh Hx|n h0 x Hfull Hn Hnc Hneq Hh Hx|]; try clear Hneq; subst.
    + destruct (hist2_created cfg s iss dead vs h0 x HI H2 Hlt Hh Hx) as [_ Hfresh].
      destruct (created_state_logs cfg s h0 x vs Hev) as [L1 L2].
      exists [created_handle s h0 x], []. split; [|by right]. constructor; rewrite ?app_nil_r; try done.
      * apply NoDup_singleton.
      * constructor.
      * by intros e ->%elem_of_list_singleton.
      * set_solver.
      * intros e. unfold created_state. cbn [ents]. set_solver.
    + assert (HIg : Inv (grown s n)) by (by apply grown_inv).
      pose proof (hist2_grown s iss dead n HI H2 ltac:(lia)) as H2g.
      destruct (hist2_created cfg (grown s n) iss dead vs h0 x HIg H2g ltac:(cbn; lia) Hh Hx) as [_ Hfresh].
      destruct (created_state_logs cfg (grown s n) h0 x vs Hev) as [L1 L2].
      exists [created_handle (grown s n) h0 x], []. split; [|by right]. constructor; rewrite ?app_nil_r; try done.
      * apply NoDup_singleton.
      * constructor.
      * by intros e ->%elem_of_list_singleton.
      * set_solver.
      * intros e. unfold created_state, grown. cbn [ents]. set_solver.
  - pose proof (push_within_spec cfg s vs HI Hvs) as Hs. case_decide as Hlt; [|by rewrite Hp in Hs].
    destruct Hs as (h0 & x & Hpw & HI' & _ & Hh & Hx). rewrite Hp in Hpw. injection Hpw as -> ->.
    destruct (hist2_created cfg s iss dead vs h0 x HI H2 Hlt Hh Hx) as [_ Hfresh].
    destruct (created_state_logs cfg s h0 x vs Hev) as [L1 L2].
    exists [created_handle s h0 x], []. split; [|by right]. constructor; rewrite ?app_nil_r; try done.
    + apply NoDup_singleton.
    + constructor.
    + by intros e ->%elem_of_list_singleton.
    + set_solver.
    + intros e. unfold created_state. cbn [ents]. set_solver.
  - pose proof (destroy_cases cfg k s h HI Hk) as Hc. rewrite Hd in Hc.
    inversion Hc as [| |d e va vs' He Hkind Hva Hvs HI']; subst.
    rewrite Hw in Hva, Hvs. rewrite arch_next_eq in Hva.
    destruct (fwd' s d e HI He) as (Hsl & _).
    assert (Hve : in_ver (snd e)) by (exact (proj2 (i_ver s HI) _ _ Hsl)).
    destruct (slot_next_checked _ _ Hvs) as [-> _].
    destruct (hist_destroyed cfg s iss (eslot e) d e va (snd e + 1)%N HI (h2_hist _ _ _ H2) He eq_refl ltac:(lia)
                (slot_next_in false _ _ (proj1 (i_ver s HI)) Hva) (slot_next_in false _ _ Hve Hvs)) as [_ Hgone].
    pose proof (destroyed_state_ents cfg s d e va (snd e + 1)%N HI He HI' Hgone) as Hents.
    destruct (destroyed_events cfg s (eslot e) d e (last_ent s e) va (snd e + 1)%N) as [L1 L2]. rewrite Hev in L1.
    exists [], [e]. split; [|by left]. constructor.
    + by rewrite app_nil_r.
    + done.
    + constructor.
    + apply NoDup_singleton.
    + set_solver.
    + intros z ->%elem_of_list_singleton. left. by eapply elem_of_list_lookup_2.
    + intros z. rewrite Hents. set_solver.
  - destruct Hlogs as [[L1 L2]|[? _]]; [|done].
    exists [], []. split; [|by left]. constructor; rewrite ?app_nil_r, ?Ee; try done; try constructor; set_solver.
Qed.

Lemma since_trans s0 s1 s2 iss0 iss1 dead1 C1 D1 C2 D2 :
  Hist2 s1 iss1 dead1 -> sub iss0 iss1 -> (forall e, e ∈ ents s0 -> e ∈ iss0) ->
  (forall e, e ∈ C1 -> e ∈ iss1) -> (forall e, e ∈ D1 -> e ∈ dead1) ->
  since s0 s1 iss0 C1 D1 -> since s1 s2 iss1 C2 D2 -> since s0 s2 iss0 (C1 ++ C2) (D1 ++ D2).
Proof.
  intros H1 Hsub Hst0 HC1 HD1 [A1 A2 A3 A4 A5 A6 A7] [B1 B2 B3 B4 B5 B6 B7].
  assert (HD1gone : forall e, e ∈ D1 -> e ∉ ents s1) by (intros e He; apply (h2_dead_gone _ _ _ H1), HD1, He).
  assert (HD1iss : forall e, e ∈ D1 -> e ∈ iss1) by (intros e He; apply (h2_dead_sub _ _ _ H1), HD1, He).
  constructor.
  - by rewrite B1, A1, app_assoc.
  - by rewrite B2, A2, app_assoc.
  - apply NoDup_app. split_and!; [done| |done]. intros e He1 He2. apply (B5 e He2). by apply HC1.
  - apply NoDup_app. split_and!; [done| |done]. intros e He1 He2.
    destruct (B6 e He2) as [Hin|Hin]; [by apply (HD1gone e He1)|]. apply (B5 e Hin). by apply HD1iss.
  - intros e He. apply elem_of_app in He as [He|He]; [by apply A5|]. intros Hi. apply (B5 e He). by apply Hsub.
  - intros e He. apply elem_of_app in He as [He|He].
    + destruct (A6 e He); [by left|right; apply elem_of_app; by left].
    + destruct (B6 e He) as [Hin|Hin]; [|right; apply elem_of_app; by right].
      apply A7 in Hin as [[?|?] _]; [by left|right; apply elem_of_app; by left].
  - intros e. rewrite B7, A7, !elem_of_app. split.
    + intros [[[[?|?] Hn1]|Hc2] Hn2].
      * split; [by left|]. intros [?|?]; done.
      * split; [right; by left|]. intros [?|?]; done.
      * split; [right; by right|]. intros [Hd1|?]; [|done]. apply (B5 e Hc2). by apply HD1iss.
    + intros [[?|[?|Hc2]] Hn]; (split; [|intros ?; apply Hn; by right]).
      * left. split; [by left|]. intros ?. apply Hn. by left.
      * left. split; [by right|]. intros ?. apply Hn. by left.
      * by right.
Qed.

Lemma estep_since2 wr cfg s s' iss dead : events cfg = true -> wrapping cfg = false -> Inv s -> Hist2 s iss dead -> estep false wr cfg s s' ->
  Inv s' /\ exists iss' dead' C D, Hist2 s' iss' dead' /\ sub iss iss' /\ sub dead dead' /\ since s s' iss C D /\
                                  (forall e, e ∈ C -> e ∈ iss') /\ (forall e, e ∈ D -> e ∈ dead').
Proof.
  intros Hev Hw HI H2 H1.
  destruct (estep_since wr cfg s s' iss dead Hev Hw HI H2 H1) as (C & D & S1 & Hcd).
  destruct (estep_hist2 false wr cfg s s' iss dead Hw HI H2 H1) as (HI' & iss' & dead' & H2' & Sub1 & Sub2).
  split; [done|]. exists iss', dead', C, D. split_and!; try done.
  - intros e He. assert (Hnd : e ∉ D) by (destruct Hcd as [->| ->]; set_solver).
    assert (Hin : e ∈ ents s') by (apply (sn_live _ _ _ _ _ S1); split; [by right|done]).
    apply elem_of_list_lookup in Hin as (i & Hi). exact (h_stored s' iss' (h2_hist _ _ _ H2') i e Hi).
  - intros e He. assert (Hin : e ∈ ents s).
    { destruct (sn_removed _ _ _ _ _ S1 e He) as [?|Hc]; [done|]. destruct Hcd as [->| ->]; set_solver. }
    assert (Hiss : e ∈ iss'). { apply Sub1. apply elem_of_list_lookup in Hin as (i & Hi). exact (h_stored s iss (h2_hist _ _ _ H2) i e Hi). }
    destruct (h2_alive _ _ _ H2' e Hiss) as [?|Hst]; [done|]. exfalso.
    apply (sn_live _ _ _ _ _ S1) in Hst as [_ Hn]. done.
Qed.

(** Any number of transitions without a clear. *)
Theorem esteps_since wr cfg s0 s iss dead : events cfg = true -> wrapping cfg = false -> Inv s0 -> Hist2 s0 iss dead ->
  esteps false wr cfg s0 s ->
  exists iss' dead' C D, Hist2 s iss' dead' /\ sub iss iss' /\ sub dead dead' /\ since s0 s iss C D /\
                         (forall e, e ∈ C -> e ∈ iss') /\ (forall e, e ∈ D -> e ∈ dead').
Proof.
  intros Hev Hw HI H2 Hs. revert iss dead HI H2. induction Hs as [s|s s' s'' H1 Hs IH]; intros iss dead HI H2.
  - exists iss, dead, [], []. split_and!; try done; [apply since_refl|set_solver|set_solver].
  - destruct (estep_since2 wr cfg s s' iss dead Hev Hw HI H2 H1) as (HI' & iss1 & dead1 & C1 & D1 & H21 & Sub1 & Sub1' & S1 & HC1 & HD1).
    destruct (IH iss1 dead1 HI' H21) as (iss2 & dead2 & C2 & D2 & H22 & Sub2 & Sub2' & S2 & HC2 & HD2).
    exists iss2, dead2, (C1 ++ C2), (D1 ++ D2). split_and!; try done.
    + intros e He. auto.
    + intros e He. auto.
    + eapply (since_trans s s' s'' iss iss1 dead1); try done.
      intros e He. apply elem_of_list_lookup in He as (i & Hi). exact (h_stored s iss (h2_hist _ _ _ H2) i e Hi).
    + intros e [He|He]%elem_of_app; auto.
    + intros e [He|He]%elem_of_app; auto.
Qed.

Definition not_clear (o : op) : bool := match o with OClearEv _ => false | _ => true end.

(** C17 for whole histories of the run language: between two points with no clear_events in between,
    in every archetype of every persisting world. *)
Theorem run_events_since cfg d qs ops1 ops2 st1 st2 i a w1 w2 s1 s2 :
  events cfg = true -> hist_case cfg d qs (ops1 ++ ops2) = true -> forallb not_clear ops2 = true ->
  run_to cfg d qs rs0 ops1 = Some st1 -> run_to cfg d qs st1 ops2 = Some st2 ->
  worlds st1 !! i = Some (Some w1) -> worlds st2 !! i = Some (Some w2) -> w1 !! a = Some s1 -> w2 !! a = Some s2 ->
  exists C D, created s2 = created s1 ++ C /\ destroyed s2 = destroyed s1 ++ D /\ NoDup C /\ NoDup D /\
    (forall e, e ∈ C -> e ∉ ents s1) /\ (forall e, e ∈ D -> e ∈ ents s1 \/ e ∈ C) /\
    (forall e, e ∈ ents s2 <-> (e ∈ ents s1 \/ e ∈ C) /\ e ∉ D).
Proof.
  unfold hist_case. intros Hev Hc Hnc R1 R2 W1 W2 S1 S2.
  apply andb_true_iff in Hc as [Hc Hok]. apply andb_true_iff in Hc as [Hw Hd]. apply negb_true_iff in Hw. apply wf_declb_true in Hd.
  destruct (ok_run_split cfg d qs ops1 ops2 rs0 st1 Hok R1) as [Hok1 Hok2].
  destruct (run_to_rhist cfg d qs ops1 Hd rs0 st1 (rs0_rhist cfg d) Hok1 R1) as [HH1 _].
  assert (Hcl : Forall (flags_ok false true) ops2).
  { rewrite forallb_forall in Hnc. apply Forall_forall. intros o Ho. specialize (Hnc o ltac:(by apply elem_of_list_In)). destruct o; cbn; auto; done. }
  destruct (run_to_rhist_gen false true cfg d qs ops2 Hd Hcl st1 st2 HH1 Hok2 R2) as [HH2 P12].
  assert (Hr1 : sreach true true cfg s1). { destruct HH1 as [_ HS]. eapply Forall_lookup_1; [exact (HS i w1 W1)|exact S1]. }
  destruct (sreach_hist2 true true cfg s1 Hw Hr1) as (HI1 & iss1 & dead1 & H1).
  assert (Hs : esteps false true cfg s1 s2) by (eapply (Forall2_lookup_lr _ _ _ _ _ _ (P12 i w1 w2 W1 W2)); done).
  destruct (esteps_since true cfg s1 s2 iss1 dead1 Hev Hw HI1 H1 Hs) as (iss2 & dead2 & C & D & _ & _ & _ & [A1 A2 A3 A4 A5 A6 A7] & _).
  exists C, D. split_and!; try done.
  intros e He Hin. apply (A5 e He). apply elem_of_list_lookup in Hin as (j & Hj). exact (h_stored s1 iss1 (h2_hist _ _ _ H1) j e Hj).
Qed.
