(** Concrete, non-trivial states meeting the hypotheses of the property theorems (non-vacuity). *)
From Coq Require Import NArith Lia Bool.
From stdpp Require Import base list numbers option sets.
From Gecs Require Import Prim ExtrBits ExtrVersion ExtrStorage Storage BitsFacts VersionFacts StorageInv StorageResolve StorageHist StorageOps.
Local Open Scope nat_scope.

Definition ex_cfg : config := Config false true true.

Definition ok_state {A} (r : res storage A) (dflt : storage) : storage :=
  match r with Ok s _ => s | Panic _ s => s | UB => dflt end.

Definition ex0 : storage := ok_state (with_capacity 3%N 2 1) (St 0 0 0 0 FreeEnd 0 0 0 [] [] [] [] []).
Definition ex1 : storage := ok_state (push ex_cfg ex0 [10; 11]%N) ex0.
Definition ex2 : storage := ok_state (push ex_cfg ex1 [20; 21]%N) ex1.   (* grows from capacity 1 to 4 *)
Definition ex3 : storage := ok_state (push ex_cfg ex2 [30; 31]%N) ex2.
Definition ex4 : storage := ok_state (destroy ex_cfg KEnt ex3 (3%N, 1%N)) ex3.   (* removes the first entity: swap with the last *)

Lemma ex0_inv : Inv ex0.
Proof. apply (with_capacity_inv 3%N 2 1); [reflexivity|reflexivity]. Qed.

Lemma push_keeps_inv cfg s vs : Inv s -> length vs = length (cols s) -> Inv (ok_state (push cfg s vs) s).
Proof.
  intros HI Hvs. destruct (push_spec cfg s vs HI Hvs) as [_ H]. destruct (push cfg s vs); cbn; [done|by subst|done].
Qed.

Lemma ex1_inv : Inv ex1. Proof. apply push_keeps_inv; [apply ex0_inv|reflexivity]. Qed.
Lemma ex2_inv : Inv ex2. Proof. apply push_keeps_inv; [apply ex1_inv|reflexivity]. Qed.
Lemma ex3_inv : Inv ex3. Proof. apply push_keeps_inv; [apply ex2_inv|reflexivity]. Qed.

Example ex3_shape : len ex3 = 3 /\ cap ex3 = 4 /\ ents ex3 = [(3, 1); (259, 1); (515, 1)]%N /\
                    cols ex3 = [[10; 20; 30]; [11; 21; 31]]%N /\ version ex3 = 1%N.
Proof. vm_compute. repeat split. Qed.

Example ex4_shape : len ex4 = 2 /\ ents ex4 = [(515, 1); (259, 1)]%N /\ cols ex4 = [[30; 20]; [31; 21]]%N /\
                    version ex4 = 2%N /\ head ex4 = Free 0 /\ destroyed ex4 = [(3, 1)]%N.
Proof. vm_compute. repeat split. Qed.

Lemma ex4_inv : Inv ex4.
Proof.
  pose proof (destroy_cases ex_cfg KEnt ex3 (3%N, 1%N) ex3_inv ltac:(unfold key32; cbn; lia)) as H.
  unfold ex4. destruct H; cbn; try apply ex3_inv. done.
Qed.

(** A history with three issued handles, one of them stale. *)
Definition ex_issued : list (N * N) := [(3, 1); (259, 1); (515, 1)]%N.

Example ex_key32 : Forall key32 ex_issued.
Proof. repeat constructor; unfold key32; cbn; lia. Qed.
