(** C11: the guard-list rule of the borrow model is exactly RefCell's counter rule, acquisitions on
    other cells never interfere, shared never conflicts with shared, and releasing restores the cell. *)
From Coq Require Import NArith Lia Bool.
From stdpp Require Import base list numbers option.
From Gecs Require Import Prim ExtrBits Storage Query World Borrow.
Local Open Scope nat_scope.
Set Default Proof Using "Type".

(** std::cell::RefCell's borrow flag. *)
Inductive cell := CIdle | CShared (n : nat) | CMut.

Definition cell_acquire (m : bool) (c : cell) : option cell :=
  match m, c with
  | false, CIdle => Some (CShared 1)
  | false, CShared n => Some (CShared (S n))
  | true, CIdle => Some CMut
  | _, _ => None          (* BorrowError / BorrowMutError: panic *)
  end.

Definition cell_release (m : bool) (c : cell) : cell :=
  match m, c with
  | false, CShared 1 => CIdle
  | false, CShared (S n) => CShared n
  | true, CMut => CIdle
  | _, c => c
  end.

Definition on_cell (a col : nat) (g : bguard) : bool := let '(a', c', _) := g in Nat.eqb a a' && Nat.eqb col c'.
Definition is_mut (g : bguard) : bool := let '(_, _, m) := g in m.

Definition guards_on (held : list bguard) (a col : nat) : list bguard := filter (fun g => on_cell a col g = true) held.

(** The flag a cell has when [held] are the live guards. *)
Definition cell_of (held : list bguard) (a col : nat) : cell :=
  let gs := guards_on held a col in
  if existsb is_mut gs then CMut else match length gs with 0 => CIdle | n => CShared n end.

(** Guard lists that RefCell can actually be in: a mutable guard is alone on its cell. *)
Definition wf (held : list bguard) : Prop :=
  forall a col, existsb is_mut (guards_on held a col) = true -> length (guards_on held a col) = 1.

(** A mutable request is refused iff anybody holds the cell; a shared one iff a writer does. *)
Theorem conflict_rule held a col m :
  conflicts held a col m = existsb (fun g => on_cell a col g && (m || is_mut g)) held.
Proof.
  unfold conflicts. induction held as [|[[a' c'] m'] r IH]; [done|]. simpl. by rewrite IH.
Qed.

Lemma existsb_filter {A} (P f : A -> bool) l :
  existsb f (filter (fun x => P x = true) l) = existsb (fun x => P x && f x) l.
Proof.
  induction l as [|x r IH]; [done|]. rewrite filter_cons. cbn [existsb]. destruct (P x) eqn:E.
  - rewrite decide_True by done. cbn [existsb andb]. by rewrite IH.
  - rewrite decide_False by done. cbn [andb orb]. by rewrite IH.
Qed.

Lemma conflicts_spec held a col m :
  conflicts held a col m = existsb (fun g => m || is_mut g) (guards_on held a col).
Proof. rewrite conflict_rule. unfold guards_on. by rewrite existsb_filter. Qed.

Lemma conflicts_shared held a col : conflicts held a col false = existsb is_mut (guards_on held a col).
Proof. rewrite conflicts_spec. reflexivity. Qed.

Lemma conflicts_mut held a col : conflicts held a col true = match guards_on held a col with [] => false | _ => true end.
Proof. rewrite conflicts_spec. by destruct (guards_on held a col). Qed.

(** The model's conflict rule is RefCell's: an acquisition panics iff the flag refuses it. *)
Theorem conflicts_iff_refcell held a col m : wf held ->
  conflicts held a col m = true <-> cell_acquire m (cell_of held a col) = None.
Proof.
  intros Hwf. unfold cell_of. specialize (Hwf a col). destruct m.
  - rewrite conflicts_mut. destruct (existsb is_mut (guards_on held a col)) eqn:Hm.
    + specialize (Hwf eq_refl). destruct (guards_on held a col); [done|]. cbn. split; done.
    + destruct (guards_on held a col) as [|g r]; cbn; split; done.
  - rewrite conflicts_shared. destruct (existsb is_mut (guards_on held a col)) eqn:Hm.
    + cbn. split; done.
    + destruct (length (guards_on held a col)); cbn; split; done.
Qed.

(** A granted acquisition keeps the list well formed and moves the flag as RefCell does. *)
Lemma guards_on_app held g a col :
  guards_on (held ++ [g]) a col = if on_cell a col g then guards_on held a col ++ [g] else guards_on held a col.
Proof.
  unfold guards_on. rewrite list.filter_app, list.filter_cons, list.filter_nil.
  destruct (on_cell a col g); [by rewrite decide_True|by rewrite decide_False, app_nil_r].
Qed.

Theorem acquire_wf held a col m : wf held -> conflicts held a col m = false -> wf (held ++ [(a, col, m)]).
Proof.
  intros Hwf Hc a' c'. rewrite guards_on_app. cbn [on_cell].
  destruct (Nat.eqb a' a && Nat.eqb c' col) eqn:E; [|apply Hwf].
  apply andb_true_iff in E as [Ea Ec]. apply Nat.eqb_eq in Ea, Ec. subst a' c'.
  rewrite existsb_app, app_length. cbn [existsb is_mut length]. destruct m.
  - rewrite conflicts_mut in Hc. destruct (guards_on held a col) as [|g r]; done.
  - rewrite conflicts_shared in Hc. rewrite Hc. cbn. done.
Qed.

Theorem acquire_flag held a col m : wf held -> conflicts held a col m = false ->
  cell_acquire m (cell_of held a col) = Some (cell_of (held ++ [(a, col, m)]) a col).
Proof.
  intros Hwf Hc. unfold cell_of. rewrite guards_on_app. cbn [on_cell]. rewrite !Nat.eqb_refl. cbn [andb].
  rewrite existsb_app, app_length. cbn [existsb is_mut length]. destruct m.
  - rewrite conflicts_mut in Hc. destruct (guards_on held a col) as [|g r]; done.
  - rewrite conflicts_shared in Hc. rewrite Hc. cbn [orb]. rewrite Nat.add_1_r. by destruct (length (guards_on held a col)).
Qed.

(** Releasing the guard that was acquired last restores the flag exactly (no spurious refusal later). *)
Theorem release_restores held a col m : wf held -> conflicts held a col m = false ->
  cell_release m (cell_of (held ++ [(a, col, m)]) a col) = cell_of held a col /\
  removelast (held ++ [(a, col, m)]) = held.
Proof.
  intros Hwf Hc. split; [|by rewrite removelast_last].
  unfold cell_of. rewrite guards_on_app. cbn [on_cell]. rewrite !Nat.eqb_refl. cbn [andb].
  rewrite existsb_app, app_length. cbn [existsb is_mut length]. destruct m.
  - rewrite conflicts_mut in Hc. destruct (guards_on held a col) as [|g r]; done.
  - rewrite conflicts_shared in Hc. rewrite Hc. cbn [orb]. rewrite Nat.add_1_r.
    destruct (length (guards_on held a col)) as [|[|k]]; done.
Qed.

(** Accesses to another column or another archetype never interfere. *)
Theorem other_cell_independent held a col m a' c' m' : (a', c') <> (a, col) ->
  conflicts (held ++ [(a', c', m')]) a col m = conflicts held a col m.
Proof.
  intros Hne. rewrite !conflicts_spec, guards_on_app. cbn [on_cell].
  destruct (Nat.eqb a a' && Nat.eqb col c') eqn:E; [|done].
  apply andb_true_iff in E as [Ea Ec]. apply Nat.eqb_eq in Ea, Ec. congruence.
Qed.

(** Shared never conflicts with shared. *)
Theorem shared_shared_ok held a col : forallb (fun g => negb (on_cell a col g && is_mut g)) held = true ->
  conflicts held a col false = false.
Proof.
  intros H. rewrite conflict_rule. cbn [orb].
  induction held as [|g r IH]; [done|]. cbn [forallb] in H. apply andb_true_iff in H as [Hg Hr].
  cbn [existsb]. rewrite (IH Hr), orb_false_r. by destruct (on_cell a col g && is_mut g).
Qed.

(** clone panics exactly while some column of some archetype is mutably borrowed. *)
Theorem clone_rule held : clone_conflicts held = existsb is_mut held.
Proof. unfold clone_conflicts. induction held as [|[[a c] m] r IH]; [done|]. cbn [existsb is_mut]. by rewrite IH. Qed.

(** A closure's guards last exactly as long as the call: the commands after a find/iter/clone run with
    the very guard lists the command started with (also when the body panicked), so a later access is
    never refused because of an access that has ended. *)
Theorem closure_guards_end_with_the_call fuel d qs w issued outer frame cmd rest :
  match cmd with BFb _ _ _ | BIb _ _ | BCl => True | _ => False end ->
  exists recs, bexec (S fuel) d qs w issued outer frame (cmd :: rest) =
               (recs ++ fst (bexec fuel d qs w issued outer frame rest), snd (bexec fuel d qs w issued outer frame rest)).
Proof.
  intros Hc. destruct cmd; try done; cbn [bexec];
    destruct (bexec fuel d qs w issued outer frame rest) as [rs p]; eexists; reflexivity.
Qed.
