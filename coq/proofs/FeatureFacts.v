(** C19, the events feature: every storage operation gives, with the feature on and off, the same
    outcome (success, refusal, panic kind), the same returned handle / components, and the same
    resulting storage up to the event logs; and no operation reads the logs. *)
From Coq Require Import NArith Lia Bool.
From stdpp Require Import base list numbers option sets.
From Gecs Require Import Prim ExtrBits ExtrVersion ExtrStorage ExtrQuery Storage Query World Run
                         BitsFacts VersionFacts StorageInv StorageResolve StorageHist StorageOps RunFacts.
Local Open Scope nat_scope.
Set Default Proof Using "Type".

(** The outcome of an operation with the event logs erased from the resulting storage. *)
Definition ores {A} (r : res storage A) : res storage A :=
  match r with Ok s a => Ok (clear_events s) a | Panic p s => Panic p (clear_events s) | UB => UB end.

(** Two configurations that differ at most in the events feature. *)
Definition same_but_events (c1 c2 : config) : Prop := wrapping c1 = wrapping c2 /\ debug c1 = debug c2.

Lemma created_state_ce c1 c2 s h x vs : clear_events (created_state c1 s h x vs) = clear_events (created_state c2 s h x vs).
Proof. done. Qed.

Lemma destroyed_state_ce c1 c2 s si d e le va vs' :
  clear_events (destroyed_state c1 s si d e le va vs') = clear_events (destroyed_state c2 s si d e le va vs').
Proof. done. Qed.

Theorem push_events_conservative c1 c2 s vs : Inv s -> length vs = length (cols s) ->
  ores (push c1 s vs) = ores (push c2 s vs).
Proof.
  intros HI Hvs. destruct (push_spec c1 s vs HI Hvs) as [H1 _]. destruct (push_spec c2 s vs HI Hvs) as [H2 _].
  inversion H1 as [h1 x1 L1 Hh1 Hx1 E1|n1 h1 x1 F1 N1 C1 Q1 Hh1 Hx1 E1|F1 C1 E1];
  inversion H2 as [h2 x2 L2 Hh2 Hx2 E2|n2 h2 x2 F2 N2 C2 Q2 Hh2 Hx2 E2|F2 C2 E2]; try lia.
  - rewrite Hh1 in Hh2. injection Hh2 as <-. rewrite Hx1 in Hx2. injection Hx2 as <-. done.
  - subst n1 n2. rewrite Hh1 in Hh2. injection Hh2 as <-. rewrite Hx1 in Hx2. injection Hx2 as <-. done.
  - done.
Qed.

Theorem push_within_events_conservative c1 c2 s vs : Inv s -> length vs = length (cols s) ->
  ores (push_within c1 s vs) = ores (push_within c2 s vs).
Proof.
  intros HI Hvs. pose proof (push_within_spec c1 s vs HI Hvs) as H1. pose proof (push_within_spec c2 s vs HI Hvs) as H2.
  case_decide.
  - destruct H1 as (h1 & x1 & -> & _ & _ & Hh1 & Hx1). destruct H2 as (h2 & x2 & -> & _ & _ & Hh2 & Hx2).
    rewrite Hh1 in Hh2. injection Hh2 as <-. rewrite Hx1 in Hx2. injection Hx2 as <-. done.
  - by rewrite H1, H2.
Qed.

Lemma resolve_key_events c1 c2 k s h : same_but_events c1 c2 -> resolve_key c1 k s h = resolve_key c2 k s h.
Proof. destruct c1, c2. intros [Hw Hd]. cbn in *. subst. done. Qed.

Theorem destroy_events_conservative c1 c2 k s h : same_but_events c1 c2 -> Inv s -> key32 h ->
  ores (destroy c1 k s h) = ores (destroy c2 k s h).
Proof.
  intros Hc HI Hk. unfold destroy. rewrite (resolve_key_events c1 c2 k s h Hc).
  pose proof (resolve_key_cases c2 k s h HI Hk) as Hr.
  destruct (resolve_key c2 k s h) as [[[si d]|]|p|]; [|done|done|done].
  destruct Hr as (e & He & Hes & _).
  rewrite (force_destroy_spec c1 s si d e HI He Hes), (force_destroy_spec c2 s si d e HI He Hes).
  destruct Hc as [-> _].
  destruct (arch_next (wrapping c2) (version s)); [|done]. destruct (slot_next (wrapping c2) (snd e)); done.
Qed.

(** Lookups do not depend on the feature at all. *)
Theorem lookups_events_conservative c1 c2 k s h : same_but_events c1 c2 ->
  resolve_for c1 k s h = resolve_for c2 k s h /\ to_direct c1 k s h = to_direct c2 k s h.
Proof.
  intros Hc. pose proof (resolve_key_events c1 c2 k s h Hc) as Hr. destruct Hc as [_ Hd].
  split.
  - unfold resolve_for. rewrite Hr, Hd. done.
  - unfold to_direct. destruct k; cbn [resolve_key] in Hr; [by rewrite Hr|].
    destruct to_direct_of_direct_validates; [by rewrite Hr|done].
Qed.

(** No operation reads the logs: erasing them first changes nothing but the logs afterwards. *)
Theorem push_ignores_logs c s vs : Inv s -> length vs = length (cols s) ->
  ores (push c (clear_events s) vs) = ores (push c s vs).
Proof.
  intros HI Hvs. pose proof (clear_events_inv s HI) as HI'.
  destruct (push_spec c s vs HI Hvs) as [H1 _]. destruct (push_spec c (clear_events s) vs HI' Hvs) as [H2 _].
  inversion H1 as [h1 x1 L1 Hh1 Hx1 E1|n1 h1 x1 F1 N1 C1 Q1 Hh1 Hx1 E1|F1 C1 E1];
  inversion H2 as [h2 x2 L2 Hh2 Hx2 E2|n2 h2 x2 F2 N2 C2 Q2 Hh2 Hx2 E2|F2 C2 E2]; cbn [len cap clear_events head slots] in *; try lia.
  - rewrite Hh1 in Hh2. injection Hh2 as <-. rewrite Hx1 in Hx2. injection Hx2 as <-. done.
  - subst n1 n2. unfold grown in *. cbn [len cap clear_events head slots] in *. rewrite Hh1 in Hh2. injection Hh2 as <-. rewrite Hx1 in Hx2. injection Hx2 as <-. done.
  - done.
Qed.

Theorem destroy_ignores_logs c k s h : Inv s -> key32 h ->
  ores (destroy c k (clear_events s) h) = ores (destroy c k s h).
Proof.
  intros HI Hk. pose proof (clear_events_inv s HI) as HI'. unfold destroy.
  assert (Hr : resolve_key c k (clear_events s) h = resolve_key c k s h) by (by destruct k).
  rewrite Hr. pose proof (resolve_key_cases c k s h HI Hk) as Hc.
  destruct (resolve_key c k s h) as [[[si d]|]|p|]; [|done|done|done].
  destruct Hc as (e & He & Hes & _).
  rewrite (force_destroy_spec c (clear_events s) si d e HI' He Hes), (force_destroy_spec c s si d e HI He Hes).
  cbn [version clear_events].
  destruct (arch_next (wrapping c) (version s)); [|done]. destruct (slot_next (wrapping c) (snd e)); done.
Qed.

(* ---------------------------------------------------------------- wrapping_version *)

Definition same_but_wrapping (c1 c2 : config) : Prop := events c1 = events c2 /\ debug c1 = debug c2.

Lemma slot_next_wrapping_agrees v v' : in_ver v -> slot_next false v = Some v' -> slot_next true v = Some v'.
Proof.
  intros Hv H. destruct (slot_next_checked _ _ H) as [-> Hlt].
  destruct (next_wrapping_conservative v Hv Hlt) as [E _]. by rewrite E.
Qed.

(** create and create_within_capacity never look at the feature; destroy differs only where the checked
    counters overflow: every other outcome is literally the same. *)
Theorem wrapping_only_replaces_the_overflow_panic c1 c2 k s h : wrapping c1 = false -> same_but_wrapping c1 c2 -> Inv s -> key32 h ->
  match destroy c1 k s h with
  | Panic PArchOverflow _ | Panic PSlotOverflow _ => True
  | r => destroy c2 k s h = r
  end.
Proof.
  intros Hw1 [He Hd] HI Hk. unfold destroy.
  assert (Hr : resolve_key c2 k s h = resolve_key c1 k s h).
  { destruct c1, c2. cbn in *. subst. done. }
  rewrite Hr. pose proof (resolve_key_cases c1 k s h HI Hk) as Hc.
  destruct (resolve_key c1 k s h) as [[[si d]|]|p|]; [|done|by destruct Hc as (-> & _)|done].
  destruct Hc as (e & Hent & Hes & _).
  rewrite (force_destroy_spec c1 s si d e HI Hent Hes), (force_destroy_spec c2 s si d e HI Hent Hes). rewrite Hw1.
  destruct (fwd' s d e HI Hent) as (Hsl & _).
  assert (Hve : in_ver (snd e)) by (exact (proj2 (i_ver s HI) _ _ Hsl)).
  destruct (arch_next false (version s)) as [va|] eqn:Ha; [|done].
  destruct (slot_next false (snd e)) as [vs'|] eqn:Hs; [|done]. cbn [rbind].
  rewrite arch_next_eq in Ha.
  assert (Ha2 : arch_next (wrapping c2) (version s) = Some va).
  { rewrite arch_next_eq. destruct (wrapping c2); [|done]. by apply slot_next_wrapping_agrees; [apply (i_ver s HI)|]. }
  assert (Hs2 : slot_next (wrapping c2) (snd e) = Some vs') by (destruct (wrapping c2); [by apply slot_next_wrapping_agrees|done]).
  rewrite Ha2, Hs2. cbn [rbind]. unfold destroyed_state. by rewrite He.
Qed.

Theorem push_ignores_wrapping c1 c2 s vs : same_but_wrapping c1 c2 -> Inv s -> length vs = length (cols s) ->
  push c1 s vs = push c2 s vs /\ push_within c1 s vs = push_within c2 s vs.
Proof.
  intros [He _] HI Hvs. split.
  - destruct (push_spec c1 s vs HI Hvs) as [H1 _]. destruct (push_spec c2 s vs HI Hvs) as [H2 _].
    inversion H1 as [h1 x1 L1 Hh1 Hx1 E1|n1 h1 x1 F1 N1 C1 Q1 Hh1 Hx1 E1|F1 C1 E1];
    inversion H2 as [h2 x2 L2 Hh2 Hx2 E2|n2 h2 x2 F2 N2 C2 Q2 Hh2 Hx2 E2|F2 C2 E2]; try lia.
    + rewrite Hh1 in Hh2. injection Hh2 as <-. rewrite Hx1 in Hx2. injection Hx2 as <-. unfold created_state. by rewrite He.
    + subst n1 n2. rewrite Hh1 in Hh2. injection Hh2 as <-. rewrite Hx1 in Hx2. injection Hx2 as <-. unfold created_state. by rewrite He.
    + done.
  - pose proof (push_within_spec c1 s vs HI Hvs) as H1. pose proof (push_within_spec c2 s vs HI Hvs) as H2. case_decide.
    + destruct H1 as (h1 & x1 & -> & _ & _ & Hh1 & Hx1). destruct H2 as (h2 & x2 & -> & _ & _ & Hh2 & Hx2).
      rewrite Hh1 in Hh2. injection Hh2 as <-. rewrite Hx1 in Hx2. injection Hx2 as <-. unfold created_state. by rewrite He.
    + by rewrite H1, H2.
Qed.

(* ---------------------------------------------------------------- debug assertions *)

Definition same_but_debug (c1 c2 : config) : Prop := wrapping c1 = wrapping c2 /\ events c1 = events c2.

(** With debug assertions on, a lookup either panics on one of the documented assertions or answers
    exactly as without them. *)
Theorem debug_only_adds_assertions_direct c1 c2 s h : debug c1 = true -> debug c2 = false -> Inv s -> key32 h ->
  match resolve_direct c1 s h with RPanic _ => True | r => resolve_direct c2 s h = r end.
Proof.
  intros Hd1 Hd2 HI Hk. unfold resolve_direct. rewrite Hd1, Hd2. cbn [andb].
  assert ((len s <=? cap s) = true) as -> by (apply Nat.leb_le, (i_le s HI)). cbn [negb].
  destruct (rd_guard_empty (N.of_nat (len s))); [done|]. destruct (rd_guard_version (snd h) (version s)); [done|].
  destruct (negb (trimmed_ok_u32 (hdense h))); [done|]. destruct (rd_guard_oob (hdense h) (N.of_nat (len s))); [done|].
  destruct (ents s !! N.to_nat (hdense h)) as [e|] eqn:He; [|done].
  destruct (fwd' s _ e HI He) as (Hsl & _ & Hc & _ & Hh).
  destruct (negb (trimmed_ok_u32 (hslot e))); [done|].
  assert ((hslot e <? N.of_nat (cap s))%N = true) as -> by (apply N.ltb_lt; lia). cbn [negb].
  replace (N.to_nat (hslot e)) with (eslot e) by (unfold eslot; done). rewrite Hsl. cbn [s_ver s_idx sidx_is_free].
  rewrite N.eqb_refl. done.
Qed.

Theorem debug_only_adds_assertions c1 c2 k s h : debug c1 = true -> debug c2 = false -> Inv s -> key32 h ->
  match resolve_key c1 k s h with RPanic _ => True | r => resolve_key c2 k s h = r end.
Proof.
  intros Hd1 Hd2 HI Hk. destruct k; cbn [resolve_key]; [|by apply debug_only_adds_assertions_direct].
  rewrite !(resolve_entity_form _ s h HI Hk). rewrite Hd1, Hd2.
  destruct (len s =? 0); [done|]. destruct (N.leb (N.of_nat (cap s)) (hslot h)); [done|].
  destruct (slots s !! N.to_nat (hslot h)) as [[[d| |] v]|]; try done. by destruct (v =? snd h)%N.
Qed.
