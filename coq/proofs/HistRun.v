(** Whole-history facts about handles.  Part A: one storage under every sequence of elementary
    transitions (create, create_within_capacity, destroy with any key of any kind, and transitions
    that leave slots and dense handles alone).  Part B: every step of the run language moves every
    storage of every persisting world by such transitions.  Together: for every history (without
    generation wraparound), a handle that has left the dense array is rejected forever, an issued
    handle is accepted iff it is stored, and no handle is issued twice. *)
From Coq Require Import NArith Lia Bool.
From stdpp Require Import base list numbers option sets.
From Gecs Require Import Prim ExtrBits ExtrVersion ExtrStorage ExtrQuery Storage Query World Borrow Run
                         BitsFacts VersionFacts StorageInv StorageResolve StorageHist StorageOps RunFacts WorldInv LoopFacts.
Local Open Scope nat_scope.
Set Default Proof Using "Type".

(* ================================================================ Part A: one storage *)

(** Ghost history: every handle issued so far, and those among them that have been removed. *)
Record Hist2 (s : storage) (iss dead : list handle) : Prop := {
  h2_hist : Hist s iss;
  h2_nodup : NoDup iss;
  h2_dead_sub : forall e, e ∈ dead -> e ∈ iss;
  h2_dead_gone : forall e, e ∈ dead -> e ∉ ents s;
  h2_alive : forall e, e ∈ iss -> e ∈ dead \/ e ∈ ents s;
}.

Section with_ac.
(** [ac]: whether a transition may clear the event logs (clear_events). Transitions with [ac = false]
    keep or extend them, which is what "since the last clear" needs (C17).
    [wr]: whether a transition may write component values. Transitions with [wr = false] leave every
    stored value alone (C02: creating, destroying, relocating, growing never changes them). *)
Context (ac wr : bool).

Definition wbook (s s' : storage) : Prop :=
  aid s' = aid s /\ cap s' = cap s /\ slots s' = slots s /\ ents s' = ents s /\
  created s' = created s /\ destroyed s' = destroyed s /\ version s' = version s.

Definition same_book (s s' : storage) : Prop := wbook s s' /\ cols s' = cols s.

(** Slots keep their index part and their generations do not decrease (the test hook that presets
    generation counters close to the overflow boundary is such a transition when it raises them). *)
Definition mono_book (s s' : storage) : Prop :=
  aid s' = aid s /\ cap s' = cap s /\ ents s' = ents s /\
  (forall k x, slots s !! k = Some x -> exists x', slots s' !! k = Some x' /\ s_idx x' = s_idx x /\ (s_ver x <= s_ver x')%N) /\
  ((created s' = created s /\ destroyed s' = destroyed s) \/ (ac = true /\ created s' = [] /\ destroyed s' = [])) /\
  (wr = true \/ cols s' = cols s) /\ (version s <= version s')%N.

Lemma same_book_mono s s' : same_book s s' -> mono_book s s'.
Proof. intros [(A & B & C & D & E & F & V) G]. split_and!; try done; [|by left|by right|lia]. intros k x Hx. exists x. rewrite C. split_and!; [done|done|lia]. Qed.

Lemma wbook_mono s s' : wr = true -> wbook s s' -> mono_book s s'.
Proof. intros Hwr (A & B & C & D & E & F & V). split_and!; try done; [|by left|by left|lia]. intros k x Hx. exists x. rewrite C. split_and!; [done|done|lia]. Qed.

Inductive estep (cfg : config) : storage -> storage -> Prop :=
  | es_push s vs s' h : length vs = length (cols s) -> push cfg s vs = Ok s' h -> estep cfg s s'
  | es_pushw s vs s' h : length vs = length (cols s) -> push_within cfg s vs = Ok s' (Some h) -> estep cfg s s'
  | es_destroy s k h s' row : key32 h -> destroy cfg k s h = Ok s' (Some row) -> estep cfg s s'
  | es_same s s' : Inv s' -> mono_book s s' -> estep cfg s s'.

Lemma head_slot_free s h x : Inv s -> head s = Free h -> slots s !! h = Some x -> sidx_is_free (s_idx x) = true.
Proof.
  intros HI Hh Hx. destruct (i_free s HI) as (fl & Hch & _). rewrite Hh in Hch.
  destruct fl as [|i fl]; [done|]. cbn in Hch. destruct Hch as ([= <-] & y & Hy & Hf & _). congruence.
Qed.

Lemma hist2_created cfg s iss dead vs h x : Inv s -> Hist2 s iss dead -> len s < cap s -> head s = Free h -> slots s !! h = Some x ->
  Hist2 (created_state cfg s h x vs) (iss ++ [created_handle s h x]) dead /\ created_handle s h x ∉ iss.
Proof.
  intros HI [HH Hnd Hds Hdg Hal] Hlt Hh Hx.
  pose proof (head_slot_free s h x HI Hh Hx) as Hxf.
  assert (Hhc : h < cap s) by (rewrite <- (i_lslots s HI); by eapply lookup_lt_Some).
  pose proof (created_fresh s iss h x HI HH Hh Hx Hxf Hhc) as Hfresh.
  split; [|done]. constructor.
  - by apply hist_created.
  - apply NoDup_app. split_and!; [done| |apply NoDup_singleton]. intros e He ->%elem_of_list_singleton. done.
  - intros e He. apply elem_of_app. left. by apply Hds.
  - intros e He. unfold created_state. cbn [ents]. rewrite elem_of_app, elem_of_list_singleton.
    intros [Hin| ->]; [by apply (Hdg e He)|]. apply Hfresh. by apply Hds.
  - intros e He. unfold created_state. cbn [ents]. apply elem_of_app in He as [He|He%elem_of_list_singleton].
    + destruct (Hal e He) as [?|?]; [by left|right; apply elem_of_app; by left].
    + subst. right. apply elem_of_app. right. by apply elem_of_list_singleton.
Qed.

Lemma hist2_grown s iss dead n : Inv s -> Hist2 s iss dead -> cap s <= n -> Hist2 (grown s n) iss dead.
Proof. intros HI [HH Hnd Hds Hdg Hal] Hn. constructor; try done. by apply hist_grown. Qed.

Lemma hist2_same s s' iss dead : Inv s -> Hist2 s iss dead -> mono_book s s' -> Hist2 s' iss dead.
Proof.
  intros HI [[H1 H2 H3] Hnd Hds Hdg Hal] (Ea & Ec & Ee & Es & _). constructor; rewrite ?Ee; try done.
  constructor; rewrite ?Ea, ?Ec, ?Ee; try done.
  intros e y He Hy. destruct (H1 e He) as (_ & Hc).
  destruct (lookup_lt_is_Some_2 (slots s) (eslot e) ltac:(rewrite (i_lslots s HI); done)) as [x Hx].
  destruct (Es _ _ Hx) as (x' & Hx' & Hi & Hv). rewrite Hy in Hx'. injection Hx' as <-.
  specialize (H2 e x He Hx). unfold slot_live in *. rewrite Hi. destruct (negb (sidx_is_free (s_idx x))); lia.
Qed.

(** The dense handles after removing position [d] are the former ones minus the removed handle. *)
Lemma destroyed_state_ents cfg s d e va vs' : Inv s -> ents s !! d = Some e ->
  Inv (destroyed_state cfg s (eslot e) d e (last_ent s e) va vs') ->
  (forall i, ents (destroyed_state cfg s (eslot e) d e (last_ent s e) va vs') !! i <> Some e) ->
  forall z, z ∈ ents (destroyed_state cfg s (eslot e) d e (last_ent s e) va vs') <-> z ∈ ents s /\ z <> e.
Proof.
  intros HI Hd HI' Hgone.
  set (s' := destroyed_state cfg s (eslot e) d e (last_ent s e) va vs') in *.
  assert (Hdl : d < len s) by (rewrite <- (i_lents s HI); by eapply lookup_lt_Some).
  (* the dense handles afterwards are the former ones minus e *)
  intros z. split.
  - intros Hz. apply elem_of_list_lookup in Hz as (i & Hi).
    assert (Hil : i < len s - 1) by (apply lookup_lt_Some in Hi; rewrite (i_lents s' HI') in Hi; unfold s' in Hi; cbn [len destroyed_state] in Hi; lia).
    split; [|intros ->; by apply (Hgone i)].
    pose proof (destroyed_abs cfg s (eslot e) d e va vs' i HI Hd Hil) as Ha. fold s' in Ha.
    destruct (abs_at_some s' i HI' ltac:(unfold s'; cbn [len destroyed_state]; lia)) as (e1 & r1 & Ha1 & He1 & _).
    rewrite Hi in He1. injection He1 as <-. rewrite Ha1 in Ha. case_decide.
    + unfold abs_at in Ha. destruct (ents s !! (len s - 1)) as [e2|] eqn:E2; [|done]. destruct (row_at _ _); [|done].
      injection Ha as -> _. by eapply elem_of_list_lookup_2.
    + unfold abs_at in Ha. destruct (ents s !! i) as [e2|] eqn:E2; [|done]. destruct (row_at _ _); [|done].
      injection Ha as -> _. by eapply elem_of_list_lookup_2.
  - intros [Hz Hne]. apply elem_of_list_lookup in Hz as (i & Hi).
    assert (Hil : i < len s) by (apply lookup_lt_Some in Hi; by rewrite (i_lents s HI) in Hi).
    assert (Hid : i <> d) by (intros ->; congruence).
    set (j := if decide (i = len s - 1) then d else i).
    assert (Hj : j < len s - 1) by (unfold j; case_decide; lia).
    pose proof (destroyed_abs cfg s (eslot e) d e va vs' j HI Hd Hj) as Ha. fold s' in Ha.
    destruct (abs_at_some s' j HI' ltac:(unfold s'; cbn [len destroyed_state]; lia)) as (e1 & r1 & Ha1 & He1 & _).
    assert (e1 = z) as ->; [|by eapply elem_of_list_lookup_2].
    rewrite Ha1 in Ha. unfold j in Ha. destruct (decide (i = len s - 1)) as [->|Hne'].
    + rewrite decide_True in Ha by done. unfold abs_at in Ha. rewrite Hi in Ha. destruct (row_at _ _); [|done]. by injection Ha as ->.
    + rewrite decide_False in Ha by done. unfold abs_at in Ha. rewrite Hi in Ha. destruct (row_at _ _); [|done]. by injection Ha as ->.
Qed.

(** Removal of the entity at dense position [d]: its handle moves to the dead list. *)
Lemma hist2_destroyed cfg s iss dead d e va vs' : Inv s -> Hist2 s iss dead -> ents s !! d = Some e ->
  (snd e < vs')%N -> in_ver va -> in_ver vs' ->
  Hist2 (destroyed_state cfg s (eslot e) d e (last_ent s e) va vs') iss (dead ++ [e]).
Proof.
  intros HI [HH Hnd Hds Hdg Hal] Hd Hlt Hva Hvs.
  destruct (hist_destroyed cfg s iss (eslot e) d e va vs' HI HH Hd eq_refl Hlt Hva Hvs) as [HH' Hgone].
  set (s' := destroyed_state cfg s (eslot e) d e (last_ent s e) va vs') in *.
  assert (HI' : Inv s').
  { destruct (fwd' s d e HI Hd) as (Hs & _). by apply destroyed_inv. }
  assert (Hdl : d < len s) by (rewrite <- (i_lents s HI); by eapply lookup_lt_Some).
  pose proof (destroyed_state_ents cfg s d e va vs' HI Hd HI' Hgone) as Hents. fold s' in Hents.
  constructor; try done.
  - intros z Hz. apply elem_of_app in Hz as [Hz|Hz%elem_of_list_singleton]; [by apply Hds|]. subst.
    eapply (h_stored s iss HH). done.
  - intros z Hz. rewrite Hents. apply elem_of_app in Hz as [Hz|Hz%elem_of_list_singleton].
    + intros [Hin _]. by apply (Hdg z Hz).
    + subst. by intros [_ ?].
  - intros z Hz. destruct (decide (z = e)) as [->|Hne].
    + left. apply elem_of_app. right. by apply elem_of_list_singleton.
    + destruct (Hal z Hz) as [?|?]; [left; apply elem_of_app; by left|]. right. by apply Hents.
Qed.

Definition sub (l l' : list handle) : Prop := forall e, e ∈ l -> e ∈ l'.

(** Every elementary transition keeps the invariant and extends the ghost history.  The generation
    counters are the checked ones here (no wrapping_version): an overflow panics and is not a transition. *)
Lemma estep_hist2 cfg s s' iss dead : wrapping cfg = false -> Inv s -> Hist2 s iss dead -> estep cfg s s' ->
  Inv s' /\ exists iss' dead', Hist2 s' iss' dead' /\ sub iss iss' /\ sub dead dead'.
Proof.
  intros Hw HI H2 Hstep. destruct Hstep as [s vs s' h Hvs Hp|s vs s' h Hvs Hp|s k h s' row Hk Hd|s s' HI' Hsb].
  - destruct (push_spec cfg s vs HI Hvs) as [Ho HI']. rewrite Hp in Ho, HI'. split; [done|].
    inversion Ho as [h0 x Hlt Hh Hx|n h0 x Hfull Hn Hnc Hneq Hh Hx|]; try clear Hneq; subst.
    + destruct (hist2_created cfg s iss dead vs h0 x HI H2 Hlt Hh Hx) as [H2' _].
      eexists _, _. split; [exact H2'|]. split; [intros e He; apply elem_of_app; by left|done].
    + assert (HIg : Inv (grown s n)) by (by apply grown_inv).
      pose proof (hist2_grown s iss dead n HI H2 ltac:(lia)) as H2g.
      destruct (hist2_created cfg (grown s n) iss dead vs h0 x HIg H2g ltac:(cbn; lia) Hh Hx) as [H2' _].
      eexists _, _. split; [exact H2'|]. split; [intros e He; apply elem_of_app; by left|done].
  - pose proof (push_within_spec cfg s vs HI Hvs) as Hs. case_decide as Hlt.
    + destruct Hs as (h0 & x & Hpw & HI' & _ & Hh & Hx). rewrite Hp in Hpw. injection Hpw as -> _. split; [done|].
      destruct (hist2_created cfg s iss dead vs h0 x HI H2 Hlt Hh Hx) as [H2' _].
      eexists _, _. split; [exact H2'|]. split; [intros e He; apply elem_of_app; by left|done].
    + rewrite Hp in Hs. done.
  - pose proof (destroy_cases cfg k s h HI Hk) as Hc. rewrite Hd in Hc.
    inversion Hc as [| |d e va vs' He Hkind Hva Hvs HI']; subst. split; [done|].
    rewrite Hw in Hva, Hvs. rewrite arch_next_eq in Hva.
    destruct (fwd' s d e HI He) as (Hsl & _).
    assert (Hve : in_ver (snd e)) by (exact (proj2 (i_ver s HI) _ _ Hsl)).
    destruct (slot_next_checked _ _ Hvs) as [-> _].
    pose proof (hist2_destroyed cfg s iss dead d e va (snd e + 1)%N HI H2 He ltac:(lia)
                  (slot_next_in false _ _ (proj1 (i_ver s HI)) Hva) (slot_next_in false _ _ Hve Hvs)) as H2'.
    eexists _, _. split; [exact H2'|]. split; [done|intros z Hz; apply elem_of_app; by left].
  - split; [done|]. exists iss, dead. split; [exact (hist2_same s s' iss dead HI H2 Hsb)|done].
Qed.

Inductive esteps (cfg : config) : storage -> storage -> Prop :=
  | ess_refl s : esteps cfg s s
  | ess_step s s' s'' : estep cfg s s' -> esteps cfg s' s'' -> esteps cfg s s''.

Lemma esteps_trans cfg s1 s2 s3 : esteps cfg s1 s2 -> esteps cfg s2 s3 -> esteps cfg s1 s3.
Proof. induction 1; [done|]. intros. econstructor; [done|]. by apply IHesteps. Qed.

Lemma esteps_one cfg s s' : estep cfg s s' -> esteps cfg s s'.
Proof. intros. econstructor; [done|constructor]. Qed.

Lemma esteps_hist2 cfg s s' iss dead : wrapping cfg = false -> Inv s -> Hist2 s iss dead -> esteps cfg s s' ->
  Inv s' /\ exists iss' dead', Hist2 s' iss' dead' /\ sub iss iss' /\ sub dead dead'.
Proof.
  intros Hw HI H2 Hs. revert iss dead HI H2. induction Hs as [s|s s' s'' H1 Hs IH]; intros iss dead HI H2.
  - split; [done|]. by exists iss, dead.
  - destruct (estep_hist2 cfg s s' iss dead Hw HI H2 H1) as (HI' & iss' & dead' & H2' & S1 & S2).
    destruct (IH iss' dead' HI' H2') as (HI'' & iss'' & dead'' & H2'' & S1' & S2').
    split; [done|]. exists iss'', dead''. split; [done|]. split; intros e He; auto.
Qed.

(** Storages reachable from an empty one. *)
Definition sreach (cfg : config) (s : storage) : Prop :=
  exists s0, Inv s0 /\ len s0 = 0 /\ esteps cfg s0 s.

Lemma hist2_empty s : Inv s -> len s = 0 -> Hist2 s [] [].
Proof.
  intros HI Hl. constructor; try set_solver; [by apply hist_empty|constructor].
Qed.

Lemma sreach_hist2 cfg s : wrapping cfg = false -> sreach cfg s -> Inv s /\ exists iss dead, Hist2 s iss dead.
Proof.
  intros Hw (s0 & HI0 & Hl0 & Hs).
  destruct (esteps_hist2 cfg s0 s [] [] Hw HI0 (hist2_empty s0 HI0 Hl0) Hs) as (HI & iss & dead & H2 & _). eauto.
Qed.

(** C01, for every history of one storage: once a handle that was stored has left the dense array,
    it is stored never again and every later lookup rejects it; and while stored it is accepted. *)
Theorem stale_forever cfg s1 s2 s3 e : wrapping cfg = false -> sreach cfg s1 -> key32 e ->
  e ∈ ents s1 -> esteps cfg s1 s2 -> e ∉ ents s2 -> esteps cfg s2 s3 ->
  e ∉ ents s3 /\ resolve_entity cfg s3 e = ROk None.
Proof.
  intros Hw Hr Hk He1 H12 Hne2 H23.
  destruct (sreach_hist2 cfg s1 Hw Hr) as (HI1 & iss1 & dead1 & H1).
  destruct (esteps_hist2 cfg s1 s2 iss1 dead1 Hw HI1 H1 H12) as (HI2 & iss2 & dead2 & H2 & S12 & _).
  destruct (esteps_hist2 cfg s2 s3 iss2 dead2 Hw HI2 H2 H23) as (HI3 & iss3 & dead3 & H3 & S23 & D23).
  assert (Hiss1 : e ∈ iss1). { apply elem_of_list_lookup in He1 as (i & Hi). exact (h_stored s1 iss1 (h2_hist _ _ _ H1) i e Hi). }
  assert (Hdead2 : e ∈ dead2) by (destruct (h2_alive _ _ _ H2 e (S12 e Hiss1)); done).
  assert (Hgone3 : e ∉ ents s3) by (apply (h2_dead_gone _ _ _ H3), D23, Hdead2).
  split; [done|].
  pose proof (resolve_entity_cases cfg s3 HI3 e Hk) as Hc.
  destruct (resolve_entity cfg s3 e) as [[[si d]|]|p|] eqn:Hres; [|done| |done].
  - exfalso. destruct (proj1 (issued_accepted_iff_stored cfg s3 iss3 e HI3 (h2_hist _ _ _ H3) (S23 e (S12 e Hiss1)) Hk)) as (d' & Hd'); [eauto|].
    apply Hgone3. by eapply elem_of_list_lookup_2.
  - exfalso. destruct Hc as (_ & _ & Hoob & _).
    destruct (h_shape s3 iss3 (h2_hist _ _ _ H3) e (S23 e (S12 e Hiss1))) as (_ & Hc'). unfold eslot in Hc'. lia.
Qed.

(** C08, for every history of one storage: the handle a create returns differs from every handle
    stored at any earlier time. *)
Theorem created_never_seen_before cfg s1 s2 vs s3 h e : wrapping cfg = false -> sreach cfg s1 ->
  e ∈ ents s1 -> esteps cfg s1 s2 -> length vs = length (cols s2) -> push cfg s2 vs = Ok s3 h -> h <> e.
Proof.
  intros Hw Hr He1 H12 Hvs Hp.
  destruct (sreach_hist2 cfg s1 Hw Hr) as (HI1 & iss1 & dead1 & H1).
  destruct (esteps_hist2 cfg s1 s2 iss1 dead1 Hw HI1 H1 H12) as (HI2 & iss2 & dead2 & H2 & S12 & _).
  assert (Hiss2 : e ∈ iss2). { apply S12. apply elem_of_list_lookup in He1 as (i & Hi). exact (h_stored s1 iss1 (h2_hist _ _ _ H1) i e Hi). }
  destruct (push_spec cfg s2 vs HI2 Hvs) as [Ho _]. rewrite Hp in Ho.
  inversion Ho as [h0 x Hlt Hh Hx|n h0 x Hfull Hn Hnc Hneq Hh Hx|]; try clear Hneq; subst.
  - destruct (hist2_created cfg s2 iss2 dead2 vs h0 x HI2 H2 Hlt Hh Hx) as [_ Hfresh]. intros Heq. rewrite Heq in Hfresh. done.
  - assert (HIg : Inv (grown s2 n)) by (by apply grown_inv).
    pose proof (hist2_grown s2 iss2 dead2 n HI2 H2 ltac:(lia)) as H2g.
    destruct (hist2_created cfg (grown s2 n) iss2 dead2 vs h0 x HIg H2g ltac:(cbn; lia) Hh Hx) as [_ Hfresh]. intros Heq. rewrite Heq in Hfresh. done.
Qed.

(* ================================================================ Part B: the run language *)

Definition wtrans (cfg : config) (w w' : world) : Prop := Forall2 (esteps cfg) w w'.

Lemma wtrans_refl cfg w : wtrans cfg w w.
Proof. induction w; constructor; [constructor|done]. Qed.

Lemma upd_wtrans cfg w a s s' : w !! a = Some s -> esteps cfg s s' -> wtrans cfg w (upd w a s').
Proof.
  intros Hs He. unfold wtrans, upd. revert a Hs. induction w as [|x w IH]; intros [|a] Hs; cbn in *; try done.
  - injection Hs as ->. constructor; [done|apply wtrans_refl].
  - constructor; [constructor|by apply IH].
Qed.

Lemma same_book_refl s : same_book s s. Proof. done. Qed.
Lemma wbook_trans s1 s2 s3 : wbook s1 s2 -> wbook s2 s3 -> wbook s1 s3.
Proof. intros (A1 & A2 & A3 & A4 & A5 & A6 & A7) (B1 & B2 & B3 & B4 & B5 & B6 & B7). split_and!; congruence. Qed.
Lemma same_book_trans s1 s2 s3 : same_book s1 s2 -> same_book s2 s3 -> same_book s1 s3.
Proof. intros [A A'] [B B']. split; [by eapply wbook_trans|congruence]. Qed.

Lemma call_closure_ro acc : forall s i ver o s1 ds, call_closure s i ver 0%N acc = Some (o, s1, ds) -> s1 = s.
Proof.
  induction acc as [|a acc IH]; intros s i ver o s1 ds; cbn [call_closure]; [by intros [= _ <- _]|].
  destruct a as [col m zst| |].
  - destruct (cols s !! col) as [c|]; [|done]. unfold val in *. destruct (c !! i) as [v|]; [|done].
    rewrite N.eqb_refl. cbn [negb]. rewrite andb_false_r.
    destruct (call_closure s i ver 0%N acc) as [[[o' s2] ds']|] eqn:Hcc; [|done]. intros [= _ <- _]. by eapply IH.
  - destruct (ents s !! i); [|done].
    destruct (call_closure s i ver 0%N acc) as [[[o' s2] ds']|] eqn:Hcc; [|done]. intros [= _ <- _]. by eapply IH.
  - destruct (call_closure s i ver 0%N acc) as [[[o' s2] ds']|] eqn:Hcc; [|done]. intros [= _ <- _]. by eapply IH.
Qed.

Lemma call_closure_book ad acc s i ver delta o s1 ds : wf_access ad acc -> SInv ad s -> i < len s -> in_ver ver ->
  call_closure s i ver delta acc = Some (o, s1, ds) -> SInv ad s1 /\ wbook s s1 /\ len s1 = len s /\ (delta = 0%N -> s1 = s).
Proof.
  intros Hacc HS Hi Hver Hcc.
  destruct (call_closure_ok ad acc Hacc s i ver delta HS Hi Hver) as (o' & s1' & ds' & Hcc' & HS1 & E1 & E2 & E3 & E4 & E5 & E6 & E7 & E8 & _).
  rewrite Hcc in Hcc'. injection Hcc' as <- <- <-. split; [done|]. split_and!; [|done|intros ->; by eapply call_closure_ro].
  destruct HS as (_ & A & _), HS1 as (_ & A1 & _). split_and!; congruence.
Qed.

Lemma iter_arch_book ad acc ver delta break_at panic_at n : wf_access ad acc -> in_ver ver ->
  forall fuel s i ord s1 recs ds ord1 stp, SInv ad s -> len s = n ->
  iter_arch fuel s i n ver delta acc ord break_at panic_at = Some (s1, recs, ds, ord1, stp) ->
  SInv ad s1 /\ wbook s s1 /\ (delta = 0%N -> s1 = s).
Proof.
  intros Hacc Hver. induction fuel as [|fuel IH]; intros s i ord s1 recs ds ord1 stp HS Hn; cbn [iter_arch].
  - by intros [= <- <- <- <- <-].
  - destruct (Nat.ltb_spec i n) as [Hi|Hi]; cbn [negb]; [|by intros [= <- <- <- <- <-]].
    destruct (negb _ || negb _); [done|].
    destruct (call_closure s i ver delta acc) as [[[o sa] dsa]|] eqn:Hcc; [|done].
    destruct (call_closure_book ad acc s i ver delta o sa dsa Hacc HS ltac:(lia) Hver Hcc) as (HSa & Hb & Hl & Hro).
    destruct (decide (panic_at = Some ord)); [by intros [= <- <- <- <- <-]|].
    destruct (decide (break_at = Some ord)); [by intros [= <- <- <- <- <-]|].
    destruct (iter_arch fuel sa (S i) n ver delta acc (S ord) break_at panic_at) as [[[[[s2 r2] d2] o2] st2]|] eqn:Hit; [|done].
    intros [= <- <- <- <- <-]. destruct (IH _ _ _ _ _ _ _ _ HSa ltac:(lia) Hit) as (HS2 & Hb2 & Hro2).
    split_and!; [done|by eapply wbook_trans|]. intros Hd. rewrite (Hro2 Hd). by apply Hro.
Qed.

Lemma same_book_esteps cfg ad s s' : SInv ad s' -> same_book s s' -> esteps cfg s s'.
Proof. intros (HI & _) Hb. apply esteps_one. apply es_same; [done|by apply same_book_mono]. Qed.

Lemma wbook_esteps cfg ad s s' : wr = true -> SInv ad s' -> wbook s s' -> esteps cfg s s'.
Proof. intros Hwr (HI & _) Hb. apply esteps_one. apply es_same; [done|by apply wbook_mono]. Qed.

(** The result of a query pass over one storage: written only if the closure writes and writing is allowed. *)
Lemma pass_esteps cfg ad s s' delta : (wr = true \/ delta = 0%N) -> SInv ad s' -> wbook s s' -> (delta = 0%N -> s' = s) -> esteps cfg s s'.
Proof.
  intros [Hwr|Hd] HS Hb Hro; [by eapply wbook_esteps|]. rewrite (Hro Hd). constructor.
Qed.

Lemma iter_world_wtrans cfg delta break_at panic_at archs w : (wr = true \/ delta = 0%N) -> Forall2 SInv archs w ->
  forall plan ord w' recs ds stp, wf_plan archs plan -> iter_world w plan delta ord break_at panic_at = Some (w', recs, ds, stp) ->
  wtrans cfg w w'.
Proof.
  intros Hwd. induction 1 as [|ad s archs w HS HW IH]; intros plan ord w' recs ds stp Hp.
  - destruct plan; cbn; intros [= <- <- <- <-]; constructor.
  - inversion Hp as [|? oa ? pr Hoa Hpr]; subst. destruct oa as [acc|]; cbn [iter_world].
    + pose proof HS as (HI & _).
      destruct (iter_arch (S (len s)) s 0 (len s) (version s) delta acc ord break_at panic_at) as [[[[[s1 r1] d1] o1] st1]|] eqn:Hit; [|done].
      destruct (iter_arch_book ad acc (version s) delta break_at panic_at (len s) Hoa (proj1 (i_ver s HI)) _ _ _ _ _ _ _ _ _ HS eq_refl Hit) as (HS1 & Hb & Hro).
      assert (Hes : esteps cfg s s1) by (by eapply pass_esteps).
      destruct st1.
      * destruct (iter_world w pr delta o1 break_at panic_at) as [[[[w2 r2] d2] st2]|] eqn:Hiw; [|done]. intros [= <- <- <- <-].
        constructor; [done|by eapply IH].
      * intros [= <- <- <- <-]. constructor; [done|apply wtrans_refl].
      * intros [= <- <- <- <-]. constructor; [done|apply wtrans_refl].
    + destruct (iter_world w pr delta ord break_at panic_at) as [[[[w2 r2] d2] st2]|] eqn:Hiw; [|done]. intros [= <- <- <- <-].
      constructor; [constructor|by eapply IH].
Qed.

Lemma destroy_esteps cfg k s h : Inv s -> key32 h ->
  match destroy cfg k s h with Ok s' _ => esteps cfg s s' | Panic _ s' => s' = s | UB => False end.
Proof.
  intros HI Hk. pose proof (destroy_cases cfg k s h HI Hk) as Hc.
  destruct (destroy cfg k s h) as [s' [row|]|p s'|] eqn:Hd.
  - apply esteps_one. by eapply es_destroy.
  - inversion Hc. constructor.
  - by inversion Hc.
  - inversion Hc.
Qed.

Lemma iterd_arch_esteps cfg ad acc ver0 nz decs : wf_access ad acc -> in_ver ver0 ->
  forall idx1 s ord din, SInv ad s -> idx1 <= len s ->
  match iterd_arch cfg idx1 s ver0 acc nz ord decs din with
  | Ok (s1, _, _, _, _, _) _ | Panic _ (s1, _, _, _, _, _) => esteps cfg s s1
  | UB => False
  end.
Proof.
  intros Hacc Hver0. induction idx1 as [|idx IH]; intros s ord din HS Hle; cbn [iterd_arch]; [constructor|].
  pose proof HS as (HI & _).
  assert ((len s <=? length (ents s)) = true) as -> by (apply Nat.leb_le; rewrite (i_lents s HI); lia).
  rewrite (forallb_cols_len (len s) (len s) (cols s) (i_lcols s HI)) by lia.
  assert ((idx <? len s) = true) as -> by (apply Nat.ltb_lt; lia). cbn [negb orb].
  set (ver := if iter_destroy_version_in_loop then version s else ver0).
  assert (Hver : in_ver ver) by (unfold ver; destruct iter_destroy_version_in_loop; [apply (i_ver s HI)|done]).
  destruct (call_closure_ok ad acc Hacc s idx ver 0%N HS ltac:(lia) Hver) as (o & s1 & ds & -> & _).
  destruct (lookup_lt_is_Some_2 (ents s) idx ltac:(rewrite (i_lents s HI); lia)) as [e He]. rewrite He.
  pose proof (ents_hpair32 s idx e HI He) as Hep.
  pose proof (destroy_SInv cfg KEnt ad s e HS (hpair32_key32 e Hep)) as Hd1.
  pose proof (destroy_len cfg KEnt ad s e HS (hpair32_key32 e Hep)) as Hd2.
  pose proof (destroy_esteps cfg KEnt s e HI (hpair32_key32 e Hep)) as Hd3.
  assert (Hcont : forall s1 din1, SInv ad s1 -> idx <= len s1 -> esteps cfg s s1 ->
    match match iterd_arch cfg idx s1 ver0 acc nz (S ord) decs din1 with
          | Ok (s2, recs, ds2, ord2, st, din2) _ => Ok (s2, visit_record s o :: recs, ds ++ ds2, ord2, st, din2) tt
          | Panic p (s2, recs, ds2, ord2, st, din2) => Panic p (s2, visit_record s o :: recs, ds ++ ds2, ord2, st, din2)
          | UB => UB end with
    | Ok (s1, _, _, _, _, _) _ | Panic _ (s1, _, _, _, _, _) => esteps cfg s s1
    | UB => False end).
  { intros s1' din1 HS1 Hl1 Hes. specialize (IH s1' (S ord) din1 HS1 Hl1).
    destruct (iterd_arch cfg idx s1' ver0 acc nz (S ord) decs din1) as [[[[[[s2 recs] ds2] ord2] st] din2] []|p [[[[[s2 recs] ds2] ord2] st] din2]|]; [| |done];
      by eapply esteps_trans. }
  destruct (nth_decision decs ord).
  - apply Hcont; [done|lia|constructor].
  - constructor.
  - destruct (destroy cfg KEnt s e) as [s' [row|]|p s'|]; [| | |done].
    + destruct (drop_row nz din) as [fired din1]. destruct fired; [done|]. apply Hcont; [done|lia|done].
    + destruct (drop_row nz din) as [fired din1]. destruct fired; [done|]. subst s'. apply Hcont; [done|lia|done].
    + subst s'. constructor.
  - destruct (destroy cfg KEnt s e) as [s' [row|]|p s'|]; [| | |done].
    + destruct (drop_row nz din) as [fired din1]. by destruct fired.
    + destruct (drop_row nz din) as [fired din1]. by destruct fired.
    + subst s'. constructor.
  - constructor.
Qed.

Lemma iterd_world_wtrans cfg d decs archs w : Forall2 SInv archs w ->
  forall plan ord din, wf_plan archs plan ->
  match iterd_world cfg d archs w plan ord decs din with
  | Ok (w', _, _, _) _ | Panic _ (w', _, _, _) => wtrans cfg w w'
  | UB => False
  end.
Proof.
  induction 1 as [|ad s archs w HS HW IH]; intros plan ord din Hp.
  - cbn. constructor.
  - inversion Hp as [|? oa ? pr Hoa Hpr]; subst. destruct oa as [acc|]; cbn [iterd_world].
    + pose proof HS as (HI & _).
      pose proof (iterd_arch_esteps cfg ad acc (version s) (nz_cols d ad) decs Hoa (proj1 (i_ver s HI)) (len s) s ord din HS (le_n _)) as Ha.
      destruct (iterd_arch cfg (len s) s (version s) acc (nz_cols d ad) ord decs din)
        as [[[[[[s1 recs] ds] ord1] stp] din1] []|p [[[[[s1 recs] ds] ord1] stp] din1]|]; [| |done].
      * destruct stp; [|constructor; [done|apply wtrans_refl]|constructor; [done|apply wtrans_refl]].
        specialize (IH pr ord1 din1 Hpr).
        destruct (iterd_world cfg d archs w pr ord1 decs din1) as [[[[w2 recs2] ds2] din2] []|p [[[w2 recs2] ds2] din2]|]; [| |done];
          by constructor.
      * constructor; [done|apply wtrans_refl].
    + specialize (IH pr ord din Hpr).
      destruct (iterd_world cfg d archs w pr ord decs din) as [[[[w2 recs2] ds2] din2] []|p [[[w2 recs2] ds2] din2]|]; [| |done];
        (constructor; [constructor|done]).
Qed.

Lemma find_query_wtrans cfg d w plan k ky delta h0 : (wr = true \/ delta = 0%N) -> WInv d w -> wf_plan (wd_archs d) plan -> hpair32 h0 -> key_in d h0 ky ->
  match find_query cfg d w plan k ky delta with
  | Ok w' _ => wtrans cfg w w'
  | Panic _ w' => w' = w
  | UB => False
  end.
Proof.
  intros Hwd HW Hp Hh0 Hky. pose proof (find_query_ok cfg d w plan k ky delta h0 HW Hp Hh0 Hky) as Hok.
  unfold find_query in *.
  destruct (dispatch_world d k ky) as [[a h]|p|]; [|done|done].
  destruct (plan !! a) as [[acc|]|] eqn:Hpa; [| |done].
  2: { destruct (w !! a); [apply wtrans_refl|done]. }
  unfold world in *. destruct (w !! a) as [s|] eqn:Hs; [|done].
  destruct (resolve_for cfg k s h) as [[i|]|p|] eqn:Hr; [|apply wtrans_refl|done|done].
  destruct (negb _ || negb _ || negb (i <? len s)) eqn:Hg; [done|].
  apply orb_false_iff in Hg as [_ Hi%negb_false_iff%Nat.ltb_lt].
  destruct (call_closure s i (version s) delta acc) as [[[o s1] ds]|] eqn:Hcc; [|done].
  destruct (lookup_lt_is_Some_2 (wd_archs d) a ltac:(rewrite <- (WInv_length d w HW); by eapply lookup_lt_Some)) as [ad Had].
  pose proof (WInv_lookup d w a ad s HW Had Hs) as HS. pose proof HS as (HI & _).
  destruct (call_closure_book ad acc s i (version s) delta o s1 ds (wf_plan_lookup _ _ _ _ _ Hp Had Hpa) HS Hi (proj1 (i_ver s HI)) Hcc) as (HS1 & Hb & _ & Hro).
  eapply upd_wtrans; [exact Hs|]. by eapply pass_esteps.
Qed.

(** Presetting the generation counters (test hook) is a transition when it does not lower any slot generation. *)
Lemma preset_esteps cfg s sv av s' : Inv s -> in_ver sv -> in_ver av -> preset_versions s sv av = Ok s' tt ->
  forallb (fun x => (s_ver x <=? sv)%N) (slots s) && (version s <=? av)%N = true -> esteps cfg s s'.
Proof.
  intros HI Hsv Hav Hp Hall. apply andb_true_iff in Hall as [Hall Hver%N.leb_le]. destruct (preset_versions_inv s sv av s' HI Hsv Hav Hp) as (HI' & _).
  apply esteps_one, es_same; [done|]. unfold preset_versions in Hp.
  destruct (negb (len s =? 0) || N.eqb sv 0 || N.eqb av 0); [done|]. destruct (negb (cap s <=? length (slots s))); [done|].
  injection Hp as <-. split_and!; try done; [|by left|by right]. cbn [slots]. intros k x Hx. exists (Slot (s_idx x) sv).
  rewrite list_lookup_fmap, Hx. split_and!; [done|done|]. cbn [s_ver].
  rewrite forallb_forall in Hall. apply N.leb_le, Hall. apply elem_of_list_In. by eapply elem_of_list_lookup_2.
Qed.

Definition ltrans (cfg : config) (l l' : list (option world)) : Prop :=
  length l <= length l' /\
  (forall i w, l !! i = Some (Some w) -> l' !! i = Some None \/ exists w', l' !! i = Some (Some w') /\ wtrans cfg w w') /\
  (forall i, l !! i = Some None -> l' !! i = Some None) /\
  (forall i w', length l <= i -> l' !! i = Some (Some w') ->
       Forall (fun s => Inv s /\ len s = 0) w' \/ (exists j w, l !! j = Some (Some w) /\ w' = w)) /\
  (* at most one existing world is touched *)
  (exists c, forall i, i <> c -> i < length l -> l' !! i = l !! i).

Lemma ltrans_refl cfg l : ltrans cfg l l.
Proof.
  split_and!; [done| |done| |by exists 0].
  - intros i w Hi. right. exists w. split; [done|apply wtrans_refl].
  - intros i w' Hi Hl. apply lookup_lt_Some in Hl. unfold world in *. lia.
Qed.

Lemma ltrans_insert cfg l i w w' : l !! i = Some (Some w) -> wtrans cfg w w' -> ltrans cfg l (<[i := Some w']> l).
Proof.
  intros Hi Hw. split_and!; [by rewrite insert_length| | | |exists i; intros j Hj _; by rewrite list_lookup_insert_ne].
  - intros j wj Hj. right. destruct (decide (j = i)) as [->|Hne].
    + rewrite Hi in Hj. injection Hj as <-. exists w'. rewrite list_lookup_insert by (by eapply lookup_lt_Some). done.
    + exists wj. rewrite list_lookup_insert_ne by done. split; [done|apply wtrans_refl].
  - intros j Hj. destruct (decide (j = i)) as [->|Hne]; [congruence|]. by rewrite list_lookup_insert_ne.
  - intros j wj Hj Hl. apply lookup_lt_Some in Hl. rewrite insert_length in Hl. unfold world in *. lia.
Qed.

Lemma ltrans_drop cfg l i : ltrans cfg l (<[i := None]> l).
Proof.
  split_and!; [by rewrite insert_length| | | |exists i; intros j Hj _; by rewrite list_lookup_insert_ne].
  - intros j wj Hj. destruct (decide (j = i)) as [->|Hne].
    + left. rewrite list_lookup_insert by (by eapply lookup_lt_Some). done.
    + right. exists wj. rewrite list_lookup_insert_ne by done. split; [done|apply wtrans_refl].
  - intros j Hj. destruct (decide (j = i)) as [->|Hne]; [|by rewrite list_lookup_insert_ne].
    rewrite list_lookup_insert by (by eapply lookup_lt_Some). done.
  - intros j wj Hj Hl. apply lookup_lt_Some in Hl. rewrite insert_length in Hl. unfold world in *. lia.
Qed.

Lemma ltrans_app cfg l w' : (Forall (fun s => Inv s /\ len s = 0) w' \/ (exists j w, l !! j = Some (Some w) /\ w' = w)) ->
  ltrans cfg l (l ++ [Some w']).
Proof.
  intros Hw. split_and!; [rewrite app_length; lia| | | |exists 0; intros j _ Hj; by rewrite lookup_app_l].
  - intros j wj Hj. right. exists wj. rewrite lookup_app_l by (by eapply lookup_lt_Some). split; [done|apply wtrans_refl].
  - intros j Hj. by rewrite lookup_app_l by (by eapply lookup_lt_Some).
  - intros j wj Hj Hl. rewrite lookup_app_r in Hl by done. apply list_lookup_singleton_Some in Hl as [_ [= <-]]. done.
Qed.

Lemma new_world_fresh archs caps w u : Forall (fun a => (da_id a < 2^8)%N) archs -> new_world archs caps = Ok w u ->
  Forall (fun s => Inv s /\ len s = 0) w.
Proof.
  destruct u. intros Hwf. revert caps w. induction Hwf as [|a ar Ha Hwf IH]; intros caps w.
  - destruct caps; cbn; intros [= <-]; constructor.
  - destruct caps as [|c cr]; cbn [new_world]; [intros [= <-]; constructor|].
    unfold with_capacity. destruct (with_capacity_panics (N.of_nat c)) eqn:Hp; [done|].
    destruct (new_world ar cr) as [w' []|p w'|] eqn:Hn; [|done|done]. intros [= <-].
    constructor; [|by eapply IH]. split; [|done].
    apply (with_capacity_inv (da_id a) (length (da_comps a)) c); [done|]. unfold with_capacity. by rewrite Hp.
Qed.


Lemma cur_world_lookup st w : cur_world st = Some w -> worlds st !! cur st = Some (Some w).
Proof. unfold cur_world. destruct (worlds st !! cur st) as [[w'|]|]; cbn; [by intros [= ->]|done|done]. Qed.

Lemma ltrans_set_world cfg st w w' : cur_world st = Some w -> wtrans cfg w w' -> ltrans cfg (worlds st) (worlds (set_world st w')).
Proof. intros Hc Hw. cbn [worlds set_world]. eapply ltrans_insert; [by apply cur_world_lookup|done]. Qed.

Lemma ltrans_after_drop cfg d ad st0 st1 o st' o' : after_drop d ad st1 o = (st', o') ->
  ltrans cfg (worlds st0) (worlds st1) -> ltrans cfg (worlds st0) (worlds st').
Proof. unfold after_drop. destruct (drop_row _ _) as [fired din]. by intros [= <- _]. Qed.

Notation Tr cfg st r := (match r with Some (st', _) => ltrans cfg (worlds st) (worlds st') | None => True end).

Lemma step_create_trans cfg d qs st a v (within : bool) : wf_decl d -> RInv d st ->
  Tr cfg st (step cfg d qs st (if within then OCreateW a v else OCreate a v)).
Proof.
  intros Hwf HR. destruct within; unfold step; cbv beta iota.
  all: destruct (cur_world st) as [w|] eqn:Hcw; [|apply ltrans_refl].
  all: pose proof (RInv_cur d st w HR Hcw) as HW.
  all: destruct (wd_archs d !! a) as [ad|] eqn:Ha; [|apply ltrans_refl]; destruct (w !! a) as [s|] eqn:Hs; [|apply ltrans_refl].
  all: pose proof (WInv_lookup d w a ad s HW Ha Hs) as HS; pose proof HS as (HI & _ & Hlc).
  all: assert (Hvs : length (row_values d ad v) = length (cols s)) by (rewrite Hlc; apply row_values_length).
  - pose proof (push_within_SInv cfg ad s (row_values d ad v) HS (row_values_length d ad v)) as Hp.
    destruct (push_within cfg s (row_values d ad v)) as [s' [h|]|p s'|] eqn:Hpw; [| |done|done].
    + cbn [worlds add_issued]. apply (ltrans_set_world cfg st w); [done|]. eapply upd_wtrans; [done|]. apply esteps_one. by eapply es_pushw.
    + subst s'. destruct (after_drop d ad _ _) as [st2 o2] eqn:Had. eapply ltrans_after_drop; [exact Had|].
      apply (ltrans_set_world cfg st w); [done|]. eapply upd_wtrans; [done|constructor].
  - pose proof (push_SInv cfg ad s (row_values d ad v) HS (row_values_length d ad v)) as Hp.
    destruct (push cfg s (row_values d ad v)) as [s' h|p s'|] eqn:Hpu; [| |done].
    + cbn [worlds add_issued]. apply (ltrans_set_world cfg st w); [done|]. eapply upd_wtrans; [done|]. apply esteps_one. by eapply es_push.
    + destruct Hp as [-> _]. destruct (after_drop d ad _ _) as [st2 o2] eqn:Had. eapply ltrans_after_drop; [exact Had|].
      apply (ltrans_set_world cfg st w); [done|]. eapply upd_wtrans; [done|constructor].
Qed.

Lemma step_new_trans cfg d qs st caps : wf_decl d -> Tr cfg st (step cfg d qs st (ONew caps)).
Proof.
  intros Hwf. unfold step; cbv beta iota.
  destruct (new_world (wd_archs d) caps) as [w []|p w|] eqn:Hnw; [|apply ltrans_refl|done].
  cbn [worlds]. apply ltrans_app. left. by eapply new_world_fresh.
Qed.

Lemma step_switch_trans cfg d qs st i : Tr cfg st (step cfg d qs st (OSwitch i)).
Proof. unfold step; cbv beta iota. destruct (mjoin (worlds st !! i)); apply ltrans_refl. Qed.

Lemma step_drop_trans cfg d qs st i : Tr cfg st (step cfg d qs st (ODrop i)).
Proof.
  unfold step; cbv beta iota. destruct (mjoin (worlds st !! i)); [|apply ltrans_refl].
  destruct (drop_world _ _ _ _) as [[[[lt lz] fired] din]|]; [|done]. cbn [worlds]. apply ltrans_drop.
Qed.

Lemma step_clone_trans cfg d qs st : RInv d st -> Tr cfg st (step cfg d qs st OClone).
Proof.
  intros HR. unfold step; cbv beta iota. destruct (cur_world st) as [w|] eqn:Hcw; [|apply ltrans_refl].
  pose proof (RInv_cur d st w HR Hcw) as HW.
  pose proof (clone_world_ok d (wd_archs d) w (clone_in st) HW) as Hc.
  destruct (clone_world d (wd_archs d) w (clone_in st)) as [[[lt lz]|[w' cin]]|]; [apply ltrans_refl| |done].
  subst w'. cbn [worlds]. apply ltrans_app. right. exists (cur st), w. split; [by apply cur_world_lookup|done].
Qed.

Lemma step_simple_trans cfg d qs st o :
  match o with OReg | OFault _ _ | OConv _ _ | OLen _ | OBorrow _ | OReadAll _ _ | ODump _ | OEvents _ => True | _ => False end ->
  Tr cfg st (step cfg d qs st o).
Proof.
  intros Ho. destruct o; try (exfalso; exact Ho); unfold step; cbv beta iota.
  - destruct (cur_world st); [|apply ltrans_refl]. destruct (_ !! a); [|apply ltrans_refl]. destruct (all_rows _); [apply ltrans_refl|done].
  - destruct (cur_world st); [|apply ltrans_refl]. destruct (_ !! a); apply ltrans_refl.
  - destruct (cur_world st); [|apply ltrans_refl]. destruct (_ !! a); [|apply ltrans_refl]. destruct (negb _ || negb _); [done|apply ltrans_refl].
  - destruct (cur_world st); [|apply ltrans_refl]. destruct (negb _); [apply ltrans_refl|]. destruct l; [apply ltrans_refl|]. destruct (_ !! a); apply ltrans_refl.
  - apply ltrans_refl.
  - destruct f; apply ltrans_refl.
  - destruct (get_href st k r); apply ltrans_refl.
  - destruct (cur_world st); apply ltrans_refl.
Qed.

Lemma step_preset_trans cfg d qs st a sv av : (sv < 2^32)%N -> (av < 2^32)%N -> RInv d st -> hist_ok_step st (OPreset a sv av) = true ->
  Tr cfg st (step cfg d qs st (OPreset a sv av)).
Proof.
  intros Hsv Hav HR Hok. unfold step, hist_ok_step in *; cbv beta iota in *.
  destruct (cur_world st) as [w|] eqn:Hcw; [|apply ltrans_refl].
  pose proof (RInv_cur d st w HR Hcw) as HW. destruct (w !! a) as [s|] eqn:Hs; [|apply ltrans_refl].
  destruct (lookup_lt_is_Some_2 (wd_archs d) a ltac:(rewrite <- (WInv_length d w HW); by eapply lookup_lt_Some)) as [ad Ha].
  destruct (WInv_lookup d w a ad s HW Ha Hs) as (HI & _).
  destruct (preset_versions s sv av) as [s' []|p s'|] eqn:Hp; [|apply ltrans_refl|done].
  apply (ltrans_set_world cfg st w); [done|]. eapply upd_wtrans; [done|].
  assert (Hnz : in_ver sv /\ in_ver av).
  { unfold preset_versions in Hp. destruct (N.eqb_spec sv 0), (N.eqb_spec av 0); rewrite ?orb_true_r in Hp; try done.
    unfold in_ver. lia. }
  destruct Hnz as [Hsv' Hav']. exact (preset_esteps cfg s sv av s' HI Hsv' Hav' Hp Hok).
Qed.

Lemma clear_events_esteps cfg ad s : ac = true -> SInv ad s -> esteps cfg s (clear_events s).
Proof.
  intros Hac HS. destruct (clear_events_SInv ad s HS) as (HI' & _). apply esteps_one, es_same; [done|].
  split_and!; try done; [|by right|by right]. intros k x Hx. exists x. split_and!; [done|done|lia].
Qed.

Lemma step_clearev_trans cfg d qs st l : ac = true -> RInv d st -> Tr cfg st (step cfg d qs st (OClearEv l)).
Proof.
  intros Hac HR. unfold step; cbv beta iota. destruct (cur_world st) as [w|] eqn:Hcw; [|apply ltrans_refl].
  pose proof (RInv_cur d st w HR Hcw) as HW. destruct (negb (events cfg)); [apply ltrans_refl|]. destruct l as [|a].
  - apply (ltrans_set_world cfg st w); [done|]. unfold wtrans. apply Forall2_fmap_r.
    unfold WInv in HW. clear Hcw. induction HW; constructor; [by eapply clear_events_esteps|done].
  - destruct (w !! a) as [s|] eqn:Hs; [|apply ltrans_refl].
    destruct (lookup_lt_is_Some_2 (wd_archs d) a ltac:(rewrite <- (WInv_length d w HW); by eapply lookup_lt_Some)) as [ad Ha].
    apply (ltrans_set_world cfg st w); [done|]. eapply upd_wtrans; [done|]. eapply clear_events_esteps; [done|]. by eapply WInv_lookup.
Qed.

Lemma step_keyed_trans cfg d qs st o l k t r : keyed_op o = Some (l, k, t, r) -> wf_href r -> RInv d st ->
  Tr cfg st (step cfg d qs st o).
Proof.
  intros Ho Hr HR.
  destruct o; try done; injection Ho as -> -> -> ->.
  all: unfold step; cbv beta iota; destruct (cur_world st) as [w|] eqn:Hcw; [|apply ltrans_refl]; pose proof (RInv_cur d st w HR Hcw) as HW.
  all: destruct (get_href st k r) as [h0|] eqn:Hg; [|apply ltrans_refl].
  all: pose proof (get_href_pair32 d st k r h0 HR Hr Hg) as Hh0.
  all: pose proof (make_key_handle cfg d k t h0) as Hmk.
  all: destruct (make_key cfg d k t h0) as [kh|ka kh|obs] eqn:Hky; [| |apply ltrans_refl].
  all: subst kh.
  all: match goal with |- context [if ?c then _ else _] => destruct c; [apply ltrans_refl|] end.
  all: match goal with |- match match ?tg with _ => _ end with _ => _ end =>
         assert (Htg : match tg with ROk (Some (a, h)) => h = h0 | RUB => False | _ => True end) end.
  1,3,5,7,9,11: destruct l as [|b];
       [match goal with |- context [dispatch_world _ _ ?ky] => pose proof (dispatch_world_cases d k ky) as Hd;
          destruct (dispatch_world d k ky) as [[a h]|p|]; [destruct Hd as [[= _ ->]|[= ->]]; done|done|done] end
       |match goal with |- context [dispatch_arch _ _ _ ?ky] => pose proof (dispatch_arch_cases d k b ky) as Hd;
          destruct (dispatch_arch d k b ky) as [h|]; [cbn [fmap option_fmap option_map]; destruct (Hd h eq_refl) as [[= _ ->]|[= ->]]; done|done] end].
  all: match goal with |- match match ?tg with _ => _ end with _ => _ end => destruct tg as [[[a h]|]|p|]; [subst h|apply ltrans_refl|apply ltrans_refl|done] end.
  all: destruct (wd_archs d !! a) as [ad|] eqn:Ha; [|apply ltrans_refl]; destruct (w !! a) as [s|] eqn:Hs; [|apply ltrans_refl].
  all: pose proof (WInv_lookup d w a ad s HW Ha Hs) as HS; pose proof HS as (HI & _).
  (* destroy *)
  1,2: pose proof (destroy_esteps cfg k s h0 HI (hpair32_key32 h0 Hh0)) as Hds;
       destruct (destroy cfg k s h0) as [s' [row|]|p s'|]; [|apply ltrans_refl| |done];
       [match goal with |- context [after_drop _ _ ?st1 ?full] => destruct (after_drop d ad st1 full) as [st2 obs] eqn:Had;
          eapply ltrans_after_drop; [exact Had|]; apply (ltrans_set_world cfg st w); [done|by eapply upd_wtrans] end
       |subst s'; apply (ltrans_set_world cfg st w); [done|]; eapply upd_wtrans; [done|constructor]].
  (* probe *)
  1,2: match goal with |- context [probe_storage_world _ ?ty _ _ _] =>
         destruct l; [destruct (probe_storage_world cfg ty k s h0)|destruct (probe_storage_arch cfg k s h0)]; try done; apply ltrans_refl end.
  (* to_direct *)
  1,2: destruct (to_direct cfg k s h0) as [[dh|]|p|]; try done; apply ltrans_refl.
Qed.

Lemma write_col_esteps cfg ad s col i v s' : wr = true -> SInv ad s -> write_col s col i v = Some s' -> esteps cfg s s'.
Proof.
  intros Hwr HS Hw. eapply wbook_esteps; [done|by eapply write_col_SInv|].
  destruct (write_col_spec s col i v s' Hw) as (_ & _ & He & Hs & _ & Hc & Hv & _ & Ha & Hcr & Hde & _). done.
Qed.

Lemma step_write_trans cfg d qs st p b k t r c v : wr = true -> wf_href r -> RInv d st ->
  Tr cfg st (step cfg d qs st (OWrite p b k t r c v)).
Proof.
  intros Hwr Hr HR. unfold step; cbv beta iota. destruct (cur_world st) as [w|] eqn:Hcw; [|apply ltrans_refl]. pose proof (RInv_cur d st w HR Hcw) as HW.
  destruct (get_href st k r) as [h0|] eqn:Hg; [|apply ltrans_refl].
  destruct (make_key cfg d k t h0) as [kh|ka kh|obs] eqn:Hky; [| |apply ltrans_refl].
  all: cbv beta iota.
  2: destruct (ka =? b); [|apply ltrans_refl].
  all: destruct (wd_archs d !! b) as [bd|] eqn:Hb; [|apply ltrans_refl].
  all: destruct (index_of c (arch_comps bd)) as [colb|] eqn:Hcolb; [|apply ltrans_refl].
  all: assert (Hfin : forall a ad s col i, wd_archs d !! a = Some ad -> w !! a = Some s ->
         Tr cfg st (if negb (len s <=? length (ents s)) || negb (forallb (fun x => len s <=? length x) (cols s)) || negb (i <? len s) then None
                else if is_zst d c then ret st [1%N]
                else match write_col s col i v with Some s' => ret (set_world st (upd w a s')) [1%N] | None => None end)).
  1,3: (intros a ad s col i Ha Hs; pose proof (WInv_lookup d w a ad s HW Ha Hs) as HS;
       destruct (negb _ || negb _ || negb _); [done|]; destruct (is_zst d c); [apply ltrans_refl|];
       destruct (write_col s col i v) as [s'|] eqn:Hw; [|done];
       apply (ltrans_set_world cfg st w); [done|]; eapply upd_wtrans; [done|by eapply write_col_esteps]).
  all: destruct p.
  all: try (match goal with |- context [if ?g then ret _ [6%N] else _] => destruct g; [apply ltrans_refl|] end;
       match goal with |- context [dispatch_world _ _ ?ky] =>
          destruct (dispatch_world d k ky) as [[a h]|pp|]; [|apply ltrans_refl|done] end;
       destruct (wd_archs d !! a) as [ad|] eqn:Ha; [|apply ltrans_refl]; destruct (w !! a) as [s|] eqn:Hs; [|apply ltrans_refl];
       destruct (index_of c (arch_comps ad)) as [col|] eqn:Hcol; [|apply ltrans_refl];
       destruct (resolve_for cfg k s h) as [[i|]|pp|]; [|apply ltrans_refl|apply ltrans_refl|done];
       by eapply Hfin).
  all: match goal with |- context [dispatch_arch _ _ _ ?ky] => destruct (dispatch_arch d k b ky) as [h|]; [|apply ltrans_refl] end.
  all: destruct (w !! b) as [s|] eqn:Hs; [|apply ltrans_refl].
  all: destruct (resolve_for cfg k s h) as [[i|]|pp|]; [|apply ltrans_refl|apply ltrans_refl|done].
  all: specialize (Hfin b bd s colb i Hb Hs).
  all: destruct (negb (len s <=? length (ents s)) || negb (forallb (fun x => len s <=? length x) (cols s))); [done|].
  all: cbn [orb] in Hfin; destruct (negb (i <? len s)); [try done; apply ltrans_refl|exact Hfin].
Qed.

Lemma step_find_trans cfg d qs st q borrow k t r delta : (wr = true \/ delta = 0%N) -> wf_href r -> wf_ty d t -> RInv d st ->
  Tr cfg st (step cfg d qs st (OFind q borrow k t r delta)).
Proof.
  intros Hwd Hr Ht HR. unfold step; cbv beta iota. destruct (cur_world st) as [w|] eqn:Hcw; [|apply ltrans_refl]. pose proof (RInv_cur d st w HR Hcw) as HW.
  destruct (get_href st k r) as [h0|] eqn:Hg; [|apply ltrans_refl].
  pose proof (get_href_pair32 d st k r h0 HR Hr Hg) as Hh0.
  pose proof (make_key_in cfg d k t h0 Ht) as Hmk.
  destruct (make_key cfg d k t h0) as [kh|ka kh|obs] eqn:Hky; [| |apply ltrans_refl].
  all: cbv beta iota.
  2: destruct (negb (q <? 2)); [apply ltrans_refl|].
  all: destruct (qs !! q ≫= query_plan d) as [plan|] eqn:Hq; [|apply ltrans_refl].
  all: assert (Hp : wf_plan (wd_archs d) plan) by (destruct (qs !! q) as [ps|]; [|done]; by eapply query_plan_wf).
  all: match goal with |- context [find_query _ _ _ _ _ ?ky _] =>
         pose proof (find_query_wtrans cfg d w plan k ky delta h0 Hwd HW Hp Hh0 Hmk) as Hf;
         destruct (find_query cfg d w plan k ky delta) as [w' [obs ds]|p w'|]; [| |done] end.
  all: try (cbn [worlds add_directs]; by apply (ltrans_set_world cfg st w)).
  all: subst w'; apply (ltrans_set_world cfg st w); [done|apply wtrans_refl].
Qed.

Lemma step_iter_trans cfg d qs st q borrow break_at panic_at delta : (wr = true \/ delta = 0%N) -> RInv d st ->
  Tr cfg st (step cfg d qs st (OIter q borrow break_at panic_at delta)).
Proof.
  intros Hwd HR. unfold step; cbv beta iota. destruct (cur_world st) as [w|] eqn:Hcw; [|apply ltrans_refl]. pose proof (RInv_cur d st w HR Hcw) as HW.
  destruct (qs !! q ≫= query_plan d) as [plan|] eqn:Hq; [|apply ltrans_refl].
  assert (Hp : wf_plan (wd_archs d) plan) by (destruct (qs !! q) as [ps|]; [|done]; by eapply query_plan_wf).
  destruct (iter_world w plan delta 0 break_at panic_at) as [[[[w' recs] ds] stp]|] eqn:Hit; [|done].
  cbn [worlds add_directs]. apply (ltrans_set_world cfg st w); [done|]. by eapply iter_world_wtrans.
Qed.

Lemma step_iterd_trans cfg d qs st q decs : RInv d st -> Tr cfg st (step cfg d qs st (OIterD q decs)).
Proof.
  intros HR. unfold step; cbv beta iota. destruct (cur_world st) as [w|] eqn:Hcw; [|apply ltrans_refl]. pose proof (RInv_cur d st w HR Hcw) as HW.
  destruct (qs !! q ≫= query_plan d) as [plan|] eqn:Hq; [|apply ltrans_refl].
  assert (Hp : wf_plan (wd_archs d) plan) by (destruct (qs !! q) as [ps|]; [|done]; by eapply query_plan_wf).
  pose proof (iterd_world_wtrans cfg d decs (wd_archs d) w HW plan 0 (drop_in st) Hp) as Hi.
  destruct (iterd_world cfg d (wd_archs d) w plan 0 decs (drop_in st)) as [[[[w' recs] ds] din] []|p [[[w' recs] ds] din]|]; [| |done].
  all: cbn [worlds add_directs set_drop_in]; by apply (ltrans_set_world cfg st w).
Qed.

(** What the flags must allow for an operation: clearing for clear_events, writing for the write paths
    and for queries whose closure writes. *)
Definition flags_ok (o : op) : Prop :=
  match o with
  | OClearEv _ => ac = true
  | OWrite _ _ _ _ _ _ _ => wr = true
  | OFind _ _ _ _ _ delta | OIter _ _ _ _ delta => wr = true \/ delta = 0%N
  | _ => True
  end.

(** Every step of the run language moves every storage of every persisting world by elementary
    transitions; a new world is fresh or a copy of an existing one; a dropped world stays dropped. *)
Theorem step_trans cfg d qs st o : wf_decl d -> wf_op d o -> RInv d st -> hist_ok_step st o = true ->
  flags_ok o ->
  Tr cfg st (step cfg d qs st o).
Proof.
  intros Hwf Ho HR Hok Hac. destruct o; cbn [flags_ok] in Hac.
  - by apply step_new_trans.
  - by apply step_clone_trans.
  - by apply step_switch_trans.
  - by apply step_drop_trans.
  - by apply (step_create_trans cfg d qs st a v false).
  - by apply (step_create_trans cfg d qs st a v true).
  - by eapply step_keyed_trans.
  - by eapply step_keyed_trans.
  - by eapply step_keyed_trans.
  - by apply step_write_trans.
  - destruct Ho. by apply step_find_trans.
  - by apply step_simple_trans.
  - by apply step_iter_trans.
  - by apply step_iterd_trans.
  - by apply step_simple_trans.
  - by apply step_simple_trans.
  - destruct Ho. by apply step_preset_trans.
  - by apply step_simple_trans.
  - by apply step_clearev_trans.
  - by apply step_simple_trans.
  - by apply step_simple_trans.
  - by apply step_simple_trans.
  - by apply step_simple_trans.
Qed.

End with_ac.

Lemma flags_ok_true o : flags_ok true true o.
Proof. destruct o; cbn; auto. Qed.

(* ---------------------------------------------------------------- weakening: a transition that may not clear is one that may *)

Lemma estep_weaken ac wr cfg s s' : estep ac wr cfg s s' -> estep true true cfg s s'.
Proof.
  intros [s0 vs s1 h Hvs Hp|s0 vs s1 h Hvs Hp|s0 k h s1 row Hk Hd|s0 s1 HI' (A & B & C & D & E & F & V)].
  - by eapply es_push.
  - by eapply es_pushw.
  - by eapply es_destroy.
  - apply es_same; [done|]. split_and!; try done; [|by left]. destruct E as [?|(_ & ? & ?)]; [by left|by right].
Qed.

Lemma esteps_weaken ac wr cfg s s' : esteps ac wr cfg s s' -> esteps true true cfg s s'.
Proof. induction 1; [constructor|]. econstructor; [by eapply estep_weaken|done]. Qed.

Lemma wtrans_weaken ac wr cfg w w' : wtrans ac wr cfg w w' -> wtrans true true cfg w w'.
Proof. unfold wtrans. induction 1; constructor; [by eapply esteps_weaken|done]. Qed.

Lemma ltrans_weaken ac wr cfg l l' : ltrans ac wr cfg l l' -> ltrans true true cfg l l'.
Proof.
  intros (A & B & C & D & E). split_and!; try done. intros i w Hi. destruct (B i w Hi) as [?|(w' & ? & ?)]; [by left|].
  right. exists w'. split; [done|by eapply wtrans_weaken].
Qed.

(* ================================================================ whole runs *)

Lemma esteps_sreach cfg s s' : sreach true true cfg s -> esteps true true cfg s s' -> sreach true true cfg s'.
Proof. intros (s0 & H0 & Hl & Hs) Hs'. exists s0. split_and!; [done|done|by eapply (esteps_trans true true)]. Qed.

Lemma wtrans_trans cfg w1 w2 w3 : wtrans true true cfg w1 w2 -> wtrans true true cfg w2 w3 -> wtrans true true cfg w1 w3.
Proof.
  unfold wtrans. intros H12. revert w3. induction H12 as [|s1 s2 w1 w2 Hs H12 IH]; intros w3 H23; inversion H23; subst; constructor.
  - by eapply (esteps_trans true true).
  - by apply IH.
Qed.


Definition RHist (cfg : config) (d : wdecl) (st : rstate) : Prop :=
  RInv d st /\ forall i w, worlds st !! i = Some (Some w) -> Forall (sreach true true cfg) w.

Lemma ltrans_rhist cfg l l' : ltrans true true cfg l l' ->
  (forall i w, l !! i = Some (Some w) -> Forall (sreach true true cfg) w) -> forall i w', l' !! i = Some (Some w') -> Forall (sreach true true cfg) w'.
Proof.
  intros (Hlen & Hlive & Hdead & Hnew & _) Hall i w' Hi'. unfold world in *. destruct (decide (i < length l)) as [Hlt|Hge].
  - destruct (lookup_lt_is_Some_2 l i Hlt) as [[w|] Hi].
    + destruct (Hlive i w Hi) as [Hn|(w2 & Hw2 & Htr)]; [rewrite Hn in Hi'; done|]. rewrite Hi' in Hw2. injection Hw2 as <-.
      specialize (Hall i w Hi). unfold wtrans in Htr. clear Hi Hi'. induction Htr; [constructor|].
      inversion Hall; subst. constructor; [by eapply esteps_sreach|by apply IHHtr].
    + rewrite (Hdead i Hi) in Hi'. done.
  - destruct (Hnew i w' ltac:(lia) Hi') as [Hf|(j & w & Hj & ->)]; [|by eapply Hall].
    eapply Forall_impl; [exact Hf|]. intros s [HI Hl]. exists s. split_and!; [done|done|constructor].
Qed.

Lemma run_to_dropped cfg d qs ops i : wf_decl d -> forall st st', RHist cfg d st -> ok_run cfg d qs st ops = true ->
  run_to cfg d qs st ops = Some st' -> worlds st !! i = Some None -> worlds st' !! i = Some None.
Proof.
  intros Hwf. induction ops as [|o ops IH]; intros st st' [HR HS] Hok; cbn [run_to ok_run] in *.
  - by intros [= <-].
  - apply andb_true_iff in Hok as [Hok Hrest]. apply andb_true_iff in Hok as [Hwfo Hho]. apply wf_opb_true in Hwfo.
    pose proof (step_inv cfg d qs st o Hwf Hwfo HR) as Hinv. pose proof (step_trans true true cfg d qs st o Hwf Hwfo HR Hho (flags_ok_true o)) as Htr.
    destruct (step cfg d qs st o) as [[st1 obs]|]; [|done]. intros Hrun Hn.
    eapply (IH st1); [split; [done|by eapply ltrans_rhist]|done|done|]. by apply (proj1 (proj2 (proj2 Htr))).
Qed.

Lemma wtrans_trans_ac ac wr cfg w1 w2 w3 : wtrans ac wr cfg w1 w2 -> wtrans ac wr cfg w2 w3 -> wtrans ac wr cfg w1 w3.
Proof.
  unfold wtrans. intros H12. revert w3. induction H12 as [|s1 s2 w1 w2 Hs H12 IH]; intros w3 H23; inversion H23; subst; constructor.
  - by eapply esteps_trans.
  - by apply IH.
Qed.

(** Along a run, the storages of a persisting world move by transitions; if no operation of the
    segment is clear_events, by transitions that keep or extend the event logs. *)
Lemma run_to_rhist_gen ac wr cfg d qs ops : wf_decl d -> Forall (flags_ok ac wr) ops ->
  forall st st', RHist cfg d st -> ok_run cfg d qs st ops = true ->
  run_to cfg d qs st ops = Some st' -> RHist cfg d st' /\
  (forall i w w', worlds st !! i = Some (Some w) -> worlds st' !! i = Some (Some w') -> wtrans ac wr cfg w w').
Proof.
  intros Hwf Hcl. induction Hcl as [|o ops Hco Hcl IH]; intros st st' [HR HS] Hok; cbn [run_to ok_run] in *.
  - intros [= <-]. split; [done|]. intros i w w' Hw Hw'. rewrite Hw in Hw'. injection Hw' as <-. apply wtrans_refl.
  - apply andb_true_iff in Hok as [Hok Hrest]. apply andb_true_iff in Hok as [Hwfo Hho]. apply wf_opb_true in Hwfo.
    pose proof (step_inv cfg d qs st o Hwf Hwfo HR) as Hinv. pose proof (step_trans ac wr cfg d qs st o Hwf Hwfo HR Hho Hco) as Htr.
    destruct (step cfg d qs st o) as [[st1 obs]|]; [|done]. intros Hrun.
    assert (HH1 : RHist cfg d st1) by (split; [done|eapply ltrans_rhist; [by eapply ltrans_weaken|done]]).
    destruct (IH st1 st' HH1 Hrest Hrun) as [HH' Hpath]. split; [done|].
    intros i w w' Hw Hw'. destruct Htr as (_ & Hlive & Hdead & _).
    destruct (Hlive i w Hw) as [Hn|(w1 & Hw1 & Ht1)].
    + exfalso. pose proof (run_to_dropped cfg d qs ops i Hwf st1 st' HH1 Hrest Hrun Hn) as Hn'. rewrite Hn' in Hw'. done.
    + eapply wtrans_trans_ac; [exact Ht1|]. by eapply Hpath.
Qed.

Lemma run_to_rhist cfg d qs ops : wf_decl d -> forall st st', RHist cfg d st -> ok_run cfg d qs st ops = true ->
  run_to cfg d qs st ops = Some st' -> RHist cfg d st' /\
  (forall i w w', worlds st !! i = Some (Some w) -> worlds st' !! i = Some (Some w') -> wtrans true true cfg w w').
Proof.
  intros Hwf. apply run_to_rhist_gen; [done|]. apply Forall_forall. intros o _. apply flags_ok_true.
Qed.

Lemma rs0_rhist cfg d : RHist cfg d rs0.
Proof. split; [apply rs0_inv|]. intros i w Hi. by destruct i. Qed.

Lemma wtrans_lookup cfg w w' a s s' : wtrans true true cfg w w' -> w !! a = Some s -> w' !! a = Some s' -> esteps true true cfg s s'.
Proof. intros Ht Hs Hs'. by eapply (Forall2_lookup_lr _ _ _ _ _ _ Ht). Qed.

(** C01 for whole histories of the run language (any number of worlds, archetypes, creations,
    destructions with genuine, forged, foreign or direct keys, queries, ecs_iter_destroy!, clones,
    drops, panics): if handle [e] is stored in archetype [a] of world [i] after [ops1], and no longer
    after [ops1 ++ ops2], then after [ops1 ++ ops2 ++ ops3] it is still not stored and the slot lookup
    rejects it, however often its slot was reused in between. *)
Theorem run_stale_forever cfg d qs ops1 ops2 ops3 st1 st2 st3 i a w1 w2 w3 s1 s2 s3 e :
  hist_case cfg d qs (ops1 ++ ops2 ++ ops3) = true ->
  run_to cfg d qs rs0 ops1 = Some st1 -> run_to cfg d qs st1 ops2 = Some st2 -> run_to cfg d qs st2 ops3 = Some st3 ->
  worlds st1 !! i = Some (Some w1) -> worlds st2 !! i = Some (Some w2) -> worlds st3 !! i = Some (Some w3) ->
  w1 !! a = Some s1 -> w2 !! a = Some s2 -> w3 !! a = Some s3 ->
  key32 e -> e ∈ ents s1 -> e ∉ ents s2 ->
  e ∉ ents s3 /\ resolve_entity cfg s3 e = ROk None.
Proof.
  unfold hist_case. intros Hc R1 R2 R3 W1 W2 W3 S1 S2 S3 Hk He1 He2.
  apply andb_true_iff in Hc as [Hc Hok]. apply andb_true_iff in Hc as [Hw Hd]. apply negb_true_iff in Hw. apply wf_declb_true in Hd.
  assert (Hsplit : forall opsA opsB st stA, ok_run cfg d qs st (opsA ++ opsB) = true -> run_to cfg d qs st opsA = Some stA ->
            ok_run cfg d qs st opsA = true /\ ok_run cfg d qs stA opsB = true).
  { induction opsA as [|o opsA IH]; intros opsB st stA; cbn [app ok_run run_to]; [by intros ? [= <-]|].
    intros H. apply andb_true_iff in H as [H1 H2]. destruct (step cfg d qs st o) as [[stx obs]|]; [|done]. intros Hr.
    destruct (IH opsB stx stA H2 Hr) as [? ?]. split; [|done]. by rewrite H1. }
  destruct (Hsplit ops1 (ops2 ++ ops3) rs0 st1 Hok R1) as [Hok1 Hok23].
  destruct (Hsplit ops2 ops3 st1 st2 Hok23 R2) as [Hok2 Hok3].
  destruct (run_to_rhist cfg d qs ops1 Hd rs0 st1 (rs0_rhist cfg d) Hok1 R1) as [HH1 _].
  destruct (run_to_rhist cfg d qs ops2 Hd st1 st2 HH1 Hok2 R2) as [HH2 P12].
  destruct (run_to_rhist cfg d qs ops3 Hd st2 st3 HH2 Hok3 R3) as [HH3 P23].
  assert (Hr1 : sreach true true cfg s1). { destruct HH1 as [_ HS]. eapply Forall_lookup_1; [exact (HS i w1 W1)|exact S1]. }
  eapply (stale_forever true true cfg s1 s2 s3 e Hw Hr1 Hk He1); [|done|].
  - eapply wtrans_lookup; [exact (P12 i w1 w2 W1 W2)|done|done].
  - eapply wtrans_lookup; [exact (P23 i w2 w3 W2 W3)|done|done].
Qed.

Lemma ok_run_split cfg d qs opsA : forall opsB st stA, ok_run cfg d qs st (opsA ++ opsB) = true -> run_to cfg d qs st opsA = Some stA ->
  ok_run cfg d qs st opsA = true /\ ok_run cfg d qs stA opsB = true.
Proof.
  induction opsA as [|o opsA IH]; intros opsB st stA; cbn [app ok_run run_to]; [by intros ? [= <-]|].
  intros H. apply andb_true_iff in H as [H1 H2]. destruct (step cfg d qs st o) as [[stx obs]|]; [|done]. intros Hr.
  destruct (IH opsB stx stA H2 Hr) as [? ?]. split; [|done]. by rewrite H1.
Qed.

(** Two points of one history: the storage of archetype [a] of world [i] at the earlier point reaches
    the one at the later point by elementary transitions, and was itself reached from an empty storage. *)
Lemma run_two_points cfg d qs ops1 ops2 st1 st2 i a w1 w2 s1 s2 :
  hist_case cfg d qs (ops1 ++ ops2) = true ->
  run_to cfg d qs rs0 ops1 = Some st1 -> run_to cfg d qs st1 ops2 = Some st2 ->
  worlds st1 !! i = Some (Some w1) -> worlds st2 !! i = Some (Some w2) -> w1 !! a = Some s1 -> w2 !! a = Some s2 ->
  wrapping cfg = false /\ sreach true true cfg s1 /\ esteps true true cfg s1 s2.
Proof.
  unfold hist_case. intros Hc R1 R2 W1 W2 S1 S2.
  apply andb_true_iff in Hc as [Hc Hok]. apply andb_true_iff in Hc as [Hw Hd]. apply negb_true_iff in Hw. apply wf_declb_true in Hd.
  destruct (ok_run_split cfg d qs ops1 ops2 rs0 st1 Hok R1) as [Hok1 Hok2].
  destruct (run_to_rhist cfg d qs ops1 Hd rs0 st1 (rs0_rhist cfg d) Hok1 R1) as [HH1 _].
  destruct (run_to_rhist cfg d qs ops2 Hd st1 st2 HH1 Hok2 R2) as [HH2 P12].
  split_and!; [done| |].
  - destruct HH1 as [_ HS]. eapply Forall_lookup_1; [exact (HS i w1 W1)|exact S1].
  - eapply wtrans_lookup; [exact (P12 i w1 w2 W1 W2)|done|done].
Qed.

(** C08 for whole histories: a create never returns a handle that was stored in that archetype of
    that world at any earlier point of the history. *)
Theorem run_create_fresh cfg d qs ops1 ops2 st1 st2 i a w1 w2 s1 s2 e vs s3 h :
  hist_case cfg d qs (ops1 ++ ops2) = true ->
  run_to cfg d qs rs0 ops1 = Some st1 -> run_to cfg d qs st1 ops2 = Some st2 ->
  worlds st1 !! i = Some (Some w1) -> worlds st2 !! i = Some (Some w2) -> w1 !! a = Some s1 -> w2 !! a = Some s2 ->
  e ∈ ents s1 -> length vs = length (cols s2) -> push cfg s2 vs = Ok s3 h -> h <> e.
Proof.
  intros Hc R1 R2 W1 W2 S1 S2 He Hvs Hp.
  destruct (run_two_points cfg d qs ops1 ops2 st1 st2 i a w1 w2 s1 s2 Hc R1 R2 W1 W2 S1 S2) as (Hw & Hr & Hs).
  by eapply (created_never_seen_before true true cfg s1 s2 vs s3 h e).
Qed.

(** C01, acceptance: a handle that was stored at an earlier point is accepted by the slot lookup at a
    later point exactly when it is still stored there, and then it designates its own position. *)
Theorem run_accepted_iff_stored cfg d qs ops1 ops2 st1 st2 i a w1 w2 s1 s2 e :
  hist_case cfg d qs (ops1 ++ ops2) = true ->
  run_to cfg d qs rs0 ops1 = Some st1 -> run_to cfg d qs st1 ops2 = Some st2 ->
  worlds st1 !! i = Some (Some w1) -> worlds st2 !! i = Some (Some w2) -> w1 !! a = Some s1 -> w2 !! a = Some s2 ->
  key32 e -> e ∈ ents s1 ->
  ((exists si dd, resolve_entity cfg s2 e = ROk (Some (si, dd))) <-> e ∈ ents s2) /\
  (forall si dd, resolve_entity cfg s2 e = ROk (Some (si, dd)) -> ents s2 !! dd = Some e).
Proof.
  intros Hc R1 R2 W1 W2 S1 S2 Hk He.
  destruct (run_two_points cfg d qs ops1 ops2 st1 st2 i a w1 w2 s1 s2 Hc R1 R2 W1 W2 S1 S2) as (Hw & Hr & Hs).
  destruct (sreach_hist2 true true cfg s1 Hw Hr) as (HI1 & iss1 & dead1 & H1).
  destruct (esteps_hist2 true true cfg s1 s2 iss1 dead1 Hw HI1 H1 Hs) as (HI2 & iss2 & dead2 & H2 & S12 & _).
  assert (Hiss : e ∈ iss2). { apply S12. apply elem_of_list_lookup in He as (j & Hj). exact (h_stored s1 iss1 (h2_hist _ _ _ H1) j e Hj). }
  pose proof (issued_accepted_iff_stored cfg s2 iss2 e HI2 (h2_hist _ _ _ H2) Hiss Hk) as Hiff.
  split.
  - rewrite Hiff. split; [intros (dd & Hd); by eapply elem_of_list_lookup_2|intros (dd & Hd)%elem_of_list_lookup; eauto].
  - intros si dd Hres. destruct (h_shape s2 iss2 (h2_hist _ _ _ H2) e Hiss) as (Hf & Hc2).
    eapply resolve_entity_exact; [done|done| |done].
    rewrite Hf. apply key_arch_id_pack; [by eapply cap_lt_pow24|apply (i_aid s2 HI2)].
Qed.
