(** Lookups on a storage that satisfies the invariant: soundness (an accepted key designates the
    entity stored at the returned index, whose handle agrees with the key), completeness (every
    stored handle is accepted) and absence of undefined behaviour for every 64-bit key. *)
From Coq Require Import NArith Lia Bool.
From stdpp Require Import base list numbers option sets.
From Gecs Require Import Prim ExtrBits ExtrVersion ExtrStorage Storage BitsFacts VersionFacts StorageInv.
Local Open Scope nat_scope.
Set Default Proof Using "Type".

Definition key32 (h : handle) : Prop := (fst h < 2^32)%N.

Lemma hslot_lt h : key32 h -> (hslot h < 2^24)%N.
Proof. intros H. unfold hslot. by apply key_index_lt. Qed.

(** A key that names archetype [id] and shares slot index with a handle packed for [id] has the same key word. *)
Lemma key_eq_of_slot_id k1 k2 id : (k1 < 2^32)%N -> key_arch_id k1 = id -> k2 = pack_key (key_index k2) id ->
  key_index k1 = key_index k2 -> k1 = k2.
Proof. intros H1 Hid H2 Hidx. rewrite H2, <- Hidx, <- Hid. symmetry. by apply pack_unpack. Qed.

Section resolve.
  Context (cfg : config) (s : storage) (HI : Inv s).

  Lemma resolve_entity_complete d e : ents s !! d = Some e -> resolve_entity cfg s e = ROk (Some (eslot e, d)).
  Proof using HI.
    intros Hd. destruct (fwd' s d e HI Hd) as (Hs & Hf & Hc & Hdl & Hh).
    pose proof (i_le s HI) as Hle.
    unfold resolve_entity.
    assert ((len s <=? cap s) = true) as -> by (apply Nat.leb_le; done). rewrite andb_false_r.
    unfold re_guard_empty. destruct (N.eqb_spec (N.of_nat (len s)) 0) as [|_]; [lia|].
    assert (trimmed_ok_u32 (hslot e) = true) as ->.
    { apply trimmed_ok_spec. rewrite Hh. by eapply cap_lt_pow24. }
    cbn [negb]. unfold re_guard_oob. rewrite Hh.
    destruct (N.leb_spec (N.of_nat (cap s)) (N.of_nat (eslot e))) as [|_]; [lia|].
    rewrite Nat2N.id, Hs. cbn [s_ver s_idx sidx_is_free]. unfold re_guard_stale, neqb. rewrite N.eqb_refl. cbn [negb orb].
    assert ((d <? len s) = true) as -> by (apply Nat.ltb_lt; done). cbn [negb].
    rewrite Hd. rewrite Hh, !N.eqb_refl. cbn [negb orb]. by destruct (debug cfg).
  Qed.

  (** Every outcome of resolve_entity on an arbitrary 32-bit key. *)
  Lemma resolve_entity_cases h : key32 h ->
    match resolve_entity cfg s h with
    | ROk (Some (si, d)) =>
        exists e, ents s !! d = Some e /\ eslot e = si /\ hslot h = hslot e /\ snd h = snd e /\ si = N.to_nat (hslot h)
    | ROk None => True
    | RPanic p => p = PDebug /\ debug cfg = true /\ (N.of_nat (cap s) <= hslot h)%N /\ 0 < len s
    | RUB => False
    end.
  Proof using HI.
    intros Hk. pose proof (i_le s HI) as Hle. pose proof (hslot_lt h Hk) as Hs24.
    unfold resolve_entity.
    assert ((len s <=? cap s) = true) as -> by (apply Nat.leb_le; done). rewrite andb_false_r.
    unfold re_guard_empty. destruct (N.eqb_spec (N.of_nat (len s)) 0) as [|Hne]; [done|].
    assert (trimmed_ok_u32 (hslot h) = true) as -> by (by apply trimmed_ok_spec). cbn [negb].
    unfold re_guard_oob. destruct (N.leb_spec (N.of_nat (cap s)) (hslot h)) as [Hoob|Hin].
    { destruct (debug cfg) eqn:Hdbg; [|done]. split_and!; [done|done|done|lia]. }
    assert (Hlt : N.to_nat (hslot h) < length (slots s)) by (rewrite (i_lslots s HI); lia).
    destruct (lookup_lt_is_Some_2 _ _ Hlt) as [x Hx]. rewrite Hx.
    unfold re_guard_stale, neqb. destruct (N.eqb_spec (s_ver x) (snd h)) as [Hv|Hv]; [|done]. cbn [negb orb].
    destruct (s_idx x) as [d| |] eqn:Hidx; cbn [sidx_is_free]; [|done|done].
    destruct (bwd' s _ x d HI Hx Hidx) as (e & He & Hes & Hev).
    destruct (fwd' s d e HI He) as (_ & _ & _ & Hdl & Hhe).
    assert (Hh : hslot e = hslot h) by (rewrite Hhe, Hes; lia).
    assert ((d <? len s) = true) as -> by (apply Nat.ltb_lt; done). cbn [negb].
    rewrite He, Hh, N.eqb_refl. rewrite Hev, Hv, N.eqb_refl. cbn [negb orb].
    assert (Hgoal : exists e0, ents s !! d = Some e0 /\ eslot e0 = N.to_nat (hslot h) /\ hslot h = hslot e0 /\ snd h = snd e0 /\ N.to_nat (hslot h) = N.to_nat (hslot h)).
    { exists e. split_and!; try done. congruence. }
    by destruct (debug cfg).
  Qed.

  (** If the key also carries this archetype's id, it is bit-identical to the stored handle. *)
  Lemma resolve_entity_exact h si d : key32 h -> key_arch_id (fst h) = aid s ->
    resolve_entity cfg s h = ROk (Some (si, d)) -> ents s !! d = Some h.
  Proof using HI.
    intros Hk Hid Hr. pose proof (resolve_entity_cases h Hk) as Hc. rewrite Hr in Hc.
    destruct Hc as (e & He & _ & Hsl & Hv & _). rewrite He. f_equal.
    destruct (fwd' s d e HI He) as (_ & Hf & _ & _ & Hhe).
    destruct h as [hk hv], e as [ek ev]. simpl in *. subst. f_equal.
    symmetry. eapply key_eq_of_slot_id; [exact Hk|reflexivity| |exact Hsl].
    unfold hslot in Hhe. simpl in Hhe. rewrite Hhe. by rewrite Hid.
  Qed.

  Lemma resolve_direct_cases h : key32 h ->
    match resolve_direct cfg s h with
    | ROk (Some (si, d)) =>
        snd h = version s /\ d = N.to_nat (hdense h) /\ d < len s /\ exists e, ents s !! d = Some e /\ eslot e = si
    | ROk None => len s = 0 \/ snd h <> version s \/ (N.of_nat (len s) <= hdense h)%N
    | RPanic p => p = PDebug /\ debug cfg = true /\ snd h = version s /\ (N.of_nat (len s) <= hdense h)%N /\ 0 < len s
    | RUB => False
    end.
  Proof using HI.
    intros Hk. pose proof (i_le s HI) as Hle.
    assert (Hd24 : (hdense h < 2^24)%N) by (unfold hdense; rewrite dkey_index_eq; by apply key_index_lt).
    unfold resolve_direct.
    assert ((len s <=? cap s) = true) as -> by (apply Nat.leb_le; done). rewrite andb_false_r.
    unfold rd_guard_empty. destruct (N.eqb_spec (N.of_nat (len s)) 0) as [|Hne]; [left; lia|].
    unfold rd_guard_version, neqb. destruct (N.eqb_spec (snd h) (version s)) as [Hv|Hv]; [|right; by left]. cbn [negb].
    assert (trimmed_ok_u32 (hdense h) = true) as -> by (by apply trimmed_ok_spec). cbn [negb].
    unfold rd_guard_oob. destruct (N.leb_spec (N.of_nat (len s)) (hdense h)) as [Hoob|Hin].
    { destruct (debug cfg) eqn:Hdbg; [split_and!; try done; lia|right; by right]. }
    assert (Hlt : N.to_nat (hdense h) < length (ents s)) by (rewrite (i_lents s HI); lia).
    destruct (lookup_lt_is_Some_2 _ _ Hlt) as [e He]. rewrite He.
    destruct (fwd' s _ e HI He) as (Hs & _ & Hc & Hdl & Hhe).
    assert (trimmed_ok_u32 (hslot e) = true) as -> by (apply trimmed_ok_spec; rewrite Hhe; by eapply cap_lt_pow24).
    cbn [negb].
    assert (Hgoal : snd h = version s /\ N.to_nat (hdense h) = N.to_nat (hdense h) /\ N.to_nat (hdense h) < len s /\
                    exists e0, ents s !! N.to_nat (hdense h) = Some e0 /\ eslot e0 = N.to_nat (hslot e)).
    { split_and!; try done. exists e. done. }
    destruct (debug cfg); [|done].
    rewrite Hhe. destruct (N.ltb_spec (N.of_nat (eslot e)) (N.of_nat (cap s))) as [_|]; [|lia]. cbn [negb].
    rewrite Nat2N.id, Hs. cbn [s_ver s_idx sidx_is_free]. rewrite N.eqb_refl. cbn [negb orb].
    exact Hgoal.
  Qed.

  Lemma resolve_direct_complete h d e : key32 h -> snd h = version s -> hdense h = N.of_nat d -> ents s !! d = Some e ->
    resolve_direct cfg s h = ROk (Some (eslot e, d)).
  Proof using HI.
    intros Hk Hv Hd He. pose proof (resolve_direct_cases h Hk) as Hc.
    assert (Hdl : d < len s) by (rewrite <- (i_lents s HI); by eapply lookup_lt_Some).
    destruct (resolve_direct cfg s h) as [[[si d']|]|p|]; try done.
    - destruct Hc as (_ & -> & _ & e' & He' & <-). rewrite Hd, Nat2N.id in *. rewrite He in He'. by injection He' as <-.
    - destruct Hc as [Hc|[Hc|Hc]]; [lia|done|lia].
    - destruct Hc as (_ & _ & _ & Hc & _). lia.
  Qed.
End resolve.
