(** C11 at the level of whole runtime-borrow programs: no execution ever holds aliasing guards.
    [in_force] collects every guard list under which some command of a program (or of a closure body
    nested in it, to any depth) starts executing; every such list is realisable by RefCell ([wf]: a
    mutable guard is alone on its cell).  [bexec_step] / [bexec_find_body] tie the guard lists of
    [in_force] to the ones the executable model [bexec] continues with. *)
From Coq Require Import NArith Bool Lia.
From stdpp Require Import base list numbers option.
From Gecs Require Import Prim ExtrBits Storage Query World Borrow BorrowFacts.
Local Open Scope nat_scope.

(** The frame after one command that is not a panic (what [bexec] continues the list with). *)
Definition frame_after (d : wdecl) (w : world) (issued : list handle) (outer frame : list bguard) (cmd : bcmd) : list bguard :=
  match cmd with
  | BRel => match frame with [] => frame | _ => removelast frame end
  | BHs a c m =>
      match wd_archs d !! a ≫= (fun ad => index_of c (arch_comps ad)), w !! a with
      | Some col, Some s => if conflicts (outer ++ frame) a col m then frame else frame ++ [(a, col, m)]
      | _, _ => frame
      end
  | BHc a c m k =>
      match issued !! k with
      | None => frame
      | Some h =>
          match wd_archs d !! a, w !! a with
          | Some ad, Some s =>
              match index_of c (arch_comps ad) with
              | None => frame
              | Some col =>
                  if negb (conv_ok (fst h) (da_id ad)) then frame
                  else match resolve_for (Config false false false) KEnt s h with
                       | ROk (Some i) =>
                           if conflicts (outer ++ frame) a col m then frame
                           else match cols s !! col ≫= (fun cl => cl !! i) with
                                | Some v => frame ++ [(a, col, m)]
                                | None => frame
                                end
                       | _ => frame
                       end
              end
          | _, _ => frame
          end
      end
  | _ => frame
  end.

(** One command that is not a panic: [bexec] emits its records and continues the list with [frame_after]. *)
Lemma bexec_step fuel d qs w issued outer frame cmd rest : cmd <> BPn ->
  exists recs, bexec (S fuel) d qs w issued outer frame (cmd :: rest) =
    (recs ++ fst (bexec fuel d qs w issued outer (frame_after d w issued outer frame cmd) rest),
     snd (bexec fuel d qs w issued outer (frame_after d w issued outer frame cmd) rest)).
Proof.
  intros Hne.
  assert (G : forall recs fr, (let '(rs, p) := bexec fuel d qs w issued outer fr rest in (recs ++ rs, p)) =
                              (recs ++ fst (bexec fuel d qs w issued outer fr rest), snd (bexec fuel d qs w issued outer fr rest))).
  { intros recs fr. by destruct (bexec fuel d qs w issued outer fr rest). }
  destruct cmd as [a c m k|a c m| |q k body|q body| |]; cbn [bexec frame_after]; try done.
  - destruct (issued !! k) as [h|]; [|eexists; apply G].
    destruct (wd_archs d !! a) as [ad|]; [|eexists; apply G]. destruct (w !! a) as [s|]; [|eexists; apply G].
    destruct (index_of c (arch_comps ad)) as [col|]; [|eexists; apply G].
    destruct (negb (conv_ok (fst h) (da_id ad))); [eexists; apply G|].
    destruct (resolve_for _ KEnt s h) as [[i|]|p|]; try (eexists; apply G).
    destruct (conflicts (outer ++ frame) a col m); [eexists; apply G|].
    destruct (cols s !! col ≫= _); eexists; apply G.
  - destruct (wd_archs d !! a ≫= _) as [col|]; [|eexists; apply G]. destruct (w !! a) as [s|]; [|eexists; apply G].
    destruct (conflicts (outer ++ frame) a col m); eexists; apply G.
  - destruct frame; eexists; apply G.
  - eexists; apply G.
  - eexists; apply G.
  - eexists; apply G.
Qed.

(** The body of an ecs_find_borrow! closure runs in a fresh frame under exactly the guards [acquire_all] grants. *)
Lemma bexec_find_body fuel d qs w issued outer frame q k body rest h plan a acc s i held' r :
  issued !! k = Some h -> qs !! q ≫= query_plan d = Some plan ->
  find_arch (wd_archs d) (key_arch_id (fst h)) = Some a -> plan !! a = Some (Some acc) -> w !! a = Some s ->
  resolve_for (Config false false false) KEnt s h = ROk (Some i) ->
  acquire_all (outer ++ frame) (acc_guards a acc) = Some held' -> closure_record s i acc = Some r ->
  exists after, fst (bexec (S fuel) d qs w issued outer frame (BFb q k body :: rest)) =
                brec r ++ fst (bexec fuel d qs w issued held' [] body) ++ after.
Proof.
  intros Hk Hq Hf Hp Hs Hr Ha Hc. cbn [bexec]. rewrite Hk, Hq, Hf, Hp, Hs, Hr, Ha, Hc.
  destruct (bexec fuel d qs w issued held' [] body) as [rs p]. cbn [fst].
  destruct (bexec fuel d qs w issued outer frame rest) as [rs2 p2]. cbn [fst].
  eexists. rewrite <- !app_assoc. reflexivity.
Qed.

(* ---------------------------------------------------------------- wf is kept *)

Lemma guards_on_removelast held a col : exists g, guards_on held a col = guards_on (removelast held) a col ++ g /\ length g <= 1 /\
  (forall x, x ∈ g -> x ∈ guards_on held a col).
Proof.
  destruct held as [|x l] using rev_ind; [exists []; cbn; split_and!; [done|lia|done]|].
  rewrite removelast_last. unfold guards_on. rewrite list.filter_app. rewrite filter_cons, filter_nil.
  destruct (decide (on_cell a col x = true)).
  - exists [x]. split_and!; [done|cbn; lia|]. intros y Hy. apply elem_of_app. by right.
  - exists []. rewrite app_nil_r. split_and!; [done|cbn; lia|]. intros y Hy. by apply elem_of_nil in Hy.
Qed.

Lemma wf_removelast held : wf held -> wf (removelast held).
Proof.
  intros Hw a col Hm. destruct (guards_on_removelast held a col) as (g & Hg & Hl & _).
  assert (Hm' : existsb is_mut (guards_on held a col) = true) by (rewrite Hg, existsb_app, Hm; done).
  specialize (Hw a col Hm'). rewrite Hg, app_length in Hw.
  destruct (guards_on (removelast held) a col) as [|y l]; [done|]. cbn [length] in *. lia.
Qed.

Lemma removelast_app_r {A} (l f : list A) : f <> [] -> removelast (l ++ f) = l ++ removelast f.
Proof. intros Hf. by apply removelast_app. Qed.

Lemma frame_after_wf d w issued outer frame cmd : wf (outer ++ frame) -> wf (outer ++ frame_after d w issued outer frame cmd).
Proof.
  intros Hw. destruct cmd as [a c m k|a c m| |q k body|q body| |]; cbn [frame_after]; try done.
  - destruct (issued !! k) as [h|]; [|done]. destruct (wd_archs d !! a) as [ad|]; [|done]. destruct (w !! a) as [s|]; [|done].
    destruct (index_of c (arch_comps ad)) as [col|]; [|done]. destruct (negb _); [done|].
    destruct (resolve_for _ KEnt s h) as [[i|]|p|]; try done.
    destruct (conflicts (outer ++ frame) a col m) eqn:Hc; [done|]. destruct (cols s !! col ≫= _); [|done].
    rewrite app_assoc. by apply acquire_wf.
  - destruct (wd_archs d !! a ≫= _) as [col|]; [|done]. destruct (w !! a) as [s|]; [|done].
    destruct (conflicts (outer ++ frame) a col m) eqn:Hc; [done|]. rewrite app_assoc. by apply acquire_wf.
  - destruct frame as [|x l]; [done|]. rewrite <- removelast_app_r by done. by apply wf_removelast.
Qed.

Lemma acquire_all_wf gs : forall held held', wf held -> acquire_all held gs = Some held' -> wf held'.
Proof.
  induction gs as [|[[a c] m] r IH]; intros held held' Hw; cbn [acquire_all]; [by intros [= <-]|].
  destruct (conflicts held a c m) eqn:Hc; [done|]. apply IH. by apply acquire_wf.
Qed.

(* ---------------------------------------------------------------- every guard list in force *)

(** [in_force outer frame cmds H]: during the execution of [cmds] in a frame holding [frame] under the
    enclosing guards [outer], some command - of the list itself or of a closure body nested in it at any
    depth - starts executing while exactly the guards [H] are held.  (For ecs_iter_borrow! every visit of
    every matched archetype is included, whether or not an earlier visit panicked.) *)
Inductive in_force (d : wdecl) (qs : list (list qparam)) (w : world) (issued : list handle) :
    list bguard -> list bguard -> list bcmd -> list bguard -> Prop :=
  | if_here outer frame cmd rest : in_force d qs w issued outer frame (cmd :: rest) (outer ++ frame)
  | if_rest outer frame cmd rest H : cmd <> BPn ->
      in_force d qs w issued outer (frame_after d w issued outer frame cmd) rest H ->
      in_force d qs w issued outer frame (cmd :: rest) H
  | if_find outer frame q k body rest h plan a acc s i held' H :
      issued !! k = Some h -> qs !! q ≫= query_plan d = Some plan ->
      find_arch (wd_archs d) (key_arch_id (fst h)) = Some a -> plan !! a = Some (Some acc) -> w !! a = Some s ->
      resolve_for (Config false false false) KEnt s h = ROk (Some i) ->
      acquire_all (outer ++ frame) (acc_guards a acc) = Some held' ->
      in_force d qs w issued held' [] body H ->
      in_force d qs w issued outer frame (BFb q k body :: rest) H
  | if_iter outer frame q body rest plan a acc held' H :
      qs !! q ≫= query_plan d = Some plan -> plan !! a = Some (Some acc) ->
      acquire_all (outer ++ frame) (acc_guards a acc) = Some held' ->
      in_force d qs w issued held' [] body H ->
      in_force d qs w issued outer frame (BIb q body :: rest) H.

(** No execution holds aliasing guards: started from a realisable guard list (the harness starts from
    none), every guard list ever in force is realisable - a mutable guard is alone on its column. *)
Theorem in_force_wf d qs w issued outer frame cmds H :
  in_force d qs w issued outer frame cmds H -> wf (outer ++ frame) -> wf H.
Proof.
  induction 1 as [| outer frame cmd rest H Hne _ IH | outer frame q k body rest h plan a acc s i held' H _ _ _ _ _ _ Ha _ IH
                  | outer frame q body rest plan a acc held' H _ _ Ha _ IH]; intros Hw.
  - done.
  - apply IH. by apply frame_after_wf.
  - apply IH. rewrite app_nil_r. by eapply acquire_all_wf.
  - apply IH. rewrite app_nil_r. by eapply acquire_all_wf.
Qed.

Corollary program_never_aliases d qs w issued prog H : in_force d qs w issued [] [] prog H -> wf H.
Proof. intros Hi. apply (in_force_wf _ _ _ _ _ _ _ _ Hi). intros a col. done. Qed.
