(** Model of macros/src/data.rs (DataWorld::new, evaluate_cfgs, advance_attribute_id) and of the
    cfg plumbing around it (collect_all_cfg_predicates, the lookup table built by ParseCfgDecorated).
    Names are natural numbers (the code only compares them); ids are u8 values in [N].
    The first id and the successor rule are the expressions translated from data.rs. *)
From Coq Require Import NArith Bool.
From stdpp Require Import base list numbers option.
From Gecs Require Import Prim ExtrMacro Query.
Local Open Scope nat_scope.

Record pcomp := PC { pc_cfgs : list nat; pc_id : option N; pc_name : nat }.
Record parch := PA { pa_cfgs : list nat; pa_id : option N; pa_name : nat; pa_comps : list pcomp }.

(** collect_all_cfg_predicates: first appearance order, duplicates dropped. *)
Fixpoint dedup_into (seen : list nat) (l : list nat) : list nat :=
  match l with
  | [] => seen
  | p :: r => if existsb (Nat.eqb p) seen then dedup_into seen r else dedup_into (seen ++ [p]) r
  end.

Definition world_predicates (w : list parch) : list nat :=
  dedup_into [] (concat ((fun a => pa_cfgs a ++ concat (pc_cfgs <$> pa_comps a)) <$> w)).

Definition query_predicates (ps : list qparam) : list nat := dedup_into [] (concat (p_cfgs <$> ps)).

(** The cfg-probing macro_rules! chain (generate/cfg.rs): one link per collected predicate; rustc keeps,
    of the two definitions of a link, the one whose #[cfg] holds; that link extends the list of
    booleans received so far and calls the next link.  [pos]/[neg]: what the link kept when the
    predicate is true / false does (translated from the templates): (appends?, literal). *)
Definition chain_step (pos neg : bool * bool) (bools : list bool) (t : bool) : list bool :=
  let '(app, lit) := if t then pos else neg in
  if app then bools ++ [lit] else lit :: bools.

Definition cfg_chain (pos neg : bool * bool) (truth : nat -> bool) (preds : list nat) : list bool :=
  fold_left (fun bools p => chain_step pos neg bools (truth p)) preds [].

(** The lookup table: zip of the collected predicates with the boolean list the cfg macro chain delivered. *)
Definition cfg_lookup (preds : list nat) (states : list bool) (p : nat) : option bool :=
  (fun x => snd (snd x)) <$> list_find (fun x => fst x = p) (zip preds states).

(** evaluate_cfgs: every predicate must be true; a predicate missing from the table is the `unwrap` panic. *)
Fixpoint evaluate_cfgs (lk : nat -> option bool) (cfgs : list nat) : option bool :=
  match cfgs with
  | [] => Some true
  | p :: r => match lk p with
              | None => None
              | Some false => Some false
              | Some true => evaluate_cfgs lk r
              end
  end.

Inductive data_err :=
  | EExceeds (name : nat)                  (* "attribute id may not exceed 255" *)
  | EAssigned (id : N) (name holder : nat) (* "attribute id N is already assigned to holder" *)
  | ELookupPanic
  | EParse.                                (* the declaration does not parse (an explicit id above 255) *)

(** advance_attribute_id: explicit id, else checked successor of the last, else the first id;
    then the collision map. [ids] is the map as an association list (id, holder). *)
Definition advance_attribute_id (explicit : option N) (name : nat) (ids : list (N * nat)) (last : option N)
  : data_err + (N * list (N * nat)) :=
  let next :=
    match explicit with
    | Some i => inr i
    | None => match last with
              | Some l => match attr_succ l with Some n => inr n | None => inl (EExceeds name) end
              | None => inr attr_first
              end
    end in
  match next with
  | inl e => inl e
  | inr n =>
      match list_find (fun x => fst x = n) ids with
      | Some (_, (_, holder)) => inl (EAssigned n name holder)
      | None => inr (n, ids ++ [(n, name)])
      end
  end.

Fixpoint data_components (lk : nat -> option bool) (cs : list pcomp) (ids : list (N * nat)) (last : option N)
  : data_err + list dcomp :=
  match cs with
  | [] => inr []
  | c :: r =>
      match evaluate_cfgs lk (pc_cfgs c) with
      | None => inl ELookupPanic
      | Some false => data_components lk r ids last
      | Some true =>
          match advance_attribute_id (pc_id c) (pc_name c) ids last with
          | inl e => inl e
          | inr (i, ids') =>
              match data_components lk r ids' (Some i) with
              | inl e => inl e
              | inr ds => inr (DC i (pc_name c) :: ds)
              end
          end
      end
  end.

Fixpoint data_archetypes (lk : nat -> option bool) (w : list parch) (ids : list (N * nat)) (last : option N)
  : data_err + list darch :=
  match w with
  | [] => inr []
  | a :: r =>
      match evaluate_cfgs lk (pa_cfgs a) with
      | None => inl ELookupPanic
      | Some false => data_archetypes lk r ids last
      | Some true =>
          match advance_attribute_id (pa_id a) (pa_name a) ids last with
          | inl e => inl e
          | inr (i, ids') =>
              match data_components lk (pa_comps a) [] None with
              | inl e => inl e
              | inr cs =>
                  match data_archetypes lk r ids' (Some i) with
                  | inl e => inl e
                  | inr ds => inr (DA i (pa_name a) cs :: ds)
                  end
              end
          end
      end
  end.

(** DataWorld::new on a parsed declaration with the delivered cfg states. *)
Definition data_world_new (w : list parch) (states : list bool) : data_err + list darch :=
  data_archetypes (cfg_lookup (world_predicates w) states) w [] None.

(** A query as the generators see it: cfg states resolved into [p_enabled], then bound. *)
Definition query_with_states (ps : list qparam) (states : list bool) : option (list qparam) :=
  let lk := cfg_lookup (query_predicates ps) states in
  mapM (fun p => (fun b => QP (p_cfgs p) (p_mut p) (p_type p) b) <$> evaluate_cfgs lk (p_cfgs p)) ps.

(* ---- encodings compared with harness/macro_drive *)
Definition enc_world (r : data_err + list darch) : list N :=
  match r with
  | inl (EExceeds n) => [0; 1]%N
  | inl (EAssigned i n h) => [0; 2; i; N.of_nat h]%N
  | inl ELookupPanic => [0; 3]%N
  | inl EParse => [0; 99]%N
  | inr ds => 1%N :: N.of_nat (length ds) ::
              concat ((fun a => da_id a :: N.of_nat (da_name a) :: N.of_nat (length (da_comps a)) ::
                                concat ((fun c => [dc_id c; N.of_nat (dc_name c)]) <$> da_comps a)) <$> ds)
  end.

Definition enc_ptype (t : ptype) : list N :=
  match t with
  | PComp c => [1; N.of_nat c] | PEnt a => [2; N.of_nat a] | PEntWild => [3] | PEntAny => [4]
  | PDir a => [5; N.of_nat a] | PDirWild => [6] | PDirAny => [7] | POneOf cs => 8 :: N.of_nat (length cs) :: (N.of_nat <$> cs)
  end%N.

(** Emitted arms: archetype name and, per parameter, mutability, cfg count and the bound type.
    Wildcards are emitted as the matched archetype's own typed handle. *)
Definition enc_bound (a : darch) (p : qparam) : list N :=
  (if p_mut p then 1 else 0)%N :: N.of_nat (length (p_cfgs p)) ::
  match p_type p with
  | PEntWild => [2; N.of_nat (da_name a)]%N
  | PDirWild => [5; N.of_nat (da_name a)]%N
  | t => enc_ptype t
  end.

Definition enc_query (w : list darch) (r : gen_err + list (option (list qparam))) : list N :=
  match r with
  | inl (GBind ECfgOnOneOf) => [0; 1]%N
  | inl (GBind (EAmbiguous a c1 c2)) => [0; 2; N.of_nat a; N.of_nat c1; N.of_nat c2]%N
  | inl GNoMatch => [0; 3]%N
  | inr arms =>
      1%N :: concat ((fun '(a, o) => match o with
                                     | Some b => N.of_nat (da_name a) :: N.of_nat (length b) :: concat (enc_bound a <$> b)
                                     | None => [] end) <$> zip w arms)
  end.

(** Parsing comes first: an explicit id must fit the u8 field it is parsed into, on every item,
    whether its cfg enables it or not. *)
Definition id_parses (x : option N) : bool := match x with Some i => (i <=? explicit_id_max)%N | None => true end.
Definition parse_ok (w : list parch) : bool :=
  forallb (fun a => id_parses (pa_id a) && forallb (fun c => id_parses (pc_id c)) (pa_comps a)) w.
Definition data_world_parsed (w : list parch) (states : list bool) : data_err + list darch :=
  if parse_ok w then data_world_new w states else inl EParse.

Definition mcheck_world (w : list parch) (states : list bool) (impl : list N) : option (list N) :=
  let m := enc_world (data_world_parsed w states) in if decide (m = impl) then None else Some m.

Definition mcheck_query (w : list parch) (wstates : list bool) (ps : list qparam) (qstates : list bool) (impl : list N)
  : option (list N) :=
  let m := match data_world_parsed w wstates with
           | inl _ => [0; 9]%N
           | inr ds => match query_with_states ps qstates with
                       | None => [0; 8]%N
                       | Some ps' => enc_query ds (generate_query ds ps')
                       end
           end in
  if decide (m = impl) then None else Some m.
