(** Fixed-width integer primitives used by the definitions that tools/extract.py
    translates from the Rust sources.  Everything is over [N]; a Rust [uK] value is an
    [N] below [2^K].  Each primitive states the Rust operation it stands for. *)
From Coq Require Import NArith Bool.
Open Scope N_scope.

Definition u8  (x : N) : N := x mod 2^8.     (* `as u8`  *)
Definition u32 (x : N) : N := x mod 2^32.    (* `as u32` *)
Definition u64 (x : N) : N := x mod 2^64.    (* `as u64` / `as usize` *)

Definition mask (w : N) : N := 2^w - 1.

(* `a << k` on a uW (wrapping shift of the bits that remain inside the type) *)
Definition shl (w a k : N) : N := (N.shiftl a k) mod 2^w.
(* `a >> k` *)
Definition shr (a k : N) : N := N.shiftr a k.
(* `!a` on a uW *)
Definition bnot (w a : N) : N := N.lxor a (mask w).
(* `a.wrapping_add(b)` on a uW *)
Definition wrapping_add (w a b : N) : N := (a + b) mod 2^w.
(* `a.checked_add(b)` on a uW *)
Definition checked_add (w a b : N) : option N :=
  if a + b <? 2^w then Some (a + b) else None.
(* `a.saturating_add(b)`, `a.saturating_mul(b)` on a uW *)
Definition saturating_add (w a b : N) : N := N.min (a + b) (mask w).
Definition saturating_mul (w a b : N) : N := N.min (a * b) (mask w).
(* `NonZeroU32::new(x)` *)
Definition nonzero_new (x : N) : option N := if x =? 0 then None else Some x.
(* `opt.unwrap_or(d)` *)
Definition unwrap_or (o : option N) (d : N) : N := match o with Some x => x | None => d end.
(* `a != b` *)
Definition neqb (a b : N) : bool := negb (a =? b).
