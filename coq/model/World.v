(** Model of a generated world (macros/src/generate/world.rs) and of the run-time meaning of
    the five query macros (macros/src/generate/query.rs), over the storage model.
    User code is an oracle carried by the operation (closure decisions, fault counters).
    No proofs in this file. *)
From Coq Require Import NArith Bool.
From stdpp Require Import base list numbers option.
From Gecs Require Import Prim ExtrBits ExtrVersion ExtrStorage ExtrQuery Storage Query.
Local Open Scope nat_scope.

(** A world declaration: the archetypes (ids, component names = pool indices) and which pool
    components are zero-sized. *)
Record wdecl := WD { wd_archs : list darch; wd_zst : list nat }.

Definition is_zst (d : wdecl) (c : nat) : bool := existsb (Nat.eqb c) (wd_zst d).
Definition arch_comps (a : darch) : list nat := dc_name <$> da_comps a.

Definition world := list storage.

Fixpoint index_of (c : nat) (l : list nat) : option nat :=
  match l with
  | [] => None
  | x :: r => if Nat.eqb x c then Some 0 else S <$> index_of c r
  end.

(** TryFrom<ArchetypeId>/TryFrom<EntityAny> for the Select* enums: first archetype with that id. *)
Fixpoint find_arch (archs : list darch) (id : N) : option nat :=
  match archs with
  | [] => None
  | a :: r => if N.eqb (da_id a) id then Some 0 else S <$> find_arch r id
  end.

(* ---------------------------------------------------------------- handle conversions (entity.rs) *)

(** EntityAny::from_raw / raw; TryFrom<EntityAny> for Entity<A> (and from_any, which panics instead);
    From<Entity<A>> for EntityAny; the Select* conversions. Handles are their raw pairs, so the
    conversions that merely re-wrap a value are the identity; the extractor checks that the Rust
    bodies have exactly that shape (`Self { inner: entity, .. }`, `entity.inner`). *)
Definition from_raw (raw : N * N) : option handle := if raw_ok (snd raw) then Some raw else None.
Definition raw_of (h : handle) : N * N := h.
Definition into_any (h : handle) : handle := h.
Definition try_from_any (id : N) (h : handle) : option handle := if conv_ok (fst h) id then Some h else None.
Definition try_from_dany (id : N) (h : handle) : option handle := if dconv_ok (fst h) id then Some h else None.
Definition handle_archetype_id (h : handle) : N := key_arch_id (fst h).
Definition select_entity (archs : list darch) (h : handle) : option nat := find_arch archs (key_arch_id (fst h)).
Definition select_direct (archs : list darch) (h : handle) : option nat := find_arch archs (dkey_arch_id (fst h)).
Definition handle_hash_word (h : handle) : N := hash_word (fst h) (snd h).

(* ---------------------------------------------------------------- world construction *)

Fixpoint new_world (archs : list darch) (caps : list nat) : res world unit :=
  match archs, caps with
  | a :: ar, c :: cr =>
      match with_capacity (da_id a) (length (da_comps a)) c with
      | Ok s _ => match new_world ar cr with
                  | Ok w _ => Ok (s :: w) tt
                  | Panic p w => Panic p w
                  | UB => UB
                  end
      | Panic p _ => Panic p []
      | UB => UB
      end
  | _, _ => Ok [] tt
  end.

Definition upd (w : world) (a : nat) (s : storage) : world := <[a := s]> w.

(* ---------------------------------------------------------------- keys as the API sees them *)

Inductive ty := TAny | TChecked (a : nat) | TUnchecked (a : nat) | TMut (a : nat).

(** A key after the static typing the caller gave it: dynamically typed, or typed for archetype [a]
    (whatever its packed id says), or the conversion itself already produced the observation. *)
Inductive key := KAny (h : handle) | KTyped (a : nat) (h : handle) | KStop (o : list N).

Definition id_ok (k : kind) (keyw id : N) : bool :=
  match k with KEnt => conv_ok keyw id | KDir => dconv_ok keyw id end.

Definition make_key (cfg : config) (d : wdecl) (k : kind) (t : ty) (h : handle) : key :=
  if (match k with KEnt => negb (raw_ok (snd h)) | KDir => false end) then KStop [5%N]   (* from_raw: Err *)
  else
    match t with
    | TAny => KAny h
    | TChecked a =>
        match wd_archs d !! a with
        | Some ad => if id_ok k (fst h) (da_id ad) then KTyped a h else KStop [3%N]
        | None => KStop [8%N]
        end
    | TUnchecked a =>
        match wd_archs d !! a with
        | Some ad => if debug cfg && negb (id_ok k (fst h) (da_id ad)) then KStop [2%N; 5%N] else KTyped a h
        | None => KStop [8%N]
        end
    | TMut a => KTyped a h
    end.

(** World-level dispatch of a key to an archetype index: typed keys statically, dynamic keys by
    their packed id; an id no archetype declares is `panic!("invalid entity type")`. *)
Definition dispatch_world (d : wdecl) (k : kind) (ky : key) : rres (nat * handle) :=
  match ky with
  | KTyped a h => ROk (a, h)
  | KAny h =>
      match find_arch (wd_archs d) (match k with KEnt => key_arch_id (fst h) | KDir => dkey_arch_id (fst h) end) with
      | Some a => ROk (a, h)
      | None => if world_dispatch_unknown_panics then RPanic PInvalidType else RUB
      end
  | KStop _ => RUB
  end.

(** Archetype-level: a dynamic key goes through the checked conversion (`try_from(..).ok()?`). *)
Definition dispatch_arch (d : wdecl) (k : kind) (b : nat) (ky : key) : option handle :=
  match ky with
  | KTyped a h => if Nat.eqb a b then Some h else None
  | KAny h =>
      match wd_archs d !! b with
      | Some ad => if arch_dispatch_checks_id then (if id_ok k (fst h) (da_id ad) then Some h else None) else Some h
      | None => None
      end
  | KStop _ => None
  end.

(* ---------------------------------------------------------------- observations *)

Definition pcode (p : panic) : N :=
  match p with
  | PCapOverflow => 1 | PCapExceed => 2 | PSlotOverflow => 3 | PArchOverflow => 4 | PDebug => 5
  | PInvalidType => 6 | PInvalidConv => 7 | PBorrow => 8 | PClosure => 9 | PClone => 10
  | PDrop => 11 | PIndexOOB => 12 | PPreset => 13
  end%N.

Definition o_handle (h : handle) : list N := [fst h; snd h].

(** Each lookup path as an observation; a panic inside one path is that path's outcome. *)
Definition rmap {A} (r : rres A) (f : A -> list N) : rres (list N) :=
  match r with ROk a => ROk (f a) | RPanic p => ROk [2%N; pcode p] | RUB => RUB end.

Definition o_contains cfg k s h := rmap (resolve_for cfg k s h) (fun o => match o with Some _ => [1%N] | None => [0%N] end).
Definition o_resolve cfg k s h := rmap (resolve_for cfg k s h) (fun o => match o with Some d => [1%N; N.of_nat d] | None => [0%N] end).
Definition o_to_direct cfg k s h := rmap (to_direct cfg k s h) (fun o => match o with Some d => 1%N :: o_handle d | None => [0%N] end).

(** view / borrow: resolve, then expose index, stored handle and the row. *)
Definition o_view (cfg : config) (k : kind) (s : storage) (h : handle) : rres (list N) :=
  match resolve_for cfg k s h with
  | ROk (Some d) =>
      match read_entity s d with
      | Some (i, e, r) => ROk (1%N :: N.of_nat i :: o_handle e ++ r)
      | None => RUB
      end
  | ROk None => ROk [0%N]
  | RPanic p => ROk [2%N; pcode p]
  | RUB => RUB
  end.

Definition rapp (a b : rres (list N)) : rres (list N) :=
  match a, b with
  | ROk x, ROk y => ROk (x ++ y)
  | RUB, _ | _, RUB => RUB
  | RPanic p, _ | _, RPanic p => RPanic p
  end.

(* ---------------------------------------------------------------- queries at run time *)

(** What a bound parameter reads: a column of the matched archetype, the entity handle, or a direct handle. *)
Inductive access := ACol (col : nat) (m : bool) (zst : bool) | AEnt | ADir.

Definition access_of (d : wdecl) (a : darch) (p : qparam) : option access :=
  match p_type p with
  | PComp c => (fun i => ACol i (p_mut p) (is_zst d c)) <$> index_of c (arch_comps a)
  | PEnt _ | PEntWild | PEntAny => Some AEnt
  | PDir _ | PDirWild | PDirAny => Some ADir
  | POneOf _ => None
  end.

Fixpoint accesses (d : wdecl) (a : darch) (ps : list qparam) : option (list access) :=
  match ps with
  | [] => Some []
  | p :: r => match access_of d a p, accesses d a r with Some x, Some xs => Some (x :: xs) | _, _ => None end
  end.

(** The matched archetypes of a query with what each parameter accesses; [None] = compile error
    (such queries are never run). *)
Definition query_plan (d : wdecl) (ps : list qparam) : option (list (option (list access))) :=
  match generate_query (wd_archs d) ps with
  | inl _ => None
  | inr r =>
      (fix go (archs : list darch) (r : list (option (list qparam))) : option (list (option (list access))) :=
         match archs, r with
         | a :: ar, Some b :: rr =>
             match accesses d a b, go ar rr with Some x, Some xs => Some (Some x :: xs) | _, _ => None end
         | _ :: ar, None :: rr => (fun xs => None :: xs) <$> go ar rr
         | [], [] => Some []
         | _, _ => None
         end) (wd_archs d) r
  end.

(** One closure call on dense index [i] of storage [s] with direct-handle version [ver]:
    the recorded values, the storage after `&mut` parameters added [delta], the direct handles seen. *)
Fixpoint call_closure (s : storage) (i : nat) (ver : N) (delta : N) (acc : list access)
  : option (list N * storage * list handle) :=
  match acc with
  | [] => Some ([], s, [])
  | a :: rest =>
      match a with
      | ACol col m zst =>
          match cols s !! col with
          | Some c =>
              match c !! i with
              | Some v =>
                  let s1 := if m && negb zst && negb (N.eqb delta 0) then write_col s col i (v + delta)%N else Some s in
                  match s1 with
                  | Some s1 =>
                      match call_closure s1 i ver delta rest with
                      | Some (o, s2, ds) => Some (v :: o, s2, ds)
                      | None => None
                      end
                  | None => None
                  end
              | None => None
              end
          | None => None
          end
      | AEnt =>
          match ents s !! i, call_closure s i ver delta rest with
          | Some e, Some (o, s2, ds) => Some (o_handle e ++ o, s2, ds)
          | _, _ => None
          end
      | ADir =>
          let dh := (pack_dkey (N.of_nat i) (aid s), ver) in
          match call_closure s i ver delta rest with
          | Some (o, s2, ds) => Some (o_handle dh ++ o, s2, dh :: ds)
          | None => None
          end
      end
  end.

Definition visit_record (s : storage) (o : list N) : list N := N.of_nat (S (length o)) :: aid s :: o.

(** The loop of ecs_iter!/ecs_iter_borrow! over one archetype: dense order 0..len, version and len
    read once. [ord] counts closure calls across archetypes. Returns (storage, records, directs, next ord, stop). *)
Inductive stop := SNone | SBreak | SPanic.

Fixpoint iter_arch (fuel : nat) (s : storage) (i : nat) (n : nat) (ver : N) (delta : N) (acc : list access)
         (ord : nat) (break_at panic_at : option nat)
  : option (storage * list (list N) * list handle * nat * stop) :=
  match fuel with
  | 0 => Some (s, [], [], ord, SNone)
  | S fuel' =>
      if negb (i <? n) then Some (s, [], [], ord, SNone)
      else
        (* slices were taken with length len: indexing them is bounds checked *)
        if negb (len s <=? length (ents s)) || negb (forallb (fun c => len s <=? length c) (cols s)) then None
        else
        match call_closure s i ver delta acc with
        | None => None
        | Some (o, s1, ds) =>
            let rec := visit_record s o in
            if decide (panic_at = Some ord) then Some (s1, [rec], ds, S ord, SPanic)
            else if decide (break_at = Some ord) then Some (s1, [rec], ds, S ord, SBreak)
            else
              match iter_arch fuel' s1 (S i) n ver delta acc (S ord) break_at panic_at with
              | Some (s2, recs, ds2, ord2, st) => Some (s2, rec :: recs, ds ++ ds2, ord2, st)
              | None => None
              end
        end
  end.

Fixpoint iter_world (w : world) (plan : list (option (list access))) (delta : N) (ord : nat)
         (break_at panic_at : option nat)
  : option (world * list (list N) * list handle * stop) :=
  match w, plan with
  | s :: wr, Some acc :: pr =>
      match iter_arch (S (len s)) s 0 (len s) (version s) delta acc ord break_at panic_at with
      | None => None
      | Some (s1, recs, ds, ord1, st) =>
          match st with
          | SNone =>
              match iter_world wr pr delta ord1 break_at panic_at with
              | Some (w2, recs2, ds2, st2) => Some (s1 :: w2, recs ++ recs2, ds ++ ds2, st2)
              | None => None
              end
          | _ => Some (s1 :: wr, recs, ds, st)
          end
      end
  | s :: wr, None :: pr =>
      match iter_world wr pr delta ord break_at panic_at with
      | Some (w2, recs2, ds2, st2) => Some (s :: w2, recs2, ds2, st2)
      | None => None
      end
  | _, _ => Some (w, [], [], SNone)
  end.

(** Closure decisions of ecs_iter_destroy! *)
Inductive decision := DContinue | DBreak | DContinueDestroy | DBreakDestroy | DClosurePanic.

Definition nth_decision (ds : list decision) (ord : nat) : decision :=
  match ds !! ord with Some x => x | None => DContinue end.

(** Number of non-zero-sized component values of one row of archetype [a] (Tok drops when it is dropped). *)
Definition nz_cols (d : wdecl) (a : darch) : N := N.of_nat (length (filter (fun c => is_zst d c = false) (arch_comps a))).
Definition z_cols (d : wdecl) (a : darch) : N := N.of_nat (length (filter (fun c => is_zst d c = true) (arch_comps a))).

(** Dropping one row's values with the drop-fault counter [din] (0 = disarmed):
    (fired, new counter). All values are dropped either way (see DESIGN: harness-side drops). *)
Definition drop_row (nz : N) (din : N) : bool * N :=
  if N.eqb din 0 then (false, 0%N)
  else if N.leb din nz then (true, 0%N)
  else (false, (din - nz)%N).

(** The reverse loop of ecs_iter_destroy! over one archetype. [idx1] is idx + 1.
    Returns (storage, records, directs, next ord, stop, drop counter). *)
Fixpoint iterd_arch (cfg : config) (idx1 : nat) (s : storage) (ver0 : N) (acc : list access) (nz : N)
         (ord : nat) (decs : list decision) (din : N)
  : res (storage * list (list N) * list handle * nat * stop * N) unit :=
  match idx1 with
  | 0 => Ok (s, [], [], ord, SNone, din) tt
  | S idx =>
      let ver := if iter_destroy_version_in_loop then version s else ver0 in
      (* get_all_slices_mut(): slices of the current len; `slices.x[idx]` is bounds checked *)
      if negb (len s <=? length (ents s)) || negb (forallb (fun c => len s <=? length c) (cols s)) then UB
      else if negb (idx <? len s) then Panic PIndexOOB (s, [], [], ord, SPanic, din)
      else
      match call_closure s idx ver 0%N acc with
      | None => UB
      | Some (o, _, ds) =>
          let rec := visit_record s o in
          let destroy_here (k : storage -> N -> res (storage * list (list N) * list handle * nat * stop * N) unit) :=
            match ents s !! idx with
            | None => UB
            | Some e =>
                match destroy cfg KEnt s e with
                | Ok s1 _ =>
                    let '(fired, din1) := drop_row nz din in
                    if fired then Panic PDrop (s1, [rec], ds, S ord, SPanic, din1) else k s1 din1
                | Panic p s1 => Panic p (s1, [rec], ds, S ord, SPanic, din)
                | UB => UB
                end
            end in
          let continue (s1 : storage) (din1 : N) :=
            match iterd_arch cfg idx s1 ver0 acc nz (S ord) decs din1 with
            | Ok (s2, recs, ds2, ord2, st, din2) _ => Ok (s2, rec :: recs, ds ++ ds2, ord2, st, din2) tt
            | Panic p (s2, recs, ds2, ord2, st, din2) => Panic p (s2, rec :: recs, ds ++ ds2, ord2, st, din2)
            | UB => UB
            end in
          match nth_decision decs ord with
          | DContinue => continue s din
          | DBreak => Ok (s, [rec], ds, S ord, SBreak, din) tt
          | DContinueDestroy => destroy_here continue
          | DBreakDestroy => destroy_here (fun s1 din1 => Ok (s1, [rec], ds, S ord, SBreak, din1) tt)
          | DClosurePanic => Panic PClosure (s, [rec], ds, S ord, SPanic, din)
          end
      end
  end.

Fixpoint iterd_world (cfg : config) (d : wdecl) (archs : list darch) (w : world) (plan : list (option (list access)))
         (ord : nat) (decs : list decision) (din : N)
  : res (world * list (list N) * list handle * N) unit :=
  match archs, w, plan with
  | a :: ar, s :: wr, Some acc :: pr =>
      match iterd_arch cfg (len s) s (version s) acc (nz_cols d a) ord decs din with
      | Ok (s1, recs, ds, ord1, st, din1) _ =>
          match st with
          | SNone =>
              match iterd_world cfg d ar wr pr ord1 decs din1 with
              | Ok (w2, recs2, ds2, din2) _ => Ok (s1 :: w2, recs ++ recs2, ds ++ ds2, din2) tt
              | Panic p (w2, recs2, ds2, din2) => Panic p (s1 :: w2, recs ++ recs2, ds ++ ds2, din2)
              | UB => UB
              end
          | _ => Ok (s1 :: wr, recs, ds, din1) tt
          end
      | Panic p (s1, recs, ds, _, _, din1) => Panic p (s1 :: wr, recs, ds, din1)
      | UB => UB
      end
  | _ :: ar, s :: wr, None :: pr =>
      match iterd_world cfg d ar wr pr ord decs din with
      | Ok (w2, recs2, ds2, din2) _ => Ok (s :: w2, recs2, ds2, din2) tt
      | Panic p (w2, recs2, ds2, din2) => Panic p (s :: w2, recs2, ds2, din2)
      | UB => UB
      end
  | _, _, _ => Ok (w, [], [], din) tt
  end.

(** ecs_find!/ecs_find_borrow!: dispatch the key, then the matched archetype's arm (or `_ => None`). *)
Definition find_query (cfg : config) (d : wdecl) (w : world) (plan : list (option (list access)))
           (k : kind) (ky : key) (delta : N)
  : res world (list N * list handle) :=
  match dispatch_world d k ky with
  | RPanic p => Panic p w
  | RUB => UB
  | ROk (a, h) =>
      match plan !! a, w !! a with
      | Some (Some acc), Some s =>
          let ver := version s in
          match resolve_for cfg k s h with
          | ROk (Some i) =>
              if negb (len s <=? length (ents s)) || negb (forallb (fun c => len s <=? length c) (cols s)) || negb (i <? len s) then UB
              else
              match call_closure s i ver delta acc with
              | Some (o, s1, ds) => Ok (upd w a s1) (1%N :: aid s :: o, ds)
              | None => UB
              end
          | ROk None => Ok w ([0%N], [])
          | RPanic p => Panic p w
          | RUB => UB
          end
      | Some None, Some _ => Ok w ([0%N], [])
      | _, _ => UB
      end
  end.

(* ---------------------------------------------------------------- clone and drop with faults *)

Fixpoint count_true (l : list bool) : nat := match l with [] => 0 | b :: r => (if b then 1 else 0) + count_true r end.
Fixpoint count_false (l : list bool) : nat := match l with [] => 0 | b :: r => (if b then 0 else 1) + count_false r end.

(** Cloning the dense part of one storage in the code's order (for each index: entity, then each
    column), with the clone-fault counter: [inl (toks, zsts)] = panicked after cloning that many
    values, which are leaked; [inr counter] = completed. *)
Definition clone_cells (nzmask : list bool) (n : nat) (cin : N) : (N * N) + N :=
  let per_row := N.of_nat (count_true nzmask) in
  let total := (N.of_nat n * per_row)%N in
  if N.eqb cin 0 then inr 0%N
  else if N.ltb total cin then inr (cin - total)%N
  else
    (* the cin-th Tok clone panics: cin - 1 Toks were cloned before it *)
    let done := (cin - 1)%N in
    let rows := (done / per_row)%N in
    let in_row := (done mod per_row)%N in
    (* zero-sized columns cloned so far: all of the full rows, plus those before the failing column in this row *)
    let zper := N.of_nat (count_false nzmask) in
    let zin_row :=
      (fix go (m : list bool) (need : N) : N :=
         match m with
         | [] => 0
         | true :: r => if N.eqb need 0 then 0 else go r (need - 1)
         | false :: r => 1 + go r need
         end)%N nzmask in_row in
    inl (done, (rows * zper + zin_row)%N).

Definition nzmask_of (d : wdecl) (a : darch) : list bool := (fun c => negb (is_zst d c)) <$> arch_comps a.

(** World::clone. [inl (leaked toks, leaked zsts)]: a component's Clone panicked. *)
Fixpoint clone_world (d : wdecl) (archs : list darch) (w : world) (cin : N) : option ((N * N) + (world * N)) :=
  match archs, w with
  | a :: ar, s :: wr =>
      match clone_storage s with
      | None => None
      | Some s' =>
          match clone_cells (nzmask_of d a) (len s) cin with
          | inl lk => Some (inl lk)
          | inr cin1 =>
              match clone_world d ar wr cin1 with
              | Some (inr (w', cin2)) => Some (inr (s' :: w', cin2))
              | Some (inl lk) => Some (inl lk)
              | None => None
              end
          end
      end
  | _, _ => Some (inr ([], cin))
  end.

(** Dropping a world. Columns are dropped in order, cells 0..len in order; the armed drop fault
    aborts the rest of that storage's drop (those values leak), later archetypes still drop.
    Returns (leaked toks, leaked zsts, fired, counter); [None] = UB. *)
Fixpoint drop_storage_cols (nzmask : list bool) (n : N) (din : N) : (N * N * bool * N) :=
  match nzmask with
  | [] => (0, 0, false, din)%N
  | true :: r =>
      if N.eqb din 0 then drop_storage_cols r n din
      else if N.ltb n din then drop_storage_cols r n (din - n)%N
      else
        (* the din-th drop of this column panics: cells after it and all later columns leak *)
        let rest_tok := (N.of_nat (count_true r) * n)%N in
        let rest_z := (N.of_nat (count_false r) * n)%N in
        ((n - din) + rest_tok, rest_z, true, 0)%N
  | false :: r => drop_storage_cols r n din
  end.

Fixpoint drop_world (d : wdecl) (archs : list darch) (w : world) (din : N) : option (N * N * bool * N) :=
  match archs, w with
  | a :: ar, s :: wr =>
      match drop_cells s with
      | None => None
      | Some _ =>
          let '(lt, lz, fired, din1) := drop_storage_cols (nzmask_of d a) (N.of_nat (len s)) din in
          match drop_world d ar wr din1 with
          | Some (lt2, lz2, fired2, din2) => Some (lt + lt2, lz + lz2, fired || fired2, din2)%N
          | None => None
          end
      end
  | _, _ => Some (0, 0, false, din)%N
  end.
