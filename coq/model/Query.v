(** Model of the query-binding logic of macros/src/generate/query.rs
    (bind_query_params, bind_one_of, is_cfg_enabled) and of DataArchetype::contains_component.
    Names (archetypes, components, cfg predicates) are natural numbers: the code only ever
    compares them for equality.  No proofs here. *)
From Coq Require Import NArith Bool.
From stdpp Require Import base list numbers option.
Local Open Scope nat_scope.

Inductive ptype :=
  | PComp (c : nat)            (* &C / &mut C *)
  | PEnt (a : nat)             (* &Entity<A> *)
  | PEntWild                   (* &Entity<_> *)
  | PEntAny                    (* &EntityAny *)
  | PDir (a : nat)             (* &EntityDirect<A> *)
  | PDirWild                   (* &EntityDirect<_> *)
  | PDirAny                    (* &EntityDirectAny *)
  | POneOf (cs : list nat).    (* &OneOf<C1, C2, ..> *)

Global Instance ptype_eq_dec : EqDecision ptype. Proof. solve_decision. Defined.

Record qparam := QP {
  p_cfgs : list nat;           (* cfg predicates decorating the parameter *)
  p_mut : bool;
  p_type : ptype;
  p_enabled : bool;            (* is_cfg_enabled, set before binding *)
}.
Global Instance qparam_eq_dec : EqDecision qparam. Proof. solve_decision. Defined.

(** DataArchetype / DataComponent *)
Record dcomp := DC { dc_id : N; dc_name : nat }.
Record darch := DA { da_id : N; da_name : nat; da_comps : list dcomp }.

Definition contains_component (a : darch) (c : nat) : bool :=
  existsb (fun x => Nat.eqb (dc_name x) c) (da_comps a).

Inductive bind_err :=
  | ECfgOnOneOf                       (* "cfg attributes not currently supported on OneOf" *)
  | EAmbiguous (a c1 c2 : nat).       (* "OneOf parameter is ambiguous for a, matching both c1 and c2" *)
Global Instance bind_err_eq_dec : EqDecision bind_err. Proof. solve_decision. Defined.

(** bind_one_of: the loop over the OneOf arguments with its `found` accumulator. *)
Fixpoint bind_one_of_from (a : darch) (found : option nat) (args : list nat) : bind_err + option nat :=
  match args with
  | [] => inr found
  | c :: rest =>
      if contains_component a c then
        match found with
        | Some f => inl (EAmbiguous (da_name a) f c)
        | None => bind_one_of_from a (Some c) rest
        end
      else bind_one_of_from a found rest
  end.
Definition bind_one_of (a : darch) (args : list nat) : bind_err + option nat := bind_one_of_from a None args.

(** One iteration of the archetype loop of bind_query_params: the `bound` vector it builds
    (a parameter that does not match is skipped with `continue`, the later ones are still visited). *)
Fixpoint bind_params (a : darch) (ps : list qparam) : bind_err + list qparam :=
  match ps with
  | [] => inr []
  | p :: rest =>
      let push (q : qparam) := match bind_params a rest with inl e => inl e | inr b => inr (q :: b) end in
      let skip := bind_params a rest in
      match p_type p with
      | PEntAny | PDirAny | PEntWild | PDirWild => push p
      | PComp c => if negb (p_enabled p) || contains_component a c then push p else skip
      | PEnt n | PDir n => if negb (p_enabled p) || Nat.eqb (da_name a) n then push p else skip
      | POneOf cs =>
          match p_cfgs p with
          | _ :: _ => inl ECfgOnOneOf
          | [] =>
              match bind_one_of a cs with
              | inl e => inl e
              | inr (Some c) => push (QP (p_cfgs p) (p_mut p) (PComp c) (p_enabled p))
              | inr None => skip
              end
          end
      end
  end.

(** bind_query_params: per archetype, in declaration order, [Some bound] iff every parameter was bound. *)
Fixpoint bind_query (w : list darch) (ps : list qparam) : bind_err + list (option (list qparam)) :=
  match w with
  | [] => inr []
  | a :: rest =>
      match bind_params a ps with
      | inl e => inl e
      | inr b =>
          match bind_query rest ps with
          | inl e => inl e
          | inr r => inr ((if length b =? length ps then Some b else None) :: r)
          end
      end
  end.

Inductive gen_err := GBind (e : bind_err) | GNoMatch.   (* "query matched no archetypes in world" *)

(** What the three query generators emit arms for: the matched archetypes with their bound parameters. *)
Definition generate_query (w : list darch) (ps : list qparam) : gen_err + list (option (list qparam)) :=
  match bind_query w ps with
  | inl e => inl (GBind e)
  | inr r => if forallb (fun x => match x with None => true | Some _ => false end) r then inl GNoMatch else inr r
  end.

(** is_cfg_enabled with the lookup table as a function from predicate to truth value. *)
Definition is_cfg_enabled (truth : nat -> bool) (p : qparam) : bool := forallb truth (p_cfgs p).
Definition with_enabled (truth : nat -> bool) (p : qparam) : qparam :=
  QP (p_cfgs p) (p_mut p) (p_type p) (is_cfg_enabled truth p).
