(** The operation language of the correspondence check and its interpreter over the model:
    [run cfg decl queries ops] yields one observation (a list of numbers) per operation, in
    exactly the format the Rust harness (harness/storage_harness) prints for the same operations
    on the real gecs.  No proofs in this file. *)
From Coq Require Import NArith Bool.
From stdpp Require Import base list numbers option.
From Gecs Require Import Prim ExtrBits ExtrVersion ExtrStorage ExtrQuery Storage Query World Borrow.
Local Open Scope nat_scope.

Inductive href := RIssued (k : nat) | RDirect (k : nat) | RRaw (key ver : N).
Inductive lvl := LWorld | LArch (a : nat).
Inductive wpath := WView | WBorrow | WFind | WFindB | WSlice | WBSlice | WSlices | WIterMut.
Inductive rpath := RIter | RIterMut | RSlices | RSlice | RBSlice.
Inductive fault := FClone | FDrop.

Inductive op :=
  | ONew (caps : list nat)
  | OClone
  | OSwitch (w : nat)
  | ODrop (w : nat)
  | OCreate (a : nat) (v : N)
  | OCreateW (a : nat) (v : N)
  | ODestroy (l : lvl) (k : kind) (t : ty) (r : href)
  | OProbe (l : lvl) (k : kind) (t : ty) (r : href)
  | OToDirect (l : lvl) (k : kind) (t : ty) (r : href)
  | OWrite (p : wpath) (b : nat) (k : kind) (t : ty) (r : href) (c : nat) (v : N)
  | OFind (q : nat) (borrow : bool) (k : kind) (t : ty) (r : href) (delta : N)
  | OReadAll (p : rpath) (a : nat)
  | OIter (q : nat) (borrow : bool) (break_at panic_at : option nat) (delta : N)
  | OIterD (q : nat) (decs : list decision)
  | OLen (a : nat)
  | ODump (a : nat)
  | OPreset (a : nat) (sv av : N)
  | OEvents (l : lvl)
  | OClearEv (l : lvl)
  | OReg
  | OFault (f : fault) (n : N)
  | OConv (k : kind) (r : href)
  | OBorrow (prog : list bcmd).

Record rstate := RS {
  worlds : list (option world);
  cur : nat;
  issued : list handle;
  directs : list handle;
  leaked : N;          (* component values leaked after a panicking Clone/Drop *)
  zleaked : N;
  clone_in : N;        (* armed faults: the n-th Clone::clone / Drop::drop of a value panics *)
  drop_in : N;
}.

Definition rs0 : rstate := RS [] 0 [] [] 0 0 0 0.

Definition cur_world (st : rstate) : option world := mjoin (worlds st !! cur st).

Definition set_world (st : rstate) (w : world) : rstate :=
  RS (<[cur st := Some w]> (worlds st)) (cur st) (issued st) (directs st) (leaked st) (zleaked st) (clone_in st) (drop_in st).

Definition set_drop_in (st : rstate) (n : N) : rstate :=
  RS (worlds st) (cur st) (issued st) (directs st) (leaked st) (zleaked st) (clone_in st) n.

Definition add_directs (st : rstate) (ds : list handle) : rstate :=
  RS (worlds st) (cur st) (issued st) (directs st ++ ds) (leaked st) (zleaked st) (clone_in st) (drop_in st).

Definition add_issued (st : rstate) (h : handle) : rstate :=
  RS (worlds st) (cur st) (issued st ++ [h]) (directs st) (leaked st) (zleaked st) (clone_in st) (drop_in st).

Definition get_href (st : rstate) (k : kind) (r : href) : option handle :=
  match r, k with
  | RIssued i, KEnt => issued st !! i
  | RDirect i, KDir => directs st !! i
  | RRaw key ver, KEnt => Some (key, ver)
  | _, _ => None
  end.

(** Outcome of one operation: new state and observation, or UB (sticky). *)
Definition stepres := option (rstate * list N).

Definition row_values (d : wdecl) (a : darch) (v : N) : list val :=
  imap (fun j c => if is_zst d c then 0%N else (v * 64 + N.of_nat j)%N) (arch_comps a).

Definition first_last {A} (l : list A) : list A :=
  match l with [] => [] | x :: _ => match list.last l with Some y => [x; y] | None => [x] end end.

(** After a row's values were handed to the caller, the caller drops them. *)
Definition after_drop (d : wdecl) (a : darch) (st : rstate) (o : list N) : rstate * list N :=
  let '(fired, din) := drop_row (nz_cols d a) (drop_in st) in
  (set_drop_in st din, if fired then [2%N; pcode PDrop] else o).

Definition enc_slot (x : slot) : list N := [enc_sidx (s_idx x); s_ver x].

Definition all_rows (s : storage) : option (list (list N)) :=
  if negb (len s <=? length (ents s)) || negb (forallb (fun c => len s <=? length c) (cols s)) then None
  else mapM (fun i => match ents s !! i, row_at (cols s) i with
                      | Some e, Some r => Some (o_handle e ++ r)
                      | _, _ => None
                      end) (seq 0 (len s)).

Definition sum_nats (l : list nat) : nat := foldr Nat.add 0 l.

(* ---- the world-level event iterator (EcsEventIterator of generate/world.rs) *)
Record evit := EV { ev_which : nat; ev_rest : list (list handle) }.

(** One pass over the sequence of `if self.which == i { .. }` blocks of next(). *)
Fixpoint ev_next_from (i : nat) (n : nat) (which : nat) (pre : list (list handle)) (rest : list (list handle))
  : option handle * nat * list (list handle) :=
  match rest with
  | [] => (None, which, pre)
  | l :: rest' =>
      if which =? i then
        match l with
        | h :: l' => (Some h, which, pre ++ l' :: rest')
        | [] => ev_next_from (S i) n (if S i =? n then which else S which) (pre ++ [l]) rest'
        end
      else ev_next_from (S i) n which (pre ++ [l]) rest'
  end.

Definition ev_next (it : evit) : option handle * evit :=
  let '(o, w, r) := ev_next_from 0 (length (ev_rest it)) (ev_which it) [] (ev_rest it) in
  (o, EV w r).

Definition ev_size_hint (it : evit) : nat :=
  sum_nats (imap (fun i l => if ev_which it <=? i then length l else 0) (ev_rest it)).

Fixpoint ev_drain (fuel : nat) (it : evit) : list handle * list N :=
  let hint := [N.of_nat (ev_size_hint it); N.of_nat (S (ev_size_hint it))] in
  match fuel with
  | 0 => ([], hint)
  | S f =>
      match ev_next it with
      | (Some h, it') => let '(hs, hints) := ev_drain f it' in (h :: hs, hint ++ hints)
      | (None, _) => ([], hint)
      end
  end.

Definition world_events_obs (logs : list (list handle)) : list N :=
  let total := sum_nats (length <$> logs) in
  let '(hs, hints) := ev_drain (S total) (EV 0 logs) in
  N.of_nat (length hs) :: concat (o_handle <$> hs) ++ hints.

(* ---- registry *)
Definition storage_live (d : wdecl) (a : darch) (s : storage) : N * N :=
  let m := nzmask_of d a in
  (fix go (m : list bool) (cs : list (list val)) : N * N :=
     match m, cs with
     | b :: mr, c :: cr => let '(t, z) := go mr cr in
                           if b then (t + N.of_nat (length c), z) else (t, z + N.of_nat (length c))
     | _, _ => (0, 0)
     end)%N m (cols s).

Fixpoint world_live (d : wdecl) (archs : list darch) (w : world) : N * N :=
  match archs, w with
  | a :: ar, s :: wr => let '(t, z) := storage_live d a s in let '(t2, z2) := world_live d ar wr in (t + t2, z + z2)%N
  | _, _ => (0, 0)%N
  end.

Definition registry (d : wdecl) (st : rstate) : list N :=
  let '(t, z) := fold_right (fun ow acc => match ow with
                                           | Some w => let '(t, z) := world_live d (wd_archs d) w in (t + fst acc, z + snd acc)%N
                                           | None => acc
                                           end) (0, 0)%N (worlds st) in
  [(t + leaked st)%N; 0%N; 0%N; (z + zleaked st)%N].

(* ---- probe paths *)
Definition probe_find (cfg : config) (k : kind) (s : storage) (h : handle) : rres (list N) :=
  let ver := version s in
  match resolve_for cfg k s h with
  | ROk (Some i) =>
      match read_entity s i with
      | Some (_, e, _) => ROk (1%N :: o_handle e ++ o_handle (pack_dkey (N.of_nat i) (aid s), ver))
      | None => RUB
      end
  | ROk None => ROk [0%N]
  | RPanic p => ROk [2%N; pcode p]
  | RUB => RUB
  end.

Definition probe_storage_world (cfg : config) (typed : bool) (k : kind) (s : storage) (h : handle) : rres (list N) :=
  rapp (o_contains cfg k s h)
  (rapp (o_to_direct cfg k s h)
  (rapp (if typed then rapp (o_view cfg k s h) (o_view cfg k s h) else ROk [])
  (rapp (probe_find cfg k s h) (probe_find cfg k s h)))).

Definition probe_storage_arch (cfg : config) (k : kind) (s : storage) (h : handle) : rres (list N) :=
  rapp (o_contains cfg k s h)
  (rapp (o_resolve cfg k s h)
  (rapp (o_to_direct cfg k s h)
  (rapp (o_view cfg k s h) (o_view cfg k s h)))).

Definition npaths_world (typed : bool) : nat := if typed then 6 else 4.

(* ---- conversions between handle types (entity.rs and the Select* enums of generate/world.rs) *)
Definition conv_obs (archs : list darch) (k : kind) (h0 : handle) : list N :=
  match k with
  | KEnt =>
      match from_raw h0 with
      | None => [5%N]
      | Some h =>
          [1%N; fst (raw_of h); snd (raw_of h); handle_archetype_id h]
          ++ concat ((fun a => match try_from_any (da_id a) h with
                               | Some t => [1%N; fst (raw_of (into_any t)); snd (raw_of (into_any t)); da_id a]
                               | None => [0%N] end) <$> archs)
          ++ (match select_entity archs h with Some a => [N.of_nat a; fst h; snd h] | None => [255%N] end)
          ++ (match select_entity archs h, select_entity archs h ≫= (fun a => archs !! a) with
              | Some a, Some ad => [N.of_nat a; da_id ad] | _, _ => [255%N] end)
          ++ (match find_arch archs (handle_archetype_id h) with Some a => [N.of_nat a] | None => [255%N] end)
          ++ [handle_hash_word h; 1%N]
      end
  | KDir =>
      let h := h0 in
      [1%N; fst h; snd h; dkey_arch_id (fst h)]
      ++ concat ((fun a => match try_from_dany (da_id a) h with
                           | Some t => [1%N; fst t; snd t; da_id a]
                           | None => [0%N] end) <$> archs)
      ++ (match select_direct archs h with Some a => [N.of_nat a; fst h; snd h] | None => [255%N] end)
      ++ [dhash_word (fst h) (snd h)]
  end.

(* ---- the step function *)
Definition ret (st : rstate) (o : list N) : stepres := Some (st, o).

Definition step (cfg : config) (d : wdecl) (qs : list (list qparam)) (st : rstate) (o : op) : stepres :=
  let archs := wd_archs d in
  (* operations that do not need a current world *)
  match o with
  | ONew caps =>
      match new_world archs caps with
      | Ok w _ => ret (RS (worlds st ++ [Some w]) (length (worlds st)) (issued st) (directs st)
                          (leaked st) (zleaked st) (clone_in st) (drop_in st)) [1%N; N.of_nat (length (worlds st))]
      | Panic p _ => ret st [2%N; pcode p]
      | UB => None
      end
  | OSwitch i =>
      match mjoin (worlds st !! i) with
      | Some _ => ret (RS (worlds st) i (issued st) (directs st) (leaked st) (zleaked st) (clone_in st) (drop_in st)) [1%N]
      | None => ret st [0%N]
      end
  | ODrop i =>
      match mjoin (worlds st !! i) with
      | Some w =>
          match drop_world d archs w (drop_in st) with
          | Some (lt, lz, fired, din) =>
              ret (RS (<[i := None]> (worlds st)) (cur st) (issued st) (directs st)
                      (leaked st + lt)%N (zleaked st + lz)%N (clone_in st) din)
                  (if fired then [2%N; pcode PDrop] else [1%N])
          | None => None
          end
      | None => ret st [0%N]
      end
  | OReg => ret st (registry d st)
  | OConv k r => match get_href st k r with Some h => ret st (conv_obs archs k h) | None => ret st [8%N] end
  | OFault f n =>
      ret (match f with
           | FClone => RS (worlds st) (cur st) (issued st) (directs st) (leaked st) (zleaked st) n (drop_in st)
           | FDrop => RS (worlds st) (cur st) (issued st) (directs st) (leaked st) (zleaked st) (clone_in st) n
           end) [1%N]
  | _ =>
  match cur_world st with
  | None => ret st [8%N]
  | Some w =>
  match o with
  | OClone =>
      match clone_world d archs w (clone_in st) with
      | None => None
      | Some (inl (lt, lz)) =>
          ret (RS (worlds st) (cur st) (issued st) (directs st) (leaked st + lt)%N (zleaked st + lz)%N 0%N (drop_in st))
              [2%N; pcode PClone]
      | Some (inr (w', cin)) =>
          ret (RS (worlds st ++ [Some w']) (cur st) (issued st) (directs st) (leaked st) (zleaked st) cin (drop_in st))
              [1%N; N.of_nat (length (worlds st))]
      end
  | OCreate a v | OCreateW a v =>
      match archs !! a, w !! a with
      | Some ad, Some s =>
          let vs := row_values d ad v in
          match o with
          | OCreate _ _ =>
              match push cfg s vs with
              | Ok s' h => ret (add_issued (set_world st (upd w a s')) h) (1%N :: o_handle h)
              | Panic p s' => let '(st', _) := after_drop d ad (set_world st (upd w a s')) [] in ret st' [2%N; pcode p]
              | UB => None
              end
          | _ =>
              match push_within cfg s vs with
              | Ok s' (Some h) => ret (add_issued (set_world st (upd w a s')) h) (1%N :: o_handle h)
              | Ok s' None => let '(st', o') := after_drop d ad (set_world st (upd w a s')) (4%N :: vs) in ret st' o'
              | Panic p s' => let '(st', _) := after_drop d ad (set_world st (upd w a s')) [] in ret st' [2%N; pcode p]
              | UB => None
              end
          end
      | _, _ => ret st [8%N]
      end
  | ODestroy l k t r | OProbe l k t r | OToDirect l k t r =>
      match get_href st k r with
      | None => ret st [8%N]
      | Some h0 =>
          match make_key cfg d k t h0 with
          | KStop obs => ret st obs
          | ky =>
              let typed := match ky with KTyped _ _ => true | _ => false end in
              (* locate the storage: world-level dispatch or the named archetype *)
              let target : rres (option (nat * handle)) :=
                match l with
                | LWorld => match dispatch_world d k ky with
                            | ROk x => ROk (Some x) | RPanic p => RPanic p | RUB => RUB end
                | LArch b => ROk ((fun h => (b, h)) <$> dispatch_arch d k b ky)
                end in
              if (match l, ky with LArch b, KTyped a _ => negb (Nat.eqb a b) | _, _ => false end) then ret st [6%N] else
              match target with
              | RUB => None
              | RPanic p =>
                  match o with
                  | OProbe _ _ _ _ => ret st (concat (replicate (npaths_world typed) [2%N; pcode p]))
                  | _ => ret st [2%N; pcode p]
                  end
              | ROk None =>
                  match o with
                  | OProbe _ _ _ _ => ret st (replicate 5 0%N)
                  | _ => ret st [0%N]
                  end
              | ROk (Some (a, h)) =>
                  match archs !! a, w !! a with
                  | Some ad, Some s =>
                      match o with
                      | OProbe _ _ _ _ =>
                          match (match l with LWorld => probe_storage_world cfg typed k s h | LArch _ => probe_storage_arch cfg k s h end) with
                          | ROk obs => ret st obs
                          | RPanic p => ret st [2%N; pcode p]
                          | RUB => None
                          end
                      | OToDirect _ _ _ _ =>
                          match to_direct cfg k s h with
                          | ROk (Some dh) => ret (add_directs st [dh]) (1%N :: o_handle dh)
                          | ROk None => ret st [0%N]
                          | RPanic p => ret st [2%N; pcode p]
                          | RUB => None
                          end
                      | _ =>
                          match destroy cfg k s h with
                          | Ok s' (Some row) =>
                              let st1 := set_world st (upd w a s') in
                              let full := match l, ky with LWorld, KAny _ => [1%N] | _, _ => 1%N :: row end in
                              let '(st2, obs) := after_drop d ad st1 full in ret st2 obs
                          | Ok s' None => ret st [0%N]
                          | Panic p s' => ret (set_world st (upd w a s')) [2%N; pcode p]
                          | UB => None
                          end
                      end
                  | _, _ => ret st [8%N]
                  end
              end
          end
      end
  | OWrite p b k t r c v =>
      match get_href st k r with
      | None => ret st [8%N]
      | Some h0 =>
          match make_key cfg d k t h0 with
          | KStop obs => ret st obs
          | ky =>
              match (match ky with KTyped a _ => if Nat.eqb a b then None else Some tt | _ => None end) with
              | Some _ => ret st [6%N]
              | None =>
              match archs !! b with
              | None => ret st [8%N]
              | Some bd =>
                  match index_of c (arch_comps bd) with
                  | None => ret st [6%N]
                  | Some colb =>
                      match p with
                      | WFind | WFindB =>
                          (* ecs_find!(world, key, |x: &mut C| ..): dispatches on the key itself *)
                          if negb (existsb (Nat.eqb c) (first_last (arch_comps bd))) then ret st [6%N]
                          else
                          match dispatch_world d k ky with
                          | RUB => None
                          | RPanic pp => ret st [2%N; pcode pp]
                          | ROk (a, h) =>
                              match archs !! a, w !! a with
                              | Some ad, Some s =>
                                  match index_of c (arch_comps ad) with
                                  | None => ret st [0%N]       (* the query does not match that archetype *)
                                  | Some col =>
                                      match resolve_for cfg k s h with
                                      | ROk (Some i) =>
                                          if negb (len s <=? length (ents s)) || negb (forallb (fun x => len s <=? length x) (cols s)) || negb (i <? len s) then None
                                          else if is_zst d c then ret st [1%N]
                                          else match write_col s col i v with
                                               | Some s' => ret (set_world st (upd w a s')) [1%N]
                                               | None => None
                                               end
                                      | ROk None => ret st [0%N]
                                      | RPanic pp => ret st [2%N; pcode pp]
                                      | RUB => None
                                      end
                                  end
                              | _, _ => ret st [8%N]
                              end
                          end
                      | _ =>
                          match dispatch_arch d k b ky, w !! b with
                          | None, _ => ret st [0%N]
                          | Some h, Some s =>
                              match resolve_for cfg k s h with
                              | ROk (Some i) =>
                                  if negb (len s <=? length (ents s)) || negb (forallb (fun x => len s <=? length x) (cols s)) then None
                                  else if negb (i <? len s) then
                                    (match p with WView | WBorrow => None | _ => ret st [2%N; pcode PIndexOOB] end)
                                  else if is_zst d c then ret st [1%N]
                                  else match write_col s colb i v with
                                       | Some s' => ret (set_world st (upd w b s')) [1%N]
                                       | None => None
                                       end
                              | ROk None => ret st [0%N]
                              | RPanic pp => ret st [2%N; pcode pp]
                              | RUB => None
                              end
                          | _, None => ret st [8%N]
                          end
                      end
                  end
              end
              end
          end
      end
  | OFind q borrow k t r delta =>
      match get_href st k r with
      | None => ret st [8%N]
      | Some h0 =>
          match make_key cfg d k t h0 with
          | KStop obs => ret st obs
          | ky =>
              if (match ky with KTyped _ _ => negb (q <? 2) | _ => false end) then ret st [6%N]
              else
              match qs !! q ≫= query_plan d with
              | None => ret st [8%N]
              | Some plan =>
                  match find_query cfg d w plan k ky delta with
                  | Ok w' (obs, ds) => ret (add_directs (set_world st w') ds) obs
                  | Panic p w' => ret (set_world st w') [2%N; pcode p]
                  | UB => None
                  end
              end
          end
      end
  | OReadAll p a =>
      match w !! a with
      | Some s => match all_rows s with
                  | Some rows => ret st (N.of_nat (length rows) :: concat rows)
                  | None => None
                  end
      | None => ret st [8%N]
      end
  | OIter q borrow break_at panic_at delta =>
      match qs !! q ≫= query_plan d with
      | None => ret st [8%N]
      | Some plan =>
          match iter_world w plan delta 0 break_at panic_at with
          | Some (w', recs, ds, stp) =>
              ret (add_directs (set_world st w') ds)
                  ((match stp with SPanic => [2%N; pcode PClosure] | _ => [1%N] end)
                   ++ N.of_nat (length recs) :: concat recs)
          | None => None
          end
      end
  | OIterD q decs =>
      match qs !! q ≫= query_plan d with
      | None => ret st [8%N]
      | Some plan =>
          match iterd_world cfg d archs w plan 0 decs (drop_in st) with
          | Ok (w', recs, ds, din) _ =>
              ret (set_drop_in (add_directs (set_world st w') ds) din) (1%N :: N.of_nat (length recs) :: concat recs)
          | Panic p (w', recs, ds, din) =>
              ret (set_drop_in (add_directs (set_world st w') ds) din) (2%N :: pcode p :: N.of_nat (length recs) :: concat recs)
          | UB => None
          end
      end
  | OBorrow prog => ret st (borrow_obs d qs w (issued st) prog)
  | OLen a =>
      match w !! a with
      | Some s => ret st [N.of_nat (len s); N.of_nat (cap s); (if len s =? 0 then 1%N else 0%N); version s;
                          N.of_nat (len s); N.of_nat (cap s)]
      | None => ret st [8%N]
      end
  | ODump a =>
      match w !! a with
      | Some s =>
          if negb (cap s <=? length (slots s)) || negb (len s <=? length (ents s)) then None
          else ret st ([version s; N.of_nat (len s); N.of_nat (cap s); enc_sidx (head s); N.of_nat (cap s)]
                       ++ concat (enc_slot <$> take (cap s) (slots s))
                       ++ N.of_nat (len s) :: concat (o_handle <$> take (len s) (ents s)))
      | None => ret st [8%N]
      end
  | OPreset a sv av =>
      match w !! a with
      | Some s => match preset_versions s sv av with
                  | Ok s' _ => ret (set_world st (upd w a s')) [1%N]
                  | Panic p _ => ret st [2%N; pcode p]
                  | UB => None
                  end
      | None => ret st [8%N]
      end
  | OEvents l =>
      if negb (events cfg) then ret st [7%N]
      else match l with
           | LArch a => match w !! a with
                        | Some s => ret st (N.of_nat (length (created s)) :: concat (o_handle <$> created s)
                                            ++ N.of_nat (length (destroyed s)) :: concat (o_handle <$> destroyed s))
                        | None => ret st [8%N]
                        end
           | LWorld => ret st (world_events_obs (created <$> w) ++ world_events_obs (destroyed <$> w))
           end
  | OClearEv l =>
      if negb (events cfg) then ret st [7%N]
      else match l with
           | LArch a => match w !! a with
                        | Some s => ret (set_world st (upd w a (clear_events s))) [1%N]
                        | None => ret st [8%N]
                        end
           | LWorld => ret (set_world st (clear_events <$> w)) [1%N]
           end
  | _ => ret st [8%N]
  end
  end
  end.

(** Run a history; after UB every observation is [255]. *)
Fixpoint run_from (cfg : config) (d : wdecl) (qs : list (list qparam)) (st : option rstate) (ops : list op)
  : list (list N) :=
  match ops with
  | [] => []
  | o :: rest =>
      match st with
      | None => [255%N] :: run_from cfg d qs None rest
      | Some s =>
          match step cfg d qs s o with
          | Some (s', obs) => obs :: run_from cfg d qs (Some s') rest
          | None => [255%N] :: run_from cfg d qs None rest
          end
      end
  end.

Definition run (cfg : config) (d : wdecl) (qs : list (list qparam)) (ops : list op) : list (list N) :=
  run_from cfg d qs (Some rs0) ops.

(** First position where the implementation's observations differ from the model's:
    (index, model observation, implementation observation). *)
Fixpoint first_diff (i : N) (m impl : list (list N)) : option (N * list N * list N) :=
  match m, impl with
  | [], [] => None
  | x :: mr, y :: ir => if decide (x = y) then first_diff (i + 1)%N mr ir else Some (i, x, y)
  | x :: _, [] => Some (i, x, [])
  | [], y :: _ => Some (i, [], y)
  end.

Definition check_case (cfg : config) (d : wdecl) (qs : list (list qparam)) (ops : list op) (impl : list (list N))
  : option (N * list N * list N) :=
  first_diff 0%N (run cfg d qs ops) impl.

(* ---------------------------------------------------------------- well-formed histories
   The hypotheses of the run-level theorems (proofs/WorldInv.v), as booleans so that the check can
   report how many of the histories it ran satisfy them. *)
Definition wf_hrefb (r : href) : bool :=
  match r with RRaw key ver => (key <? 2^32)%N && (ver <? 2^32)%N | _ => true end.
Definition wf_tyb (d : wdecl) (t : ty) : bool :=
  match t with TMut a => a <? length (wd_archs d) | _ => true end.
Definition wf_opb (d : wdecl) (o : op) : bool :=
  match o with
  | ONew caps => length caps =? length (wd_archs d)
  | ODestroy _ _ _ r | OProbe _ _ _ r | OToDirect _ _ _ r => wf_hrefb r
  | OWrite _ _ _ _ r _ _ => wf_hrefb r
  | OFind _ _ _ t r _ => wf_hrefb r && wf_tyb d t
  | OPreset _ sv av => (sv <? 2^32)%N && (av <? 2^32)%N
  | _ => true
  end.
Definition wf_declb (d : wdecl) : bool := forallb (fun a => (da_id a <? 2^8)%N) (wd_archs d).
Definition wf_case (d : wdecl) (ops : list op) : bool := wf_declb d && forallb (wf_opb d) ops.

(** The only state-dependent side condition: a preset must not lower a slot generation or the archetype version. *)
Definition hist_ok_step (st : rstate) (o : op) : bool :=
  match o with
  | OPreset a sv av =>
      match cur_world st with
      | Some w => match w !! a with Some s => forallb (fun x => (s_ver x <=? sv)%N) (slots s) && (version s <=? av)%N | None => true end
      | None => true
      end
  | _ => true
  end.

(** Run a history from a state; [None] on undefined behaviour. *)
Fixpoint run_to (cfg : config) (d : wdecl) (qs : list (list qparam)) (st : rstate) (ops : list op) : option rstate :=
  match ops with
  | [] => Some st
  | o :: rest => match step cfg d qs st o with Some (st', _) => run_to cfg d qs st' rest | None => None end
  end.

(** The side conditions of the history theorems, checked along the run. *)
Fixpoint ok_run (cfg : config) (d : wdecl) (qs : list (list qparam)) (st : rstate) (ops : list op) : bool :=
  match ops with
  | [] => true
  | o :: rest => wf_opb d o && hist_ok_step st o &&
                 match step cfg d qs st o with Some (st', _) => ok_run cfg d qs st' rest | None => false end
  end.

Definition hist_case (cfg : config) (d : wdecl) (qs : list (list qparam)) (ops : list op) : bool :=
  negb (wrapping cfg) && wf_declb d && ok_run cfg d qs rs0 ops.

Definition check_case_w (cfg : config) (d : wdecl) (qs : list (list qparam)) (ops : list op) (impl : list (list N))
  : bool * bool * option (N * list N * list N) :=
  (wf_case d ops, hist_case cfg d qs ops, check_case cfg d qs ops impl).
