(** C18 models: (a) the tokens the generators can emit, (b) auto-trait derivation over the field
    types of the runtime structures.  Both work on tables translated from the sources (gen/ExtrTokens.v). *)
From Coq Require Import String List Bool Ascii.
From Gecs Require Import ExtrTokens.
Import ListNotations.
Open Scope string_scope.

(** Tokens that would defeat `#![forbid(unsafe_code)]` or smuggle in unsafety. *)
Definition forbidden : list string :=
  ["unsafe"; "no_mangle"; "export_name"; "link_section"; "link_name"; "extern"; "asm"; "global_asm"; "naked"; "transmute"].

Definition is_forbidden (t : string) : bool := existsb (String.eqb t) forbidden.

(** Does some filling of the holes of a format_ident! pattern spell [f]?
    The pattern is split at "{}" into literal segments; [f] must start with the first, end with the
    last and contain the others in between, in order. *)
Fixpoint split_holes (fuel : nat) (p : string) (acc : string) : list string :=
  match fuel with
  | O => [acc ++ p]
  | S n =>
      match p with
      | EmptyString => [acc]
      | String "{" (String "}" r) => acc :: split_holes n r EmptyString
      | String c r => split_holes n r (acc ++ String c EmptyString)
      end
  end.

Fixpoint find_from (fuel : nat) (seg : string) (f : string) : option string :=
  (* the rest of [f] after the first occurrence of [seg] *)
  if String.prefix seg f then Some (substring (String.length seg) (String.length f - String.length seg) f)
  else match fuel, f with
       | S n, String _ r => find_from n seg r
       | _, _ => None
       end.

Fixpoint middle_ok (segs : list string) (f : string) : bool :=
  match segs with
  | [] => true
  | s :: r => match find_from (String.length f) s f with Some f' => middle_ok r f' | None => false end
  end.

Definition ends_with (suffix f : string) : bool :=
  let n := String.length f in let k := String.length suffix in
  Nat.leb k n && String.eqb (substring (n - k) k f) suffix.

Definition can_spell (p f : string) : bool :=
  match split_holes (String.length p) p EmptyString with
  | [] => false
  | [lit] => String.eqb lit f
  | first :: rest =>
      let last := List.last rest EmptyString in
      let mids := removelast rest in
      String.prefix first f && Nat.leb (String.length first + String.length last) (String.length f) &&
      ends_with last f &&
      middle_ok mids (substring (String.length first) (String.length f - String.length first - String.length last) f)
  end.

(** ---- auto traits over the type table *)
Definition lookup_struct (n : string) : option (list rty) :=
  match find (fun x => String.eqb (fst x) n) type_table with Some (_, fs) => Some fs | None => None end.

(** [comp] = whether every component type has the trait. Unknown struct names count as lacking it. *)
Fixpoint has_send (fuel : nat) (comp : bool) (t : rty) : bool :=
  match fuel with
  | O => false
  | S n =>
      match t with
      | TPrim => true
      | TComp => comp
      | TPhantomFn => true                  (* PhantomData<fn() -> A>: Send + Sync for every A *)
      | TRefCell x => has_send n comp x     (* RefCell<T>: Send iff T: Send *)
      | TDataPtr x => dataptr_send_if_t_send && has_send n comp x
      | TVec x => has_send n comp x
      | TStruct name => match lookup_struct name with Some fs => forallb (has_send n comp) fs | None => false end
      end
  end.

Fixpoint has_sync (fuel : nat) (comp : bool) (t : rty) : bool :=
  match fuel with
  | O => false
  | S n =>
      match t with
      | TPrim => true
      | TComp => comp
      | TPhantomFn => true
      | TRefCell _ => false                 (* RefCell is never Sync *)
      | TDataPtr x => dataptr_sync_if_t_sync && has_sync n comp x
      | TVec x => has_sync n comp x
      | TStruct name => match lookup_struct name with Some fs => forallb (has_sync n comp) fs | None => false end
      end
  end.
