(** Model of the runtime-borrowed API (C11): which RefCell cells each access acquires, for how long,
    and when an acquisition panics.  One cell per (archetype, column); guards are kept per frame and
    released when the frame (closure call, or the program) ends, normally or by unwinding.
    Programs are trees: a find/iter body is a list of commands run inside the closure. *)
From Coq Require Import NArith Bool.
From stdpp Require Import base list numbers option.
From Gecs Require Import Prim ExtrBits Storage Query World.
Local Open Scope nat_scope.

Inductive bcmd :=
  | BHc (a c : nat) (m : bool) (k : nat)    (* Borrow::component(_mut) of column c (pool index) for issued handle k, typed for archetype a *)
  | BHs (a c : nat) (m : bool)              (* borrow_slice(_mut)::<C> on archetype a *)
  | BRel                                    (* drop the most recent guard of this frame *)
  | BFb (q k : nat) (body : list bcmd)      (* ecs_find_borrow!(world, issued k, |query q| body) *)
  | BIb (q : nat) (body : list bcmd)        (* ecs_iter_borrow!(world, |query q| body) *)
  | BCl                                     (* world.clone() *)
  | BPn.                                    (* panic inside the current closure *)

(** A held guard: (archetype, column position, mutable). *)
Definition bguard := (nat * nat * bool)%type.

(** RefCell rule, on the multiset of guards held on the cell. *)
Definition conflicts (held : list bguard) (a col : nat) (m : bool) : bool :=
  existsb (fun '(a', c', m') => Nat.eqb a a' && Nat.eqb col c' && (m || m')) held.

Definition brec (r : list N) : list N := N.of_nat (length r) :: r.

(** Cells a query closure call acquires on archetype [a], in parameter order (entity parameters acquire nothing). *)
Definition acc_guards (a : nat) (acc : list access) : list bguard :=
  omap (fun x => match x with ACol col m _ => Some (a, col, m) | _ => None end) acc.

(** Acquire a list of guards one after the other: [None] = the first conflict panics (those already
    taken are temporaries and are released by the unwinding). *)
Fixpoint acquire_all (held : list bguard) (gs : list bguard) : option (list bguard) :=
  match gs with
  | [] => Some held
  | (a, c, m) :: r => if conflicts held a c m then None else acquire_all (held ++ [(a, c, m)]) r
  end.

(** World::clone: a shared borrow of every column of every archetype. *)
Definition clone_conflicts (held : list bguard) : bool := existsb (fun '(_, _, m) => m) held.

Definition closure_record (s : storage) (i : nat) (acc : list access) : option (list N) :=
  match call_closure s i (version s) 0%N acc with
  | Some (o, _, _) => Some (1%N :: aid s :: o)
  | None => None
  end.

(** Execution of a command list in a frame.  [outer] = guards held by enclosing frames,
    [frame] = guards of this frame.  One command yields its records, the frame afterwards and whether
    a panic is propagating; the rest of the list then runs with that frame. *)
Fixpoint bexec (fuel : nat) (d : wdecl) (qs : list (list qparam)) (w : world) (issued : list handle)
         (outer frame : list bguard) (cmds : list bcmd) : list N * bool :=
  match fuel with
  | 0 => ([], false)
  | S fuel' =>
  match cmds with
  | [] => ([], false)
  | cmd :: rest =>
      let '(recs, frame', pn) :=
        match cmd with
        | BRel => match frame with
                  | [] => (brec [0%N], frame, false)
                  | _ => (brec [1%N], removelast frame, false)
                  end
        | BPn => (brec [9%N], frame, true)
        | BCl => (brec (if clone_conflicts (outer ++ frame) then [2%N; 8%N] else [1%N]), frame, false)
        | BHs a c m =>
            match wd_archs d !! a ≫= (fun ad => index_of c (arch_comps ad)), w !! a with
            | Some col, Some s =>
                if conflicts (outer ++ frame) a col m then (brec [2%N; 8%N], frame, false)
                else (brec [1%N; N.of_nat (len s)], frame ++ [(a, col, m)], false)
            | _, _ => (brec [6%N], frame, false)
            end
        | BHc a c m k =>
            match issued !! k with
            | None => (brec [8%N], frame, false)
            | Some h =>
                match wd_archs d !! a, w !! a with
                | Some ad, Some s =>
                    match index_of c (arch_comps ad) with
                    | None => (brec [6%N], frame, false)
                    | Some col =>
                        if negb (conv_ok (fst h) (da_id ad)) then (brec [3%N], frame, false)
                        else match resolve_for (Config false false false) KEnt s h with
                             | ROk (Some i) =>
                                 if conflicts (outer ++ frame) a col m then (brec [2%N; 8%N], frame, false)
                                 else match cols s !! col ≫= (fun cl => cl !! i) with
                                      | Some v => (brec [1%N; (if is_zst d c then 0%N else v)], frame ++ [(a, col, m)], false)
                                      | None => (brec [255%N], frame, false)
                                      end
                             | _ => (brec [0%N], frame, false)
                             end
                    end
                | _, _ => (brec [6%N], frame, false)
                end
            end
        | BFb q k body =>
            (* the closure's guards live for the call only: the frame is unchanged afterwards *)
            (match issued !! k, qs !! q ≫= query_plan d with
             | Some h, Some plan =>
                 match find_arch (wd_archs d) (key_arch_id (fst h)) with
                 | None => brec [2%N; 6%N]
                 | Some a =>
                     match plan !! a, w !! a with
                     | Some (Some acc), Some s =>
                         match resolve_for (Config false false false) KEnt s h with
                         | ROk (Some i) =>
                             match acquire_all (outer ++ frame) (acc_guards a acc) with
                             | None => brec [2%N; 8%N]
                             | Some held' =>
                                 match closure_record s i acc with
                                 | None => brec [255%N]
                                 | Some r =>
                                     let '(rs, p) := bexec fuel' d qs w issued held' [] body in
                                     brec r ++ rs ++ brec (if p then [2%N; 9%N] else [1%N])
                                 end
                             end
                         | _ => brec [0%N]
                         end
                     | Some None, Some _ => brec [0%N]
                     | _, _ => brec [255%N]
                     end
                 end
             | _, _ => brec [8%N]
             end, frame, false)
        | BIb q body =>
            (match qs !! q ≫= query_plan d with
             | None => brec [8%N]
             | Some plan =>
                 (* visits: every matched archetype in order, every dense index in order *)
                 let visits := concat (imap (fun a '(o, s) => match o with Some acc => (fun i => (a, s, i, acc)) <$> seq 0 (len s) | None => [] end)
                                            (zip plan w)) in
                 let fix go (vs : list (nat * storage * nat * list access)) : list N * option N :=
                   match vs with
                   | [] => ([], None)
                   | (a, s, i, acc) :: vr =>
                       match acquire_all (outer ++ frame) (acc_guards a acc) with
                       | None => ([], Some 8%N)
                       | Some held' =>
                           match closure_record s i acc with
                           | None => ([255%N], Some 8%N)
                           | Some r =>
                               let '(rs, p) := bexec fuel' d qs w issued held' [] body in
                               if p then (brec r ++ rs, Some 9%N)
                               else let '(rs2, st) := go vr in (brec r ++ rs ++ rs2, st)
                           end
                       end
                   end in
                 let '(rs, st) := go visits in
                 rs ++ brec (match st with Some k => [2%N; k] | None => [1%N] end)
             end, frame, false)
        end in
      if pn then (recs, true)
      else let '(rs, p) := bexec fuel' d qs w issued outer frame' rest in (recs ++ rs, p)
  end
  end.

(** The harness runs the whole program in one frame; a panic reaching the top adds a final record. *)
Definition borrow_obs (d : wdecl) (qs : list (list qparam)) (w : world) (issued : list handle) (prog : list bcmd) : list N :=
  let '(rs, p) := bexec 64 d qs w issued [] [] prog in
  if p then rs ++ brec [2%N; 9%N] else rs.
